(* driver.ml - runs the extracted Coq model on a case file.
   Input line:  id TAB op TAB arg TAB arg ...   (text args: space-separated
   decimal code points / bytes, "-" for the empty string)
   Output line: id TAB observation *)
open Model
(* the extracted model defines its own [string] (Coq's), used only inside the
   model for literals; restore OCaml's for the driver *)
type string = Stdlib.String.t

(* ---- conversions between OCaml ints and the extracted numerals ---- *)
let rec pos_of_int (i : int) : positive =
  if i = 1 then XH
  else if i land 1 = 0 then XO (pos_of_int (i lsr 1))
  else XI (pos_of_int (i lsr 1))
let n_of_int (i : int) : n = if i = 0 then N0 else Npos (pos_of_int i)
let rec int_of_pos = function XH -> 1 | XO p -> 2 * int_of_pos p | XI p -> 2 * int_of_pos p + 1
let int_of_n = function N0 -> 0 | Npos p -> int_of_pos p
let rec nat_of_int i = if i = 0 then O else S (nat_of_int (i - 1))
let rec int_of_nat = function O -> 0 | S n -> 1 + int_of_nat n
(* Z printed in decimal through a string-based bignum (values may exceed 63 bits) *)
let rec pos_to_digits (p : positive) : int list =
  (* little-endian decimal digits *)
  let double_plus ds carry0 =
    let rec go ds carry = match ds with
      | [] -> if carry = 0 then [] else [carry]
      | d :: r -> let v = 2 * d + carry in (v mod 10) :: go r (v / 10) in
    go ds carry0 in
  match p with
  | XH -> [1]
  | XO q -> double_plus (pos_to_digits q) 0
  | XI q -> double_plus (pos_to_digits q) 1
let string_of_pos p = String.concat "" (List.rev_map string_of_int (pos_to_digits p))
let string_of_z = function Z0 -> "0" | Zpos p -> string_of_pos p | Zneg p -> "-" ^ string_of_pos p
let string_of_nn = function N0 -> "0" | Npos p -> string_of_pos p
(* decimal string -> Z / N, arbitrary size *)
let pos_of_decimal (s : string) : positive option =
  (* repeated division by 2 on a decimal digit array *)
  let ds = Array.init (String.length s) (fun i -> Char.code s.[i] - 48) in
  let is_zero () = Array.for_all (fun d -> d = 0) ds in
  let bits = ref [] in
  while not (is_zero ()) do
    let rem = ref 0 in
    for i = 0 to Array.length ds - 1 do
      let v = !rem * 10 + ds.(i) in ds.(i) <- v / 2; rem := v mod 2
    done;
    bits := !rem :: !bits
  done;
  (* bits: most significant first *)
  match !bits with
  | [] -> None
  | _ :: rest -> Some (List.fold_left (fun acc b -> if b = 1 then XI acc else XO acc) XH rest)
let z_of_decimal (s : string) : z =
  let neg = String.length s > 0 && s.[0] = '-' in
  let body = if neg then String.sub s 1 (String.length s - 1) else s in
  match pos_of_decimal body with None -> Z0 | Some p -> if neg then Zneg p else Zpos p

let rec unbounded_fuel : nat = S unbounded_fuel
let lit_str (s : string) : n list = List.init (String.length s) (fun i -> n_of_int (Char.code s.[i]))
let str_of_arg (a : string) : n list =
  if a = "-" then []
  else List.map (fun t -> n_of_int (int_of_string t)) (String.split_on_char ' ' a)
let arg_of_str (s : n list) : string =
  if s = [] then "-" else String.concat " " (List.map (fun c -> string_of_int (int_of_n c)) s)
let bool_obs b = if b then "T" else "F"
let op_of_arg = function
  | "GE" -> GE | "GT" -> GT | "LE" -> LE | "LT" -> LT | s -> failwith ("bad op " ^ s)
let string_of_ver (v : ver) =
  "[" ^ String.concat "," (List.map string_of_z v.comps) ^ "]nb" ^ string_of_z v.revn

(* brace tree, prefix form: tree = n item*; item = 0 c | 1 nalts tree* *)
let parse_tree (a : string) : pat =
  let toks = ref (List.map int_of_string (String.split_on_char ' ' a)) in
  let next () = match !toks with x :: r -> toks := r; x | [] -> failwith "tree: eof" in
  let rec tree () : pat =
    let n = next () in
    let rec items k = if k = 0 then PEnd else begin
      let kind = next () in
      if kind = 0 then begin let c = next () in let rest = items (k - 1) in PCh (n_of_int c, rest) end
      else begin
        let na = next () in
        let rec alts j = let t = tree () in if j = 1 then AOne t else ACons (t, alts (j - 1)) in
        let al = alts na in
        let rest = items (k - 1) in PGrp (al, rest) end
    end in
    items n in
  tree ()

(* ---- Summary ---- *)
let var_of_idx i = List.nth all_vars i
let show_value = function
  | None -> "N"
  | Some (VS x) -> "S" ^ arg_of_str x
  | Some (VI z) -> "I" ^ string_of_z z
  | Some (VA l) -> "A" ^ string_of_int (List.length l) ^ ":" ^ String.concat "," (List.map arg_of_str l)
let show_opt_s = function None -> "N" | Some x -> "S" ^ arg_of_str x
let dump_entry (e : entry) : string =
  let gs = List.map (fun v -> match get e v with Val x -> show_value x | _ -> "PANIC") all_vars in
  if List.mem "PANIC" gs then "PANIC" else
  "P=" ^ arg_of_str (print_entry e) ^ "|C=" ^ bool_obs (is_completed e) ^ "|B=" ^ show_opt_s (sum_pkgbase e)
  ^ "|V=" ^ show_opt_s (sum_pkgversion e) ^ "|G=" ^ String.concat ";" gs
let split3 (a : string) : string * string * string =
  match String.index_opt a ':' with
  | None -> failwith "op"
  | Some i ->
      let rest = String.sub a (i + 1) (String.length a - i - 1) in
      (match String.index_opt rest ':' with
       | None -> (String.sub a 0 i, rest, "")
       | Some j -> (String.sub a 0 i, String.sub rest 0 j, String.sub rest (j + 1) (String.length rest - j - 1)))
let sop_of_arg (a : string) : sop =
  let (k, v, x) = split3 a in
  let v = var_of_idx (int_of_string v) in
  match k with
  | "s" -> SetS (v, str_of_arg (if x = "" then "-" else x))
  | "i" -> SetI (v, z_of_decimal x)
  | "a" -> SetA (v, if x = "" then [] else List.map str_of_arg (String.split_on_char '|' x))
  | "p" -> Push (v, str_of_arg (if x = "" then "-" else x))
  | _ -> failwith "op kind"
let rec idx_of_var v l i = match l with [] -> -1 | x :: r -> if x = v then i else idx_of_var v r (i + 1)

(* ---- distinfo ---- *)
let rec alg_idx a l i = match l with [] -> -1 | x :: r -> if x = a then i else alg_idx a r (i + 1)
let aidx a = string_of_int (alg_idx a all_algs 0)
let show_dentry (e : dentry) =
  arg_of_str e.ename ^ "~" ^ (match e.esize with None -> "N" | Some n -> string_of_z n) ^ "~"
  ^ String.concat "," (List.map (fun (a, h) -> aidx a ^ "=" ^ arg_of_str h) e.esums)
let dump_di (d : distinfo) =
  "R=" ^ (match d.rcsid with None -> "N" | Some s -> arg_of_str s)
  ^ "|D=" ^ String.concat ";" (List.map show_dentry d.dists)
  ^ "|P=" ^ String.concat ";" (List.map show_dentry d.patches)
(* code points -> UTF-8 bytes: a checksum given to the API is a Rust String, what the model stores are its bytes *)
let utf8_encode (cps : n list) : n list =
  List.concat_map (fun c ->
    let c = int_of_n c in
    let b x = n_of_int x in
    if c < 0x80 then [b c]
    else if c < 0x800 then [b (0xC0 lor (c lsr 6)); b (0x80 lor (c land 0x3F))]
    else if c < 0x10000 then [b (0xE0 lor (c lsr 12)); b (0x80 lor ((c lsr 6) land 0x3F)); b (0x80 lor (c land 0x3F))]
    else [b (0xF0 lor (c lsr 18)); b (0x80 lor ((c lsr 12) land 0x3F)); b (0x80 lor ((c lsr 6) land 0x3F)); b (0x80 lor (c land 0x3F))]) cps
let dentry_of_arg (a : string) : dentry =
  match String.split_on_char '~' a with
  | name :: size :: rest ->
      let sums = match rest with s :: _ -> s | [] -> "" in
      let cs = if sums = "" then [] else
        List.map (fun s -> match String.index_opt s '=' with
                           | Some i -> (List.nth all_algs (int_of_string (String.sub s 0 i)),
                                        utf8_encode (str_of_arg (String.sub s (i + 1) (String.length s - i - 1))))
                           | None -> failwith "sum") (String.split_on_char ',' sums) in
      { ename = str_of_arg name; esize = (if size = "N" then None else Some (z_of_decimal size)); esums = cs }
  | _ -> failwith "entry"
let show_verr = function
  | VIo -> "E:Io" | VNotFound -> "E:NotFound" | VMissingSize -> "E:MissingSize" | VMissingChecksum -> "E:MissingChecksum"
  | VSize (e, a) -> "E:Size:" ^ string_of_z e ^ ":" ^ string_of_z a
  | VChecksum _ -> "E:Checksum"

(* ---- plist ---- *)
let opt_sb = function None -> "N" | Some x -> "S" ^ arg_of_str x
let show_pentry = function
  | PFile x -> "File:" ^ arg_of_str x | PCwd x -> "Cwd:" ^ arg_of_str x | PExec x -> "Exec:" ^ arg_of_str x
  | PUnExec x -> "UnExec:" ^ arg_of_str x | PMode o -> "Mode:" ^ opt_sb o | PPreserve -> "Preserve"
  | POwner o -> "Owner:" ^ opt_sb o | PGroup o -> "Group:" ^ opt_sb o | PComment o -> "Comment:" ^ opt_sb o
  | PIgnore -> "Ignore" | PName x -> "Name:" ^ arg_of_str x | PPkgDir x -> "PkgDir:" ^ arg_of_str x
  | PDirRm x -> "DirRm:" ^ arg_of_str x | PDisplay x -> "Display:" ^ arg_of_str x | PPkgDep x -> "PkgDep:" ^ arg_of_str x
  | PBldDep x -> "BldDep:" ^ arg_of_str x | PPkgCfl x -> "PkgCfl:" ^ arg_of_str x
let show_perr = function PEUnsupported -> "E:Unsupported" | PEArgs -> "E:Args" | PEUtf8 -> "E:Utf8"
let slist f l = String.concat ";" (List.map f l)

(* ---- pkgpath / depend / scanindex ---- *)
let show_comp = function CRoot -> "R" | CCur -> "C" | CParent -> "P" | CNormal s -> "N:" ^ arg_of_str s
let show_comps p = String.concat "," (List.map show_comp (pcomps p))
let show_pp (p : pkgpath) = show_comps p.pp_short ^ "|" ^ show_comps p.pp_full

(* ---- metadata / pkgdb ---- *)
let rec midx e l i = match l with [] -> -1 | x :: r -> if x = e then i else midx e r (i + 1)
let ovl = function None -> "N" | Some v -> "L" ^ string_of_int (List.length v) ^ ":" ^ String.concat "," (List.map arg_of_str v)
let osx = function None -> "N" | Some s -> "S" ^ arg_of_str s
let oix = function None -> "N" | Some z -> "I" ^ string_of_z z
let dump_meta (m : metadata) =
  String.concat ";" [ovl m.m_build_info; ovl m.m_build_version; "S" ^ arg_of_str m.m_comment; "S" ^ arg_of_str m.m_contents;
    osx m.m_deinstall; "S" ^ arg_of_str m.m_desc; osx m.m_display; osx m.m_install; ovl m.m_installed_info;
    ovl m.m_mtree_dirs; ovl m.m_preserve; ovl m.m_required_by; oix m.m_size_all; oix m.m_size_pkg]
let split1 (a : string) = match String.index_opt a ':' with
  | Some i -> (String.sub a 0 i, String.sub a (i + 1) (String.length a - i - 1)) | None -> (a, "")

let run (op : string) (args : string list) : string =
  match op, args with
  | "dewey.new", [p] ->
      (match dewey_new (str_of_arg p) with
       | Val _ -> "OK" | Fail _ -> "E" | Panic k -> "PANIC" ^ string_of_int (int_of_nat k) | OutOfFuel -> "FUEL")
  | "dewey.match", [p; name] ->
      (match dewey_new (str_of_arg p) with
       | Val d -> bool_obs (dewey_matches d (str_of_arg name))
       | Fail _ -> "E" | Panic k -> "PANIC" ^ string_of_int (int_of_nat k) | OutOfFuel -> "FUEL")
  | "spec.verdict", [o; a; b] -> bool_obs (verdict_spec (op_of_arg o) (str_of_arg a) (str_of_arg b))
  | "model.verdict", [o; a; b] -> bool_obs (verdict_m (op_of_arg o) (str_of_arg a) (str_of_arg b))
  | "class.letter_conflict", [a; b] -> bool_obs (letter_conflict (str_of_arg a) (str_of_arg b))
  | "model.mkv", [a] -> string_of_ver (mkv (str_of_arg a))
  | "spec.mkv", [a] -> string_of_ver (mkv_spec (str_of_arg a))
  | "pat.new", [p] ->
      (match pattern_new (str_of_arg p) with
       | Val _ -> "OK" | Fail EAlternate -> "E:Alternate" | Fail EDewey -> "E:Dewey" | Fail EGlob -> "E:Glob"
       | Panic k -> "PANIC" ^ string_of_int (int_of_nat k) | OutOfFuel -> "FUEL")
  | "pat.match", [p; name] ->
      (* the transcription of the code's work-list loop, with unbounded iterations (a cyclic nat: every S is followed
         by another one); C04_worklist_refines: whenever it answers, it answers what the recursive description pm says *)
      (match pm_w unbounded_fuel (str_of_arg p) (str_of_arg name) with
       | MErr _ -> "E" | MBool b -> bool_obs b | MPanic -> "PANIC" | MFuel -> "FUEL")
  | "pat.best", [p; a; b] ->
      let ps = str_of_arg p in
      (match pattern_new ps with
       | Val pt ->
           (* both matches through the work-list loop with unbounded iterations (C06_worklist_best_refines) *)
           (match best2_w unbounded_fuel pt (str_of_arg a) (str_of_arg b) with
            | Some WNone -> "N" | Some WFirst -> "S:" ^ a | Some WSecond -> "S:" ^ b | None -> "FUEL")
       | Fail _ -> "E" | Panic _ -> "PANIC" | OutOfFuel -> "FUEL")
  | "pkgname", [s] ->
      let pn = pkgname_new (str_of_arg s) in
      arg_of_str pn.pn_base ^ "|" ^ arg_of_str pn.pn_version ^ "|" ^
      (match pn.pn_revision with None -> "none" | Some z -> string_of_z z)
  | "spec.alt", [t; p; name] ->
      let tr = parse_tree t in
      if print tr <> str_of_arg p then "TREE-PRINT-MISMATCH"
      else bool_obs (spec_match tr (str_of_arg name))
  | "sum.ops", ops ->
      (match run empty (List.map sop_of_arg ops) with
       | Val e -> dump_entry e
       | Panic _ -> "PANIC" | Fail _ -> "E" | OutOfFuel -> "FUEL")
  | "sum.parse", [t] ->
      (match parse_entry (str_of_arg t) with
       | Val e -> "OK|" ^ dump_entry e
       | Fail ELine -> "E:Line" | Fail EVar -> "E:Var" | Fail EInt -> "E:Int"
       | Fail (EMissing v) -> "E:Missing:" ^ string_of_int (idx_of_var v all_vars 0)
       | Panic _ -> "PANIC" | OutOfFuel -> "FUEL")
  | "sum.canon", [t] -> if is_canonical (str_of_arg t) then "T" else "F"
  | "stream", chunks ->
      let rec go st cs acc =
        match cs with
        | [] -> (List.rev acc, st)
        | c :: r ->
            (match stream_write st (str_of_arg c) with
             | WOk st' -> go st' r (("ok:" ^ string_of_int (List.length st'.entries)) :: acc)
             | WErr st' -> (List.rev (("err:" ^ string_of_int (List.length st'.entries)) :: acc), st')) in
      let (w, st) = go stream_init chunks [] in
      "W=" ^ String.concat "," w ^ "|P=" ^ arg_of_str (print_stream st.entries)
  | "stream.cont", chunks ->
      let rec go st cs acc =
        match cs with
        | [] -> (List.rev acc, st)
        | c :: r ->
            (match stream_write st (str_of_arg c) with
             | WOk st' -> go st' r (("ok:" ^ string_of_int (List.length st'.entries)) :: acc)
             | WErr st' -> go st' r (("err:" ^ string_of_int (List.length st'.entries)) :: acc)) in
      let (w, st) = go stream_init chunks [] in
      "W=" ^ String.concat "," w ^ "|P=" ^ arg_of_str (print_stream st.entries)
  | "di.parse", [b] -> dump_di (di_from_bytes (str_of_arg b))
  | "di.roundtrip", [b] -> arg_of_str (di_as_bytes (di_from_bytes (str_of_arg b)))
  | "di.classify", [n] -> (match classify (str_of_arg n) with Distfile -> "D" | Patchfile -> "P")
  | "di.find", [b; p] ->
      (match find_entry (di_from_bytes (str_of_arg b)) (str_of_arg p) with
       | Some e -> "F:" ^ arg_of_str e.ename | None -> "E:NotFound")
  | "di.build", r :: ents ->
      let d0 = { rcsid = (if r = "N" then None else Some (str_of_arg r)); dists = []; patches = [] } in
      let es = List.map dentry_of_arg ents in
      let d = List.fold_left di_insert d0 es in
      let out = di_as_bytes d in
      "B=" ^ arg_of_str out ^ "#" ^ dump_di (di_from_bytes out) ^ "#E=" ^ String.concat ";" (List.map (fun e -> arg_of_str (entry_bytes e)) es)
  | "di.verify", [b; p; content; what] ->
      let d = di_from_bytes (str_of_arg b) in
      let c = if content = "N" then None else Some (str_of_arg content) in
      if what = "S" then
        (match verify_size d (str_of_arg p) c with
         | Inl (VOkSize n) -> "OK:" ^ string_of_z n
         | Inl _ -> "?"
         | Inr (VSize (e, a)) ->
             (match find_entry d (str_of_arg p) with
              | Some en -> "E:Size:" ^ string_of_z e ^ ":" ^ string_of_z a ^ ":" ^ arg_of_str en.ename | None -> "?")
         | Inr e -> show_verr e)
      else
        (match verify_checksum d (str_of_arg p) (List.nth all_algs (int_of_string what)) c with
         (* the digest itself is outside the model: report algorithm, recorded hash, pre-image, entry name *)
         | Inl (((a, h), pre), name) -> "HASH:" ^ aidx a ^ ":" ^ arg_of_str h ^ ":" ^ arg_of_str pre ^ ":" ^ arg_of_str name
         | Inr e -> show_verr e)
  | "dg.name", [s] ->
      (match alg_parse (str_of_arg s) with
       | Some a -> aidx a ^ ":" ^ arg_of_str (alg_name a) | None -> "E:Unsupported")
  | "dg.str", [a; s] -> "PRE:" ^ a ^ ":" ^ s
  | ("dg.file" | "dg.patch"), a :: evs ->
      let ev e = if e = "I" then EIntr else if e = "X" then EErr
                 else EData (str_of_arg (String.sub e 2 (String.length e - 2))) in
      let pre = (if op = "dg.file" then hash_file_pre else hash_patch_pre) (List.map ev evs) in
      (match pre with Some p -> "PREB:" ^ a ^ ":" ^ arg_of_str p | None -> "E:Io")
  | "pl.entry", [b] ->
      (match entry_of_bytes (str_of_arg b) with
       | Val e -> show_pentry e | Fail e -> show_perr e | Panic _ -> "PANIC" | OutOfFuel -> "FUEL")
  | "pl.parse", [b] ->
      (match plist_of_bytes (str_of_arg b) with
       | Val l -> "OK|" ^ slist show_pentry l | Fail e -> show_perr e | Panic _ -> "PANIC" | OutOfFuel -> "FUEL")
  | "pl.query", [b] ->
      (match plist_of_bytes (str_of_arg b) with
       | Val l ->
           "files=" ^ slist arg_of_str (files l) ^ "|prefixed=" ^ slist arg_of_str (files_prefixed l)
           ^ "|install=" ^ slist show_pentry (install_cmds l) ^ "|uninstall=" ^ slist show_pentry (uninstall_cmds l)
           ^ "|depends=" ^ slist arg_of_str (depends l) ^ "|build_depends=" ^ slist arg_of_str (build_depends l)
           ^ "|conflicts=" ^ slist arg_of_str (conflicts l) ^ "|pkgdirs=" ^ slist arg_of_str (pkgdirs l)
           ^ "|pkgrmdirs=" ^ slist arg_of_str (pkgrmdirs l) ^ "|pkgname=" ^ opt_sb (pl_pkgname l)
           ^ "|display=" ^ opt_sb (pl_display l) ^ "|preserve=" ^ bool_obs (is_preserve l)
       | Fail e -> show_perr e | Panic _ -> "PANIC" | OutOfFuel -> "FUEL")
  | "path.new", [s] ->
      (match pkgpath_new (str_of_arg s) with
       | Some p ->
           let re x = match pkgpath_new x with Some q -> pkgpath_eqb q p | None -> false in
           "OK:" ^ show_pp p ^ "|" ^ bool_obs (re p.pp_short) ^ "|" ^ bool_obs (re p.pp_full)
       | None -> "E")
  | "dep.new", [s] ->
      (match depend_new (str_of_arg s) with
       | Val d -> "OK:" ^ arg_of_str d.dep_pattern.ptext ^ "|" ^ show_pp d.dep_path ^ "|T"
       | Fail DInvalid -> "E:Invalid" | Fail DPattern -> "E:Pattern" | Fail DPkgPath -> "E:PkgPath"
       | Panic _ -> "PANIC" | OutOfFuel -> "FUEL")
  | ("scan.read" | "scan.readb"), [s; k] ->
      (* scan.readb: raw bytes; a text that is not UTF-8 makes BufRead::lines fail, which fails the read; valid UTF-8 is
         decoded here (glue) and handed to the model as code points *)
      let bytes_in = str_of_arg s in
      let decode (l : n list) : n list =
        let rec go = function
          | [] -> []
          | b0 :: r ->
              let b0 = int_of_n b0 in
              if b0 < 0x80 then n_of_int b0 :: go r
              else if b0 < 0xE0 then (match r with b1 :: r1 -> n_of_int (((b0 land 0x1F) lsl 6) lor (int_of_n b1 land 0x3F)) :: go r1 | _ -> [])
              else if b0 < 0xF0 then (match r with b1 :: b2 :: r2 -> n_of_int (((b0 land 0x0F) lsl 12) lor ((int_of_n b1 land 0x3F) lsl 6) lor (int_of_n b2 land 0x3F)) :: go r2 | _ -> [])
              else (match r with b1 :: b2 :: b3 :: r3 -> n_of_int (((b0 land 0x07) lsl 18) lor ((int_of_n b1 land 0x3F) lsl 12) lor ((int_of_n b2 land 0x3F) lsl 6) lor (int_of_n b3 land 0x3F)) :: go r3 | _ -> [])
        in go l in
      let text_in, bad = if op = "scan.readb" then (if utf8_valid bytes_in then (decode bytes_in, false) else ([], true)) else (bytes_in, false) in
      (* k: "N" (or "N:<kind>") = the reader does not fail; "<lines>" / "<lines>:<kind>" = it fails after that many lines *)
      let no_failure = (k = "N") || (String.length k > 1 && String.sub k 0 2 = "N:") in
      (match (if bad then None else scan_read text_in (not no_failure)) with
       | None -> "E"
       | Some rs ->
           "OK:" ^ String.concat "#" (List.map (fun r ->
             arg_of_str r.sr_pkgname ^ "|" ^ (match r.sr_location with None -> "N" | Some p -> show_comps p.pp_short)
             ^ "|" ^ String.concat ";" (List.map (fun d -> arg_of_str d.dep_pattern.ptext ^ ":" ^ show_comps d.dep_path.pp_short) r.sr_all_depends)
             ^ "|" ^ String.concat ";" (List.map show_opt_s r.sr_scalars)
             ^ "|" ^ String.concat ";" (List.map arg_of_str r.sr_scan_depends)
             ^ "|" ^ String.concat ";" (List.map arg_of_str r.sr_multi_version)) rs))
  | "md.table", [i] ->
      let e = List.nth all_mentries (int_of_string i) in
      let name = to_filename e in
      arg_of_str name ^ "|" ^ (match from_filename name with Some e2 -> string_of_int (midx e2 all_mentries 0) | None -> "N")
  | "md.from", [s] -> (match from_filename (str_of_arg s) with Some e -> string_of_int (midx e all_mentries 0) | None -> "N")
  | "md.ops", ops ->
      let rec go m k = function
        | [] -> "OK|valid=" ^ bool_obs (meta_is_valid m) ^ "|" ^ dump_meta m
        | a :: r ->
            let (i, t) = split1 a in
            (match read_metadata m (List.nth all_mentries (int_of_string i)) (str_of_arg (if t = "" then "-" else t)) with
             | Some m' -> go m' (k + 1) r | None -> "E:" ^ string_of_int k) in
      go meta_empty 0 ops
  | "db.iter", ents ->
      (* a file is "<name>" (the harness writes " content of <name> \n"), "<NUL><name>" (empty) or "<name>=<bytes>" *)
      let file_of t =
        let (nm, content) = match String.index_opt t '=' with
          | Some i -> (String.sub t 0 i, Some (str_of_arg (String.sub t (i + 1) (String.length t - i - 1))))
          | None -> (t, None) in
        match str_of_arg nm, content with
        | N0 :: r, _ -> (r, [])
        | n, Some c -> (n, c)
        | n, None -> (n, lit_str " content of " @ n @ lit_str " \n") in
      let files_of rest = match rest with f :: _ when f <> "" -> List.map file_of (String.split_on_char ',' f) | _ -> [] in
      let dirent_of a =
        match String.split_on_char ':' a with
        | "f" :: name :: _ -> ({ de_name = str_of_arg name; de_is_dir = false; de_files = [] }, [])
        | ("d" | "l") :: name :: rest ->   (* "l": a symbolic link to a directory - is_dir/exists follow links *)
            let fs = files_of rest in
            ({ de_name = str_of_arg name; de_is_dir = true; de_files = List.map fst fs }, fs)
        | _ -> failwith "dirent" in
      let ds = List.map dirent_of ents in
      let pkgs = db_iter (List.map fst ds) in
      (* what Package::read_metadata gives for the three mandatory entries: the model's pkg_read_file on the file's bytes *)
      let rd name fname =
        let fs = try List.assoc name (List.map (fun (d, fs) -> (d.de_name, fs)) ds) with Not_found -> [] in
        match (try Some (List.assoc (lit_str fname) fs) with Not_found -> None) with
        | None -> "<unreadable>"
        | Some c -> (match pkg_read_file c with Some t -> arg_of_str t | None -> "<unreadable>") in
      let items = List.map (function
        | Some p -> String.concat "|" [arg_of_str p.pk_name; arg_of_str p.pk_base; arg_of_str p.pk_version; rd p.pk_name "+COMMENT"; rd p.pk_name "+CONTENTS"; rd p.pk_name "+DESC"]
        | None -> "ERR") pkgs in
      "OK:" ^ String.concat "#" (List.sort compare items)
  | "db.other", [k] ->
      (match db_open_iter (if k = "file" then DbFile else DbNothing) with
       | Some l -> "OK:" ^ String.concat "#" (List.map (fun _ -> "ITEM") l)
       | None -> "E:open")
  | _ -> "UNKNOWN-OP"

let () =
  let ic = if Array.length Sys.argv > 1 then open_in Sys.argv.(1) else stdin in
  let out = Buffer.create 65536 in
  (try
     while true do
       let line = input_line ic in
       if line <> "" then begin
         match String.split_on_char '\t' line with
         | id :: op :: args ->
             let args = List.filter (fun a -> a <> "") args in
             let obs = try run op args with e -> "DRIVER-EXN:" ^ Printexc.to_string e in
             Buffer.add_string out id; Buffer.add_char out '\t';
             Buffer.add_string out obs; Buffer.add_char out '\n'
         | _ -> ()
       end
     done
   with End_of_file -> ());
  print_string (Buffer.contents out)
