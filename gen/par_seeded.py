#!/usr/bin/env python3
"""Development tool (not used by any registered command): runs every kept seeded change against the quick check of
the property it breaks, for several seeds, on several workers at once.

usage: gen/par_seeded.py [--seeds 2,3] [--workers 6] [PID-prefix ...]

Each worker owns a scratch git worktree of /repo (/tmp/rw_<w>) and a scratch copy of /verif (/tmp/vw_<w>, harness
pointed at that worktree), so /repo itself is never touched; both are removed at the end.  The point of several
seeds: a seeded change must be caught whatever the seed, not by the luck of one random stream."""
import json, os, queue, shutil, subprocess, sys, threading

ROOT = "/verif"
seeds, workers, sel = [2, 3], 6, []
a = sys.argv[1:]
while a:
    x = a.pop(0)
    if x == "--seeds":
        seeds = [int(s) for s in a.pop(0).split(",")]
    elif x == "--workers":
        workers = int(a.pop(0))
    else:
        sel.append(x)

tasks = queue.Queue()
for d in sorted(os.listdir(os.path.join(ROOT, "seeded"))):
    if sel and not any(d.startswith(s) for s in sel):
        continue
    for s in seeds:
        tasks.put((d, s))
rows, lock = [], threading.Lock()


def sh(cmd, **kw):
    return subprocess.run(cmd, stdout=subprocess.PIPE, stderr=subprocess.STDOUT, text=True, **kw)


def worker(w):
    rw, vw = "/tmp/rw_%d" % w, "/tmp/vw_%d" % w
    shutil.rmtree(vw, ignore_errors=True)
    sh(["git", "-C", "/repo", "worktree", "remove", "--force", rw])
    r = sh(["git", "-C", "/repo", "worktree", "add", "--detach", rw, "HEAD"])
    if r.returncode != 0:
        print("worker %d: cannot create worktree: %s" % (w, r.stdout)); return
    sh(["rsync", "-a", "--exclude", ".work", "--exclude", ".git", "--exclude", "fuzz", "--exclude", "seeded", "--exclude", "harmless",
        ROOT + "/", vw + "/"])
    os.makedirs(os.path.join(vw, ".work"), exist_ok=True)
    ct = os.path.join(vw, "harness", "Cargo.toml")
    open(ct, "w").write(open(ct).read().replace('path = "/repo"', 'path = "%s"' % rw))
    try:
        while True:
            try:
                d, s = tasks.get_nowait()
            except queue.Empty:
                break
            sd = os.path.join(ROOT, "seeded", d)
            pid = json.load(open(os.path.join(sd, "meta.json")))["breaks_property"]
            if sh(["git", "-C", rw, "apply", os.path.join(sd, "patch.diff")]).returncode != 0:
                res = "patch-does-not-apply"
            else:
                p = sh(["./check", pid, "--no-proof"], cwd=vw, env=dict(os.environ, VERIF_SEED=str(s), VERIF_TIER="quick"))
                v = [l for l in p.stdout.split("\n") if l.startswith("VIOLATION")]
                res = "DETECTED" if p.returncode == 1 and v else "MISSED exit=%d" % p.returncode
                sh(["git", "-C", rw, "checkout", "--", "."])
            with lock:
                rows.append((d, s, res))
                print("%-8s seed=%d %s" % (d, s, res), flush=True)
    finally:
        sh(["git", "-C", "/repo", "worktree", "remove", "--force", rw])
        shutil.rmtree(vw, ignore_errors=True)
        shutil.rmtree(rw, ignore_errors=True)


ts = [threading.Thread(target=worker, args=(w,)) for w in range(workers)]
for t in ts:
    t.start()
for t in ts:
    t.join()
sh(["git", "-C", "/repo", "worktree", "prune"])
bad = [r for r in rows if r[2] != "DETECTED"]
print("runs=%d detected=%d not-detected=%d" % (len(rows), len(rows) - len(bad), len(bad)))
for r in sorted(bad):
    print("NOT-DETECTED %-8s seed=%d %s" % r)
