#!/bin/bash
# usage: gen/process_round.sh <k> <PID>...   -- confirms each sub-agent change in its scratch worktree (in parallel),
# then applies each confirmed one to /repo, runs the property's quick check (no proof layer), and undoes it.
K=$1; shift
printf '%s\n' "$@" | xargs -P 6 -I{} sh -c "/verif/gen/confirm_seed.sh {} $K > /tmp/confirm_{}.log 2>&1"
for P in "$@"; do
  C=$(cat /tmp/confirm_$P.log)
  case "$C" in
    *"suite_with_patch_exit=0 demo_with_patch_exit=101 demo_without_patch_exit=0"*) ;;
    *) echo "$P-$K NOT-CONFIRMED: $C"; continue ;;
  esac
  R=$(/verif/gen/tryseed.sh $P /tmp/mut_${P}_out/patch$K.diff --no-proof 2>&1 | grep -v KNOWN | grep -E '^(exit=|VIOLATION)' | head -2 | tr '\n' ' ')
  echo "$P-$K confirmed; $R"
done
