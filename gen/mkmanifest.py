#!/usr/bin/env python3
"""Regenerates /verif/MANIFEST.json from the table below (kept valid at all times)."""
import json
import os

ROOT = os.path.dirname(os.path.dirname(os.path.abspath(__file__)))
ALL = ["C%02d" % i for i in range(1, 21)]

TB = ("Trusted: Coq 8.16.1 kernel + VM, extraction (ExtrOcamlBasic only), OCaml driver, Rust harness, Python differ. "
      "The model is hand-written; its tie to /repo is the behavioural correspondence run on every check (sampling + finite enumerations), not a proof about the Rust source.")

CLAIMS = {
    "C01": dict(
        text="Proved in Coq for ALL component lists and operators: the code-shaped three-branch dewey_cmp equals zero-padded position-by-position comparison followed by the revision (C01_cmp_is_padded_lex, C01_lexpad_is_decl); for all strings with digit runs <= 18 the code's tokeniser equals the table-driven reading of the property (C01_tokens_follow_table), and its verdicts equal the property's own reading (alphabet rank) outside the class letter_conflict (C01_verdict_outside_known); inside that class the faithful model provably differs (C01_letter_weight_refuted) - known finding KF-C01-rank. best_match is proved to use the same comparison. Every run compares Dewey/Pattern/best_match of the real crate with the extracted model and with the executable spec on generated pairs (ties and near-ties dominate). C01_tokens_follow_table_all extends the table reading to EVERY string (runs of more than 18 digits saturate at i64::MAX, an oversized nb revision counts as 0).",
        ref="§7 C01, §8 D1/D2", note=TB + " Known finding KF-C01-rank is suppressed only when the pair lies in the Coq-defined class AND the implementation still equals the faithful model.",
        technique="Coq proof (model = table spec, padded-lex theorem) + executable-spec differential correspondence"),
    "C02": dict(
        text="Coq theorems: Dewey::new on base++op++bound (one or two bounds, empty bounds, adjacent operators) yields exactly base, operators and tokenised bounds, rejects wrong operator order, no operator and > 2 operators, and never panics (all slices proved in range for EVERY string); matches_iff characterises a match as 'text before the LAST - equals base and every bound holds'; no '-' never matches; for brace-free patterns Pattern and Dewey agree (through the proved inertness of the fast reject). Correspondence: pattern/name grids through both entry points each run; Dewey-vs-Pattern agreement is also checked on the implementation's own outputs.",
        ref="§7 C02", note=TB, technique="Coq proof + model/implementation differential correspondence"),
    "C03": dict(
        text="Coq theorems (closed under the global context) prove trichotomy, the two dualities, reflexivity, argument-swap and transitivity for the model of dewey_cmp over ALL component lists and revisions (hence all strings, whatever the tokeniser does), that a two-bound match is the conjunction of its halves, and that the API verdict of 'base OP B' on 'base-A' is that comparison. The model is tied to the crate on every run by comparing Dewey::new(..).matches(..) with the extracted model on generated triples (all 4 operators, both placements) and the laws are re-evaluated on the implementation's own verdicts.",
        ref="§7 C03", note=TB + " Versions containing '-', '<', '>' or a leading '=' change the pattern/name structure and are outside the property.",
        technique="Coq proof (induction on padded component lists) + model/implementation differential correspondence + law oracle on implementation outputs"),
    "C04": dict(
        text="Coq theorems for ALL strings, depths and group counts: a pattern with a brace compiles iff its braces balance; a string balances iff it is the print of a well-formed pattern tree; and for every accepted string Pattern::new+matches equals existsb over the csh expansion of that tree of 'matches as a pattern in its own right' (sound AND complete: C04_sound_complete, C04_api), with the recursion fuel (= number of '{') proved sufficient. Proof route: string-level rewriting of the right-most group = tree-level step that preserves the expansion set. Correspondence each run: generated trees printed to strings, implementation vs model vs the executable spec, with cross-pairing names aimed at the old every-'{' loop.",
        ref="§7 C04, §8 D4", note=TB, technique="Coq proof (mutual induction on pattern trees, refinement string-step = tree-step) + executable-spec differential correspondence"),
    "C05": dict(
        text="Coq theorems: the glob crate's matcher model (three-valued result, Entire short-cut, star loop) decides exactly the declarative whole-string glob relation for every token list without '**' and every name; C05_glob_string / C05_glob_pattern_meaning lift this to the pattern STRING: a string without '**' compiles iff every '[' opens a closed non-empty bracket expression (else the error is reported), and Pattern::new+matches then answers exactly the inductive shell-glob relation sglob on the string ('*' any run, '?' one character, [set]/[!set] with a-b ranges, ']' first literal), fast reject included; dispatch theorems (glob / plain) for all brace-free operator-free patterns; the first-two-characters fast reject is proved inert for plain, dewey, glob AND alternate patterns for all names (incl. length 0 and 1). Correspondence each run: token-grammar globs (sets, negated sets, ranges, ']' first, lone ']', '**', '***', unclosed '['), names sampled from the pattern, edits at index 0/1, short names.",
        ref="§7 C05", note=TB + " glob 0.3.1 Pattern::new/matches (default options) is modelled in Pattern.v and tied by correspondence only.",
        technique="Coq proof (joint induction complete/Entire) + model/implementation differential correspondence"),
    "C06": dict(
        text="Coq theorems: best_match's answer is None iff neither matches, else a matching argument such that no matching candidate is strictly better under (higher dewey version, then byte-wise smaller name); argument order is irrelevant; the both-match choice is the minimum of a total order (antisymmetry, transitivity proved from C03), so pairwise reduction over ANY tree is invariant under every permutation and association of the candidates (C06_reduce_any_tree) and returns a best matching candidate (C06_reduction_winner). Correspondence each run: every ordered pair of candidate lists through best_match vs the model; permutations / folds recomputed from the implementation's own pairwise answers.",
        ref="§7 C06", note=TB, technique="Coq proof (total order + associativity/commutativity, Permutation) + differential correspondence + law oracle"),
    "C07": dict(
        text="Coq theorems over ALL entries (functions from the 23 variables to values): for every complete, well-kinded entry whose values have no CR/LF (sizes any i64, line lists non-empty) parse(print e) succeeds and returns the same value for each of the 23 variables, and printing that result reproduces the text byte for byte; the printed form is a function of the current values only, so any two call histories with equal final values print identically; every API call sequence preserves well-kindedness (no setter/pusher/getter panics); the 23 names are a bijection; 'canonical text' is also stated on the text alone (executable predicate is_canonical) and is proved to decide EXACTLY the texts that parse and print back byte for byte (C07_canonical_text_iff, both directions, arbitrary texts), every generated text being of that form (op sum.canon compares the predicate with the implementation's own parse-and-print verdict on printed texts and 21 one-edit neighbours of each). The HashMap of the implementation is abstracted as a function - what the abstraction hides (iteration order, RandomState) is exercised each run by building every entry through two different call histories and comparing print + all getters + re-parse with the model.",
        ref="§7 C07", note=TB + " str::lines, splitn(2,'='), i64 FromStr/Display are modelled (Dec.v proves the i64 print/parse round trip).",
        technique="Coq proof (fold invariant over lines; i64 decimal round trip) + model/implementation differential correspondence + history oracle"),
    "C08": dict(
        text="Coq theorems for ALL texts: parsing succeeds iff every line is VAR=value with VAR one of the 23 names, integer sizes, and the eleven required variables present (C08_accept_iff); otherwise the error is the cause of the FIRST offending line (no '=' / unknown variable / bad integer) or else the first missing required variable in the fixed order; an accepted text means: value = everything after the first '=', list variables accumulate in input order, a repeated single-valued variable keeps its last value (C08_semantics via the declarative `collect`); is_completed iff the eleven are set. Correspondence each run: shuffled/repeated canonical entries with one (or two) injected faults, CRLF, unterminated last line.",
        ref="§7 C08", note=TB, technique="Coq proof (snoc-induction over lines with a collect invariant) + model/implementation differential correspondence"),
    "C09": dict(
        text="Coq theorems for ALL lists of entries and ALL partitions into chunks (no bound on sizes or number of cuts): on a well-formed UTF-8 stream every write succeeds, the collected entries equal the stream's entries in order, the carry-over buffer ends empty, the result equals the one-call result and printing the collection reproduces the stream (C09_chunk_independent, C09_same_as_whole); with a malformed UTF-8 entry after any number of good ones, all earlier writes succeed, exactly the write receiving the last byte of that entry fails, and the collected entries are exactly the good ones (C09_malformed). Generic in parser/validity, then instantiated with the proved pkg_summary parser and a UTF-8 validity DFA (closure under concatenation and newline-prefixes proved). Correspondence each run: every single cut, fixed sizes 1-9, random partitions (thorough: cut pairs) of generated streams with 2/3/4-byte characters, good and malformed; chunked vs whole vs stream vs model.",
        ref="§7 C09, §8 D5", note=TB + " std::str::from_utf8 is modelled by utf8_valid (Summary.v); Vec/windows/rposition/split_terminator by list functions.",
        technique="Coq proof (prefix decomposition of well-formed streams, induction over chunk lists) + model/implementation differential correspondence + chunking oracle"),
    "C10": dict(
        text="Coq theorems for ALL printable Distinfos (any number of files, any subset/order of algorithms, names over ANY non-blank bytes incl. invalid UTF-8, sizes to u64::MAX, RCS Id lines of any bytes): parsing what as_bytes prints returns exactly the same structure (C10_api_roundtrip) and hence every canonical file is reproduced byte for byte (C10_canonical_roundtrip). Proof: each printed line is shown to parse to its own record (field splitter lemmas), then a fold over blocks. Correspondence each run: generated canonical files through from_bytes->as_bytes and API-built Distinfos through as_bytes->from_bytes, vs the model and vs the input.",
        ref="§7 C10, §8 D6/D7", note=TB + " Unix Path components/equality are modelled in Distinfo.v.",
        technique="Coq proof (line recognition + fold over entry blocks) + model/implementation differential correspondence + round-trip oracle"),
    "C11": dict(
        text="Coq theorems for ALL byte strings: well-formed checksum/size lines with arbitrary blanks are recognised for names over ANY non-blank bytes; comments, blank lines, unknown algorithms and bad sizes are ignored; and C11_meaning: after parsing ANY text the two maps hold exactly the files named by the recognised lines, in first-appearance order, each with its checksums in line order and its last size, patch files apart by the file-name rule, and nothing else (invariant Inv proved by induction over the lines with path equality as an equivalence). Correspondence each run: interleaved lines for several files mixed with the five kinds of ignorable lines and random garbage, names over arbitrary bytes, plus the classifier table.",
        ref="§7 C11", note=TB, technique="Coq proof (snoc-induction with per-file invariant) + model/implementation differential correspondence"),
    "C12": dict(
        text="PARTIAL (the file system is not modelled). Coq theorems: size verification succeeds iff the length equals the recorded size, else Size(expected, actual) / MissingSize / NotFound; checksum verification hashes the file for distfiles and the file minus its '$NetBSD' lines for patches against the first recorded hash of that algorithm, else MissingChecksum / NotFound; find_entry = first recorded path among the trailing sub-paths, shortest first, in the map of the path's class; for ordinary dir/.../file paths the components are the segments. Correspondence each run: real files written in a private directory - exact content, single-byte corruptions, length changes, corrupted records, missing files, deeper and unrelated lookup paths - with Python hashlib as the digest reference.",
        ref="§7 C12", note=TB + " File::open/metadata and the RustCrypto digests are outside the model; hashlib is the reference.",
        technique="Coq proof (specification lemmas for lookup/verification) + fault-enumerating differential correspondence on real files"),
    "C13": dict(
        text="PARTIAL (third-party hash code). Coq theorems about WHICH bytes are hashed: for every read schedule the pre-image is the concatenation of the data read before end of file, independent of how reads are split or interrupted; a hard error before EOF is returned and nothing is hashed; the patch pre-image is the newline-terminated lines not containing '$NetBSD', a final unterminated line counting as terminated; names parse case-insensitively (incl. the U+212A corner) and print canonically. That the six RustCrypto crates compute the standard functions is NOT proved: each run compares hash_str/hash_file/hash_patch with Python hashlib on lengths around every block boundary, multi-KiB inputs and scripted readers (1-byte reads, random short reads, cuts inside '$NetBSD' and at newlines, Interrupted/hard errors at every position). hash_patch is modelled line by line as BufReader::split reads (patch_lines): C13_patch_schedule proves that for every schedule without 0-byte reads it hashes the filter of all bytes read; C13_zero_read_* state what a 0-byte read does (ends the line, not the stream).",
        ref="§7 C13", note=TB + " Reference digests: Python hashlib (OpenSSL).",
        technique="Coq proof (read-loop model) + differential testing against reference digests"),
    "C14": dict(
        text="Coq theorems for ALL byte strings: the line scanner returns exactly the lines containing a non-blank byte, in order (C14_scanner, by a fold invariant on the scanner state), so Plist::from_bytes = per-line parsing of exactly those lines, with or without a final newline, for every line length >= 1; a line not starting with '@' is a File entry holding the whole line; each of the 18 command words maps to its entry kind with its required/optional/forbidden argument rule, the argument being the text after the first space stripped of leading blanks only (C14_entry_table); unknown '@' words are errors. Correspondence each run (the entry list is read through a cfg-guarded hook): generated lists with names of length 1/2/n over arbitrary bytes, every command with absent/empty/ASCII/UTF-8/non-UTF-8 arguments, blank-only lines, with/without final newline; the whole-list parse is also compared with the per-line parses on the implementation.",
        ref="§7 C14, §8 D8/D9", note=TB + " Uses the hook Plist::verif_entries() (cfg pkgsrc_verif) to observe all entries.",
        technique="Coq proof (scanner fold invariant, command table) + model/implementation differential correspondence + per-line oracle"),
    "C15": dict(
        text="Coq theorems over ALL entry sequences, read block by block (a run of non-file entries then a file): files() lists a file unless an @ignore lies between it and the preceding file or the start; files_prefixed() lists the same files prefixed with the most recent @cwd (empty if none) plus '/' unless it ends in one; install/uninstall lists contain exactly those files plus exactly the listed command kinds in original order (C15_cmds_block, C15_views_same_files, C15_only_listed_kinds); is_preserve iff an @option preserve entry exists; the kind filters are definitional. Correspondence each run: valid lists with consecutive/trailing/separated @ignore and @cwd changes, all twelve queries vs the model, plus same-files cross-checks on the implementation's own answers.",
        ref="§7 C15", note=TB, technique="Coq proof (induction over entry blocks) + model/implementation differential correspondence + cross-query oracle"),
    "C16": dict(
        text="Coq theorems for ALL inputs: the read loop (trim, skip blank lines, flush at each 'PKGNAME=' line, final flush) equals all_some(map record_of (blocks (clean lines))) where blocks is a declarative grouping - one block per 'PKGNAME=' line reaching to the next - so record i is a function of block i only, the number of records is the number of blocks, and the read fails as a whole if any block fails or the reader reports an I/O error (C16_segmentation, C16_no_leak, C16_count, C16_io_error); scalar fields are the trimmed value of the last line for their key, absent keys None (C16_last_wins, C16_absent). Correspondence each run: record soups over the 15 keys with repeats, unknown keys, values with '=', Unicode blanks, CRLF, single faults, and a reader failing after k lines for every k.",
        ref="§7 C16", note=TB + " serde's StrDeserializer plumbing and HashMap are abstracted (lookups by key); BufRead::lines modelled by `lines`.",
        technique="Coq proof (loop = declarative block grouping, all-or-nothing) + model/implementation differential correspondence"),
    "C17": dict(
        text="PARTIAL (stack depth, memory, wall-clock are runtime effects). Every unwrap/expect/index/slice of the anchored code is a Panic branch of the model under the same guard and every data-dependent loop runs on fuel; Coq theorems show for EVERY input a value or a reported error - never Panic, never OutOfFuel - for the version tokeniser, Dewey::new, glob compile, Pattern::new, compile+match (recursive description, depth = number of '{', and the code's work-list loop, proved to refine it), best_match, Depend::new, pkg_summary parsing, all Summary call sequences and getters, PLIST entry and list parsing; the remaining models (distinfo, digest names, scanindex, metadata, pkgdb listing) are total functions with no Panic branch. Tied to the crate each run by running every operation of every other property plus mutation fuzz (truncate, duplicate, splice, 19-40 digit numbers, NUL, non-UTF-8, 64 KiB lines, deep nesting) under catch_unwind and a process watchdog: PANIC/ABORT/HANG or any difference from the model is a violation.",
        ref="§7 C17, §8 D3/D10/D11/D12", note=TB + " The stack overflow on >= ~10^4 brace groups (D12) was repaired in /repo (e20d24a); known finding KF-C17-globdepth (>= ~75000 '*' abort inside the glob crate's recursive matcher) is listed in known_findings.json.",
        technique="Coq proof (totality of the models with explicit panic branches and fuel) + fuzzing differential correspondence under catch_unwind/watchdog"),
    "C19": dict(
        text="Coq theorems for ALL strings: PkgPath::new succeeds iff the path components (repeated/trailing slashes and non-leading '.' ignored) are [name,name] or ['..','..',name,name]; the short path then has components [a,b] and the full path ['..','..',a,b]; both spellings give equal values; re-parsing either accessor's output gives an equal value (uses the proved fact that '../../'+p adds two ParentDir components and that Normal components are ordinary names); Depend::new succeeds iff the argument splits at ':' into exactly two parts with valid pattern and path, exposing exactly those parts. Correspondence each run: EXHAUSTIVE over all '/'-joined sequences of <= 5 (thorough 6) segments from {'..','.','a','b',''} with/without leading '/', plus pattern x path x colon-count grids.",
        ref="§7 C19", note=TB + " Path::components / PathBuf::push are modelled (Distinfo.v, PkgPathM.v).",
        technique="Coq proof (path component lemmas) + exhaustive small-scope model/implementation correspondence"),
    "C20": dict(
        text="PARTIAL (directory enumeration order and file I/O are not modelled). Coq theorems over ALL directory listings: the iterator yields exactly the entries that are directories containing +COMMENT, +CONTENTS and +DESC, each once, independent of listing order (Permutation), with pkgname = directory name and base/version = the parts before/after its last '-' exactly as PkgName splits it; the 14 metadata names are a bijection; is_valid iff comment, contents and description are non-empty; a non-numeric +SIZE_* is an error, not a panic. Correspondence each run: real trees in a private temp dir (names with 1-3 '-', nb, no '-', non-ASCII and non-UTF-8 names, every subset of the mandatory files missing, stray files, empty db), results compared sorted; the metadata table and read_metadata call sequences.",
        ref="§7 C20, §8 D10/D11", note=TB + " fs::read_dir / exists / read_to_string are exercised on real trees, not modelled.",
        technique="Coq proof (filter/map specification, Permutation invariance) + model/implementation differential correspondence on real directory trees"),
    "C18": dict(
        text="Coq theorems for all strings: with a '-' base ++ '-' ++ version rebuilds the name and the version has no '-'; without, the whole string is the base; for EVERY prefix p a version p++'nb'++digits has PkgName revision nbval(digits) and the version comparison's revision is the same number (no token of the tokeniser can straddle the final nb); no 'nb' -> None. Correspondence each run: PkgName::new vs model on structured names, plus probes of the matcher's revision through 'base>=VERnbK' patterns.",
        ref="§7 C18", note=TB + " The pkg_summary pkgbase()/pkgversion() agreement is C18_summary_agrees (SummaryPkg.v).",
        technique="Coq proof (strong induction over token boundaries) + model/implementation differential correspondence"),
}

PENDING = {}


def main():
    checks = []
    for pid in ALL:
        if pid not in CLAIMS:
            continue
        c = CLAIMS[pid]
        checks.append({
            "property_id": pid,
            "quick_cmd": "./check %s --tier quick" % pid,
            "thorough_cmd": "./check %s --tier thorough" % pid,
            "evidence_file": "/verif/evidence/%s.json" % pid,
            "replay_cmd_template": "./check %s --replay {path}" % pid,
            "engine": "coq-model-correspondence",
            "level_claimed": {"category": "proof", "text": c["text"], "design_ref": c["ref"]},
            "level_note": c["note"],
            "technique": c["technique"] + "; boundary variants of the generated cases (length and character boundaries) in both tiers, coverage-guided input exploration (libFuzzer) judged by the same model oracle in the thorough tier",
        })
    na = [{"property_id": p, "reason": PENDING.get(p, "check not built yet in this round (planned, see DESIGN.md §7); not claimed until its theorems and correspondence run")}
          for p in ALL if p not in CLAIMS]
    m = {
        "version": 1,
        "setup_cmd": "./check --setup",
        "hooks": {
            "guard": "pkgsrc_verif",
            "enable": "RUSTFLAGS='--cfg pkgsrc_verif' cargo build --offline (set by ./check when it builds /verif/harness against /repo); one hook: Plist::verif_entries() (commit e6ce60e) exposes the parsed PLIST entries; everything else observed is public API",
            "baseline_off_cmd": "cd /repo && cargo test --workspace --no-fail-fast --offline",
            "source_commits": ["e6ce60e"],
            "add_only": True,
        },
        "engines": [{
            "name": "coq-model-correspondence", "path": "/verif/check",
            "serves_properties": [c["property_id"] for c in checks],
            "kind_free_text": "Coq 8.16.1 theorems about a hand-written Gallina model (coq/), extracted to OCaml and compared with the real crate through a Rust harness on generated/enumerated cases",
        }],
        "checks": checks,
        "not_applicable": na,
        "notes": "Technique family: machine-checked proof in Coq. See DESIGN.md; known_findings.json lists fixed and known defects.",
    }
    json.dump(m, open(os.path.join(ROOT, "MANIFEST.json"), "w"), indent=1)
    print("claimed:", [c["property_id"] for c in checks])


if __name__ == "__main__":
    main()
