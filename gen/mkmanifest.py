#!/usr/bin/env python3
"""Regenerates /verif/MANIFEST.json from the table below (kept valid at all times)."""
import json
import os

ROOT = os.path.dirname(os.path.dirname(os.path.abspath(__file__)))
ALL = ["C%02d" % i for i in range(1, 21)]

TB = ("Trusted: Coq 8.16.1 kernel + VM, extraction (ExtrOcamlBasic only), OCaml driver, Rust harness, Python differ. "
      "The model is hand-written; its tie to /repo is the behavioural correspondence run on every check (sampling + finite enumerations), not a proof about the Rust source.")

CLAIMS = {
    "C03": dict(
        text="Coq theorems (closed under the global context) prove trichotomy, the two dualities, reflexivity, argument-swap and transitivity for the model of dewey_cmp over ALL component lists and revisions (hence all strings, whatever the tokeniser does), that a two-bound match is the conjunction of its halves, and that the API verdict of 'base OP B' on 'base-A' is that comparison. The model is tied to the crate on every run by comparing Dewey::new(..).matches(..) with the extracted model on generated triples (all 4 operators, both placements) and the laws are re-evaluated on the implementation's own verdicts.",
        ref="§7 C03", note=TB + " Versions containing '-', '<', '>' or a leading '=' change the pattern/name structure and are outside the property.",
        technique="Coq proof (induction on padded component lists) + model/implementation differential correspondence + law oracle on implementation outputs"),
}

PENDING = {}


def main():
    checks = []
    for pid in ALL:
        if pid not in CLAIMS:
            continue
        c = CLAIMS[pid]
        checks.append({
            "property_id": pid,
            "quick_cmd": "./check %s --tier quick" % pid,
            "thorough_cmd": "./check %s --tier thorough" % pid,
            "evidence_file": "/verif/evidence/%s.json" % pid,
            "replay_cmd_template": "./check %s --replay {path}" % pid,
            "engine": "coq-model-correspondence",
            "level_claimed": {"category": "proof", "text": c["text"], "design_ref": c["ref"]},
            "level_note": c["note"],
            "technique": c["technique"],
        })
    na = [{"property_id": p, "reason": PENDING.get(p, "check not built yet in this round (planned, see DESIGN.md §7); not claimed until its theorems and correspondence run")}
          for p in ALL if p not in CLAIMS]
    m = {
        "version": 1,
        "setup_cmd": "./check --setup",
        "hooks": {
            "guard": "pkgsrc_verif",
            "enable": "RUSTFLAGS='--cfg pkgsrc_verif' cargo build --offline (set by ./check when it builds /verif/harness against /repo); no hook is currently needed: every observed operation is public API",
            "baseline_off_cmd": "cd /repo && cargo test --workspace --no-fail-fast --offline",
            "source_commits": [],
            "add_only": True,
        },
        "engines": [{
            "name": "coq-model-correspondence", "path": "/verif/check",
            "serves_properties": [c["property_id"] for c in checks],
            "kind_free_text": "Coq 8.16.1 theorems about a hand-written Gallina model (coq/), extracted to OCaml and compared with the real crate through a Rust harness on generated/enumerated cases",
        }],
        "checks": checks,
        "not_applicable": na,
        "notes": "Technique family: machine-checked proof in Coq. See DESIGN.md; known_findings.json lists fixed and known defects.",
    }
    json.dump(m, open(os.path.join(ROOT, "MANIFEST.json"), "w"), indent=1)
    print("claimed:", [c["property_id"] for c in checks])


if __name__ == "__main__":
    main()
