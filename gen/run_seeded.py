#!/usr/bin/env python3
"""Runs every kept seeded change against the check of the property it breaks.
usage: gen/run_seeded.py [PID-prefix ...]   (applies to /repo, checks, reverts; /repo must be clean)"""
import json, os, subprocess, sys
ROOT = "/verif"
sel = sys.argv[1:]
rows = []
st = subprocess.run(["git", "-C", "/repo", "status", "--porcelain", "--untracked-files=no"], capture_output=True, text=True).stdout
if st.strip():
    print("/repo has local changes; refusing"); sys.exit(2)
import shutil, tempfile
# evidence files describe the unchanged tree: set them aside while mutated trees are checked
EVB = tempfile.mkdtemp(prefix="evidence_backup_", dir=os.path.join(ROOT, ".work"))
shutil.copytree(os.path.join(ROOT, "evidence"), os.path.join(EVB, "evidence"))
for d in sorted(os.listdir(os.path.join(ROOT, "seeded"))):
    if sel and not any(d.startswith(s) for s in sel):
        continue
    sd = os.path.join(ROOT, "seeded", d)
    meta = json.load(open(os.path.join(sd, "meta.json")))
    pid = meta["breaks_property"]
    if subprocess.run(["git", "-C", "/repo", "apply", os.path.join(sd, "patch.diff")]).returncode != 0:
        rows.append((d, pid, "patch-does-not-apply")); continue
    try:
        p = subprocess.run(["./check", pid], cwd=ROOT, capture_output=True, text=True)
        v = [l for l in p.stdout.split("\n") if l.startswith("VIOLATION")]
        rows.append((d, pid, "DETECTED exit=%d (%d VIOLATION lines%s)" % (p.returncode, len(v), ", some with concrete input" if any("no-failing" not in l for l in v) else "") if p.returncode == 1 and v else "MISSED exit=%d" % p.returncode))
    finally:
        subprocess.run(["git", "-C", "/repo", "checkout", "--", "."])
shutil.rmtree(os.path.join(ROOT, "evidence")); shutil.move(os.path.join(EVB, "evidence"), os.path.join(ROOT, "evidence")); shutil.rmtree(EVB, ignore_errors=True)
for r in rows:
    print("%-8s %-4s %s" % r)
