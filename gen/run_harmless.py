#!/usr/bin/env python3
"""Runs the checks against behaviour-preserving rewrites of /repo (kept under /verif/harmless/<group>-<k>/): every check
must stay quiet.  usage: gen/run_harmless.py [--src DIR-with-patch<k>.diff --group G | group-prefix ...]
(applies to /repo, checks, reverts; /repo must be clean; evidence files of the unchanged tree are preserved)"""
import json, os, shutil, subprocess, sys, tempfile
ROOT = "/verif"
GROUPS = {"dewey": ["C01", "C02", "C03", "C06", "C18"], "pattern": ["C04", "C05", "C06", "C02"], "summary": ["C07", "C08", "C09", "C18"], "distinfo": ["C10", "C11", "C12"],
          "digest": ["C13", "C12"], "plist": ["C14", "C15"], "scanindex": ["C16", "C19"], "names": ["C18", "C19", "C01", "C02", "C03", "C16"], "pkgdb": ["C20"],
          "robust": ["C01", "C03", "C14", "C15", "C10", "C11", "C07", "C08", "C18"]}
st = subprocess.run(["git", "-C", "/repo", "status", "--porcelain", "--untracked-files=no"], capture_output=True, text=True).stdout
if st.strip():
    print("/repo has local changes; refusing"); sys.exit(2)
sel = [a for a in sys.argv[1:] if not a.startswith("--")]
EVB = tempfile.mkdtemp(prefix="evidence_backup_", dir=os.path.join(ROOT, ".work"))
shutil.copytree(os.path.join(ROOT, "evidence"), os.path.join(EVB, "evidence"))
rows = []
try:
    for d in sorted(os.listdir(os.path.join(ROOT, "harmless"))):
        if sel and not any(d.startswith(s) for s in sel):
            continue
        group = d.rsplit("-", 1)[0]
        patch = os.path.join(ROOT, "harmless", d, "patch.diff")
        if subprocess.run(["git", "-C", "/repo", "apply", patch]).returncode != 0:
            rows.append((d, "-", "patch-does-not-apply")); continue
        try:
            for pid in GROUPS[group] + ["C17"]:
                p = subprocess.run(["./check", pid], cwd=ROOT, capture_output=True, text=True)
                v = [l for l in p.stdout.split("\n") if l.startswith("VIOLATION")]
                rows.append((d, pid, "quiet" if p.returncode == 0 and not v else "ALARM exit=%d %s" % (p.returncode, (v or [p.stdout[-200:]])[0][:120])))
        finally:
            subprocess.run(["git", "-C", "/repo", "checkout", "--", "."])
finally:
    shutil.rmtree(os.path.join(ROOT, "evidence")); shutil.move(os.path.join(EVB, "evidence"), os.path.join(ROOT, "evidence")); shutil.rmtree(EVB, ignore_errors=True)
for r in rows:
    print("%-14s %-4s %s" % r)
