"""Generators for pkg_summary entries and streams."""
VARS = ["BUILD_DATE", "CATEGORIES", "COMMENT", "CONFLICTS", "DEPENDS", "DESCRIPTION", "FILE_CKSUM", "FILE_NAME",
        "FILE_SIZE", "HOMEPAGE", "LICENSE", "MACHINE_ARCH", "OPSYS", "OS_VERSION", "PKG_OPTIONS", "PKGNAME", "PKGPATH",
        "PKGTOOLS_VERSION", "PREV_PKGPATH", "PROVIDES", "REQUIRES", "SIZE_PKG", "SUPERSEDES"]
KA = {3, 4, 5, 19, 20, 22}
KI = {8, 21}
REQUIRED = [0, 1, 2, 5, 11, 12, 13, 15, 16, 17, 21]
LONG = True   # multi-KiB values (switched off by the stream property, whose cost grows with every cut position)
I64 = [0, 1, -1, 42, 123456789, 9223372036854775807, -9223372036854775808, 1000000, 7]


def text(rng, unicode_ok=True):
    r = rng.random()
    if r < 0.12:
        return ""
    pool = "abcxyz019 =.-_/:+"
    if unicode_ok and rng.random() < 0.35:
        pool += "é漢\U0001F600ß€"
    if rng.random() < 0.1:
        pool += "\t=="
    if LONG and r > 0.985:
        # a value of several KiB full of 2-, 3- and 4-byte characters: some character straddles every 4096-byte boundary
        return "".join(rng.choice("a\u00e9\u6f22\U0001F600") for _ in range(rng.choice([1500, 3000, 5000])))
    if rng.random() < 0.08:
        # legal but unusual characters: NUL, DEL, VT, FF, NEL, LINE SEPARATOR, a combining mark, a BOM inside the value
        pool += "\x00\x7f\x0b\x0c\u0085\u2028\u0301\ufeff"
    t = "".join(rng.choice(pool) for _ in range(rng.choice([1, 2, 3, 5, 8, 20])))
    if rng.random() < 0.06:
        t += rng.choice(["\x00", "\x00\x00", "\x7f", "\u2028", " ", "\t", "\u0085", "\ufeff"])   # ... also as the LAST character(s)
    return t


def value(rng, v):
    if v in KI:
        return rng.choice(I64) if rng.random() < 0.6 else rng.randint(-10 ** 18, 10 ** 18)
    if v in KA:
        return [text(rng) for _ in range(rng.choice([1, 1, 2, 3, 5]))]
    return text(rng)


def entry(rng, extra_p=0.4):
    """dict var index -> value for a complete entry"""
    e = {}
    for v in range(23):
        if v in REQUIRED or rng.random() < extra_p:
            e[v] = value(rng, v)
    if rng.random() < 0.5:
        e[15] = rng.choice(["foo-1.0", "a-b-2.3nb4", "nodash", "-1.0", "x-", "é-1", "py39-foo-1.0nb12"])
    # correlated values: real entries carry values derived from one another (FILE_NAME = PKGNAME.tgz, equal paths, equal
    # sizes); a setter that looks at another variable's current value shows only on such entries, and only for one order
    # of the calls (the two histories of one entry are shuffled independently)
    r = rng.random()
    if r < 0.12:
        e[7] = e[15] + ".tgz"
    elif r < 0.16:
        e[7] = e[15]
    elif r < 0.20:
        e[18] = e[16]
    elif r < 0.24:
        e[8] = e[21]
    elif r < 0.28:
        e[2] = e[15]
    elif r < 0.31:
        e[9] = e[16]
    return e


def print_entry(e):
    out = []
    for v in sorted(e):
        x = e[v]
        if v in KA:
            for s in x:
                out.append("%s=%s\n" % (VARS[v], s))
        else:
            out.append("%s=%s\n" % (VARS[v], x))
    return "".join(out)
