#!/usr/bin/env python3
"""usage: gen/keep_seed.py <PID> <k> <caught_by: text>  -- stores a confirmed mutant under /verif/seeded/<PID>-<k>/"""
import json, os, shutil, subprocess, sys
pid, k, caught = sys.argv[1], sys.argv[2], sys.argv[3]
src = "/tmp/mut_%s_out" % pid
dst = "/verif/seeded/%s-%s" % (pid, k)
os.makedirs(dst, exist_ok=True)
shutil.copy(os.path.join(src, "patch%s.diff" % k), os.path.join(dst, "patch.diff"))
shutil.copy(os.path.join(src, "demo%s.rs" % k), os.path.join(dst, "demo.rs"))
m = json.load(open(os.path.join(src, "meta%s.json" % k)))
tails = {}
for x in "abc":
    p = os.path.join(src, "confirm%s_%s.log" % (k, x))
    if os.path.exists(p):
        lines = [l for l in open(p, errors="replace").read().split("\n") if l.startswith("test result")]
        tails[x] = lines
meta = {
    "breaks_property": pid,
    "summary": m.get("summary"),
    "needs_to_manifest": m.get("needs_to_manifest"),
    "example_input": m.get("example_input"),
    "author": "fresh sub-agent given only the property text and a scratch worktree",
    "confirmed_by_me": {
        "what_i_ran": "gen/confirm_seed.sh %s %s in scratch worktree /tmp/mut_%s: (a) cargo test --offline with patch, (b) demo copied to tests/ with patch, (c) demo without patch" % (pid, k, pid),
        "a_suite_with_patch": tails.get("a"), "b_demo_with_patch": tails.get("b"), "c_demo_without_patch": tails.get("c"),
    },
    "detection": caught,
}
json.dump(meta, open(os.path.join(dst, "meta.json"), "w"), indent=1)
print("kept", dst)
