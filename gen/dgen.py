"""Generators for distinfo files."""
import hashes

BLANKS = [" ", "\t", "  ", " \t "]


def name(rng, kind=None):
    kind = kind or rng.choice(["dist", "dist", "patch", "sub", "odd", "bytes"])
    if kind == "dist":
        return rng.choice(["foo-1.0.tar.gz", "bar.tgz", "x", "patch-2.7.6.tar.xz", "patch-local-x", "patch-a.orig", "patch-b.rej", "patch-c~", "emul-x", "a.patch-1"]).encode()
    if kind == "patch":
        return rng.choice(["patch-aa", "patch-Makefile", "patch-src_main.c", "emul-linux-patch-b", "patch-", "patch-é", "patch-mk_build.target.mk", "patch-dist_foo.tar", "emul-linux-patch-x.tar_gz", "emul-patch-aa"]).encode()
    if kind == "sub":
        return (rng.choice(["dir", "a/b", "go-mod", "./x", "d//e", "p/."]) + "/" + rng.choice(["foo.tar.gz", "patch-aa", "v1.zip"])).encode()
    if kind == "odd":
        return rng.choice(["cafà.tar.gz", "Ångström.tgz", "(x)", "a(b)c", "=", "x=y", "Size", "SHA1", "a)", "(", "#x", "$NetBSD"]).encode()
    # arbitrary non-blank bytes incl. invalid UTF-8, 0x85, 0xA0, 0x0B
    n = rng.randint(1, 6)
    out = bytearray()
    while len(out) < n:
        b = rng.choice([0xE9, 0x85, 0xA0, 0xC3, 0x0B, 0x80, 0xFF, 0x01, 0x7F]) if rng.random() < 0.5 else rng.randint(33, 126)
        if b in (9, 10, 12, 13, 32, 47):
            continue
        out.append(b)
    return bytes(out) + rng.choice([b"", b".tgz", b"-patch"])


def hexhash(rng, n=8):
    return "".join(rng.choice("0123456789abcdef") for _ in range(n))


def size(rng):
    return rng.choice([0, 1, 1234, 2 ** 32, 2 ** 63, 2 ** 64 - 1, rng.randint(0, 10 ** 9)])


def sum_line(alg, nm, h):
    return hashes.DISPLAY[alg].encode() + b" (" + nm + b") = " + h.encode() + b"\n"


def size_line(nm, n):
    return b"Size (" + nm + b") = " + str(n).encode() + b" bytes\n"
