"""Generators for packing lists."""
CMDS_OS = ["@cwd", "@src", "@cd", "@exec", "@unexec", "@pkgdir", "@dirrm", "@display"]
CMDS_STR = ["@name", "@pkgdep", "@blddep", "@pkgcfl"]
CMDS_OPT = ["@mode", "@owner", "@group"]
ALL = CMDS_OS + CMDS_STR + CMDS_OPT + ["@comment", "@ignore", "@option"]


def arg(rng):
    r = rng.random()
    if r < 0.12:
        return b""
    if r < 0.5:
        return rng.choice([b"/usr/pkg", b"bin/foo", b"0755", b"root", b"wheel", b"foo-1.0", b"bar>=1", b"preserve", b"a b  c", b"/", b"x/", b"dir with space/"])
    if r < 0.65:
        return "café/漢".encode("utf-8")
    if r < 0.8:
        return rng.choice([b"\xe9", b"dir\xff/", b"\xc3", b"\xa0x", b"\x85y", b"a\xa0", b"\x0bz"])
    return bytes(rng.choice(b"abcxyz/._-0123 \t") for _ in range(rng.randint(1, 12)))


def filename(rng):
    r = rng.random()
    if r < 0.2:
        return bytes([rng.choice(b"ab1._-+")])                    # one byte
    if r < 0.35:
        return bytes(rng.choice(b"ab1._-/") for _ in range(2))       # two bytes
    if r < 0.7:
        return rng.choice([b"bin/foo", b"man/man1/foo.1", b"share/doc/foo/README", b"lib/libfoo.so.1", b"etc/foo.conf", b"name with space", b"trailing ", b"a\tb"])
    if r < 0.85:
        return rng.choice([b"\xa0", b"\x85", b"caf\xc3\xa9", b"\xe9", b"x\xff", b"\x0b", b"\x00", b"\xa0\xa0"])
    return bytes(rng.choice(b"abcxyz/._-0123") for _ in range(rng.randint(3, 20)))


def line(rng):
    r = rng.random()
    if r < 0.35:
        return filename(rng)
    if r < 0.8:
        c = rng.choice(ALL).encode()
        rr = rng.random()
        if rr < 0.2:
            return c
        sep = rng.choice([b" ", b" ", b" ", b"  ", b" \t", b"\t", b" \xa0", b"   ", b"\r", b"\x0c"])
        # trailing white space (CRLF files, stray blanks) belongs to the argument: it is matched byte for byte
        tail = rng.choice([b"", b"", b"", b"", b" ", b"\t", b"\r", b" \t "])
        return c + sep + arg(rng) + tail
    if r < 0.88:
        return rng.choice([b"", b" ", b"\t", b"  \t ", b"\r", b"\xa0", b" \x0b"])
    if r < 0.94:
        return rng.choice([b"@", b"@foo", b"@foo bar", b"@CWD /x", b"@cwd\t/x", b"@ name x", b"@option foo", b"@option", b"@option \xff", b"@ignore x", b"@name", b"@mode \xff",
                           b"@option preserve ", b"@option preserve\t", b"@option preserve\r", b"@option  preserve", b"@option preserve x", b"@option Preserve",
                           b"@comment\thi there", b"@mode\t0644", b"@ignore\r", b"@ignore ", b"@name\rfoo-1", b"@cwd\x0c/x"])
    return rng.choice([b" leading", b"  @name x", b"\t@cwd /y", b" ", b"x "])
