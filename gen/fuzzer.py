"""Coverage-guided exploration for the thorough tier.

libFuzzer (cargo-fuzz, nightly toolchain, offline) is run on the *current*
/repo tree for a fixed time per property; it only FINDS INPUTS - branches and
comparison constants of the code as it is now (a new `len > 255`, a buffer of
8192 bytes, a special case for one character) pull inputs into its corpus that
no hand-written generator knows about.  Every corpus entry is then run through
the ordinary correspondence check (implementation vs. extracted Coq model), so
whatever the explorer finds is judged by the same oracle as every other case.

Input format of fuzz/fuzz_targets/ops.rs: byte 0 selects the operation among
VERIF_FUZZ_OPS, the rest is split at 0xFF into arguments; `shape` mirrors
pkgsrc_harness::fuzz_shape."""
import os
import shutil
import subprocess
import time

from common import Case, ROOT, WORK, GUARD, Lock, log, enc

FUZZ = os.path.join(ROOT, "fuzz")
BYTE_OPS = {"stream", "di.parse", "di.roundtrip", "di.classify", "pl.parse", "pl.query", "pl.entry", "scan.readb", "dg.patchb", "dg.fileb"}
ARITY = {"pat.match": 2, "dewey.match": 2, "pat.best": 3, "stream": 0}
TRIPLE = "x86_64-unknown-linux-gnu"
FUZZ_BIN = os.path.join(FUZZ, "target", TRIPLE, "release", "ops")

# operations explored per property (operations needing a file system tree, a call history or a read schedule are left
# to the hand-written generators)
OPS = {
    "C01": ["dewey.match", "pat.match", "pat.best"],
    "C02": ["dewey.match", "pat.match", "dewey.new"],
    "C03": ["dewey.match"],
    "C04": ["pat.match", "pat.new"],
    "C05": ["pat.match", "pat.new"],
    "C06": ["pat.best"],
    "C07": ["sum.parse"],
    "C08": ["sum.parse"],
    "C09": ["stream"],
    "C10": ["di.roundtrip", "di.parse"],
    "C11": ["di.parse", "di.classify"],
    "C13": ["dg.patchb", "dg.fileb", "dg.name"],
    "C14": ["pl.parse", "pl.entry"],
    "C15": ["pl.query"],
    "C16": ["scan.read", "scan.readb"],
    "C17": ["pat.match", "pat.best", "dewey.match", "pkgname", "sum.parse", "stream", "di.parse", "pl.parse", "pl.query", "scan.readb", "path.new", "dep.new", "md.from", "dg.name"],
    "C18": ["pkgname", "dewey.match"],
    "C19": ["path.new", "dep.new"],
    "C20": ["md.from"],
}
DICT = ["nb", "alpha", "beta", "pre", "rc", "pl", "{", "}", ",", ">=", "<=", ">", "<", "-", "[0-9]*", "[!", "[^", "*", "?", "PKGNAME=", "DESCRIPTION=", "SIZE_PKG=", "FILE_SIZE=",
        "COMMENT=", "\\x0a\\x0a", "\\x0d\\x0a", "$NetBSD", "Size (", "SHA1 (", "SHA512 (", "BLAKE2s (", ") = ", " bytes", "patch-", "emul-", "-patch-", ".tar.", "@cwd ", "@ignore", "@name ",
        "@comment ", "@option preserve", "@pkgdep ", "../../", "./", "//", ":", "ALL_DEPENDS=", "PKG_LOCATION=", "+COMMENT", "+CONTENTS", "+DESC", "\\xff", "\\xef\\xbb\\xbf", "\\x00",
        "\\xc2\\x85", "\\xe2\\x80\\xa8", "\\xc2\\xa0", "\\xf0\\x9f\\x98\\x80", "9223372036854775807", "9223372036854775808", "18446744073709551615", "00000000000000000000"]


def available():
    return shutil.which("cargo") is not None and os.path.isdir(FUZZ)


def build(timeout=1800):
    """builds the explorer against /repo's working tree (own target dir under fuzz/, reused between runs)"""
    env = dict(os.environ, CARGO_NET_OFFLINE="true", RUSTFLAGS=(os.environ.get("RUSTFLAGS", "") + " --cfg %s" % GUARD).strip())
    lock = os.path.join(FUZZ, "Cargo.lock")
    if not os.path.exists(lock):
        shutil.copy(os.path.join(ROOT, "harness", "Cargo.lock"), lock)
    with Lock(os.path.join(WORK, "fuzz.lock")):
        p = subprocess.run(["cargo", "+nightly", "fuzz", "build", "--fuzz-dir", FUZZ, "--sanitizer", "none", "--release", "ops"],
                           cwd=FUZZ, env=env, stdout=subprocess.PIPE, stderr=subprocess.STDOUT, timeout=timeout)
    if p.returncode != 0 or not os.path.exists(FUZZ_BIN):
        log(p.stdout.decode("utf-8", "replace")[-3000:])
        return False
    return True


def encode(ops, case):
    """Case -> explorer input (seed corpus); None if the case does not fit the format"""
    op = case.op
    args = list(case.args)
    name = op
    if op in ("scan.read", "scan.readb"):
        if len(args) != 2 or args[1] != "N":
            return None
        args = args[:1]
    if op in ("dg.patch", "dg.file"):
        if len(args) != 2 or not args[1].startswith("D "):
            return None
        name = "dg.patchb" if op == "dg.patch" else "dg.fileb"
        args = [args[0] + " " + args[1][2:]]
    if name not in ops:
        return None
    parts = []
    for a in args:
        nums = [] if a == "-" else [int(x) for x in a.split(" ")]
        if name in BYTE_OPS:
            if any(n > 255 for n in nums):
                return None
            b = bytes(nums)
        else:
            try:
                b = "".join(chr(n) for n in nums).encode("utf-8")
            except (ValueError, UnicodeEncodeError):
                return None
        if b"\xff" in b and name not in BYTE_OPS:
            return None
        parts.append(b)
    return bytes([ops.index(name)]) + b"\xff".join(parts)


def shape(op, args):
    """mirror of pkgsrc_harness::fuzz_shape"""
    ar = ARITY.get(op, 1)
    if ar > 0:
        args = args[:ar] + ["-"] * (ar - len(args))
    if op in ("scan.read", "scan.readb"):
        return op, args + ["N"]
    if op in ("dg.patchb", "dg.fileb"):
        first, _, rest = args[0].partition(" ")
        try:
            alg = int(first) % 6
        except ValueError:
            alg = 0
        v = [str(alg)]
        if rest and rest != "-":
            v.append("D " + rest)
        return ("dg.patch" if op == "dg.patchb" else "dg.file"), v
    return op, args


def decode(ops, data):
    """explorer input -> Case (None if the text arguments are not UTF-8)"""
    if not data:
        return None
    op = ops[data[0] % len(ops)]
    args = []
    for part in data[1:].split(b"\xff"):
        if op in BYTE_OPS:
            args.append(" ".join(str(b) for b in part) if part else "-")
        else:
            try:
                s = part.decode("utf-8")
            except UnicodeDecodeError:
                return None
            args.append(" ".join(str(ord(c)) for c in s) if s else "-")
    name, args = shape(op, args)
    return Case(name, args, meta={"nt": True, "src": "explorer"}, tag="explorer")


def explore(pid, seeds, seconds, seed, workdir, max_len=20000, keep=4000):
    """runs the explorer for `seconds` on the operations of property `pid`, seeded with (a sample of) the generated cases;
    returns (cases found, statistics)"""
    ops = OPS.get(pid)
    if not ops or not available():
        return [], {"explorer": "not available"}
    t0 = time.time()
    if not build():
        return [], {"explorer": "build failed"}
    corpus = os.path.join(workdir, "corpus")
    seeddir = os.path.join(workdir, "seeds")
    os.makedirs(corpus, exist_ok=True)
    os.makedirs(seeddir, exist_ok=True)
    n = 0
    for c in seeds:
        b = encode(ops, c)
        if b is not None and len(b) <= max_len:
            with open(os.path.join(seeddir, "s%05d" % n), "wb") as f:
                f.write(b)
            n += 1
            if n >= 3000:
                break
    dpath = os.path.join(workdir, "dict.txt")
    with open(dpath, "w") as f:
        for i, tok in enumerate(DICT):
            f.write('t%d="%s"\n' % (i, tok.replace('"', '\\"')))
    env = dict(os.environ, VERIF_FUZZ_OPS=",".join(ops), TMPDIR=workdir)
    cmd = [FUZZ_BIN, corpus, seeddir, "-max_total_time=%d" % seconds, "-seed=%d" % (seed + 1), "-max_len=%d" % max_len, "-dict=" + dpath,
           "-use_value_profile=1", "-timeout=20", "-rss_limit_mb=4096", "-print_final_stats=1", "-verbosity=0", "-jobs=0", "-artifact_prefix=" + workdir + "/"]
    p = subprocess.run(cmd, env=env, stdout=subprocess.PIPE, stderr=subprocess.STDOUT, timeout=seconds + 600)
    out = p.stdout.decode("utf-8", "replace")
    stats = {"explorer": "libFuzzer", "seconds": seconds, "seeds": n, "ops": ops, "exit": p.returncode, "build_and_run_wall": round(time.time() - t0, 1)}
    for line in out.split("\n"):
        if line.startswith("stat::"):
            k, _, v = line[6:].partition(":")
            stats[k.strip()] = v.strip()
    found = []
    files = sorted(os.listdir(corpus))
    # crashes / timeouts / ooms are inputs too
    for fn in sorted(os.listdir(workdir)):
        if fn.startswith(("crash-", "timeout-", "oom-", "slow-unit-")):
            files.append(os.path.join("..", fn))
    for fn in files[:keep]:
        with open(os.path.join(corpus, fn), "rb") as f:
            c = decode(ops, f.read())
        if c is not None:
            found.append(c)
    stats["corpus_files"] = len(files)
    stats["cases"] = len(found)
    return found, stats
