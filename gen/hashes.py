"""Reference digests (Python hashlib) for the six algorithms, indexed as in Distinfo.all_algs."""
import hashlib

NAMES = ["blake2s", "md5", "ripemd160", "sha1", "sha256", "sha512"]
DISPLAY = ["BLAKE2s", "MD5", "RMD160", "SHA1", "SHA256", "SHA512"]


def digest(idx, data):
    return hashlib.new(NAMES[idx], bytes(data)).hexdigest()
