#!/bin/bash
# usage: gen/tryseed.sh <PID> <patch.diff> [extra check args]
# applies a seeded change to /repo, runs the property's quick check, undoes the change
set -u
PID=$1; PATCH=$2; shift 2
cd /verif
git -C /repo apply "$PATCH" || { echo "patch does not apply"; exit 2; }
./check "$PID" "$@" > /tmp/tryseed_$PID.out 2>&1
rc=$?
git -C /repo checkout -- .
git -C /repo status --short | grep -v '^??' | head -3
echo "exit=$rc"; grep -E "^(VIOLATION|KNOWN|OK)" /tmp/tryseed_$PID.out | head -6
exit 0
