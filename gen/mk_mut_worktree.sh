#!/bin/bash
# usage: gen/mk_mut_worktree.sh <PID>   -- scratch worktree + property text for a mutation sub-agent (nothing from /verif goes in)
PID=$1
git -C /repo worktree add --detach /tmp/mut_$PID HEAD >/dev/null 2>&1 || exit 2
mkdir -p /tmp/mut_${PID}_out
python3 - "$PID" <<'PY'
import json, sys
pid = sys.argv[1]
for line in open("/verif/properties.jsonl"):
    o = json.loads(line)
    if o["id"] == pid:
        with open("/tmp/mut_%s_out/property.txt" % pid, "w") as f:
            f.write("Property %s: %s\n\nStatement: %s\n\nQuantified over: %s\n\nWhy the existing tests cannot settle it: %s\n\nAnchors: %s\n" % (
                pid, o["title"], o["statement"], o["quantifier"]["text"], o["why_tests_cant"], json.dumps(o["anchors"], indent=1)))
PY
echo /tmp/mut_$PID
