#!/bin/bash
# usage: gen/confirm_seed.sh <PID> <k>   -- confirms a sub-agent's mutant in its scratch worktree /tmp/mut_<PID>
# (a) suite passes with the patch, (b) demo fails with it, (c) demo passes without it
PID=$1; K=$2; W=/tmp/mut_$PID; O=/tmp/mut_${PID}_out
export CARGO_NET_OFFLINE=true CARGO_TARGET_DIR=/tmp/mut_confirm_target_$PID
cd $W || exit 2
git checkout -q -- . ; git clean -qfd
git apply $O/patch$K.diff || { echo "$PID-$K: patch does not apply"; exit 2; }
cargo test --offline > $O/confirm${K}_a.log 2>&1; A=$?
cp $O/demo$K.rs tests/zz_demo.rs
cargo test --offline --test zz_demo > $O/confirm${K}_b.log 2>&1; B=$?
git checkout -q -- .
cargo test --offline --test zz_demo > $O/confirm${K}_c.log 2>&1; C=$?
rm -f tests/zz_demo.rs; git clean -qfd
echo "$PID-$K suite_with_patch_exit=$A demo_with_patch_exit=$B demo_without_patch_exit=$C"
