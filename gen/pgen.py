"""Generators for glob / plain / dewey / alternate patterns and package names."""
import vgen

ALPHA = "abcxyzABX019-._+^"


def lit(rng, n=None):
    n = rng.randint(0, 4) if n is None else n
    return "".join(rng.choice(ALPHA) for _ in range(n))


def glob_tokens(rng, maxtok=6):
    """list of (pattern text, sampler, kind)"""
    toks = []
    for _ in range(rng.randint(1, maxtok)):
        r = rng.random()
        if r < 0.4:
            c = rng.choice(ALPHA + "é")
            toks.append((c, "lit", c))
        elif r < 0.58:
            toks.append(("*", "star", None))
        elif r < 0.68:
            toks.append(("?", "any", None))
        elif r < 0.92:
            neg = rng.random() < 0.35
            items = []
            chars = []
            for _ in range(rng.randint(1, 3)):
                if rng.random() < 0.5:
                    a, b = sorted([rng.choice("abcdxyzAQZ0189"), rng.choice("abcdxyzAQZ0189")])
                    items.append(a + "-" + b)
                    chars.append((a, b))
                else:
                    c = rng.choice("abcxyz019.-!^")
                    items.append(c)
                    chars.append((c, c))
            body = "".join(items)
            if rng.random() < 0.08:
                body = "]" + body
                chars.append(("]", "]"))
            elif rng.random() < 0.1:
                # '^' right after '[' is an ordinary member in this glob dialect (only '!' negates)
                body = "^" + body
                chars.append(("^", "^"))
            if body.startswith("!") and not neg:
                body = "a" + body
                chars.append(("a", "a"))
            toks.append(("[" + ("!" if neg else "") + body + "]", "nset" if neg else "set", chars))
        elif r < 0.96:
            toks.append(("]", "lit", "]"))
        else:
            toks.append((rng.choice(["**", "***", "[", "[!", "[a", "[!]", "[]", "/**/", "**/"]), "odd", None))
    return toks


def glob_pattern(rng):
    toks = glob_tokens(rng)
    return "".join(t[0] for t in toks), toks


def sample_name(rng, toks):
    out = []
    for text, kind, data in toks:
        if kind == "lit":
            out.append(data)
        elif kind == "star":
            out.append(lit(rng, rng.choice([0, 0, 1, 2, 3])))
        elif kind == "any":
            out.append(rng.choice(ALPHA + "é"))
        elif kind == "set":
            a, b = rng.choice(data)
            out.append(chr(rng.randint(ord(a), ord(b))))
        elif kind == "nset":
            for _ in range(10):
                c = rng.choice(ALPHA + "q")
                if not any(a <= c <= b for a, b in data):
                    break
            out.append(c)
        else:
            out.append(text)
    return "".join(out)


def edit(rng, s, alphabet=ALPHA):
    """one-edit neighbour"""
    if not s:
        return rng.choice(alphabet)
    r = rng.random()
    i = rng.randrange(len(s))
    if r < 0.12:
        return s[:i] + s[i].swapcase() + s[i + 1:]  # case-sensitive?
    if r < 0.2:
        i = rng.choice([0, min(1, len(s) - 1)])     # where the quick reject looks
        return s[:i] + rng.choice(alphabet) + s[i + 1:]
    if r < 0.5:
        return s[:i] + rng.choice(alphabet) + s[i + 1:]
    if r < 0.7:
        return s[:i] + s[i + 1:]
    if r < 0.9:
        return s[:i] + rng.choice(alphabet) + s[i:]
    return s[: rng.randint(0, min(2, len(s)))]


# ---------------- brace trees (C04) ----------------
# tree: list of items; item = ("c", char) | ("g", [alt, alt, ...]) with alt a tree
def leaf_text(rng):
    r = rng.random()
    if r < 0.5:
        return lit(rng, rng.choice([0, 1, 1, 2]))
    if r < 0.6:
        return rng.choice(["*", "?", "[0-9]", "[!a]"])
    if r < 0.7:
        return rng.choice([">=1", "<2", ">1<3", ">", "<1>2"])
    if r < 0.8:
        return rng.choice(["-1.0", "-1", "-2nb1", "-"])
    if r < 0.85:
        return rng.choice(["[", "***", "a>=1<2<3"])
    return rng.choice(["a", "b", "ab", ""])


def tree(rng, depth=0, inside=False, budget=None):
    if budget is None:
        budget = [rng.choice([1, 1, 2, 2, 3, 4, 6])]
    items = []
    for _ in range(rng.randint(1, 3)):
        if budget[0] > 0 and depth < 4 and rng.random() < 0.55:
            budget[0] -= 1
            nalt = rng.choice([1, 2, 2, 2, 3, 4])
            alts = [tree(rng, depth + 1, True, budget) if rng.random() < 0.85 else [] for _ in range(nalt)]
            items.append(("g", alts))
        else:
            for ch in leaf_text(rng):
                if inside and ch in "{},":
                    continue
                if ch in "{}":
                    continue
                items.append(("c", ch))
        if not inside and rng.random() < 0.1:
            items.append(("c", ","))     # top-level comma is an ordinary character
    return items


def tree_print(t):
    out = []
    for kind, x in t:
        if kind == "c":
            out.append(x)
        else:
            out.append("{" + ",".join(tree_print(a) for a in x) + "}")
    return "".join(out)


def tree_exp(t, limit=4096):
    res = [""]
    for kind, x in t:
        if kind == "c":
            res = [r + x for r in res]
        else:
            alts = []
            for a in x:
                alts += tree_exp(a, limit)
            res = [r + a for r in res for a in alts]
        if len(res) > limit:
            res = res[:limit]
    return res


def tree_ngroups(t):
    n = 0
    for kind, x in t:
        if kind == "g":
            n += 1 + sum(tree_ngroups(a) for a in x)
    return n


def tree_enc(t):
    """serialisation for the spec driver: prefix form, numbers separated by spaces.
    item: 0 c | 1 nalts alt... ; tree: n items...   (all decimal)"""
    out = [str(len(t))]
    for kind, x in t:
        if kind == "c":
            out += ["0", str(ord(x))]
        else:
            out += ["1", str(len(x))]
            for a in x:
                out.append(tree_enc(a))
    return " ".join(out)
