"""Shared machinery of the checks: case encoding, running the implementation
harness (I) and the extracted Coq model/spec driver (M, S), the proof layer
(make + Print Assumptions + statement pins), shrinking, known findings,
evidence and replay files."""
import fcntl
import hashlib
import json
import os
import random
import re
import subprocess
import sys
import time

ROOT = os.path.dirname(os.path.dirname(os.path.abspath(__file__)))
COQ = os.path.join(ROOT, "coq")
OCAML = os.path.join(ROOT, "ocaml")
HARNESS = os.path.join(ROOT, "harness")
WORK = os.path.join(ROOT, ".work")
EVIDENCE = os.path.join(ROOT, "evidence")
CORPUS = os.path.join(ROOT, "corpus")
REPO = "/repo"
GUARD = "pkgsrc_verif"
DRIVER_BIN = os.path.join(OCAML, "model_driver")
HARNESS_BIN = os.path.join(HARNESS, "target", "debug", "pkgsrc_harness")

FORBIDDEN = re.compile(
    r"\b(Admitted|admit|Axiom|Axioms|Parameter|Parameters|Conjecture|Conjectures|"
    r"Hypothesis|Hypotheses|Variable|Variables|Abort)\b|Unset Guard|bypass_check|"
    r"type-in-type|impredicative-set|Admit Obligations|Unset Universe|Unset Positivity"
)

# axioms of the standard library that a theorem may depend on (none is used today)
AXIOM_ALLOW = set()


def log(*a):
    print(*a, file=sys.stderr, flush=True)


# ---------------------------------------------------------------- encoding
def enc(s):
    """text/bytes -> case-file argument.  s: str (code points), bytes, or list of ints"""
    if isinstance(s, str):
        s = [ord(c) for c in s]
    elif isinstance(s, (bytes, bytearray)):
        s = list(s)
    return " ".join(str(c) for c in s) if s else "-"


def dec(a):
    return [] if a == "-" else [int(t) for t in a.split(" ")]


def show(a):
    """human-readable rendering of an encoded argument"""
    try:
        cs = dec(a)
    except ValueError:
        return a
    out = []
    for c in cs:
        if 32 <= c < 127 and c != 92:
            out.append(chr(c))
        elif c < 256:
            out.append("\\x%02x" % c)
        else:
            out.append("\\u{%x}" % c)
    return "".join(out)


class Case:
    """One operation.  op/args go to the harness (I); mop (default: op) to the
    model driver (M); sop, if set, names the executable spec (S) operation."""

    __slots__ = ("op", "args", "mop", "sop", "margs", "sargs", "meta", "tag")

    def __init__(self, op, args, mop=None, sop=None, margs=None, sargs=None, meta=None, tag=""):
        self.op = op
        self.args = list(args)
        self.mop = mop if mop is not None else op   # "" = do not run the model on this case
        self.sop = sop
        self.margs = margs
        self.sargs = sargs
        self.meta = meta or {}
        self.tag = tag

    def key(self):
        return (self.op, tuple(self.args))

    def to_json(self):
        d = {"op": self.op, "args": self.args, "readable": [show(a) for a in self.args]}
        if self.mop != self.op:
            d["mop"] = self.mop
        if self.sop:
            d["sop"] = self.sop
        if self.margs is not None:
            d["margs"] = self.margs
        if self.sargs is not None:
            d["sargs"] = self.sargs
        if self.tag:
            d["tag"] = self.tag
        return d

    @staticmethod
    def from_json(d):
        return Case(d["op"], d["args"], d.get("mop"), d.get("sop"), d.get("margs"), d.get("sargs"), tag=d.get("tag", ""))


# ---------------------------------------------------------------- building
class Lock:
    def __init__(self, name):
        os.makedirs(WORK, exist_ok=True)
        self.path = os.path.join(WORK, name + ".lock")

    def __enter__(self):
        self.f = open(self.path, "w")
        fcntl.flock(self.f, fcntl.LOCK_EX)

    def __exit__(self, *a):
        fcntl.flock(self.f, fcntl.LOCK_UN)
        self.f.close()


def sh(cmd, cwd=None, timeout=None, env=None):
    e = dict(os.environ)
    if env:
        e.update(env)
    p = subprocess.run(cmd, cwd=cwd, timeout=timeout, env=e, stdout=subprocess.PIPE, stderr=subprocess.STDOUT, text=True, errors="replace")
    return p.returncode, p.stdout


def coq_sources():
    out = []
    for d, _, fs in os.walk(COQ):
        for f in fs:
            if f.endswith(".v") and not f.startswith("."):
                out.append(os.path.join(d, f))
    return sorted(out)


def coq_make(targets, timeout=2400):
    """full .vo build of the given targets (never -vos/-vok)"""
    with Lock("coq"):
        mk = os.path.join(COQ, "Makefile")
        cp = os.path.join(COQ, "_CoqProject")
        if not os.path.exists(mk) or os.path.getmtime(mk) < os.path.getmtime(cp):
            rc, out = sh(["coq_makefile", "-f", "_CoqProject", "-o", "Makefile"], cwd=COQ, timeout=120)
            if rc != 0:
                return rc, out
        return sh(["timeout", str(timeout), "make", "-j16"] + targets, cwd=COQ, timeout=timeout + 60)


def model_vfiles():
    """files Extract.v depends on (models and specs, never proofs)"""
    src = open(os.path.join(COQ, "Extract.v")).read()
    names = re.findall(r"PV\.(\w+)", src)
    return sorted(set(names))


def build_driver(force=False):
    """(re)extract the model and build the OCaml driver when stale"""
    with Lock("driver"):
        deps = [os.path.join(COQ, n + ".v") for n in model_vfiles()] + [
            os.path.join(COQ, "Extract.v"), os.path.join(OCAML, "driver.ml")]
        newest = max(os.path.getmtime(p) for p in deps)
        if not force and os.path.exists(DRIVER_BIN) and os.path.getmtime(DRIVER_BIN) >= newest:
            return 0, "driver up to date"
        rc, out = coq_make([n + ".vo" for n in model_vfiles()])
        if rc != 0:
            return rc, out
        rc, out = sh(["timeout", "600", "coqc", "-Q", COQ, "PV", os.path.join(COQ, "Extract.v")], cwd=OCAML, timeout=700)
        if rc != 0:
            return rc, out
        rc, out2 = sh(["ocamlfind", "ocamlopt", "-O2", "-w", "-a", "model.mli", "model.ml", "driver.ml", "-o", "model_driver"], cwd=OCAML, timeout=600)
        return rc, out + out2


def build_harness():
    """build the harness against /repo's current working tree, hooks enabled"""
    with Lock("cargo"):
        env = {"CARGO_NET_OFFLINE": "true", "RUSTFLAGS": "--cfg " + GUARD}
        rc, out = sh(["cargo", "build", "--offline", "--quiet"], cwd=HARNESS, timeout=1800, env=env)
        return rc, out


# ---------------------------------------------------------------- proof layer
def theorem_blocks(vfile):
    """[(name, statement text)] for every Theorem of a Properties file"""
    src = open(vfile).read()
    out = []
    for m in re.finditer(r"^Theorem\s+(\w+)\s*:(.*?)^Proof\.", src, re.S | re.M):
        stmt = re.sub(r"\s+", " ", m.group(2)).strip()
        out.append((m.group(1), stmt))
    return out


SECTION_ONLY = re.compile(r"\b(Hypothesis|Hypotheses|Variable|Variables|Context)\b")
ALWAYS_BAD = re.compile(
    r"\b(Admitted|admit|Axiom|Axioms|Parameter|Parameters|Conjecture|Conjectures|Abort)\b|Unset Guard|bypass_check|"
    r"type-in-type|impredicative-set|Admit Obligations|Unset Universe|Unset Positivity|Guard Checking|Positivity Checking|Universe Checking"
)


def grep_forbidden():
    """no Admitted/admit/Axiom/Parameter/Conjecture anywhere; Variable/Hypothesis only inside a Section"""
    bad = []
    for f in coq_sources():
        src = open(f).read()
        prev = None
        while prev != src:
            prev = src
            src = re.sub(r"\(\*(?:(?!\(\*|\*\)).)*\*\)", lambda m: "\n" * m.group(0).count("\n"), src, flags=re.S)
        depth = 0
        for i, line in enumerate(src.split("\n")):
            if re.match(r"\s*Section\s+\w+\s*\.", line):
                depth += 1
            elif re.match(r"\s*End\s+\w+\s*\.", line) and depth > 0:
                depth -= 1
            m = ALWAYS_BAD.search(line)
            if m:
                bad.append("%s:%d: %s" % (os.path.relpath(f, ROOT), i + 1, m.group(0)))
            m = SECTION_ONLY.search(line)
            if m and depth == 0:
                bad.append("%s:%d: %s outside a Section" % (os.path.relpath(f, ROOT), i + 1, m.group(0)))
    return bad


def proof_layer(pid, tier):
    """build Properties/<pid>.vo, check assumptions and statement pins.
    returns dict(ok, obligations, discharged, theorems, axioms, failures, checker_cmd)"""
    t0 = time.time()
    res = {"ok": True, "failures": [], "theorems": [], "axioms": {}, "obligations": 0, "discharged": 0}
    vfile = os.path.join(COQ, "Properties", pid + ".v")
    res["checker_cmd"] = "make -C coq Properties/%s.vo (coqc 8.16.1, full .vo build) ; coqc Print Assumptions on every theorem" % pid
    bad = grep_forbidden()
    if bad:
        res["ok"] = False
        res["failures"].append({"kind": "forbidden-token", "where": bad})
    rc, out = coq_make(["Properties/%s.vo" % pid])
    if rc != 0:
        res["ok"] = False
        m = re.search(r'File "([^"]+)", line (\d+)', out)
        res["failures"].append({"kind": "proof-does-not-check", "where": m.group(0) if m else "make", "log": out[-1500:]})
        res["obligations"] = len(theorem_blocks(vfile))
        return res
    thms = theorem_blocks(vfile)
    res["obligations"] = len(thms)
    res["theorems"] = [n for n, _ in thms]
    # statement pins
    pins_path = os.path.join(COQ, "pins.json")
    pins = json.load(open(pins_path)) if os.path.exists(pins_path) else {}
    mine = pins.get(pid, {})
    for n, stmt in thms:
        h = hashlib.sha256(stmt.encode()).hexdigest()[:16]
        if mine.get(n) != h:
            res["ok"] = False
            res["failures"].append({"kind": "statement-not-pinned", "where": n})
    for n in mine:
        if n not in res["theorems"]:
            res["ok"] = False
            res["failures"].append({"kind": "pinned-theorem-missing", "where": n})
    # assumptions
    os.makedirs(WORK, exist_ok=True)
    af = os.path.join(WORK, "assum_%s_%d.v" % (pid, os.getpid()))
    with open(af, "w") as f:
        f.write("Require Import PV.Properties.%s.\n" % pid)
        for n, _ in thms:
            f.write('Goal True. idtac "@@ %s". exact I. Qed.\nPrint Assumptions %s.\n' % (n, n))
    rc, out = sh(["timeout", "600", "coqc", "-noglob", "-Q", COQ, "PV", af], cwd=WORK, timeout=700)
    for ext in (".v", ".vo", ".vok", ".vos", ".glob"):
        try:
            os.remove(af[:-2] + ext)
        except OSError:
            pass
    if rc != 0:
        res["ok"] = False
        res["failures"].append({"kind": "assumption-check-failed", "where": "coqc", "log": out[-1500:]})
        return res
    parts = re.split(r"^@@ (\w+)\s*$", out, flags=re.M)
    for i in range(1, len(parts), 2):
        n, body = parts[i], parts[i + 1]
        if "Closed under the global context" in body:
            res["axioms"][n] = []
            res["discharged"] += 1
        else:
            ax = re.findall(r"^(\S+)\s*:", body, re.M)
            res["axioms"][n] = ax
            if all(a in AXIOM_ALLOW for a in ax) and ax:
                res["discharged"] += 1
            else:
                res["ok"] = False
                res["failures"].append({"kind": "unexpected-axioms", "where": n, "axioms": ax})
    if res["discharged"] != res["obligations"] and res["ok"]:
        res["ok"] = False
        res["failures"].append({"kind": "assumption-output-incomplete", "where": pid})
    if tier == "thorough" and res["ok"]:
        rc, out = sh(["timeout", "1500", "coqchk", "-o", "-silent", "-Q", COQ, "PV", "PV.Properties.%s" % pid], cwd=COQ, timeout=1600)
        res["coqchk"] = out[-800:]
        m = re.search(r"\* Axioms:\s*(.*?)\n\s*\n", out, re.S)
        axioms = m.group(1).strip() if m else "?"
        res["coqchk_axioms"] = axioms
        bad_ctx = [k for k in ("type-in-type", "unsafe (co)fixpoints", "positivity is assumed") if not re.search(re.escape(k) + r":\s*<none>", out)]
        if rc == 0 and (axioms != "<none>" or bad_ctx):
            res["ok"] = False
            res["failures"].append({"kind": "coqchk-context-not-clean", "where": pid, "axioms": axioms, "flags": bad_ctx})
        if rc != 0:
            res["ok"] = False
            res["failures"].append({"kind": "coqchk-failed", "where": pid, "log": out[-1500:]})
        res["checker_cmd"] += " ; coqchk -o -silent PV.Properties.%s" % pid
    res["wall_s"] = round(time.time() - t0, 2)
    return res


def repin():
    pins = {}
    pdir = os.path.join(COQ, "Properties")
    for f in sorted(os.listdir(pdir)):
        if f.endswith(".v"):
            pid = f[:-2]
            pins[pid] = {n: hashlib.sha256(s.encode()).hexdigest()[:16] for n, s in theorem_blocks(os.path.join(pdir, f))}
    json.dump(pins, open(os.path.join(COQ, "pins.json"), "w"), indent=1, sort_keys=True)
    return pins


# ---------------------------------------------------------------- running cases
def _write_cases(path, lines):
    with open(path, "w") as f:
        for l in lines:
            f.write(l + "\n")


def _run_watched(cmd, env, stall, total):
    """runs cmd, collecting stdout; kills it when it prints nothing for `stall` seconds (the harness flushes one line
    per case, so silence means the current case hangs) or after `total` seconds; returns (stdout bytes, returncode, hung)"""
    import select
    p = subprocess.Popen(cmd, stdout=subprocess.PIPE, stderr=subprocess.DEVNULL, env=env)
    fd = p.stdout.fileno()
    os.set_blocking(fd, False)
    out = bytearray()
    t0 = last = time.time()
    hung = False
    while True:
        r, _, _ = select.select([fd], [], [], 1.0)
        now = time.time()
        if r:
            chunk = os.read(fd, 1 << 20)
            if chunk:
                out += chunk
                last = now
                continue
            break  # EOF
        if p.poll() is not None:
            continue_reading = os.read(fd, 1 << 20) if select.select([fd], [], [], 0)[0] else b""
            out += continue_reading
            if not continue_reading:
                break
        if now - last > stall or now - t0 > total:
            hung = True
            p.kill()
            break
    try:
        p.wait(timeout=10)
    except Exception:
        p.kill()
    try:
        rest = os.read(fd, 1 << 24)
        out += rest or b""
    except Exception:
        pass
    p.stdout.close()
    return bytes(out), (p.returncode if p.returncode is not None else -1), hung


def run_harness(cases, workdir, timeout=600, name="i", stall=None):
    """returns list of observations (strings); PANIC / ABORT / HANG are produced here"""
    stall = stall or float(os.environ.get("VERIF_STALL", "40"))
    obs = [None] * len(cases)
    start = 0
    rounds = 0
    hangs = 0
    while start < len(cases):
        rounds += 1
        path = os.path.join(workdir, "%s_%d.cases" % (name, rounds))
        _write_cases(path, ["%d\t%s\t%s" % (i, cases[i].op, "\t".join(cases[i].args)) for i in range(start, len(cases))])
        # scratch trees of the harness live (and die) with the work dir
        out, rc, hung = _run_watched([HARNESS_BIN, path], dict(os.environ, TMPDIR=workdir), stall, timeout)
        n = 0
        for line in out.decode("utf-8", "replace").split("\n"):
            if "\t" not in line:
                continue
            i, o = line.split("\t", 1)
            try:
                obs[int(i)] = o
            except ValueError:
                continue
            n += 1
        if start + n >= len(cases) and rc == 0 and not hung:
            break
        # the case after the last answered one killed or stalled the process
        bad = start + n
        if bad < len(cases):
            obs[bad] = "HANG" if hung else "ABORT"
        hangs += 1 if hung else 0
        start = bad + 1
        if rounds > 50 or hangs >= 3:
            for i in range(start, len(cases)):
                obs[i] = "NOT-RUN"
            break
    return obs


MODEL_TIMEOUTS = []   # (shard size) of model shards that ran out of time in this process: reported in the evidence


def _run_driver_shard(args):
    path, timeout = args
    try:
        p = subprocess.run(["bash", "-c", "ulimit -s unlimited 2>/dev/null; exec %s %s" % (DRIVER_BIN, path)], stdout=subprocess.PIPE, stderr=subprocess.PIPE, timeout=timeout)
        return p.stdout, p.returncode, p.stderr
    except subprocess.TimeoutExpired as e:
        return (e.stdout or b""), -9, b"timeout"


def run_driver(lines, workdir, name="m", timeout=900, shard=4000):
    """lines: list of (id, op, args) -> dict id -> observation.  The case file is cut into shards run in parallel; a
    shard that runs out of time leaves its unanswered cases without a model observation (they are then not compared)
    instead of taking the whole check down."""
    from concurrent.futures import ThreadPoolExecutor
    jobs = []
    for k in range(0, len(lines), shard):
        path = os.path.join(workdir, "%s_%d.cases" % (name, k // shard))
        _write_cases(path, ["%s\t%s\t%s" % (i, op, "\t".join(args)) for (i, op, args) in lines[k:k + shard]])
        jobs.append((path, timeout))
    res = {}
    with ThreadPoolExecutor(max_workers=min(12, max(1, len(jobs)))) as ex:
        outs = list(ex.map(_run_driver_shard, jobs))
    for (out, rc, err), (path, _) in zip(outs, jobs):
        for line in out.decode("utf-8", "replace").split("\n"):
            if "\t" not in line:
                continue
            i, o = line.split("\t", 1)
            res[i] = o
        if rc == -9:
            MODEL_TIMEOUTS.append(path)
            log("model shard timed out:", path)
        elif rc != 0:
            res["__error__"] = "driver exit %d: %s" % (rc, err.decode("utf-8", "replace")[-500:])
    return res


def run_all(cases, workdir, want_i=True):
    """run I, M and S on the cases; returns (obsI, obsM, obsS) lists"""
    lines = []
    for i, c in enumerate(cases):
        if c.mop:
            lines.append(("%dm" % i, c.mop, c.margs if c.margs is not None else c.args))
        if c.sop:
            lines.append(("%ds" % i, c.sop, c.sargs if c.sargs is not None else c.args))
    d = run_driver(lines, workdir) if lines else {}
    if "__error__" in d:
        log("driver error:", d["__error__"])
    obsM = [d.get("%dm" % i) if cases[i].mop else None for i in range(len(cases))]
    obsS = [d.get("%ds" % i) if cases[i].sop else None for i in range(len(cases))]
    icases = [c for c in cases if c.op]
    io = run_harness(icases, workdir) if (want_i and icases) else []
    obsI, k = [], 0
    for c in cases:
        if c.op and want_i:
            obsI.append(io[k])
            k += 1
        else:
            obsI.append(None)
    return obsI, obsM, obsS


# ---------------------------------------------------------------- shrinking
def shrink_case(case, still_fails, budget=250, shrinkable=None):
    """greedy minimisation of the text arguments of one case while the
    predicate still_fails(case) holds"""
    best = case
    used = 0
    changed = True
    while changed and used < budget:
        changed = False
        for ai in range(len(best.args)):
            if shrinkable is not None and not shrinkable(best, ai):
                continue
            try:
                cs = dec(best.args[ai])
            except ValueError:
                continue
            # delete chunks, then single elements
            n = len(cs)
            size = max(1, n // 2)
            while size >= 1 and used < budget:
                i = 0
                while i + size <= len(cs) and used < budget:
                    cand = cs[:i] + cs[i + size:]
                    a2 = list(best.args)
                    a2[ai] = enc(cand)
                    c2 = Case(best.op, a2, best.mop, best.sop, None, None, best.meta, best.tag)
                    used += 1
                    try:
                        bad = still_fails(c2)
                    except Exception:
                        bad = False
                    if bad:
                        best, cs, changed = c2, cand, True
                    else:
                        i += size
                size //= 2
    return best


# ---------------------------------------------------------------- findings, evidence, replay
def load_known():
    p = os.path.join(ROOT, "known_findings.json")
    if not os.path.exists(p):
        return []
    return json.load(open(p)).get("findings", [])


def write_replay(pid, name, payload):
    d = os.path.join(WORK, "replay")
    os.makedirs(d, exist_ok=True)
    path = os.path.join(d, "%s_%s.json" % (pid, name))
    payload = dict(payload)
    payload["property"] = pid
    json.dump(payload, open(path, "w"), indent=1)
    return path


def write_evidence(pid, tier, seed, coverage, assumptions, wall, violations):
    os.makedirs(EVIDENCE, exist_ok=True)
    ev = {
        "property_id": pid,
        "tier": tier,
        "seed": seed,
        "level": "proof",
        "coverage": coverage,
        "assumptions": assumptions,
        "wall_s": round(wall, 2),
        "violations": violations,
    }
    tmp = os.path.join(EVIDENCE, ".%s.json.tmp" % pid)
    json.dump(ev, open(tmp, "w"), indent=1)
    os.replace(tmp, os.path.join(EVIDENCE, "%s.json" % pid))


# ---------------------------------------------------------------- boundary variants
# Variants of generated cases aimed at what a size- or character-specific special case in the code would key on:
# a run stretched to just below / at / above 255, 1023, 4095, 8191 and 65535, and unusual-but-legal characters at the
# start, at the end and in the middle of an argument.  They go through the same comparison as every other case.
VAR_TEXT_OPS = {"pat.new", "pat.match", "pat.best", "dewey.new", "dewey.match", "pkgname", "sum.parse", "path.new", "dep.new", "dg.name", "md.from"}
VAR_BYTE_OPS = {"stream", "stream.cont", "di.parse", "di.roundtrip", "di.classify", "pl.parse", "pl.entry", "pl.query", "scan.readb"}
VAR_FIRST_TEXT = {"scan.read"}
BOUNDARY_LENGTHS = [254, 255, 256, 257, 1022, 1023, 1024, 1025, 4095, 4096, 4097, 8191, 8192, 8193, 65535, 65536, 65537]
SPECIAL_TEXT = [0, 0x7F, 0x0B, 0x0C, 0x0D, 0x85, 0xA0, 0x2028, 0x2029, 0x3000, 0xFEFF, 0x0301, 0x1F600, 0x212A, 0x130, 0x17F, 0x663, 0xFF11, 0x200B]
SPECIAL_BYTES = [0, 0x7F, 0x0B, 0x0C, 0x0D, 0x85, 0xA0, 0xFF, 0xFE, 0xC3, 0xE9, 0xEF, 0xBB, 0xBF, 0x80]


def boundary_variants(rng, cases, count, max_len=65537):
    pool = [c for c in cases if (c.op in VAR_TEXT_OPS or c.op in VAR_BYTE_OPS or c.op in VAR_FIRST_TEXT) and c.margs is None and c.sargs is None and c.mop == c.op and c.args]
    out = []
    if not pool:
        return out
    lengths = [L for L in BOUNDARY_LENGTHS if L <= max_len]
    for _ in range(count):
        c = rng.choice(pool)
        is_bytes = c.op in VAR_BYTE_OPS
        ai = 0 if c.op in VAR_FIRST_TEXT else rng.randrange(len(c.args))
        try:
            cs = dec(c.args[ai])
        except ValueError:
            continue
        if sum(len(a) for a in c.args) > 400000:
            continue
        r = rng.random()
        kind = None
        if r < 0.45:
            L = rng.choice(lengths)
            i = rng.randrange(len(cs)) if cs else 0
            ch = cs[i] if cs else 97
            if ch in (123, 125, 42) and L > 300:
                ch = 97                       # thousands of braces or stars are a cost question, not a boundary question
            new = cs[:i] + [ch] * (L - 1) + cs[i:]
            kind = "run-%d" % L
        elif r < 0.6:
            # the whole argument brought to a boundary length by repeating its last character
            L = rng.choice(lengths[:11])
            ch = cs[-1] if cs else 97
            if ch in (123, 125, 42, 10):
                ch = 97
            new = cs + [ch] * max(0, L - len(cs))
            kind = "total-%d" % L
        else:
            sp = rng.choice(SPECIAL_BYTES if is_bytes else SPECIAL_TEXT)
            where = rng.choice(["start", "end", "mid", "after-sep"])
            if where == "start":
                new = [sp] + cs
            elif where == "end":
                new = cs + [sp]
            elif where == "mid" or not cs:
                i = rng.randrange(len(cs) + 1)
                new = cs[:i] + [sp] + cs[i:]
            else:
                seps = [k for k, x in enumerate(cs) if x in (10, 32, 45, 47, 58, 61, 44, 40, 41)]
                i = (rng.choice(seps) + rng.choice([0, 1])) if seps else 0
                new = cs[:i] + [sp] + cs[i:]
            kind = "special-%x-%s" % (sp, where)
        args = list(c.args)
        args[ai] = enc(new)
        meta = {"nt": True, "variant": kind}
        out.append(Case(c.op, args, meta=meta, tag="boundary"))
    out += structure_variants(random.Random(rng.random()), pool, max(20, count * 2 // 5))
    return out


# Second family (own random stream, so the first family is unchanged by it):
#  rep-N    one segment of an argument (a line, a blank-separated word, a path component, a dotted or comma-separated
#           item) repeated N times for N around 16 / 32 / 64 / 128 / 256 / 1024 / 65536 - what a counter held in a small
#           integer, a fixed-size table or a depth limit would key on;
#  carpet-L a run of 2-, 3- or 4-byte characters of about L bytes after 0-3 ASCII characters, so that a multi-byte
#           character straddles every fixed byte offset (512, 1024, 4096, 8192, 65536) for one of the shifts - what a
#           block-wise decoder or a byte-indexed slice would key on.
REP_COUNTS = [15, 16, 17, 31, 32, 33, 63, 64, 65, 127, 128, 129, 255, 256, 257, 1023, 1024, 1025, 65535, 65536, 65537]
CARPET_BYTES = [520, 1030, 4100, 8200, 16400, 66000, 132000]
SEG_SEPS = [10, 32, 47, 46, 44, 9]


def structure_variants(rng, pool, count):
    out = []
    for _ in range(count):
        c = rng.choice(pool)
        is_bytes = c.op in VAR_BYTE_OPS
        ai = 0 if c.op in VAR_FIRST_TEXT else rng.randrange(len(c.args))
        try:
            cs = dec(c.args[ai])
        except ValueError:
            continue
        if sum(len(a) for a in c.args) > 400000:
            continue
        if rng.random() < 0.6:
            present = [s for s in SEG_SEPS if s in cs]
            sep = rng.choice(present) if present and rng.random() < 0.85 else rng.choice(SEG_SEPS[:3])
            # segments of the argument at that separator
            idx = [-1] + [k for k, x in enumerate(cs) if x == sep] + [len(cs)]
            j = rng.randrange(len(idx) - 1)
            seg = cs[idx[j] + 1:idx[j + 1]]
            if len(seg) > 200:
                seg = seg[:200]
            N = rng.choice(REP_COUNTS)
            while N * (len(seg) + 1) > 300000:
                N = rng.choice(REP_COUNTS[:18])
            if any(x in (123, 125) for x in seg):
                continue                      # n copies of a brace group have 2^n expansions: a cost question
            if 42 in seg and N > 17:
                N = rng.choice(REP_COUNTS[:3])
            at = idx[j] + 1
            new = cs[:at] + (seg + [sep]) * (N - 1) + cs[at:]
            kind = "rep-%d-sep%d" % (N, sep)
        else:
            L = rng.choice(CARPET_BYTES)
            w, cp = rng.choice([(2, 0xE9), (3, 0x65E5), (4, 0x1F600), (3, 0x20AC), (2, 0x3A9)])
            shift = rng.randrange(4)
            run = [cp] * (L // w)
            if is_bytes:
                b = chr(cp).encode("utf-8")
                run = list(b) * (L // w)
            i = rng.randrange(len(cs) + 1) if cs else 0
            if rng.random() < 0.5:
                # right after a separator (start of a value, a name, a line)
                seps = [k + 1 for k, x in enumerate(cs) if x in (10, 32, 45, 47, 58, 61, 44, 40)]
                i = rng.choice(seps) if seps else i
            new = cs[:i] + [97] * shift + run + cs[i:]
            kind = "carpet-%d-w%d-s%d" % (L, w, shift)
        args = list(c.args)
        args[ai] = enc(new)
        out.append(Case(c.op, args, meta={"nt": True, "variant": kind}, tag="boundary"))
    return out
