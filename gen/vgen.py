"""Generators for version strings, package names and dewey patterns."""

MODS = ["alpha", "beta", "pre", "rc", "pl"]
COLLIDE = ["alph", "bet", "prealpha", "nbeta", "rcnb", "nbnb", "plpha", "pr", "prc", "nbrc", "an", "bn", "pnb", "al", "pha"]
IGNORED = ["+", "~", " ", "é", "漢", "\U0001F600", "-", "!", "K", "ı"]
LETTERS = "abcdefghijklmnopqrstuvwxyz"


def randcase(rng, s):
    r = rng.random()
    if r < 0.55:
        return s
    if r < 0.7:
        return s.upper()
    return "".join(ch.upper() if rng.random() < 0.5 else ch for ch in s)


def digits(rng, long_ok=False):
    r = rng.random()
    if r < 0.25:
        return rng.choice(["0", "1", "2", "9", "10"])
    if r < 0.35:
        return "0" * rng.randint(1, 3) + str(rng.randint(0, 99))
    if r < 0.85:
        return str(rng.randint(0, 10 ** rng.randint(1, 4)))
    if long_ok and r < 0.93:
        n = rng.randint(19, 40)
        return "".join(rng.choice("0123456789") for _ in range(n))
    if long_ok and r < 0.965:
        # a small number written with 20 or more digits: the value counts, not the length of the run
        return "0" * rng.randint(17, 30) + str(rng.randint(0, 99))
    n = rng.randint(15, 18)
    return rng.choice("123456789") + "".join(rng.choice("0123456789") for _ in range(n - 1))


def token(rng, long_ok=False):
    r = rng.random()
    if r < 0.34:
        return digits(rng, long_ok)
    if r < 0.54:
        return rng.choice([".", ".", ".", "_"])
    if r < 0.68:
        return randcase(rng, rng.choice(MODS))
    if r < 0.76:
        return randcase(rng, "nb") + (digits(rng, long_ok) if rng.random() < 0.85 else "")
    if r < 0.88:
        return randcase(rng, rng.choice(LETTERS))
    if r < 0.95:
        return rng.choice(IGNORED)
    return randcase(rng, rng.choice(COLLIDE))


def version(rng, long_ok=False, maxtok=7):
    n = rng.choice([0, 1, 1, 2, 2, 3, 3, 4, 5, maxtok])
    s = "".join(token(rng, long_ok) for _ in range(n))
    return s.replace("-", "") if rng.random() < 0.97 else s


def neighbour(rng, v, long_ok=False):
    """a one-edit neighbour of v: ties and near-ties"""
    r = rng.random()
    if r < 0.25:
        return v + rng.choice([".0", "_", ".", "pl", "PL", ".0.0", "nb0", "alpha", "rc", "pre", "a", "A", "0", "nb1", "nb"])
    if r < 0.35:
        return v[: rng.randint(0, len(v))]
    if r < 0.55 and v:
        i = rng.randrange(len(v))
        return v[:i] + token(rng, long_ok) + v[i + 1:]
    if r < 0.7 and v:
        i = rng.randrange(len(v) + 1)
        return v[:i] + token(rng, long_ok) + v[i:]
    if r < 0.8:
        return v.swapcase()
    if r < 0.9:
        return v.replace(".", "_") if "." in v else v.replace("_", ".")
    return v


def base(rng):
    return rng.choice(["p", "pkg", "foo-bar", "a-b-c", "py39-x", "café", "x11", "lib*", "p-1", "", "P", "g++", "nb", "a1"])


OPS = [">", ">=", "<", "<="]
OPNAME = {">": "GT", ">=": "GE", "<": "LT", "<=": "LE"}
FLIP = {">": "<", ">=": "<=", "<": ">", "<=": ">="}
