"""C18 - PKGNAME decomposition is lossless and consistent across the library."""
from common import Case, enc
import vgen

PID = "C18"
RULE = ("names with 0-4 '-', empty parts, 'nb' inside the base, several 'nb', nb followed by sign/garbage, revisions of 1-18 "
        "digits (and overflowing ones), non-ASCII; PkgName::new compared with the model; the matcher's revision is probed through "
        "'base>=VERnb<k>' / 'base>VERnb<k>' patterns; plus EVERY name of length <= 6 (thorough 7) over 'a-nb1'; non-trivial = the name contains '-' or 'nb'")
FUNCTIONAL = True


def generate(rng, tier):
    n = 1500 if tier == "quick" else 30000
    cases = []
    fixed = ["-foo-1.0", "--1.0nb2", "--x-y-3", "-1.0", "a-", "mktool-1.3.2nb2", "mktool-1.3.2nb", "mktool-1.3-2", "mktool", "1.0nb2", "", "-", "--", "a-", "-1", "nb-nb", "a-nb1nb2", "a-1nb+5", "a-1nb-5",
             "a-1nb99999999999999999999", "a-1nb007", "a-1nbnb3", "a-1nnb4", "é-1nb2", "a-1NB3", "a-1nb3x", "a-nb", "foo-bar-1.0nb12",
             "mysql-client-5.7.44nb1", "py-setuptools-68.0nb1", "a-b-c-1", "libnbcompat-20230904", "nbpatch-1.0", "café-1", "日本-1.22", "é-1", "ab-é", "éé-12",
             # a base or a version that is nothing but white space (ASCII or Unicode) is still a base / a version
             "foo-\u2028", "foo- ", "foo-\t", " -1.0", "\u3000-1.0", "\u0085-\u00a0", "foo-\u00a0nb2", " - ", "foo-\x0b", "foo-1.0 ", " foo-1.0",
             "pkg-1nb2nb", "mktool-1nb3alpha2nb", "pkg-1nb" + "9" * 25, "a" * 300 + "-1.0", "p-" + "1." * 200 + "0nb7"]
    names = list(fixed)
    for _ in range(n):
        parts = [rng.choice(["", "a", "foo", "nb", "py39", "é", "1.0", "x11nb3"]) for _ in range(rng.randint(0, 3))]
        v = vgen.version(rng)
        r = rng.random()
        if r < 0.6:
            v = v.replace("-", "") + "nb" + vgen.digits(rng, long_ok=rng.random() < 0.1)
        elif r < 0.7:
            v = v + rng.choice(["nb", "nb+1", "nb-1", "nbx", "nb 1", "nb1nb", "NB2"])
        names.append("-".join(parts + [v]) if rng.random() < 0.9 else "".join(parts) + v)
    # small scope, exhaustively: every name of length <= 6 (thorough 7) over the characters the split and the revision look at
    import itertools
    for L in range(0, (7 if tier == "quick" else 8)):
        for tup in itertools.product("a-nb1", repeat=L):
            cases.append(Case("pkgname", [enc("".join(tup))], meta={"n": "".join(tup)}, tag="scope"))
    for nm in names:
        cases.append(Case("pkgname", [enc(nm)], meta={"n": nm}))
        if "\n" not in nm and "\r" not in nm:
            # pkg_summary's pkgbase()/pkgversion() must give the same split
            cases.append(Case("sum.ops", ["s:15:" + enc(nm)], meta={"n": nm, "sum": True}))
            # ... also when PKGNAME was set before: an earlier name sharing the 'base-' prefix, a longer one, a shorter one
            # (the split belongs to the current value, nothing of the previous one may survive)
            for prev in (nm.split("-")[0] + "-1.0", nm + "-extra-9", nm[: max(1, len(nm) // 2)], "zz-0"):
                if "\n" not in prev and "\r" not in prev:
                    cases.append(Case("sum.ops", ["s:15:" + enc(prev), "s:15:" + enc(nm)], meta={"n": nm, "sum": True}))
        # revision as used by the comparison: name-version vs the same version with nb k
        if "-" in nm:
            base, ver = nm.rsplit("-", 1)
            if all(ch not in base for ch in "<>{}") and all(ch not in ver for ch in "<>{}") and not ver.startswith("="):
                k = rng.choice([0, 1, 2, 3, 12, 99])
                stem = ver.rsplit("nb", 1)[0] if "nb" in ver else ver
                for op in (">=", ">", "<="):
                    cases.append(Case("dewey.match", [enc(base + op + stem + "nb%d" % k), enc(nm)], meta={"n": nm, "probe": True}))
                # the matcher splits the name at its LAST '-': a pattern whose base is only a '-'-delimited prefix of the
                # PKGBASE never matches, whatever the glued-on rest compares like
                for j, ch in enumerate(base):
                    if ch == "-" and j > 0:
                        for bound in (">=0", "<99999", ">=" + stem):
                            cases.append(Case("dewey.match", [enc(base[:j] + bound), enc(nm)], meta={"n": nm, "probe": True}))
                            cases.append(Case("pat.match", [enc(base[:j] + bound), enc(nm)], meta={"n": nm, "probe": True}))
    return cases


def nontrivial(c):
    return "-" in c.meta.get("n", "") or "nb" in c.meta.get("n", "")


def laws(cases, obsI):
    out = []
    byname = {}
    for i, c in enumerate(cases):
        if c.op == "pkgname":
            byname[c.meta["n"]] = i
    for i, c in enumerate(cases):
        if c.op == "sum.ops" and obsI[i] and "|B=" in obsI[i] and c.meta["n"] in byname:
            j = byname[c.meta["n"]]
            if obsI[j] is None or "|" not in obsI[j]:
                continue
            b, v, _ = obsI[j].split("|")
            f = dict(x.split("=", 1) for x in obsI[i].split("|") if "=" in x)
            if b != "-" and v != "-" and (f.get("B") != "S" + b or f.get("V") != "S" + v):
                out.append({"kind": "summary-split-agrees", "idxs": [i, j], "detail": "Summary %s/%s vs PkgName %s/%s" % (f.get("B"), f.get("V"), b, v)})
    for i, c in enumerate(cases):
        if c.op != "pkgname" or obsI[i] is None or "|" not in obsI[i]:
            continue
        b, v, r = obsI[i].split("|")
        from common import dec
        nm = [ord(ch) for ch in c.meta["n"]]
        bb, vv = dec(b), dec(v)
        if 45 in nm:
            if bb + [45] + vv != nm or 45 in vv:
                out.append({"kind": "rebuild", "idxs": [i], "detail": "base-version does not rebuild the name"})
        else:
            if bb != nm or vv != []:
                out.append({"kind": "no-dash", "idxs": [i], "detail": "name without '-' must be all base"})
    return out


def stats(cases, obsI):
    d = {}
    for c, o in zip(cases, obsI):
        if c.op == "pkgname" and o:
            k = "rev:" + ("none" if o.endswith("|none") else "some")
            d[k] = d.get(k, 0) + 1
    return d
