"""C07 - pkg_summary entries round-trip; printed form independent of call history."""
from common import Case, enc
import sgen

PID = "C07"
RULE = ("random final assignments to a superset of the eleven required variables (values: empty, with '=', spaces, tabs, "
        "non-ASCII; sizes incl. i64::MIN/MAX; line lists of 1-5 lines) realised by TWO different call histories (shuffled order, "
        "overwritten earlier values, set_* versus repeated push_*), each printed, dumped through every getter and re-parsed; "
        "plus the printed text parsed and re-printed; non-trivial = the entry has a list variable or a non-ASCII/'=' value")
FUNCTIONAL = True


def history(rng, e, noisy):
    """a call sequence producing the final values e"""
    ops = []
    vs = list(e)
    rng.shuffle(vs)
    for v in vs:
        x = e[v]
        if noisy and rng.random() < 0.4:
            # an earlier value that gets overwritten
            y = sgen.value(rng, v)
            if v in sgen.KA:
                ops.append("a:%d:%s" % (v, "|".join(enc(s) for s in y)))
            elif v in sgen.KI:
                ops.append("i:%d:%d" % (v, y))
            else:
                ops.append("s:%d:%s" % (v, enc(y)))
        if v in sgen.KA:
            if noisy and rng.random() < 0.5:
                k = rng.randint(0, len(x))
                ops.append("a:%d:%s" % (v, "|".join(enc(s) for s in x[:k])))
                for s in x[k:]:
                    ops.append("p:%d:%s" % (v, enc(s)))
            elif rng.random() < 0.5 and not any(o.startswith(("a:%d:" % v, "p:%d:" % v)) for o in ops):
                for s in x:
                    ops.append("p:%d:%s" % (v, enc(s)))
            else:
                ops.append("a:%d:%s" % (v, "|".join(enc(s) for s in x)))
        elif v in sgen.KI:
            ops.append("i:%d:%d" % (v, x))
        else:
            ops.append("s:%d:%s" % (v, enc(x)))
    if noisy:
        # interleave: move some ops of different variables around (order among different variables is free)
        pass
    return ops


def generate(rng, tier):
    n = 400 if tier == "quick" else 8000
    cases = []
    for g in range(n):
        e = sgen.entry(rng)
        h1 = history(rng, e, False)
        h2 = history(rng, e, True)
        nt = any(v in sgen.KA for v in e) and any(isinstance(x, str) and any(ord(c) > 127 or c == "=" for c in x) for x in e.values())
        cases.append(Case("sum.ops", h1, meta={"group": g, "h": 1, "nt": nt}))
        cases.append(Case("sum.ops", h2, meta={"group": g, "h": 2, "nt": nt}))
        t = sgen.print_entry(e)
        cases.append(Case("sum.parse", [enc(t)], meta={"group": g, "text": t, "nt": nt}))
        # canonical text, decided on the text alone (C07_canonical_text_round_trip / C07_printed_is_canonical): the printed
        # form and one-edit neighbours of it - the model's syntactic predicate must agree with "parses and prints back"
        if g < (120 if tier == "quick" else 3000):
            ls = t.split("\n")[:-1]
            i, j = rng.randrange(len(ls)), rng.randrange(len(ls))
            def with_size(fn):
                return "".join((fn(l) if l.startswith("SIZE_PKG=") or l.startswith("FILE_SIZE=") else l) + "\n" for l in ls)
            muts = [t, t[:-1], t + "\n", t.replace("\n", "\r\n"), "".join(l + "\n" for l in ls[:i] + ls[i + 1:]),
                    "".join(l + "\n" for l in ls[:i] + [ls[i]] + ls[i:]), "".join(l + "\n" for l in ls[:i] + [ls[j]] + ls[i:]),
                    "".join(l + "\n" for l in reversed(ls)), "".join(l + "\n" for l in sorted(ls)),
                    "".join((l + ("\rx" if k == i else "")) + "\n" for k, l in enumerate(ls)),
                    "".join((l + ("\r" if k == i else "")) + "\n" for k, l in enumerate(ls)),
                    "".join((l[:len(l) // 2] + "\r" + l[len(l) // 2:] if k == i else l) + "\n" for k, l in enumerate(ls)),
                    with_size(lambda l: l.replace("=", "=+", 1)), with_size(lambda l: l.replace("=", "=0", 1)), with_size(lambda l: l.replace("=", "=-0", 1) if l.endswith("=0") else l + "0"),
                    with_size(lambda l: l + " "), "\n" + t, " " + t, t.lower(), "".join(l + "\n" for l in ls[:i] + ["X=1"] + ls[i:]),
                    "".join(l + "\n" for l in ls[:i] + [ls[i].replace("=", "", 1)] + ls[i + 1:]), "".join(l + "\n" for l in ls[:i] + [ls[i].replace("=", "==", 1)] + ls[i + 1:])]
            for m in muts:
                cases.append(Case("sum.canon", [enc(m)], meta={"nt": True}))
    # incomplete entries and single setters: printing never depends on completeness
    for _ in range(n // 4):
        e = sgen.entry(rng)
        for v in rng.sample(sorted(e), rng.randint(1, 6)):
            del e[v]
        cases.append(Case("sum.ops", history(rng, e, True), meta={"nt": False}))
    return cases


def nontrivial(c):
    return c.meta.get("nt", False)


def field(o, k):
    for part in o.split("|"):
        if part.startswith(k + "="):
            return part[len(k) + 1:]
    return None


def laws(cases, obsI):
    groups = {}
    for i, c in enumerate(cases):
        if "group" in c.meta:
            groups.setdefault(c.meta["group"], {})[c.meta.get("h", "p")] = i
    out = []
    for g, d in groups.items():
        if 1 in d and 2 in d and obsI[d[1]] != obsI[d[2]]:
            out.append({"kind": "history-independent", "idxs": [d[1], d[2]], "detail": "two call histories with the same final values print or read differently"})
        if "p" in d and 1 in d and obsI[d["p"]] and obsI[d[1]]:
            op = obsI[d["p"]]
            if not op.startswith("OK|"):
                out.append({"kind": "printed-entry-parses", "idxs": [d["p"]], "detail": op})
            elif op[3:] != obsI[d[1]]:
                out.append({"kind": "generate-parse-roundtrip", "idxs": [d[1], d["p"]], "detail": "parsing the printed text gives different values"})
            else:
                t = cases[d["p"]].meta["text"]
                if field(op, "P") != enc(t):
                    out.append({"kind": "parse-generate-roundtrip", "idxs": [d["p"]], "detail": "printing the parsed canonical text does not reproduce it"})
    return out


def stats(cases, obsI):
    d = {}
    for c, o in zip(cases, obsI):
        k = c.op + ":" + (o or "None")[:2]
        d[k] = d.get(k, 0) + 1
    return {"observations": d, "max_ops": max(len(c.args) for c in cases)}


def shrinkable(c, ai):
    return c.op == "sum.parse"
