"""C09 - streamed pkg_summary parsing is independent of how the bytes are chunked."""
from common import Case, enc, dec
import sgen

PID = "C09"
RULE = ("streams of 1-4 complete entries (ASCII and 2/3/4-byte UTF-8 values) cut into successive write() calls: every single "
        "cut, random partitions, fixed chunk sizes 1-9 and byte-at-a-time (thorough: every pair of cuts); malformed streams "
        "= a UTF-8-valid bad entry (unknown variable, missing required variable, no '=', bad size) at every position, under the "
        "same partitions; the chunked run is compared with the one-call run, with the stream itself and with the model; "
        "non-trivial = more than one chunk and a cut that is not on an entry boundary")
FUNCTIONAL = True


def stream_of(rng, k, bad_at=None):
    ents = []
    for i in range(k):
        e = sgen.entry(rng, extra_p=0.15)
        t = sgen.print_entry(e)
        if bad_at == i:
            kind = rng.choice(["var", "missing", "noeq", "int"])
            ls = t.split("\n")[:-1]
            if kind == "var":
                ls.insert(rng.randint(0, len(ls)), "FOO=bar")
            elif kind == "missing":
                ls = [l for l in ls if not l.startswith("PKGPATH=")]
            elif kind == "noeq":
                ls.insert(rng.randint(0, len(ls)), "noequals")
            else:
                ls = [("SIZE_PKG=12x" if l.startswith("SIZE_PKG=") else l) for l in ls]
            t = "".join(l + "\n" for l in ls)
        ents.append(t)
    return ents


def partitions(rng, b, tier):
    n = len(b)
    yield "whole", [b]
    cuts = range(1, n)
    if tier == "quick" and n > 160:
        cuts = sorted(set(rng.sample(range(1, n), 160)))
    for c in cuts:
        yield "cut1", [b[:c], b[c:]]
    for size in (1, 2, 3, 5, 7, 9):
        yield "fixed%d" % size, [b[i:i + size] for i in range(0, n, size)]
    for _ in range(6 if tier == "quick" else 40):
        k = rng.randint(2, 6)
        cs = sorted(rng.sample(range(1, n), min(k, n - 1)))
        yield "random", [b[i:j] for i, j in zip([0] + cs, cs + [n])]
    # two and three cuts: a first write that ends inside the first entry (nothing complete yet), middle writes that
    # complete entries, a last write that only completes the last entry - state kept between writes must stay consistent
    seps = [i + 2 for i in range(n - 1) if b[i:i + 2] == b"\n\n"]
    first_end = seps[0] if seps else n
    for _ in range(60 if tier == "quick" else 1500):
        r = rng.random()
        if r < 0.4 and n > 8:
            c1 = rng.randint(max(1, first_end - 12), max(1, first_end - 2))
            c2 = rng.randint(max(c1 + 1, n - 60), n - 1) if n - 1 > c1 + 1 else c1 + 1
            cs = sorted({c1, c2})
        elif r < 0.7:
            cs = sorted(rng.sample(range(1, n), min(2, n - 1)))
        else:
            cs = sorted(rng.sample(range(1, n), min(3, n - 1)))
        cs = [c for c in cs if 0 < c < n]
        if cs:
            yield "cut%d" % len(cs), [b[i:j] for i, j in zip([0] + cs, cs + [n])]


def generate(rng, tier):
    old = sgen.LONG
    sgen.LONG = False     # every-cut partitions of multi-KiB values would dominate the run
    try:
        return _generate(rng, tier)
    finally:
        sgen.LONG = old


def _generate(rng, tier):
    n = 6 if tier == "quick" else 40
    cases = []
    # long streams (well over 8 KiB, the size at which a consumer might compact its buffer) delivered record by record,
    # in fixed blocks of 1000 / 3000 / 4096 / 5000 / 8192 bytes, and whole: same entries, same errors
    for g in range(2 if tier == "quick" else 6):
        k = 70 + 10 * g
        bad = None if g % 2 == 0 else rng.randrange(k // 2, k)
        ents = stream_of(rng, k, bad)
        b = "".join(t + "\n" for t in ents).encode("utf-8")
        recs = [(t + "\n").encode("utf-8") for t in ents]
        parts = [("whole", [b]), ("per-record", recs)]
        for sz in (1000, 3000, 4096, 5000, 8192):
            parts.append(("fixed-%d" % sz, [b[i:i + sz] for i in range(0, len(b), sz)]))
        for kind, chunks in parts:
            offs, p = [], 0
            for c in chunks[:-1]:
                p += len(c)
                offs.append(p)
            cases.append(Case("stream", [enc(c) for c in chunks],
                              meta={"group": "long%d" % g, "kind": kind, "bad": bad, "k": k, "stream": b, "ents": ents, "nt": len(chunks) > 1, "offs": offs}))
    # a stream of more than 1 MiB (and one of more than 4 MiB in the thorough tier) handed over in ONE write, in 64 KiB
    # blocks and in 8 KiB blocks: the size of a single write is the caller's business
    for g, total in enumerate([1200000] if tier == "quick" else [1200000, 4300000]):
        k = 40
        ents = stream_of(rng, k, None)
        pad = "".join("DESCRIPTION=%s\n" % ("filler line %d " % i * 6) for i in range(total // k // 100))
        ents = [t.replace("DESCRIPTION=", pad + "DESCRIPTION=", 1) if "DESCRIPTION=" in t else t for t in ents]
        b = "".join(t + "\n" for t in ents).encode("utf-8")
        for kind, sz in (("whole", len(b)), ("fixed-65536", 65536), ("fixed-8192", 8192)):
            chunks = [b[i:i + sz] for i in range(0, len(b), sz)]
            offs, p = [], 0
            for c in chunks[:-1]:
                p += len(c)
                offs.append(p)
            cases.append(Case("stream", [enc(c) for c in chunks],
                              meta={"group": "huge%d" % g, "kind": kind, "bad": None, "k": k, "stream": b, "ents": ents, "nt": len(chunks) > 1, "offs": offs}))
    # a malformed entry that is long and full of multi-byte characters (2-, 3- and 4-byte, at every alignment): reported as
    # an error whatever byte offsets an implementation looks at, for every chunking
    for g in range(6 if tier == "quick" else 60):
        k = rng.choice([1, 2, 3])
        bad = rng.randrange(k)
        ents = stream_of(rng, k, bad)
        ch = rng.choice(["\u00e9", "\u65e5", "\U0001F600", "\u20ac"])
        shift = "a" * (g % 4)
        L = rng.choice([200, 400, 1500, 3000, 22000])
        where = rng.choice(["first", "last", "each"])
        ls = ents[bad].split("\n")[:-1]
        carpet = "DESCRIPTION=" + shift + ch * L
        if where == "first":
            ls.insert(0, carpet)
        elif where == "last":
            ls.append(carpet)
        else:
            carpet = "DESCRIPTION=" + shift + ch * min(L, 1500)
            ls = [x for l in ls for x in (l, carpet)]
        ents[bad] = "".join(l + "\n" for l in ls)
        b = "".join(t + "\n" for t in ents).encode("utf-8")
        n_ = len(b)
        parts = [("whole", [b])]
        for sz in (1, 7, 512, 1000, 4096):
            if n_ // sz < 3000 and n_ * (n_ // sz) < 40000000:
                parts.append(("fixed-%d" % sz, [b[i:i + sz] for i in range(0, n_, sz)]))
        for _ in range(4):
            cs = sorted(rng.sample(range(1, n_), 3))
            parts.append(("cut3", [b[i:j] for i, j in zip([0] + cs, cs + [n_])]))
        for kind, chunks in parts:
            offs, p = [], 0
            for c in chunks[:-1]:
                p += len(c)
                offs.append(p)
            cases.append(Case("stream", [enc(c) for c in chunks],
                              meta={"group": "carpet%d" % g, "kind": kind, "bad": bad, "k": k, "stream": b, "ents": ents, "nt": len(chunks) > 1, "offs": offs}))
    for g in range(n):
        k = rng.choice([1, 2, 2, 3, 4])
        bad = None if g % 2 == 0 else rng.randrange(k)
        ents = stream_of(rng, k, bad)
        text = "".join(t + "\n" for t in ents)
        b = text.encode("utf-8")
        bounds = set()
        pos = 0
        for t in ents:
            pos += len((t + "\n").encode("utf-8"))
            bounds.add(pos)
        for kind, chunks in partitions(rng, b, tier):
            offs, p = [], 0
            for c in chunks[:-1]:
                p += len(c)
                offs.append(p)
            cases.append(Case("stream", [enc(c) for c in chunks],
                              meta={"group": g, "kind": kind, "bad": bad, "k": k, "stream": b, "ents": ents,
                                    "nt": len(chunks) > 1 and any(o not in bounds for o in offs), "offs": offs}))
    # a caller that keeps writing after a failed write: what a failed write leaves behind (buffer, entries already
    # pushed) is part of the stream's state, so every later write must still agree with the model
    for g in range(30 if tier == "quick" else 400):
        k = rng.choice([2, 3, 4])
        bad = rng.randrange(k)
        ents = stream_of(rng, k, bad)
        b = "".join(t + "\n" for t in ents).encode("utf-8")
        good = (stream_of(rng, 1, None)[0] + "\n").encode("utf-8")
        cuts = sorted(rng.sample(range(1, len(b)), min(len(b) - 1, rng.choice([1, 2, 3]))))
        chunks = [b[i:j] for i, j in zip([0] + cuts, cuts + [len(b)])]
        tail = rng.choice([[b"x"], [good], [good[:7], good[7:]], [b"\n"], [b"\n\n"], [b"", good], [b"x", b"\n\n", good]])
        cases.append(Case("stream.cont", [enc(c) for c in chunks + tail], meta={"kind": "cont", "nt": True}))
        # first write without a separator, second completes a good record and a bad one, then more
        first = (ents[0] + "\n").encode("utf-8") if bad != 0 else good
        badrec = b"NOT A RECORD\n\n"
        cases.append(Case("stream.cont", [enc(c) for c in [first[:-9], first[-9:] + badrec] + tail + [good]], meta={"kind": "cont", "nt": True}))
    # one record larger than 4 / 8 / 64 KiB: a first write without any separator of 4095 ... bytes, a second write ending
    # exactly on the record boundary, then short writes (offsets remembered across writes must follow the buffer)
    for size in (6000, 10000, 70000):
        rec = stream_of(rng, 1, None)[0] + "DESCRIPTION=" + "x" * size + "\n"
        b = (rec + "\n").encode("utf-8")
        good = (stream_of(rng, 1, None)[0] + "\n").encode("utf-8")
        for cut in (4095, 4096, 4097, 5000, 8192, 8193, 65536, 65537):
            if cut < len(b) - 2:
                cases.append(Case("stream.cont", [enc(c) for c in (b[:cut], b[cut:], good[:10], good[10:], b"x")], meta={"kind": "cont", "nt": True}))
                cases.append(Case("stream.cont", [enc(c) for c in (b[:cut], b[cut:-1], b[-1:], good)], meta={"kind": "cont", "nt": True}))
    # not UTF-8 at all: outside the property, still compared with the model
    for junk in (b"PKGNAME=\xff\n\n", b"\xc3\n\n", b"a=b\n\n\xe9", b"\n\n", b"\n\n\n", b"x"):
        cases.append(Case("stream", [enc(junk)], meta={"kind": "junk", "nt": False}))
        cases.append(Case("stream", [enc(junk[:1]), enc(junk[1:])], meta={"kind": "junk", "nt": False}))
    return cases


def property_fails(c, oi, om, os_):
    """C09 speaks about UTF-8 entries: a disagreement on a stream that is not valid UTF-8 breaks the correspondence, not the property"""
    try:
        b = bytes(x for a in c.args for x in dec(a))
        b.decode("utf-8")
        return True
    except UnicodeDecodeError:
        return False
    except Exception:
        return True


def nontrivial(c):
    return c.meta.get("nt", False)


def laws(cases, obsI):
    out = []
    whole = {}
    for i, c in enumerate(cases):
        if c.meta.get("kind") == "whole":
            whole[c.meta["group"]] = i
    for i, c in enumerate(cases):
        m = c.meta
        if "group" not in m or obsI[i] is None:
            continue
        o = obsI[i]
        w, p = o.split("|")
        writes = w[2:].split(",")
        printed = p[2:]
        if m["bad"] is None:
            # well-formed: every write ok, collection = stream = one-call result
            if any(not x.startswith("ok:") for x in writes) or len(writes) != len(c.args):
                out.append({"kind": "write-fails-on-well-formed-stream", "idxs": [i], "detail": "%s chunks at %s: %s" % (m["kind"], m["offs"][:6], w)})
            elif printed != enc(m["stream"]):
                out.append({"kind": "collection-differs-from-stream", "idxs": [i], "detail": m["kind"]})
            elif writes[-1] != "ok:%d" % m["k"]:
                out.append({"kind": "entry-count", "idxs": [i], "detail": w})
            if obsI[whole[m["group"]]].split("|")[1] != p:
                out.append({"kind": "chunked-differs-from-whole", "idxs": [i, whole[m["group"]]], "detail": m["kind"]})
        else:
            # malformed entry number `bad`: a write no later than the one completing it fails,
            # collected = the well-formed entries before it
            pre = "".join(t + "\n" for t in m["ents"][:m["bad"]]).encode("utf-8")
            endbad = len("".join(t + "\n" for t in m["ents"][:m["bad"] + 1]).encode("utf-8"))
            # index of the write that delivers the last byte of the bad entry's terminator
            tot, widx = 0, None
            for j, a in enumerate(c.args):
                tot += 0 if a == "-" else len(a.split(" "))
                if tot >= endbad:
                    widx = j
                    break
            errs = [j for j, x in enumerate(writes) if x.startswith("err")]
            if not errs:
                out.append({"kind": "malformed-entry-not-reported", "idxs": [i], "detail": "%s: %s" % (m["kind"], w)})
            elif errs[0] > widx:
                out.append({"kind": "malformed-entry-reported-late", "idxs": [i], "detail": "write %d > %d" % (errs[0], widx)})
            elif not writes[errs[0]].startswith("err:"):
                out.append({"kind": "error-kind", "idxs": [i], "detail": writes[errs[0]]})
            elif printed != enc(pre):
                out.append({"kind": "entries-before-failure", "idxs": [i], "detail": "collected entries are not exactly the well-formed ones preceding the bad entry"})
    return out


def stats(cases, obsI):
    d = {}
    for c in cases:
        k = c.meta.get("kind")
        d[k] = d.get(k, 0) + 1
    d["max_stream_bytes"] = max(len(c.meta.get("stream", b"")) for c in cases)
    return d
