"""C08 - pkg_summary parsing accepts exactly complete well-formed entries, else says why."""
from common import Case, enc
import sgen

PID = "C08"
RULE = ("texts = a canonical complete entry with its lines shuffled and variables repeated, plus ONE injected fault: a line "
        "without '=', a misspelt / unknown / lower-case / space-padded name, a non-integer size ('+5' '-0' '5 ' '' overflow "
        "'0x10' '1e3'), each of the eleven required variables removed in turn, CRLF line ends, blank lines, a trailing "
        "unterminated line; plus EVERY sequence of <= 4 (thorough 5) tokens of the line grammar; non-trivial = the text has a fault or a repeated variable")
FUNCTIONAL = True
BADINT = ["", " ", "5 ", " 5", "+", "-", "0x10", "1e3", "9223372036854775808", "-9223372036854775809", "12a", "１２", "5\t"]
OKINT = ["+5", "-0", "007", "-9223372036854775808", "9223372036854775807", "0"]
BADNAME = ["PKGNAM", "pkgname", "PKGNAME ", " PKGNAME", "PKG_NAME", "", "FOO", "SIZE_PKG2", "COMMENT\t", "ÉCOLE", "DESCRIPTION_"]


def lines_of(e):
    out = []
    for v in sorted(e):
        x = e[v]
        for s in (x if v in sgen.KA else [x]):
            out.append((v, "%s=%s" % (sgen.VARS[v], s)))
    return out


def generate(rng, tier):
    n = 600 if tier == "quick" else 12000
    cases = []

    def add(ls, fault, rep):
        t = "".join(l + "\n" for l in ls)
        if rng.random() < 0.1 and ls:
            t = t[:-1]                      # unterminated last line
        cases.append(Case("sum.parse", [enc(t)], meta={"fault": fault, "rep": rep}))

    for _ in range(n):
        e = sgen.entry(rng)
        ls = lines_of(e)
        rep = False
        if rng.random() < 0.5:
            # repeat some variables: single-valued keep the last, lists accumulate
            for _ in range(rng.randint(1, 3)):
                v = rng.choice(sorted(e))
                val = sgen.value(rng, v)
                for s in (val if v in sgen.KA else [val]):
                    ls.insert(rng.randint(0, len(ls)), (v, "%s=%s" % (sgen.VARS[v], s)))
            rep = True
        if rng.random() < 0.6:
            # keep the relative order of lines of one list variable, shuffle the rest
            idx = list(range(len(ls)))
            rng.shuffle(idx)
            order = {}
            buckets = {}
            for i in sorted(idx):
                buckets.setdefault(ls[i][0], []).append(ls[i])
            shuffled = [ls[i] for i in idx]
            out = []
            taken = {}
            for v, _ in shuffled:
                k = taken.get(v, 0)
                out.append(buckets[v][k])
                taken[v] = k + 1
            ls = out
        texts = [l for _, l in ls]
        r = rng.random()
        if r < 0.25:
            add(texts, None, rep)
        elif r < 0.37:
            i = rng.randint(0, len(texts))
            add(texts[:i] + [rng.choice(["garbage", "", "PKGNAME", "no equals here", " "])] + texts[i:], "line", rep)
        elif r < 0.5:
            i = rng.randint(0, len(texts))
            add(texts[:i] + [rng.choice(BADNAME) + "=x"] + texts[i:], "var", rep)
        elif r < 0.65:
            i = rng.randint(0, len(texts))
            add(texts[:i] + [rng.choice(["FILE_SIZE", "SIZE_PKG"]) + "=" + rng.choice(BADINT)] + texts[i:], "int", rep)
        elif r < 0.72:
            i = rng.randint(0, len(texts))
            add(texts[:i] + [rng.choice(["FILE_SIZE", "SIZE_PKG"]) + "=" + rng.choice(OKINT)] + texts[i:], None, True)
        elif r < 0.9:
            v = rng.choice(sgen.REQUIRED)
            add([l for (w, l) in ls if w != v], "missing", rep)
        elif r < 0.95:
            t = "".join(l + "\r\n" for l in texts)
            cases.append(Case("sum.parse", [enc(t)], meta={"fault": "crlf", "rep": rep}))
        else:
            # two faults: the first offending line decides
            i = rng.randint(0, len(texts))
            j = rng.randint(i, len(texts))
            f = [rng.choice(["nolineq", "BAD=1", "SIZE_PKG=x"]) for _ in range(2)]
            add(texts[:i] + [f[0]] + texts[i:j] + [f[1]] + texts[j:], "two", rep)
    # small scope, exhaustively: every sequence of <= 4 (thorough 5) tokens of the line grammar (mostly rejected: the error
    # kind and the line it is reported for are what is compared)
    import itertools
    toks = ["PKGNAME=", "x", "\n", "=", "SIZE_PKG=", "1", " ", "COMMENT=", "\r", "BAD"]
    for L in range(1, (5 if tier == "quick" else 6)):
        for tup in itertools.product(toks, repeat=L):
            cases.append(Case("sum.parse", [enc("".join(tup))], meta={"fault": "scope", "rep": False}, tag="scope"))
    for t in ["", "\n", "\n\n", "=", "=x", "PKGNAME=a", "\r\n"]:
        cases.append(Case("sum.parse", [enc(t)], meta={"fault": "tiny", "rep": False}))
    # unusual-but-legal text around a complete entry: a byte-order mark or other invisible character before the first
    # variable name is part of that name (unknown variable); '\r' other than the one of a CRLF pair is value data;
    # boundary values of the two integers, written with and without sign and padding
    for _ in range(6 if tier == "quick" else 60):
        texts = [l for _, l in lines_of(sgen.entry(rng))]
        body = "".join(l + "\n" for l in texts)
        for pre in ("\ufeff", "\u200b", "\x00", " ", "\ufeff\ufeff"):
            cases.append(Case("sum.parse", [enc(pre + body)], meta={"fault": "prefix", "rep": False}))
        i = rng.randrange(len(texts))
        cases.append(Case("sum.parse", [enc("".join(l + "\n" for l in texts[:i]) + "\ufeff" + "".join(l + "\n" for l in texts[i:]))], meta={"fault": "prefix", "rep": False}))
        for eol in ("\r\r\n", "\r", "\n\r", "\r\n\r\n"):
            cases.append(Case("sum.parse", [enc("".join(l + eol for l in texts))], meta={"fault": "eol", "rep": False}))
        cases.append(Case("sum.parse", [enc(body[:-1] + "\r")], meta={"fault": "eol", "rep": False}))
        cases.append(Case("sum.parse", [enc(body + "SIZE_PKG=4321\r")], meta={"fault": "eol", "rep": False}))
        for num in ("9223372036854775807", "9223372036854775808", "9999999999999999999", "09223372036854775807", "+9223372036854775807", "-9223372036854775808",
                    "-9223372036854775809", "18446744073709551615", "18446744073709551616", "00000000000000000000001", "-0000000000000000000009", "99999999999999999999", "1" + "0" * 19):
            cases.append(Case("sum.parse", [enc(body + "FILE_SIZE=" + num + "\n")], meta={"fault": "intbound", "rep": True}))
            cases.append(Case("sum.parse", [enc(body + "SIZE_PKG=" + num + "\n")], meta={"fault": "intbound", "rep": True}))
    # every text above also goes through the canonical-text decision (C07_canonical_text_iff): the model's syntactic
    # predicate against "parses and prints back the same bytes"
    for c in [c for c in cases if c.op == "sum.parse"]:
        cases.append(Case("sum.canon", c.args, meta=dict(c.meta, canon=True), tag=c.tag))
    # is_completed against the setters: "set" means set, whatever the value - every variable in turn given a degenerate
    # value (empty text, no lines at all, one empty line, 0, i64::MIN) or left unset, the others set normally; and random subsets
    def setop(v, x):
        if v in sgen.KA:
            return "a:%d:%s" % (v, "|".join(enc(s) if s else "-" for s in x))
        if v in sgen.KI:
            return "i:%d:%d" % (v, x)
        return "s:%d:%s" % (v, enc(x))

    def degenerate(v):
        if v in sgen.KA:
            return [[], [""], ["", ""], [" "]]
        if v in sgen.KI:
            return [0, -1, -9223372036854775808, 9223372036854775807]
        return ["", " ", "\u00a0", "="]

    for _ in range(2 if tier == "quick" else 20):
        e = sgen.entry(rng, extra_p=0.3)
        for v in range(23):
            base = [setop(w, e[w]) for w in sorted(e) if w != v]
            have = set(w for w in e if w != v)
            cases.append(Case("sum.ops", base, meta={"fault": "setters", "rep": False, "have": sorted(have)}))
            for x in degenerate(v):
                ops = list(base)
                ops.insert(rng.randint(0, len(ops)), setop(v, x))
                cases.append(Case("sum.ops", ops, meta={"fault": "setters", "rep": False, "have": sorted(have | {v})}))
                if v in sgen.KA:
                    # ... also after an earlier non-empty value, and followed by a push
                    cases.append(Case("sum.ops", [setop(v, ["old"])] + ops, meta={"fault": "setters", "rep": True, "have": sorted(have | {v})}))
                    cases.append(Case("sum.ops", ops + ["p:%d:%s" % (v, enc("new"))], meta={"fault": "setters", "rep": True, "have": sorted(have | {v})}))
    for _ in range(100 if tier == "quick" else 3000):
        e = sgen.entry(rng, extra_p=0.3)
        have = set(rng.sample(sorted(e), rng.randint(0, len(e))))
        if rng.random() < 0.4:
            have |= set(sgen.REQUIRED) & set(e)
        ops = [setop(w, rng.choice(degenerate(w)) if rng.random() < 0.3 else e[w]) for w in sorted(have)]
        rng.shuffle(ops)
        cases.append(Case("sum.ops", ops, meta={"fault": "setters", "rep": False, "have": sorted(have)}))
    return cases


def laws(cases, obsI):
    out = []
    for i, c in enumerate(cases):
        if c.op == "sum.ops" and obsI[i] and "|C=" in obsI[i]:
            flag = obsI[i].split("|C=")[1][:1]
            want = "T" if all(v in c.meta["have"] for v in sgen.REQUIRED) else "F"
            if flag != want:
                out.append({"kind": "is_completed", "idxs": [i], "detail": "variables set: %s; is_completed() = %s" % (c.meta["have"], flag)})
    return out


def nontrivial(c):
    return bool(c.meta.get("fault")) or c.meta.get("rep", False)


def stats(cases, obsI):
    d = {}
    for c, o in zip(cases, obsI):
        k = ("canon:" if c.meta.get("canon") else "") + str(c.meta.get("fault")) + "->" + (o or "None").split("|")[0][:12]
        d[k] = d.get(k, 0) + 1
    return d
