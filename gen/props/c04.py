"""C04 - brace alternation matches exactly the union of its csh-style expansions."""
from common import Case, enc
import pgen

PID = "C04"
RULE = ("pattern trees (depth <= 4, <= 6 groups, 1-4 alternatives, empty alternatives, top-level commas, leaves that make the "
        "expansions plain/glob/dewey/invalid patterns) printed to strings; names = an expansion completed to a match, one-edit "
        "near misses, and cross pairings (prefix of one alternative + tail after a nested '}'); plus unbalanced strings for the "
        "compile half; the implementation is compared with the model AND with the executable spec (existsb over the csh "
        "expansion of the tree); non-trivial = the tree has >= 1 group and the name is non-empty")
FUNCTIONAL = True


def complete(rng, e):
    """turn an expansion string into a name it may match"""
    out = e
    for a, b in (("[0-9]", "7"), ("[!a]", "b"), ("*", rng.choice(["", "x", "-1"])), ("?", "q")):
        out = out.replace(a, b)
    for op in (">=", "<=", ">", "<"):
        if op in out:
            out = out.split(op)[0] + "-" + rng.choice(["1", "1.5", "2", "0"])
            break
    return out


def generate(rng, tier):
    n = 500 if tier == "quick" else 12000
    cases = []
    fixed_unbal = ["{", "}", "{a", "a}", "}{", "{a}}", "{{a}", "{a,b}}>1.0", "foo}b{ar>1.0", "{}", "{,}", "a{}b", "{{}}", "{a}{b}"]
    for p in fixed_unbal:
        cases.append(Case("pat.new", [enc(p)], tag="compile"))
        cases.append(Case("pat.match", [enc(p), enc("ab")], tag="compile"))
    # the compile half, exhaustively: every string over { } a , up to length 6 (thorough: 8)
    import itertools
    maxlen = 6 if tier == "quick" else 8
    for L in range(1, maxlen + 1):
        for tup in itertools.product("{}a,", repeat=L):
            q = "".join(tup)
            if "{" in q or "}" in q:
                cases.append(Case("pat.new", [enc(q)], tag="compile-enum"))
    # depth boundaries: nesting deeper than 255 / 256 / 1000 groups (a byte-sized depth counter would stick), balanced
    # and unbalanced, and many groups side by side
    for d in (254, 255, 256, 257, 1000):
        deep = "{" * d + "foo,bar" + "}" * d + "-1.0"
        cases.append(Case("pat.new", [enc(deep)], tag="depth"))
        for nm in ("foo-1.0", "bar-1.0", "foo,bar-1.0", "baz-1.0"):
            cases.append(Case("pat.match", [enc(deep), enc(nm)], tag="depth", meta={"groups": d}))
        cases.append(Case("pat.new", [enc("{" * (d + 1) + "a" + "}" * d)], tag="depth"))
        cases.append(Case("pat.new", [enc("{" * (d + 45) + "a" + "}" * 255)], tag="depth"))
        cases.append(Case("pat.new", [enc("{" * d + "a" + "}" * (d + 1))], tag="depth"))
    # many expansions: k binary groups side by side have 2^k expansions and only the last one matches (a cap on the
    # number of expansions tried would lose it), and one group with thousands of alternatives
    for k in (10, 12, 13, 14):
        p = "p" + "{a,b}" * k + "-1.0"
        for nm in ("p" + "b" * k + "-1.0", "p" + "a" * k + "-1.0", "p" + "b" * (k - 1) + "c-1.0", "p" + "ab" * (k // 2) + "-1.0"):
            cases.append(Case("pat.match", [enc(p), enc(nm)], tag="wide", meta={"groups": k}))
    for na in (4095, 4096, 4097, 5000, 70000):
        p = "lib{" + ",".join("x%d" % i for i in range(na)) + "}-1.0"
        for nm in ("libx%d-1.0" % (na - 1), "libx0-1.0", "libx%d-1.0" % na):
            cases.append(Case("pat.match", [enc(p), enc(nm)], tag="wide", meta={"groups": 1}))
    # '?' '*' and sets inside alternatives match whole characters, whatever their length in bytes
    for p, nm in (("{a,b}-?.?", "b-\U0001F600.\U0001F600"), ("{xy,a}???", "a\u00e9\u00e9\u00e9"), ("{a,b}?", "a\u6f22"), ("{a,bb}[!x][!x]", "a\U0001F4E6\u00e9"),
                  ("{a,b}-?.?", "b-1.2.3"), ("{a,b}??", "a\u00e9"), ("{a,b}?", "a\u00e9\u00e9"), ("{foo-[0-9,]x,bar-1}", "]x"), ("{foo-[0-9,]x,bar-1}", "foo-1x"),
                  ("{foo-[0-9,]x,bar-1}", "foo-[0-9"), ("{a[,]b}", "a[b"), ("{a[,]b}", "]b"), ("{[a,b]}-1", "a-1")):
        cases.append(Case("pat.new", [enc(p)], tag="chars"))
        cases.append(Case("pat.match", [enc(p), enc(nm)], tag="chars", meta={"groups": 1}))
    for _ in range(n):
        t = pgen.tree(rng)
        p = pgen.tree_print(t)
        if "{" not in p:
            continue
        exps = pgen.tree_exp(t, 512)
        names = set()
        for e in rng.sample(exps, min(3, len(exps))):
            nm = complete(rng, e)
            names.add(nm)
            names.add(pgen.edit(rng, nm))
        # cross pairings: delete one brace-delimited region of the pattern text
        flat = p.replace("{", "").replace("}", "")
        parts = flat.split(",")
        if len(parts) > 1:
            i = rng.randrange(len(parts))
            names.add(complete(rng, "".join(parts[:i] + parts[i + 1:])))
            names.add(complete(rng, parts[0] + parts[-1]))
            names.add(complete(rng, rng.choice(parts) + rng.choice(parts)))
        names.add(complete(rng, flat.replace(",", "")))
        names.add("")
        cases.append(Case("pat.new", [enc(p)]))
        for nm in names:
            cases.append(Case("pat.match", [enc(p), enc(nm)], sop="spec.alt", sargs=[pgen.tree_enc(t), enc(p), enc(nm)],
                              meta={"groups": pgen.tree_ngroups(t), "nexp": len(exps)}))
        if rng.random() < 0.3:
            # unbalance it
            i = rng.randrange(len(p) + 1)
            q = p[:i] + rng.choice("{}") + p[i:] if rng.random() < 0.5 else p.replace(rng.choice("{}"), "", 1)
            cases.append(Case("pat.new", [enc(q)], tag="compile"))
    return cases


def nontrivial(c):
    return c.op == "pat.match" and c.meta.get("groups", 0) >= 1 and c.args[1] != "-"


def stats(cases, obsI):
    d = {}
    g = {}
    for c, o in zip(cases, obsI):
        k = c.op + ":" + str(o)
        d[k] = d.get(k, 0) + 1
        if "groups" in c.meta:
            g[c.meta["groups"]] = g.get(c.meta["groups"], 0) + 1
    return {"observations": d, "groups_histogram": g}
