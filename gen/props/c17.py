"""C17 - no input makes a parser or matcher panic or hang."""
import importlib
import random
from common import Case, enc, dec

PID = "C17"
RULE = ("every operation of every other property's generator (sampled), plus mutation fuzz of those inputs at every entry point "
        "that takes one text/byte string: truncation, duplication, splicing of two documents, 19-40 digit numbers, NUL, control "
        "and (for byte APIs) non-UTF-8 bytes, deleted/duplicated lines, 64 KiB lines, deep brace nesting; each case runs under "
        "catch_unwind with a process watchdog: the observation must equal the model's and never be PANIC / ABORT / HANG; "
        "non-trivial = a mutated or oversized input")
FUNCTIONAL = True
ASSUMPTIONS = ["'promptly' = the whole batch finishes under the harness watchdog; algorithmic cost inherent in a feature (product of alternatives, '*' backtracking) is bounded by the generators (<= 12 groups, <= 6 stars), not by a theorem",
               "stack depth is a runtime effect the model cannot exhibit: it is watched through the process exit status (20000- and 100000-group patterns are run, expected verdicts checked; KF-C17-globdepth: >= ~75000 '*' abort inside the glob crate)"]
OTHERS = ["c01", "c02", "c03", "c04", "c05", "c06", "c07", "c08", "c09", "c10", "c11", "c12", "c13", "c14", "c15", "c16", "c18", "c19", "c20"]
TEXT_OPS = {"pat.new", "pat.match", "pat.best", "dewey.new", "dewey.match", "pkgname", "sum.parse", "path.new", "dep.new", "dg.name", "md.from"}
BYTE_OPS = {"stream", "stream.cont", "di.parse", "di.roundtrip", "di.classify", "pl.parse", "pl.entry", "pl.query"}
FIRST_ARG_TEXT = {"scan.read"}
TWO_BYTE_ARGS = {"di.find"}


def mutate(rng, cs, other, is_bytes):
    cs = list(cs)
    r = rng.random()
    n = len(cs)
    if r < 0.15 and n:
        return cs[: rng.randrange(n)]
    if r < 0.25 and n:
        i = rng.randrange(n)
        return cs[:i] + cs[i:] + cs[i:]
    if r < 0.38 and other:
        i, j = rng.randrange(n + 1), rng.randrange(len(other) + 1)
        return cs[:i] + list(other[j:])
    if r < 0.5:
        i = rng.randrange(n + 1)
        return cs[:i] + [ord(ch) for ch in "".join(rng.choice("0123456789") for _ in range(rng.randint(19, 40)))] + cs[i:]
    if r < 0.6:
        i = rng.randrange(n + 1)
        return cs[:i] + [rng.choice([0, 1, 7, 11, 12, 13, 27, 127, 133, 160] + ([255, 254, 192, 237, 128] if is_bytes else [0x85, 0xA0, 0x2028, 0xFEFF, 0x10FFFF, 0xE000]))] + cs[i:]
    if r < 0.7 and n:
        lines, cur = [], []
        for c in cs:
            cur.append(c)
            if c == 10:
                lines.append(cur)
                cur = []
        lines.append(cur)
        k = rng.randrange(len(lines))
        if rng.random() < 0.5:
            del lines[k]
        else:
            lines.insert(k, lines[k])
        return [c for l in lines for c in l]
    if r < 0.8 and n:
        return [rng.choice(cs) for _ in range(n)]
    if r < 0.9 and n:
        i = rng.randrange(n)
        cs[i] = rng.choice([10, 32, 45, 61, 123, 125, 44, 60, 62, 42, 91, 93, 64, 40, 41, 36, 35, 58, 47, 46])
        return cs
    i = rng.randrange(n + 1)
    ch = rng.choice([97, 48, 32, 47])
    return cs[:i] + [ch] * rng.choice([300, 5000, 65536]) + cs[i:]


def generate(rng, tier):
    per = 300 if tier == "quick" else 1500
    nfuzz = 2500 if tier == "quick" else 60000
    base = []
    for name in OTHERS:
        mod = importlib.import_module("props." + name)
        sub = random.Random(rng.randrange(1 << 30))
        cs = mod.generate(sub, "quick")
        sub.shuffle(cs)
        # every write-after-a-failed-write history is kept: the state a failed write leaves behind must not make a later one panic
        for c in cs[:per] + [c for c in cs[per:] if c.op == "stream.cont"]:
            base.append(Case(c.op, c.args, mop=c.mop, margs=c.margs, meta={"nt": False, "src": name}))
    cases = list(base)
    pool = [c for c in base if c.op in TEXT_OPS or c.op in BYTE_OPS or c.op in FIRST_ARG_TEXT or c.op in TWO_BYTE_ARGS]
    for _ in range(nfuzz):
        c = rng.choice(pool)
        o = rng.choice(pool)
        is_bytes = c.op in BYTE_OPS or c.op in TWO_BYTE_ARGS
        args = list(c.args)
        idxs = [0] if c.op in FIRST_ARG_TEXT else list(range(len(args)))
        ai = rng.choice(idxs)
        try:
            cs_ = dec(args[ai])
            other = dec(rng.choice(o.args)) if o.args and (o.op in BYTE_OPS) == is_bytes else []
        except ValueError:
            continue
        m = mutate(rng, cs_, other, is_bytes)
        if not is_bytes:
            m = [x for x in m if x < 0xD800 or 0xE000 <= x <= 0x10FFFF]
        else:
            m = [x & 0xFF for x in m]
        if c.op.startswith("pat.") or c.op.startswith("dewey.") or c.op == "dep.new":
            # bounded by design: at most 12 brace groups and 6 stars per pattern argument
            if m.count(123) > 12 or m.count(42) > 6:
                continue
        args[ai] = enc(m)
        # 64 KiB inputs are compared with the model too (the models reverse with the linear [frev])
        huge = len(m) > 6000
        cases.append(Case(c.op, args, mop=c.mop, meta={"nt": True, "src": "fuzz-huge" if huge else "fuzz"}))
    # oversized inputs
    big = "9" * 40
    cases.append(Case("pat.match", [enc("p>=" + big), enc("p-" + big + "nb" + big)], meta={"nt": True, "src": "big"}))
    cases.append(Case("sum.parse", [enc("SIZE_PKG=" + big + "\n")], meta={"nt": True, "src": "big"}))
    # extreme components next to negative ones: differences and sums of components must not overflow
    for pat, nm in (("foo>=alpha", "foo-" + "9" * 20), ("p>1.rc1", "p-1." + "9" * 20), ("p<1." + "9" * 20, "p-1.beta"), ("p>=1.0pre", "p-1.0." + "9" * 30),
                    ("p<=9223372036854775807", "p-alpha"), ("p>9223372036854775806rc", "p-9223372036854775807alpha"), ("p>=1nb" + "9" * 20, "p-1nb" + "9" * 19),
                    ("p-[0-9]*", "p-" + "9" * 20)):
        cases.append(Case("pat.match", [enc(pat), enc(nm)], meta={"nt": True, "src": "big"}))
        cases.append(Case("dewey.match", [enc(pat), enc(nm)], meta={"nt": True, "src": "big"}))
    cases.append(Case("pat.best", [enc("p-[0-9]*"), enc("p-" + "9" * 20), enc("p-alpha")], meta={"nt": True, "src": "big"}))
    cases.append(Case("pat.best", [enc("p-[0-9]*"), enc("p-1.rc"), enc("p-1." + "9" * 25)], meta={"nt": True, "src": "big"}))
    cases.append(Case("pat.match", [enc("p<3" + "0" * 65536 + "rc1"), enc("p-3" + "1" * 65536)], meta={"nt": True, "src": "big"}))
    cases.append(Case("pat.match", [enc("p>=1nb" + "7" * 100000), enc("p-1nb" + "8" * 100000)], meta={"nt": True, "src": "big"}))
    cases.append(Case("sum.parse", [enc("SIZE_PKG=-" + "0" * 100000 + "5\n")], meta={"nt": True, "src": "big"}))
    cases.append(Case("pat.match", [enc("p<3" + "0" * 4000 + "rc1"), enc("p-3" + "1" * 4000)], meta={"nt": True, "src": "big"}))
    cases.append(Case("pl.parse", [enc(b"@name " + b"x" * 70000 + b"\n" + b" " * 70000)], meta={"nt": True, "src": "big"}))
    cases.append(Case("di.parse", [enc(b"SHA1 (" + b"n" * 70000 + b") = " + b"a" * 70000)], meta={"nt": True, "src": "big"}))
    cases.append(Case("pl.parse", [enc(b"@name " + b"x" * 3000 + b"\n" + b" " * 3000)], meta={"nt": True, "src": "big"}))
    cases.append(Case("di.parse", [enc(b"SHA1 (" + b"n" * 3000 + b") = " + b"a" * 3000)], meta={"nt": True, "src": "big"}))
    # many items of one kind in a single input (what a count kept in a small integer would overflow at 256 / 65536):
    # words on a distinfo line, '=' and blanks in a pkg_summary value, words of a packing-list command, items of a list
    # variable, version components, path segments, ':' in a dependency
    for N in (254, 255, 256, 257, 1000, 65535, 65536, 65537):
        w = b" w" * N
        cases.append(Case("di.parse", [enc(b"Size (foo-1.0.tar.gz) = 1234" + w + b"\nSHA1 (foo-1.0.tar.gz) = abc" + w + b"\n")], meta={"nt": True, "src": "count"}))
        cases.append(Case("di.parse", [enc(b"$NetBSD$\n\n" + b"x " * N + b"(f) = 1\nSHA1 " + b"(f) " * N + b"= 2\nSHA1 (f) " + b"= " * N + b"3\n")], meta={"nt": True, "src": "count"}))
        cases.append(Case("pl.parse", [enc(b"@name foo-1.0" + w + b"\n@exec" + w + b"\n@pkgdep" + b" " * N + b"a" + b"\t" * N + b"\n" + b"@comment x\n" * min(N, 1000))], meta={"nt": True, "src": "count"}))
        cases.append(Case("pl.query", [enc(b"@cwd /p\n" + b"f\n" * min(N, 1000) + b"@ignore\n" * min(N, 1000) + b"g\n")], meta={"nt": True, "src": "count"}))
        cases.append(Case("sum.parse", [enc("COMMENT=" + "a=b " * N + "\nDEPENDS=x\n" * min(N, 1000))], meta={"nt": True, "src": "count"}))
        cases.append(Case("scan.readb", [enc(b"PKGNAME=a-1\nALL_DEPENDS=" + b"p-[0-9]*:../../c/p " * min(N, 3000) + b"\nMULTI_VERSION=" + b"A=1 " * N + b"\n" + b"PKGNAME=b-2\n" * min(N, 1000)), "N"], meta={"nt": True, "src": "count"}))
        cases.append(Case("dewey.match", [enc("p>=1" + ".0" * N), enc("p-1" + ".0" * (N - 1) + ".1")], meta={"nt": True, "src": "count"}))
        cases.append(Case("pkgname", [enc("a" + "-b" * N + "-1.0nb" + "nb" * N + "3")], meta={"nt": True, "src": "count"}))
        cases.append(Case("path.new", [enc("../" * N + "c/p")], meta={"nt": True, "src": "count"}))
        cases.append(Case("path.new", [enc("c" + "/" * N + "p")], meta={"nt": True, "src": "count"}))
        cases.append(Case("dep.new", [enc("p>=1" + ":" * N + "../../c/p")], meta={"nt": True, "src": "count"}))
    cases.append(Case("pat.match", [enc("{a,b}" * 12 + "-[0-9]*"), enc("ababababababababababab-1")], meta={"nt": True, "src": "big"}))
    # nesting depth (simultaneously open groups) around 255 / 256 / 65535 / 65536, balanced and not, reached through
    # every entry point that compiles a pattern
    for d in (254, 255, 256, 257, 1000, 65535, 65536, 65537):
        deep = "{" * d + "foo,bar" + "}" * d + "-[0-9]*"
        if d <= 1000:
            cases.append(Case("pat.match", [enc(deep), enc("foo-1.0")], meta={"nt": True, "src": "deep"}))     # (quadratic in the depth)
        cases.append(Case("pat.new", [enc(deep)], meta={"nt": True, "src": "deep"}))
        cases.append(Case("pat.new", [enc("{" * d + "a" + "}" * (d - 1))], meta={"nt": True, "src": "deep"}))
        cases.append(Case("pat.new", [enc("{" * d + "a")], meta={"nt": True, "src": "deep"}))
        if d <= 1000:
            cases.append(Case("pat.best", [enc(deep), enc("foo-1.0"), enc("bar-2.0")], meta={"nt": True, "src": "deep"}))
            cases.append(Case("dep.new", [enc(deep + ":../../cat/foo")], meta={"nt": True, "src": "deep"}))
            cases.append(Case("scan.readb", [enc(("PKGNAME=a-1\nALL_DEPENDS=" + deep + ":../../cat/foo\n").encode()), "N"], meta={"nt": True, "src": "deep"}))
    cases.append(Case("pat.match", [enc("{}" * 3000 + "x-1"), enc("x-1")], meta={"nt": True, "src": "deep"}))
    # formerly the known finding KF-C17-altdepth (stack overflow, repaired): very many groups, implementation only, expected verdicts
    # (run on the implementation only: the extracted model needs ~50 s for it; C04_fuel_ok proves its answer exists)
    cases.append(Case("pat.match", [enc("{}" * 20000 + "x-1"), enc("x-1")], mop="", meta={"nt": True, "src": "deep", "expect": "T"}))
    cases.append(Case("pat.match", [enc("{}" * 100000 + "x-1"), enc("y-1")], mop="", meta={"nt": True, "src": "deep", "expect": "F"}))
    cases.append(Case("pat.match", [enc("x{}" * 5000 + "-1"), enc("x" * 5000 + "-1")], meta={"nt": True, "src": "deep"}))
    # very many '*': fine up to tens of thousands; the recorded known finding KF-C17-globdepth beyond (recursion in the glob crate)
    cases.append(Case("pat.match", [enc("*a" * 20000), enc("a" * 20000)], mop="", meta={"nt": True, "src": "deep", "expect": "T"}))
    cases.append(Case("pat.match", [enc("*a" * 20000), enc("a" * 19999 + "b")], mop="", meta={"nt": True, "src": "deep", "expect": "F"}))
    cases.append(Case("pat.match", [enc("*a" * 80000), enc("a" * 80000)], mop="", meta={"nt": True, "src": "KF"}))
    return cases


def nontrivial(c):
    return c.meta.get("nt", False)


def model_post(c, o):
    # digests are outside the model: same post-processing as the properties the cases come from
    if c.op in ("di.verify", "di.verifyl", "di.everify"):
        return importlib.import_module("props.c12").model_post(c, o)
    if c.op.startswith("dg."):
        return importlib.import_module("props.c13").model_post(c, o)
    return o


def known(c, oi, om, os_):
    # (the stack overflow on >= ~10^4 brace groups, formerly KF-C17-altdepth, was repaired in /repo and is reported again if it returns)
    # KF-C17-globdepth: the glob crate's matcher recurses once per '*': >= ~75000 stars abort the process
    if oi == "ABORT" and c.op.startswith("pat.") and c.args and c.args[0].split(" ").count("42") >= 50000:
        return "KF-C17-globdepth"
    return None


def shrinkable(c, ai):
    return c.op in TEXT_OPS or c.op in BYTE_OPS


def laws(cases, obsI):
    out = []
    for i, (c, o) in enumerate(zip(cases, obsI)):
        if o in ("PANIC", "ABORT", "HANG", "NOT-RUN") and not known(c, o, None, None):
            out.append({"kind": "entry-point-" + o.lower(), "idxs": [i], "detail": c.op})
        elif "expect" in c.meta and o != c.meta["expect"]:
            out.append({"kind": "expected-verdict", "idxs": [i], "detail": "%s: expected %s, implementation %s" % (c.op, c.meta["expect"], o)})
    return out[:20]


def stats(cases, obsI):
    d = {}
    for c, o in zip(cases, obsI):
        k = c.meta.get("src", "?")
        d[k] = d.get(k, 0) + 1
    bad = {}
    for o in obsI:
        if o in ("PANIC", "ABORT", "HANG"):
            bad[o] = bad.get(o, 0) + 1
    ops = {}
    for c in cases:
        ops[c.op] = ops.get(c.op, 0) + 1
    return {"by_source": d, "abnormal": bad, "by_op": ops,
            "panic_sites_modelled": ["dewey.rs: digit-run parse (was unwrap; now saturates)", "dewey.rs: Dewey::new slices pattern[a..b] x4 (Panic 1/2 in Dewey.v, proved unreachable)",
                                     "summary.rs: SummaryValue::push / get_s/get_i/get_a kind mismatch (Panic 1/2 in Summary.v, unreachable by C07_api_preserves_kinds)",
                                     "metadata.rs: +SIZE_* parse (was unwrap; now Err)", "pkgdb.rs: v[1] on names without '-' (was index panic; now rsplit_once)",
                                     "pattern.rs: recursion alternate_match -> Pattern::new -> matches (work list since the repair of the stack overflow; C04_worklist_refines, C04_fuel_ok)"]}
