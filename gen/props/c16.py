"""C16 - pbulk-index output splits into one record per PKGNAME, fields never leaking."""
from common import Case, enc

PID = "C16"
RULE = ("record soups: 1-5 blocks, each with any subset/order of the 15 known keys, repeated keys, unknown keys, values with "
        "'=' and surrounding blanks (incl. U+00A0/U+3000), 0-3 list items, blank lines, CRLF, lines without '='; single faults "
        "(block without PKGNAME, leading lines before the first PKGNAME, bad ALL_DEPENDS item, bad PKG_LOCATION, 'PKGNAME =x'); "
        "and a reader failing after k lines for every k; plus EVERY sequence of <= 4 (thorough 5) tokens of the record grammar; non-trivial = >= 2 records or a fault")
FUNCTIONAL = True
SCALARS = ["PKG_SKIP_REASON", "PKG_FAIL_REASON", "NO_BIN_ON_FTP", "RESTRICTED", "CATEGORIES", "MAINTAINER", "USE_DESTDIR", "BOOTSTRAP_PKG", "USERGROUP_PHASE", "PBULK_WEIGHT"]
DEPS = ["mktools-[0-9]*:../../pkgtools/mktools", "pkg>=1.0:cat/pkg", "{a,b}-[0-9]*:../../x/y", "cwrappers>=20150314:../../pkgtools/cwrappers"]
BADDEPS = ["pkg", "a:b:c", "pkg>2>3:../../a/b", "ojnk:foo", "{a:../../a/b", ":", "x:../a/b"]


def value(rng):
    return rng.choice(["", "x", "a b", "k=v", " padded ", " nbsp　", "user-destdir", "100", "yes", "Not for FTP = true", "é"])


def block(rng, fault=None):
    ls = []
    name = rng.choice(["foo-1.0", "bar-2.3nb4", "p5-X-0.01", "nodash", ""])
    if fault != "nopkgname":
        ls.append("PKGNAME=" + name)
    keys = rng.sample(SCALARS, rng.randint(0, 6))
    for k in keys:
        ls.append(k + rng.choice(["=", " = ", "=\t"]) + value(rng))
        if rng.random() < 0.25:
            ls.append(k + "=" + value(rng))           # repeated key: last wins
    if rng.random() < 0.7:
        ls.append("PKG_LOCATION=" + (rng.choice(["cat/pkg", "../../cat/pkg", "a//b/"]) if fault != "badloc" else rng.choice(["cat", "../cat/pkg", "/a/b", ""])))
    if rng.random() < 0.7:
        items = rng.sample(DEPS, rng.randint(0, 3))
        if fault == "baddep":
            items.insert(rng.randint(0, len(items)), rng.choice(BADDEPS))
        # items are separated by any Unicode white space, not only blanks and tabs
        ls.append("ALL_DEPENDS=" + rng.choice([" ", "  ", "\t", " ", "\x0b", "\u0085", "\u00a0", "\u2028", "\u3000", " \u00a0 "]).join(items))
    if rng.random() < 0.5:
        ls.append("SCAN_DEPENDS=" + rng.choice([" ", " ", "\u00a0", "\x0b", "\u2028", "\x0c"]).join(rng.sample(["/usr/pkgsrc/mk/bsd.pkg.mk", "../../a/b/Makefile", "x y", "/é"], rng.randint(0, 3))))
    if rng.random() < 0.4:
        ls.append("MULTI_VERSION=" + rng.choice(["", " PYTHON_VERSION_REQD=311", "A=1 B=2", "  A=1\tB=2  ", "A=1\u3000B=2", "A=1\u0085B=2\x0bC=3"]))
    if rng.random() < 0.4:
        ls.append(rng.choice(["UNKNOWN_KEY=1", "noequals", "=", "=x", "# comment", "PKGNAMEX=y"]))
    head, tail = ls[:1], ls[1:]
    rng.shuffle(tail)
    out = head + tail
    if fault == "spacedname":
        out.insert(rng.randint(1, len(out)), "PKGNAME =zzz-9")
    res = []
    for l in out:
        res.append(rng.choice(["", "", " ", "\t", "", "", "\x0b", "\u0085", "\u00a0", "\u2028", "\u3000", "\x0c"]) + l + rng.choice(["", "", " ", "\r", "", "\u00a0", "\u2028"]))
        if rng.random() < 0.15:
            res.append(rng.choice(["", "   ", "\t"]))
    return res


def generate(rng, tier):
    n = 400 if tier == "quick" else 8000
    cases = []
    # lines far longer than any buffer (64 KiB and more): one logical line stays one line
    for L in (8000, 65530, 65536, 70000, 140000):
        deps = " ".join("/usr/pkgsrc/cat%d/pkg%d/Makefile" % (i, i) for i in range(L // 30))
        filler = "x" * (65536 - len("MULTI_VERSION=") - 1)
        t = "PKGNAME=long-1.0\nSCAN_DEPENDS=" + deps + "\nMULTI_VERSION=" + filler + " PKGNAME=phantom-6.6 B=2\nPKGNAME=next-2.0\nMAINTAINER=" + "m" * L + "\n"
        cases.append(Case("scan.read", [enc(t), "N"], meta={"nt": True, "fault": "long"}))
    # small scope, exhaustively: every sequence of <= 4 (thorough 5) tokens of the record grammar
    import itertools
    toks = ["PKGNAME=", "a-1", "\n", " ", "X=", "ALL_DEPENDS=", "p-[0-9]*:../../c/p", "=", "PKG_LOCATION=c/p"]
    for L in range(1, (5 if tier == "quick" else 6)):
        for tup in itertools.product(toks, repeat=L):
            cases.append(Case("scan.read", [enc("".join(tup)), "N"], meta={"nt": L >= 3, "fault": "scope"}, tag="scope"))
    # long path components (255 / 256 / 1024 / 4096 bytes) in PKG_LOCATION and in the directory of an ALL_DEPENDS item
    for L in (254, 255, 256, 257, 1024, 4096):
        for loc in ("devel/" + "x" * L, "c" * L + "/pkg", "../../" + "c" * L + "/" + "p" * L):
            t = "PKGNAME=a-1\nPKG_LOCATION=" + loc + "\nPKGNAME=b-2\nALL_DEPENDS=p-[0-9]*:../../" + ("c" * L) + "/p q>=1:" + loc + "\n"
            cases.append(Case("scan.read", [enc(t), "N"], meta={"nt": True, "fault": "long-component"}))
    # a PKGNAME line indented or followed by any Unicode white space still starts a record; a line of nothing but such
    # white space is a blank line
    for b in ("\x0b", "\x0c", "\u0085", "\u00a0", "\u1680", "\u2000", "\u2028", "\u2029", "\u202f", "\u205f", "\u3000", "\u200b", "\ufeff"):
        for t in ("PKGNAME=foo-1.0\nMAINTAINER=first\n" + b + "PKGNAME=bar-2.0\nMAINTAINER=second\n", b + "\nPKGNAME=a-1\n", b + "\n", "PKGNAME=a-1" + b + "\nCATEGORIES=x\n" + b + "\nPKGNAME=b-2\n",
                  b + "PKGNAME=a-1\n" + b + "MAINTAINER=m" + b + "\n"):
            cases.append(Case("scan.read", [enc(t), "N"], meta={"nt": True, "fault": "unicode-blank"}))
    for t in ["", "\n\n", "PKGNAME=a-1\n", "PKGNAME=a-1", "X=1\nPKGNAME=a-1\n", "PKGNAME=a-1\nPKGNAME=b-2\n", "PKGNAME=a-1\n\nALL_DEPENDS=\nPKGNAME=b-2\nALL_DEPENDS=x\n"]:
        cases.append(Case("scan.read", [enc(t), "N"], meta={"nt": True}))
    for _ in range(n):
        k = rng.choice([1, 2, 2, 3, 5])
        fault = rng.choice([None, None, None, "nopkgname", "baddep", "badloc", "spacedname", "leading"])
        fi = rng.randrange(k)
        lines = []
        if fault == "leading":
            lines += ["CATEGORIES=misc", "MAINTAINER=x"]
        for i in range(k):
            lines += block(rng, fault if i == fi and fault != "leading" else None)
        t = "\n".join(lines) + rng.choice(["\n", "", "\n\n"])
        cases.append(Case("scan.read", [enc(t), "N"], meta={"nt": k >= 2 or fault is not None, "fault": fault}))
        if rng.random() < 0.15:
            nl = t.count("\n")
            for kk in range(0, nl + 2):
                # every error kind fails the whole read (none is skipped as 'just one bad line')
                cases.append(Case("scan.read", [enc(t), str(kk) + rng.choice(["", "", ":I", ":E", ":B"])], meta={"nt": True, "fault": "io"}))
        if rng.random() < 0.2:
            # raw bytes: a line that is not UTF-8 is an I/O error of BufRead::lines and fails the read; valid UTF-8 passes
            b = t.encode("utf-8")
            i = rng.randrange(len(b) + 1)
            bad = b[:i] + rng.choice([b"\xe9", b"\xff", b"\xc3", b"\xa0"]) + b[i:]
            cases.append(Case("scan.readb", [enc(bad), "N"], meta={"nt": True, "fault": "non-utf8"}))
            cases.append(Case("scan.readb", [enc(b[:i] + "é漢".encode("utf-8") + b[i:]), "N"], meta={"nt": True, "fault": "utf8"}))
    return cases


def nontrivial(c):
    return c.meta.get("nt", False)


def stats(cases, obsI):
    d = {}
    for c, o in zip(cases, obsI):
        k = str(c.meta.get("fault")) + "->" + ("E" if o == "E" else "OK:%d" % (o.count("#") + 1 if o and o != "OK:" else 0))
        d[k] = d.get(k, 0) + 1
    return d
