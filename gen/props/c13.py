"""C13 - digests equal the standard algorithms for every input and every read pattern."""
from common import Case, enc, dec
import hashes

PID = "C13"
RULE = ("byte strings of lengths 0-300 around the block boundaries 55/56/63/64/119/120/127/128, multi-KiB inputs, texts with "
        "'$NetBSD' lines, with and without final newline; each hashed through hash_str (text), hash_file and hash_patch under read "
        "schedules: whole, 1-byte reads, random short reads, reads split inside '$NetBSD' and at '\\n', Interrupted and hard "
        "errors at every position of short schedules; the model says which bytes are hashed, Python hashlib supplies the "
        "standard digest; algorithm-name parsing on case variants; non-trivial = schedule with > 1 read or a '$NetBSD' line")
FUNCTIONAL = True
ASSUMPTIONS = ["Python hashlib (OpenSSL) is the reference for BLAKE2s-256, MD5, RIPEMD-160, SHA-1, SHA-256, SHA-512",
               "that the RustCrypto crates implement those functions is checked differentially here, not proved"]


def model_post(c, o):
    if o.startswith("PRE:"):
        _, a, s = o.split(":", 2)
        data = "".join(chr(x) for x in dec(s)).encode("utf-8")
        return hashes.digest(int(a), data)
    if o.startswith("PREB:"):
        _, a, s = o.split(":", 2)
        return hashes.digest(int(a), bytes(dec(s)))
    return o


def schedules(rng, data, tier):
    n = len(data)
    yield "whole", ["D " + enc(data)] if n else []
    if n and n <= 400:
        yield "bytes", ["D " + enc(data[i:i + 1]) for i in range(n)]
    for _ in range(3 if tier == "quick" else 12):
        evs, i = [], 0
        while i < n:
            k = rng.choice([1, 2, 3, 7, 64, 100, 5000])
            evs.append("D " + enc(data[i:i + k]))
            i += k
            if rng.random() < 0.25:
                evs.append("I")
        if rng.random() < 0.3:
            evs.insert(0, "I")
        yield "random", evs
    # cuts inside "$NetBSD" and around newlines
    for marker in (b"$NetBSD", b"\n"):
        j = data.find(marker)
        if j >= 0:
            for cut in range(j, min(n, j + len(marker) + 1)):
                yield "straddle", ["D " + enc(data[:cut]), "I", "D " + enc(data[cut:])] if 0 < cut < n else ["D " + enc(data)]
    if n <= 12:
        # a hard error or an interruption at every position of a short schedule
        for pos in range(n + 1):
            evs = ["D " + enc(data[i:i + 1]) for i in range(n)]
            yield "error", evs[:pos] + ["X"] + evs[pos:]
            yield "intr", evs[:pos] + ["I"] + evs[pos:]


def generate(rng, tier):
    cases = []
    lens = [0, 1, 2, 3, 55, 56, 57, 63, 64, 65, 111, 112, 119, 120, 127, 128, 129, 200, 300]
    if tier == "thorough":
        lens = list(range(0, 301))
    datas = []
    for L in lens:
        datas.append(bytes(rng.randrange(256) for _ in range(L)))
    datas += [b"abc", b"", b"a" * 1000, bytes(rng.randrange(256) for _ in range(5000)), bytes(rng.randrange(256) for _ in range(20000))]
    patches = [b"$NetBSD: patch-aa,v 1.1 $\n\n--- a\n+++ b\n@@ x\n-old\n+new\n", b"x\n$NetBSD$\ny", b"no newline at end", b"\n\n\n", b"$NetBSD", b"a$NetBS\nD$\n",
               b"l1\r\nl2 $NetBSD$ tail\r\nl3", b"$NetBSD$\n", b"\n", b"x$NetBSDy\nz\n", b"only\n",
               # the marker preceded by '$' or by a partial match of itself (a naive single-pass matcher or a first-'$' test misses these)
               b"a\n$$NetBSD$$\nb\n", b"$N$NetBSD\nk\n", b"$Net$NetBSD: x $\n", b"$5 and $NetBSD: y $\nkeep\n", b"# $$NetBSD$\n", b"${X} $NetBSD\n",
               b"$NetBS$NetBSD\n", b"$$$NetBSD\n", b"$NetBSD$NetBSD\n", b"$OpenBSD: q $ $NetBSD$\nz"]
    for _ in range(10 if tier == "quick" else 100):
        ls = [rng.choice([b"line", b"", b"$NetBSD: x $", b"+ added $NetBSD$ here", b"\xff\xfe", b"--- a/b", b"$NetBS", b"NetBSD$", b"$$NetBSD$$", b"$N$NetBSD", b"$Net$NetBSD: z $", b"$1 $NetBSD$"]) for _ in range(rng.randint(0, 8))]
        patches.append(b"\n".join(ls) + (b"\n" if rng.random() < 0.6 else b""))
    for data in datas + patches:
        algs = range(6) if len(data) <= 300 else [rng.randrange(6)]
        for a in algs:
            for kind, evs in schedules(rng, data, tier):
                if kind in ("bytes", "error", "intr", "straddle") and a != (len(data) + len(evs)) % 6:
                    continue
                nt = len(evs) > 1 or b"$NetBSD" in data
                cases.append(Case("dg.file", [str(a)] + evs, meta={"nt": nt, "kind": kind, "n": len(data)}))
                cases.append(Case("dg.patch", [str(a)] + evs, meta={"nt": nt, "kind": kind, "n": len(data)}))
    # buffer and length boundaries of the patch filter: the marker straddling the 8192-byte refills of a BufReader
    # (first and second), lines of 65535 / 65536 / 65537 / 140000 bytes with the marker at the start, beyond 64 KiB,
    # straddling 64 KiB, or absent; long bursts of Interrupted (a bounded retry loop would give up)
    big = []
    for k in (1, 2):
        for j in range(0, 9):
            off = 8192 * k - j          # offset of the '$' of the marker
            big.append(b"a" * (off - 3) + b"\n+ " + b"$NetBSD: x $ tail\nkeep this line\n")
    for L in (65535, 65536, 65537, 140000):
        big.append(b"b" * L + b"\nnext\n")
        big.append(b"$NetBSD$" + b"b" * L + b"\nnext\n")
        big.append(b"b" * L + b" $NetBSD$\nnext\n")
        big.append(b"b" * (65536 - 3) + b"$NetBSD$" + b"c" * (L - 65536 + 10 if L > 65536 else 10) + b"\nnext")
    for i, data in enumerate(big):
        a = i % 6
        evs = ["D " + enc(data)]
        cases.append(Case("dg.patch", [str(a)] + evs, meta={"nt": True, "kind": "boundary", "n": len(data)}))
        cases.append(Case("dg.file", [str(a)] + evs, meta={"nt": True, "kind": "boundary", "n": len(data)}))
        if i % 5 == 0:
            step = rng.choice([4096, 8192, 10000])
            evs2 = ["D " + enc(data[q:q + step]) for q in range(0, len(data), step)]
            cases.append(Case("dg.patch", [str(a)] + evs2, meta={"nt": True, "kind": "boundary", "n": len(data)}))
    # 0-byte reads (not end of file for a line reader in the middle of a line): modelled as the code behaves
    for evs in (["D " + enc(b"abc"), "D -", "D " + enc(b"def\n")], ["D " + enc(b"l1\nl2"), "D -", "D " + enc(b"\nl3")], ["D " + enc(b"$Net"), "D -", "D " + enc(b"BSD\nx\n")],
                ["D " + enc(b"abc"), "D -", "X"], ["D " + enc(b"abc\n"), "D -", "D " + enc(b"def\n")], ["D -", "D " + enc(b"abc\n")], ["D " + enc(b"a"), "D -", "D -", "D " + enc(b"b")],
                ["D " + enc(b"a"), "D -", "I", "D " + enc(b"b\n"), "D -", "D " + enc(b"c")], ["D " + enc(b"keep\n$NetBSD"), "D -", "D " + enc(b"$ x\nz")]):
        for a in (0, 3):
            cases.append(Case("dg.patch", [str(a)] + evs, meta={"nt": True, "kind": "zero-read", "n": 0}))
            cases.append(Case("dg.file", [str(a)] + evs, meta={"nt": True, "kind": "zero-read", "n": 0}))
    for burst in (127, 128, 129, 130, 500):
        cases.append(Case("dg.file", ["2"] + ["I"] * burst + ["D " + enc(b"hello world")] + ["I"] * burst, meta={"nt": True, "kind": "intr-burst", "n": 11}))
        cases.append(Case("dg.patch", ["3"] + ["D " + enc(b"l1\n$Net")] + ["I"] * burst + ["D " + enc(b"BSD$\nl3")], meta={"nt": True, "kind": "intr-burst", "n": 16}))
    # string entry point: same digest as the reader entry point on the UTF-8 bytes
    for t in ["", "hello there", "é漢\U0001F600", "a" * 64, "a" * 55, "line\n$NetBSD$\n"]:
        for a in range(6):
            cases.append(Case("dg.str", [str(a), enc(t)], meta={"nt": True, "kind": "str"}))
            b = t.encode("utf-8")
            cases.append(Case("dg.file", [str(a)] + (["D " + enc(b)] if b else []), meta={"nt": True, "kind": "str-vs-file", "text": t, "a": a}))
    # names
    for nm in ["SHA1", "sha1", "Sha1", "sHA512", "BLAKE2s", "blake2S", "BLAKE2s", "rmd160", "RMD160", "MD5", "md5", "sha256", "SHA-1", "sha", "", "SHA1 ", " sha1",
               "ſha1", "SHAı", "md５", "RIPEMD160", "sha3", "SHA2560", "İ"]:
        cases.append(Case("dg.name", [enc(nm)], meta={"nt": True, "kind": "name"}))
    return cases


def nontrivial(c):
    return c.meta.get("nt", False)


def laws(cases, obsI):
    out = []
    strs = {}
    for i, c in enumerate(cases):
        if c.op == "dg.str":
            strs[(c.args[0], c.args[1])] = i
    for i, c in enumerate(cases):
        if c.meta.get("kind") == "str-vs-file":
            j = strs.get((str(c.meta["a"]), enc(c.meta["text"])))
            if j is not None and obsI[i] != obsI[j]:
                out.append({"kind": "string-vs-reader", "idxs": [i, j], "detail": "hash_str and hash_file differ on the same bytes"})
        o = obsI[i]
        if c.op in ("dg.file", "dg.str", "dg.patch") and o and not o.startswith("E"):
            width = {0: 64, 1: 32, 2: 40, 3: 40, 4: 64, 5: 128}[int(c.args[0])]
            if len(o) != width or any(ch not in "0123456789abcdef" for ch in o):
                out.append({"kind": "lower-case-hex", "idxs": [i], "detail": o})
    return out


def stats(cases, obsI):
    d = {}
    for c, o in zip(cases, obsI):
        k = c.meta.get("kind", "?") + (":err" if (o or "").startswith("E") else "")
        d[k] = d.get(k, 0) + 1
    return d


def shrinkable(c, ai):
    # argument 0 is the algorithm index; schedule events keep their "D " prefix
    return False
