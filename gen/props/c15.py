"""C15 - PLIST queries agree with each other and with the entry sequence."""
from common import Case, enc
import plgen

PID = "C15"
RULE = ("valid packing lists: any interleaving of files, @ignore (consecutive, trailing, separated from its file by other "
        "commands), @cwd changes (absolute, with trailing '/', non-UTF-8, absent) and every other command kind; all twelve "
        "queries compared with the model and cross-checked on the implementation's own answers (same files in files / "
        "files_prefixed / install / uninstall); non-trivial = the list has an @ignore or an @cwd and >= 2 files")
FUNCTIONAL = True


def valid_line(rng):
    r = rng.random()
    if r < 0.4:
        if rng.random() < 0.06:
            return rng.choice(["\u2028", "\u00a0", "\u0085", "\u3000", "\u2028\u00a0"]).encode()    # a file named by Unicode white space only
        return plgen.filename(rng).replace(b"\n", b"x") or b"f"
    if r < 0.55:
        return b"@ignore"
    if r < 0.7:
        # incl. directories that differ only in bytes that are not UTF-8 (equal after a lossy conversion)
        return b"@cwd " + rng.choice([b"/usr/pkg", b"/", b"/opt/", b"rel", b"\xe9/", b"/a b", b"/opt/caf\xe9", b"/opt/caf\xe8", b"/opt/caf\xe9/", b"/opt/caf\xff", b"/opt/caf\xc3\xa9"])
    c = rng.choice(["@exec", "@unexec", "@pkgdir", "@dirrm", "@display", "@name", "@pkgdep", "@blddep", "@pkgcfl", "@mode", "@owner", "@group", "@comment", "@option"])
    if c == "@option":
        return b"@option preserve"
    if c in ("@mode", "@owner", "@group", "@comment") and rng.random() < 0.4:
        return c.encode()
    # incl. arguments that are nothing but Unicode (not ASCII) white space, and long ones
    return c.encode() + b" " + rng.choice([b"x", b"foo-1.0", b"bin", b"0644", b"a b", b"caf\xc3\xa9", "\u3000".encode(), "\u0085".encode(), "\u00a0\u2028".encode(), b"\x0b",
                                            b"real-1.0", b"n" * 255, b"n" * 256, b"{a,b}" * 60 + b">=1.0"])


def generate(rng, tier):
    n = 600 if tier == "quick" else 12000
    cases = []
    for t in [b"@ignore\n+BUILD\nbin/foo\n@ignore\n@ignore\nx\ny\n@ignore\n", b"@ignore\n@cwd /x\nf\ng\n", b"a\n@cwd /p/\nb\n@cwd q\nc\n", b""]:
        cases.append(Case("pl.query", [enc(t)], meta={"nt": True, "text": t}))
    # only '/' ends a directory: @cwd arguments ending in every other ASCII punctuation character and in bytes >= 0x80
    for last in list(range(33, 48)) + list(range(58, 65)) + list(range(91, 97)) + list(range(123, 127)) + [0x85, 0xA0, 0xE9, 0xFF]:
        for d in (b"/opt/pkg", b"C:", b""):
            t = b"@cwd " + d + bytes([last]) + b"\nbin/foo\n@ignore\n+CONTENTS\nlib/bar\n@cwd /other\nshare/x\n"
            cases.append(Case("pl.query", [enc(t)], meta={"nt": True, "text": t}))
    # long runs of @ignore (what a counter in a small integer would lose track of at 256 / 65536), with and without
    # other commands in between, followed by files
    for N in (254, 255, 256, 257, 511, 512, 513, 65535, 65536, 65537):
        for sep in (b"", b"@comment x\n"):
            if N > 1000 and sep:
                continue
            t = b"bin/first\n" + (b"@ignore\n" + sep) * N + b"+CONTENTS\nbin/last\n@ignore\n+DESC\nbin/end\n"
            cases.append(Case("pl.query", [enc(t)], meta={"nt": True, "text": t}))
    for _ in range(n):
        ls = [valid_line(rng) for _ in range(rng.choice([1, 3, 5, 8, 12]))]
        t = b"\n".join(ls) + b"\n"
        nfiles = sum(1 for l in ls if not l.startswith(b"@"))
        nt = nfiles >= 2 and any(l == b"@ignore" or l.startswith(b"@cwd") for l in ls)
        cases.append(Case("pl.query", [enc(t)], meta={"nt": nt, "text": t}))
    return cases


def nontrivial(c):
    return c.meta.get("nt", False)


def laws(cases, obsI):
    out = []
    for i, c in enumerate(cases):
        o = obsI[i]
        if not o or not o.startswith("files="):
            continue
        f = dict(x.split("=", 1) for x in o.split("|"))
        files = [x for x in f["files"].split(";") if x]
        inst = [x[5:] for x in f["install"].split(";") if x.startswith("File:")]
        unin = [x[5:] for x in f["uninstall"].split(";") if x.startswith("File:")]
        pref = [x for x in f["prefixed"].split(";") if x]
        if files != inst or files != unin:
            out.append({"kind": "views-same-files", "idxs": [i], "detail": "files / install / uninstall list different files"})
        if len(pref) != len(files) or any(not (p == fl or p.endswith(" " + fl)) for p, fl in zip(pref, files)):
            out.append({"kind": "prefixed-same-files", "idxs": [i], "detail": "files_prefixed is not files with a prefix"})
    return out


def stats(cases, obsI):
    d = {"ok": 0, "err": 0}
    for o in obsI:
        d["ok" if (o or "").startswith("files=") else "err"] += 1
    return d
