"""C01 - version comparison follows pkg_install's dewey ordering."""
from common import Case, enc
import common as C
import vgen

PID = "C01"
RULE = ("pairs (A,B) of version strings from the weighted token grammar of gen/vgen.py (digit runs 1-18 digits incl. leading "
        "zeros, '.', '_', the five modifiers and nb in random case, letters in both cases, ignored and non-ASCII characters, "
        "modifier-collision fragments), 70% one-edit neighbours; each pair asked for the four operators through Dewey and "
        "through Pattern and compared with the model (code letter weight) and with the executable spec (table tokeniser, "
        "alphabet-rank weight, padded lexicographic order); best_match asked on glob-matched pairs; "
        "non-trivial = A != B and at least one side has a non-digit token")
FUNCTIONAL = True


import re


def clean(v):
    # C01 quantifies over digit runs of at most 18 digits
    v = re.sub(r"[0-9]{19,}", lambda m: m.group(0)[:18], v)
    v = v.replace("-", "").replace("<", "").replace(">", "").replace("{", "").replace("}", "")
    while v.startswith("="):
        v = v[1:]
    return re.sub(r"[0-9]{19,}", lambda m: m.group(0)[:18], v)


def pairs(rng, n):
    fixed = [("1.0", "1.0pre1"), ("1.0", "1.0PRE1"), ("1.0ALPHA", "1.0"), ("1A", "1a"), ("1.0rc1", "1.0pre1"), ("1.0pl", "1.0"),
             ("1.0", "1_0"), ("1.0", "1.0.0"), ("1", "1."), ("1.0nb1", "1.0"), ("1.0NB2", "1.0nb1"), ("1alpha", "1beta"), ("1beta", "1rc"),
             ("1a", "1_50"), ("1b", "1a"), ("1z", "1.0.26"), ("1é2", "12"), ("1+2", "12"), ("01", "1"), ("1.0alpha1beta2rc3pl4_5nb17", "1.0alpha1beta2rc3pl4_5nb18"),
             ("prealpha", "pre"), ("nbeta", "nb"), ("1nb", "1nb0"), ("999999999999999999", "999999999999999998"), ("", "0"), ("", "."), ("1.", "1.0")]
    out = list(fixed)
    for _ in range(n):
        a = clean(vgen.version(rng))
        b = clean(vgen.neighbour(rng, a)) if rng.random() < 0.7 else clean(vgen.version(rng))
        out.append((a, b))
    return out


def generate(rng, tier):
    n = 1200 if tier == "quick" else 30000
    cases = []
    for a, b in pairs(rng, n):
        for op in vgen.OPS:
            sargs = [vgen.OPNAME[op], enc(a), enc(b)]
            m = {"a": a, "b": b, "op": op}
            cases.append(Case("dewey.match", [enc("p" + op + b), enc("p-" + a)], sop="spec.verdict", sargs=sargs, meta=m))
            cases.append(Case("pat.match", [enc("p" + op + b), enc("p-" + a)], sop="spec.verdict", sargs=sargs, meta=m))
        # best_match must order by the same comparison: glob pattern matching both
        sa = [enc(a), enc(b)]
        cases.append(Case("pat.best", [enc("p-*"), enc("p-" + a), enc("p-" + b)], meta={"a": a, "b": b, "best": True}))
        # hyphenated, different bases: best_match compares what follows the LAST '-'
        b1, b2 = rng.choice([("foo-b", "foo-a"), ("x-9", "x-1"), ("lib-alpha", "lib-beta"), ("a-2.0", "a-1")])
        cases.append(Case("pat.best", [enc("*"), enc(b1 + "-" + a), enc(b2 + "-" + b)], meta={"a": a, "b": b, "best": True}))
        # names without any '-' have the empty version: the text is NOT read as a version
        if a and b and rng.random() < 0.3:
            cases.append(Case("pat.best", [enc("*"), enc("p" + a), enc("p" + b)], meta={"a": a, "b": b, "best": True}))
    if tier == "thorough":
        # every string of length <= 3 over a 14-symbol alphabet against a panel
        alpha = "019._abnArcpl"
        panel = ["", "0", "1", "1.0", "1a", "1.0alpha", "1rc", "1pl", "1nb1", "0.1", "a", "1.1", "1_a", "10", "9", "1b", "1.0nb1", "1pre", "1beta", "1.0.0.1"]
        strs = [""]
        frontier = [""]
        for _ in range(3):
            frontier = [s + ch for s in frontier for ch in alpha]
            strs += frontier
        for s in strs:
            for b in panel:
                op = vgen.OPS[(len(s) + len(b)) % 4]
                cases.append(Case("dewey.match", [enc("p" + op + b), enc("p-" + s)], sop="spec.verdict",
                                  sargs=[vgen.OPNAME[op], enc(s), enc(b)], meta={"a": s, "b": b, "op": op, "enum": True}))
    return cases


def nontrivial(c):
    m = c.meta
    if "a" not in m:
        return True
    return m["a"] != m["b"] and not (m["a"].isdigit() and m["b"].isdigit())


_cache = {}


def known(c, oi, om, os_):
    """KF-C01-rank: implementation == faithful model, differs from the spec, and the pair lies in the
    Coq-defined class letter_conflict (evaluated by the extracted model)"""
    if c.sop != "spec.verdict" or oi != om or oi == os_:
        return None
    a, b = c.sargs[1], c.sargs[2]
    k = (a, b)
    if k not in _cache:
        import tempfile
        d = tempfile.mkdtemp(dir=C.WORK)
        r = C.run_driver([("0", "class.letter_conflict", [a, b])], d, name="kf")
        _cache[k] = r.get("0")
        import shutil
        shutil.rmtree(d, ignore_errors=True)
    return "KF-C01-rank" if _cache[k] == "T" else None


def stats(cases, obsI):
    d = {}
    for c, o in zip(cases, obsI):
        k = c.op + ":" + str(o)[:3]
        d[k] = d.get(k, 0) + 1
    return {"observations": d, "pairs": len({(c.meta.get("a"), c.meta.get("b")) for c in cases})}
