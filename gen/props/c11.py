"""C11 - each recognised distinfo line lands on its file; other lines change nothing."""
from common import Case, enc
import dgen
import hashes

PID = "C11"
RULE = ("texts = interleaved well-formed checksum/size lines for 1-5 files (extra blanks/tabs between fields, leading blanks, "
        "trailing CR, algorithm names in random case) mixed with comment, blank, unknown-algorithm, bad-size, half-formed and "
        "garbage lines; names over arbitrary non-blank bytes; plus the patch/distfile classifier on a table of names; "
        "plus EVERY sequence of <= 4 (thorough 5) tokens of the line grammar; non-trivial = >= 2 files interleaved or a name with a byte >= 0x80")
FUNCTIONAL = True
CLASS_TABLE = ["patch-x", "patch-local-x", "patch-x.orig", "patch-x.rej", "patch-x~", "x.patch-1", "emul-a-patch-b", "emul-patch-b", "emul-a-patch",
               "patch-2.7.6.tar.xz", "dir/patch-x", "patch-x/y", "patch-", "patch", "Patch-x", "emul-a-patch-b.tar.gz", "a/b/../patch-z",
               "patch-x/", "patch-x/.", "patch-x/..", "", "/", ".", "..", "patch-\xe9", "emul-linux-x-patch-1~", "patch-local", "patch-local-", ".orig", "~",
               # '.tar.' must be followed by a further suffix; '.tar', '.target', '.tar_gz', 'tar.' alone do not exempt a patch
               "patch-mk_build.target.mk", "patch-dist_foo.tar", "emul-linux-patch-x.tar_gz", "patch-a.tar", "patch-a.tar.", "patch-a.tar.gz", "patch-atar.gz", "patch-.tar.", "patch-a.TAR.gz",
               # every exemption is positional: 'patch-local-' only as a prefix, '.orig' / '.rej' / '~' only as a suffix
               "patch-src_dispatch-local-queue.c", "emul-linux-patch-local-rules", "patch-xpatch-local-y", "patch-a-patch-local-", "dir/patch-xpatch-local-y",
               "patch-a.orig.c", "patch-a.rej.c", "patch-a~b", "patch-.orig-x", "emul-x-patch-a.orig.c", "patch-local-/patch-x",
               "emul-linux-patch-2.7.6.tar.xz", "emul-patch-aa", "emul--patch-", "emul-patch", "patch-a.orig.gz", "patch-a.rej~", "patch-a~.gz"]


def ws(rng):
    return rng.choice(dgen.BLANKS + [" "] * 4)


def randcase(rng, s):
    return "".join(ch.upper() if rng.random() < 0.5 else ch.lower() for ch in s) if rng.random() < 0.4 else s


def generate(rng, tier):
    n = 500 if tier == "quick" else 10000
    cases = []
    for nm in CLASS_TABLE:
        cases.append(Case("di.classify", [enc(nm.encode("latin-1"))], meta={"nt": True}))
    # only the LAST component decides: every marker the classifier knows placed in a directory component, in front of
    # every kind of last component (and with a trailing '/', which file_name() ignores)
    for d in ("foo-1.0.tar.d", "x.tar.gz", "patch-local-x", "a.orig", "b.rej", "c~", "patch-aa", "emul-x-patch-y", "x.tar.", ".tar.", "dir.orig/sub"):
        for last in ("patch-aa", "emul-x-patch-aa", "foo.tgz", "patch-aa.orig", "patch-local-x", "patch-2.7.6.tar.xz", "patch-bb~", "patch-cc.rej"):
            for nm in (d + "/" + last, d + "/" + last + "/", "./" + d + "/" + last, d + "//" + last):
                cases.append(Case("di.classify", [enc(nm.encode("latin-1"))], meta={"nt": True}))
    # small scope, exhaustively: every sequence of <= 4 (thorough 5) tokens of the line grammar
    import itertools
    toks = [b"SHA1", b"Size", b" ", b"(f)", b"(", b")", b"=", b"1", b"\n", b"bytes", b"patch-a", b"\t"]
    for L in range(1, (5 if tier == "quick" else 6)):
        for tup in itertools.product(toks, repeat=L):
            cases.append(Case("di.parse", [enc(b"".join(tup))], meta={"nt": L >= 3}, tag="scope"))
    for _ in range(n):
        files = []
        for _ in range(rng.randint(1, 5)):
            files.append(dgen.name(rng))
        lines = []
        for _ in range(rng.randint(1, 12)):
            nm = rng.choice(files)
            r = rng.random()
            lead = rng.choice(["", "", " ", "\t", "  "])
            tail = rng.choice(["", "", " ", "\r", " \t"])
            if r < 0.45:
                alg = randcase(rng, hashes.DISPLAY[rng.randrange(6)])
                if rng.random() < 0.03:
                    alg = alg.replace("K", "K").replace("k", "K")
                l = lead.encode() + alg.encode() + ws(rng).encode() + b"(" + nm + b")" + ws(rng).encode() + b"=" + ws(rng).encode() + dgen.hexhash(rng).encode() + tail.encode()
            elif r < 0.65:
                l = lead.encode() + b"Size" + ws(rng).encode() + b"(" + nm + b")" + ws(rng).encode() + b"=" + ws(rng).encode() + (str(dgen.size(rng)).encode() if rng.random() < 0.8 else
                     # valid sizes in unusual spellings: leading zeros, a '+', both, at and beyond 20 characters
                     rng.choice([b"000000000000000000267029", b"+18446744073709551615", b"00000000000000000000", b"+0", b"+000000000000000000007", b"018446744073709551615", b"0" * 40 + b"5"])) + b" bytes" + tail.encode()
            elif r < 0.72:
                l = rng.choice([b"# comment", b"", b"   ", b"#SHA1 (x) = 1", b"\t# c"])
            elif r < 0.8:
                l = rng.choice([b"SHA3", b"CRC32", b"sha-1", b"size"]) + b" (" + nm + b") = " + dgen.hexhash(rng).encode()
            elif r < 0.88:
                l = b"Size (" + nm + b") = " + rng.choice([b"12x", b"", b"-1", b"18446744073709551616", b"1.5", b"+7", b"0x10"]) + b" bytes"
            elif r < 0.94:
                l = rng.choice([b"SHA1", b"SHA1 (" + nm + b")", b"SHA1 (" + nm + b") =", b"SHA1 " + nm + b" = abc", b"SHA1 (" + nm + b" = abc",
                                b"Size", b"Size (" + nm + b")", b"SHA1 (x) = \xff", b"\xffSHA1 (x) = 1", b"SHA1 (a) (b) = c d e", b"$NetBSD: x $", b" $NetBSD: y $", b"$NetBSD$"])
            else:
                l = bytes(rng.randint(0, 255) for _ in range(rng.randint(1, 12))).replace(b"\n", b" ")
            lines.append(l)
        text = b"\n".join(lines) + (b"\n" if rng.random() < 0.7 else b"")
        nt = len(set(files)) >= 2 or any(any(c >= 0x80 for c in f) for f in files)
        cases.append(Case("di.parse", [enc(text)], meta={"nt": nt}))
    return cases


def nontrivial(c):
    return c.meta.get("nt", False)


def stats(cases, obsI):
    d = {"classify": 0, "parse": 0, "entries_seen": 0}
    for c, o in zip(cases, obsI):
        if c.op == "di.classify":
            d["classify"] += 1
        else:
            d["parse"] += 1
            d["entries_seen"] += (o or "").count("~") // 2
    return d
