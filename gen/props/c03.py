"""C03 - version order is a total preorder; operators mutually consistent."""
from common import Case, enc
import vgen

PID = "C03"
RULE = ("triples (A,B,C) of version strings from a weighted token grammar (digit runs incl. 19-40 digits, separators, "
        "modifiers in random case, nb revisions, letters, ignored/non-ASCII characters, modifier collisions), 70% one-edit "
        "neighbours; every ordered pair of the triple is asked through Dewey::new('p'+op+X).matches('p-'+Y) for the four "
        "operators, and two-bound ranges over pairs of the triple incl. equal bounds (law: range = conjunction of its halves); non-trivial = the pair's two strings differ and at least one contains a non-digit token")
ASSUMPTIONS = ["versions placed in a pattern must not contain '<' '>' or start with '=', versions placed in a package name must not contain '-' (they would change the pattern/name structure, not the version)"]
FUNCTIONAL = False


def clean(v):
    v = v.replace("-", "").replace("<", "").replace(">", "")
    while v.startswith("="):
        v = v[1:]
    return v


def generate(rng, tier):
    ntrip = 400 if tier == "quick" else 6000
    cases = []
    fixed = [("1.2", "1.2", "1.2.0"), ("1.0", "1", "1.0nb1"), ("1.0", "1.0.0", "1_0"), ("1.0alpha", "1.0", "1.0nb1"), ("9999999999999999999", "9223372036854775807", "9223372036854775808"),
             ("", ".", "nb"), ("é", "", "~"), ("1a", "1.0.97", "1_50"), ("1.0PRE1", "1.0rc1", "1.0"),
             ("12345678901234567890123", "12345678901234567890124", "1"), ("1nb99999999999999999999", "1nb0", "1")]
    trips = list(fixed)
    # versions whose only significant component lies beyond 255 / 1023 / 4095 characters
    for L in (255, 256, 1023, 1024, 1025, 4096):
        k = (L - 3) // 2
        trips.append(("1" + ".0" * k + ".5", "1", "1" + ".0" * k))
        trips.append(("1" + ".0" * k + ".5", "1" + ".0" * (k + 3) + ".4", "2"))
    for _ in range(ntrip):
        a = clean(vgen.version(rng, long_ok=True))
        if rng.random() < 0.7:
            b = clean(vgen.neighbour(rng, a, True))
            c = clean(vgen.neighbour(rng, rng.choice([a, b]), True))
        else:
            b = clean(vgen.version(rng, True))
            c = clean(vgen.version(rng, True))
        trips.append((a, b, c))
    for g, (a, b, c) in enumerate(trips):
        vs = {"A": a, "B": b, "C": c}
        for x in "ABC":
            for y in "ABC":
                for op in vgen.OPS:
                    # pattern holds Y, package holds X: verdict "X op Y"
                    cases.append(Case("dewey.match", [enc("p" + op + vs[y]), enc("p-" + vs[x])],
                                      meta={"group": g, "x": x, "y": y, "op": op, "vx": vs[x], "vy": vs[y]}))
        # two-bound patterns: the verdict must be the conjunction of the two one-bound verdicts, also when both bounds
        # are the same version (closed range of one point) or tie (1.0 / 1)
        for x in "ABC":
            for (y, z) in (("A", "A"), ("A", "B"), ("B", "A"), ("B", "C"), ("C", "C"), ("C", "B")):
                for lo in (">", ">="):
                    for hi in ("<", "<="):
                        if vs[y] == "" or "<" in vs[y] or ">" in vs[y]:
                            continue
                        cases.append(Case("dewey.match", [enc("p" + lo + vs[y] + hi + vs[z]), enc("p-" + vs[x])],
                                          meta={"group": g, "two": (x, y, lo, z, hi)}))
    return cases


def nontrivial(c):
    m = c.meta
    if "two" in m:
        return True
    if "vx" not in m:
        return True
    return m["vx"] != m["vy"] and (not m["vx"].isdigit() or not m["vy"].isdigit())


def laws(cases, obsI):
    """the seven laws evaluated on the implementation's verdicts alone"""
    groups = {}
    for i, c in enumerate(cases):
        if "group" in c.meta and "x" in c.meta:
            groups.setdefault(c.meta["group"], {})[(c.meta["x"], c.meta["y"], c.meta["op"])] = i
    out = []
    for i, c in enumerate(cases):
        if "two" in c.meta:
            x, y, lo, z, hi = c.meta["two"]
            tab = groups[c.meta["group"]]
            i1, i2 = tab[(x, y, lo)], tab[(x, z, hi)]
            if obsI[i1] in ("T", "F") and obsI[i2] in ("T", "F") and obsI[i] in ("T", "F"):
                want = "T" if (obsI[i1] == "T" and obsI[i2] == "T") else "F"
                if obsI[i] != want:
                    out.append({"kind": "two-bounds-is-and", "idxs": [i, i1, i2], "detail": "range verdict %s, halves %s and %s" % (obsI[i], obsI[i1], obsI[i2])})
    for g, tab in groups.items():
        def v(x, y, op):
            o = obsI[tab[(x, y, op)]]
            return o
        def bad(kind, keys, detail):
            out.append({"kind": kind, "idxs": [tab[k] for k in keys], "detail": detail})
        ok = all(obsI[i] in ("T", "F") for i in tab.values())
        if not ok:
            ks = [k for k in tab if obsI[tab[k]] not in ("T", "F")]
            bad("verdict-not-boolean", ks[:2], "observation %r" % obsI[tab[ks[0]]])
            continue
        for x in "ABC":
            for y in "ABC":
                lt, gt, le, ge = (v(x, y, "<") == "T", v(x, y, ">") == "T", v(x, y, "<=") == "T", v(x, y, ">=") == "T")
                if [lt, gt, le and ge].count(True) != 1:
                    bad("trichotomy", [(x, y, o) for o in vgen.OPS], "lt=%s gt=%s le=%s ge=%s" % (lt, gt, le, ge))
                if le == gt:
                    bad("le-is-not-gt", [(x, y, "<="), (x, y, ">")], "")
                if ge == lt:
                    bad("ge-is-not-lt", [(x, y, ">="), (x, y, "<")], "")
                for op in vgen.OPS:
                    if v(x, y, op) != v(y, x, vgen.FLIP[op]):
                        bad("swap", [(x, y, op), (y, x, vgen.FLIP[op])], "X %s Y differs from Y %s X" % (op, vgen.FLIP[op]))
            if v(x, x, "<=") != "T" or v(x, x, ">=") != "T":
                bad("reflexive", [(x, x, "<="), (x, x, ">=")], "")
        for x in "ABC":
            for y in "ABC":
                for z in "ABC":
                    if v(x, y, "<=") == "T" and v(y, z, "<=") == "T" and v(x, z, "<=") != "T":
                        bad("transitive", [(x, y, "<="), (y, z, "<="), (x, z, "<=")], "")
    return out


def stats(cases, obsI):
    d = {}
    for o in obsI:
        d[o] = d.get(o, 0) + 1
    lens = [len(c.meta.get("vx", "")) for c in cases if "vx" in c.meta]
    return {"verdicts": d, "max_version_len": max(lens) if lens else 0, "triples": len({c.meta.get("group") for c in cases})}
