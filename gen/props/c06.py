"""C06 - best_match returns the matching candidate with the highest version."""
import itertools
from common import Case, enc, dec
import vgen

PID = "C06"
RULE = ("candidate lists of 2-5 names (same and different bases, tied versions such as 1.0/1.0.0/1_0/1pl0, nb revisions incl. repeated and digit-less nb, candidates without any '-', "
        "non-matching names) against glob/dewey/alternate/plain patterns; every ordered pair is asked through best_match and "
        "compared with the model; all permutations (<= 4 candidates) and random reduction trees are folded over the "
        "implementation's own pairwise answers; non-trivial = at least two candidates match the pattern")
FUNCTIONAL = True
TIES = ["1.0", "1.0.0", "1_0", "1pl0", "1.0pl", "1.", "1", "1.0nb0", "01.0", "1.0nb1", "1.0.0nb1", "1.0alpha", "1.0ALPHA", "1.0rc1", "1.0pre1", "2", "0.9", "1a", "1A", "1_a",
        "00000000000000000001.5", "000000000000000000000001", "0000000000000000000000002.0", "1.00000000000000000000", "1nb000000000000000000003", "1nb3nb", "1nb1", "1nb2nb0", "1.0nb2nb", "1nbnb4", "1nb0nb", "0", "", "0alpha1", "alpha"]


def generate(rng, tier):
    n = 250 if tier == "quick" else 6000
    cases = []
    for g in range(n):
        base = rng.choice(["p", "pkg", "a-b", "x"])
        pat = rng.choice([base + "-[0-9]*", base + ">=1", base + ">0<2", "{" + base + ",q}-[0-9]*", base + "-*", base + "-1.0", "*"])
        k = rng.choice([2, 3, 3, 4, 4, 5])
        cands = []
        for _ in range(k):
            r = rng.random()
            v = rng.choice(TIES) if r < 0.6 else vgen.version(rng).replace("-", "")
            b = base if rng.random() < 0.85 else rng.choice(["q", "other", base + "x"])
            cands.append(b + "-" + v)
        if rng.random() < 0.2:
            cands[-1] = cands[0]
        if rng.random() < 0.25 and len(cands) >= 2:
            # letters and modifiers compare case-insensitively: a case variant ties, a neighbouring letter in the other case does not
            v0 = rng.choice(["2.0b", "1.0a", "3c", "1.0rc1", "1.0alpha2", "2.0z", "1.5m4"])
            cands[0] = base + "-" + v0
            cands[1] = base + "-" + rng.choice([v0.upper(), v0.swapcase(), v0[:-1] + chr(ord(v0[-1]) + 1).upper() if v0[-1].isalpha() else v0.upper(), v0.replace("b", "C").replace("a", "B")])
        if rng.random() < 0.35:
            # hyphenated bases that differ after their first '-': the version is what follows the LAST '-'
            hb = rng.sample(["foo-b", "foo-a", "x-9", "x-1", "p5-DBD-mysql", "p5-DBD-MariaDB", "lib-alpha", "lib-beta", "a-2.0", "a-1"], 3)
            pat = rng.choice(["*", "{" + ",".join(hb) + "}-[0-9]*", "*-[0-9]*"])
            cands = [rng.choice(hb) + "-" + rng.choice(["1.0", "2.0", "1.0nb1", "1.5", "0.9", "3"]) for _ in range(k)]
        elif rng.random() < 0.2:
            # candidates without any '-' (only glob, alternate and plain patterns can match them): the version is empty
            pat = rng.choice(["pkg*", "*", "{zlib,zlib-[0-9]*}", "{pkg1,pkg2,pkg-[0-9]*}", "?*"])
            cands = [rng.choice(["pkg1", "pkg2", "pkg", "zlib", "zlib-0.1", "pkg-1", "pkg-0", "pkg-", "-1", "z"]) for _ in range(k)]
        for i, a in enumerate(cands):
            for j, b in enumerate(cands):
                cases.append(Case("pat.best", [enc(pat), enc(a), enc(b)], meta={"group": g, "i": i, "j": j, "cands": cands, "pat": pat}))
            cases.append(Case("pat.match", [enc(pat), enc(a)], meta={"group": g, "m": i}))
    # patterns with thousands of expansions: every candidate the pattern matches takes part, also one that only the
    # last expansion matches
    for gi, k in enumerate((10, 12, 13)):
        pat = "x" + "{a,b}" * k + "-[0-9]*"
        cands = ["x" + "b" * k + "-2.0", "x" + "a" * k + "-1.0", "x" + "b" * (k - 1) + "a-1.5", "x" + "b" * k + "c-9"]
        g = "wide%d" % gi
        for i, a in enumerate(cands):
            for j, b in enumerate(cands):
                cases.append(Case("pat.best", [enc(pat), enc(a), enc(b)], meta={"group": g, "i": i, "j": j, "cands": cands, "pat": pat}))
            cases.append(Case("pat.match", [enc(pat), enc(a)], meta={"group": g, "m": i}))
    return cases


def nontrivial(c):
    return c.op == "pat.best"


def laws(cases, obsI):
    groups = {}
    for idx, c in enumerate(cases):
        if "group" in c.meta:
            g = groups.setdefault(c.meta["group"], {"best": {}, "match": {}, "cands": None})
            if c.op == "pat.best":
                g["best"][(c.meta["i"], c.meta["j"])] = idx
                g["cands"] = c.meta["cands"]
            else:
                g["match"][c.meta["m"]] = idx
    out = []
    import random
    rr = random.Random(12345)
    for gid, g in groups.items():
        cands = g["cands"]
        k = len(cands)

        def best(a, b):
            """a, b: candidate strings or None; uses the implementation's recorded answers"""
            if a is None:
                return b
            if b is None:
                return a
            if a == "?" or b == "?":
                return "?"            # an earlier answer was no answer (panic, error): nothing to fold
            o = obsI[g["best"][(cands.index(a), cands.index(b))]]
            if o == "N":
                return None
            if o is None or not o.startswith("S:"):
                return "?"
            return "".join(chr(x) for x in dec(o[2:]))
        # pairwise facts
        for i in range(k):
            for j in range(k):
                idx = g["best"][(i, j)]
                o = obsI[idx]
                mi, mj = obsI[g["match"][i]] == "T", obsI[g["match"][j]] == "T"
                if (o == "N") != (not mi and not mj):
                    out.append({"kind": "none-iff-neither-matches", "idxs": [idx, g["match"][i], g["match"][j]], "detail": ""})
                    continue
                if o != "N":
                    r = best(cands[i], cands[j])
                    if r not in (cands[i], cands[j]):
                        out.append({"kind": "result-is-an-argument", "idxs": [idx], "detail": repr(r)})
                    elif obsI[g["match"][cands.index(r)]] != "T":
                        out.append({"kind": "result-matches", "idxs": [idx], "detail": ""})
                    if obsI[g["best"][(j, i)]] != o:
                        out.append({"kind": "argument-order", "idxs": [idx, g["best"][(j, i)]], "detail": "best(a,b) != best(b,a)"})
        # reductions: fold over permutations / random trees, using only matching or non-matching candidates alike
        def fold(order):
            acc = None
            first = True
            for c in order:
                if first:
                    # a single candidate reduces with itself (matches?) -> best(c,c)
                    acc = best(c, c)
                    first = False
                else:
                    acc = best(acc, c) if acc is not None else best(c, c)
            return acc
        perms = list(itertools.permutations(cands)) if k <= 4 else [tuple(rr.sample(cands, k)) for _ in range(24)]
        winners = {fold(p) for p in perms}
        if len(winners) > 1:
            out.append({"kind": "reduction-order", "idxs": [g["best"][(0, 1)]], "detail": "winners %r over orders of %r" % (sorted(map(str, winners)), cands)})
    return out


def stats(cases, obsI):
    d = {}
    for c, o in zip(cases, obsI):
        if c.op == "pat.best":
            k = "N" if o == "N" else "some"
            d[k] = d.get(k, 0) + 1
    return d
