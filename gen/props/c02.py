"""C02 - a dewey pattern matches exactly the same-base packages inside its range."""
from common import Case, enc
import vgen

PID = "C02"
RULE = ("patterns = base x operator sequence (all legal and illegal one- and two-operator sequences, 0 and 3-4 operators, "
        "'=>', '>=<=', '><', adjacent operators) x bound texts (empty, versions, text starting with '='); bases with several "
        "'-', non-ASCII, glob characters; names = {base, proper prefix, suffix-extended, case-changed, other} x {-v, no dash, "
        "trailing '-'}; asked through Dewey and through Pattern; plus EVERY string of length <= 4 (thorough 5) over 'p1<>=-.' as a pattern against a name panel; non-trivial = the pattern has >= 1 operator and the name has a '-'")
FUNCTIONAL = True
BOUNDS = ["", "1", "1.0", "2", "1.0nb1", "=1", "1alpha", "0", "10", "1.5", "é", "1-2", "0.0", "0", "", "0nb1", "00"]


def generate(rng, tier):
    n = 700 if tier == "quick" else 15000
    cases = []
    opseqs = [[o] for o in vgen.OPS] + [[a, b] for a in vgen.OPS for b in vgen.OPS] + [[], [">", "<", ">"], ["<", "<", "<", "<"], [">=", "<", "<="]]
    pats = []
    for _ in range(n):
        b = vgen.base(rng)
        b = b.replace("{", "").replace("}", "")
        seq = rng.choice(opseqs)
        p = b
        for o in seq:
            p += o + (rng.choice(BOUNDS) if rng.random() < 0.5 else vgen.version(rng).replace("-", ""))
        if rng.random() < 0.08:
            p = p.replace(">", "=>", 1)
        pats.append((b, p))
    for b, p in pats:
        p = p.replace("{", "").replace("}", "")
        cases.append(Case("dewey.new", [enc(p)]))
        cases.append(Case("pat.new", [enc(p)]))
        names = []
        for bb in [b, b[:-1], b + "x", b.swapcase(), "other"]:
            # versions below zero exist: alpha/beta/rc/pre are negative components
            v = rng.choice(["1", "1.0", "1.5", "2", "0", "1.0nb1", "1.0nb2", "1alpha", "", "10", "0alpha1", "alpha", "0rc1", "0beta3", "pre", "0.0", "0nb1"])
            names += [bb + "-" + v, bb, bb + "-"]
        v = rng.choice(["1", "1.0", "1.5", "2", "0", "10"])
        # the base must equal the text before the LAST '-', not merely be a prefix ending at some '-'
        names += [b + "-bar-" + v, b + "-" + v + "-" + v, b + "--" + v, b + "-vid-1.1", "x-" + b + "-" + v]
        for nm in rng.sample(names[:15], 5) + rng.sample(names[15:], 3):
            cases.append(Case("dewey.match", [enc(p), enc(nm)], meta={"p": p, "n": nm}))
            if "<" in p or ">" in p:
                # for brace-free patterns with an operator the two matchers agree
                cases.append(Case("pat.match", [enc(p), enc(nm)], meta={"p": p, "n": nm}))
    # length boundaries: bounds whose significant component lies beyond 255 / 1023 / 4095 / 8191 characters (a fixed-size
    # buffer or a truncation would cut it off), as one bound and as the lower / upper bound of a range
    for L in (254, 255, 256, 1022, 1023, 1024, 1025, 4095, 4096, 8191, 8192):
        k = (L - 3) // 2
        long_lo = "1" + ".0" * k + ".7"
        for p in ("pkg>=" + long_lo + "<2", "pkg>=" + long_lo, "pkg>1<" + long_lo, "pkg<" + long_lo, "pkg>=" + long_lo + "<=" + long_lo):
            cases.append(Case("dewey.new", [enc(p)], tag="long"))
            for nm in ("pkg-1.0", "pkg-1", "pkg-1.5", "pkg-2", "pkg-" + long_lo, "pkg-1" + ".0" * k + ".8"):
                cases.append(Case("dewey.match", [enc(p), enc(nm)], meta={"p": p, "n": nm}, tag="long"))
                cases.append(Case("pat.match", [enc(p), enc(nm)], meta={"p": p, "n": nm}, tag="long"))
    # bases whose FIRST or SECOND character is not ASCII (the first-two-characters fast reject of Pattern looks exactly
    # there; Dewey has no such filter): matching and non-matching names through both matchers, incl. names that start with
    # the Latin-1 reading of the base's UTF-8 lead byte
    for b in ("été", "éa", "aé", "ü", "日本語", "a日", "a😀", "😀", "Ãx", "é-x", "-é"):
        for p in (b + ">=1.0<2", b + ">=1", b + "<2", b + ">1<=1.5"):
            cases.append(Case("dewey.new", [enc(p)], tag="nonascii"))
            cases.append(Case("pat.new", [enc(p)], tag="nonascii"))
            for nm in (b + "-1.5", b + "-1.0", b + "-2", b + "-0.9", b[:-1] + "-1.5", b + "x-1.5", "Ã" + b[1:] + "-1.5", b.encode("utf-8").decode("latin-1") + "-1.5", b):
                cases.append(Case("dewey.match", [enc(p), enc(nm)], meta={"p": p, "n": nm}, tag="nonascii"))
                cases.append(Case("pat.match", [enc(p), enc(nm)], meta={"p": p, "n": nm}, tag="nonascii"))
    # line terminators and other control characters are ordinary characters of names and bases
    for p, nm in (("foo>=1<3", "foo-2\nbar-x"), ("foo\nbar>=1", "foo\nbar-2"), ("foo>=1", "foo-2\n"), ("foo>=1", "foo-2\r\n"), ("foo>=1", "foo\n-2"),
                  ("foo>=1", "foo-2\x00-x"), ("foo\x00>=1", "foo\x00-2"), ("foo>=1", "foo-2\u2028x-1"), ("foo>=1", "foo-\n2"), ("a\rb<2", "a\rb-1")):
        cases.append(Case("dewey.match", [enc(p), enc(nm)], meta={"p": p, "n": nm}, tag="ctl"))
        cases.append(Case("pat.match", [enc(p), enc(nm)], meta={"p": p, "n": nm}, tag="ctl"))
    # an operator is an operator wherever it stands, also between '[' and ']'
    for p in ("pkg[>1]", "pkg[<1>2]", "pkg[>=1]", "[pkg>1]", "pkg[>1", "pkg]>1[", "p[k]g>1", "pkg>[1]", "pkg[>1]<2", "[a-z]>1", "pkg[!>1]"):
        cases.append(Case("dewey.new", [enc(p)], tag="bracket"))
        cases.append(Case("pat.new", [enc(p)], tag="bracket"))
        for nm in ("pkg[-2", "pkg[-0", "pkg-2", "pkg[-1]", "[pkg-2", "p[k]g-2", "pkg-[1]", "pkg-2]"):
            cases.append(Case("dewey.match", [enc(p), enc(nm)], meta={"p": p, "n": nm}, tag="bracket"))
            cases.append(Case("pat.match", [enc(p), enc(nm)], meta={"p": p, "n": nm}, tag="bracket"))
    # small scope, exhaustively: every string of length <= 4 (thorough: 5) over the characters Dewey::new looks at
    import itertools
    sigma = "p1<>=-."
    panel = ["p-1", "p-1.1", "p-0", "p-", "p", "-1", "1-1", "p1-1", "pp-1", "p-1-1", ""]
    maxlen = 4 if tier == "quick" else 5
    cnt = 0
    for ln in range(0, maxlen + 1):
        for tup in itertools.product(sigma, repeat=ln):
            cnt += 1
            p = "".join(tup)
            cases.append(Case("dewey.new", [enc(p)], tag="scope"))
            for k in range(2):
                nm = panel[(cnt + 4 * k) % len(panel)]
                cases.append(Case("dewey.match", [enc(p), enc(nm)], meta={"p": p, "n": nm}, tag="scope"))
                if "<" in p or ">" in p:
                    cases.append(Case("pat.match", [enc(p), enc(nm)], meta={"p": p, "n": nm}, tag="scope"))
    return cases


def nontrivial(c):
    return c.op.endswith("match") and ("<" in c.meta.get("p", "") or ">" in c.meta.get("p", "")) and "-" in c.meta.get("n", "")


def laws(cases, obsI):
    """the standalone Dewey matcher agrees with the general Pattern matcher"""
    seen = {}
    out = []
    for i, c in enumerate(cases):
        if c.op in ("dewey.match", "pat.match") and "p" in c.meta and ("<" in c.meta["p"] or ">" in c.meta["p"]):
            k = (c.meta["p"], c.meta["n"])
            seen.setdefault(k, {})[c.op] = i
    for k, d in seen.items():
        if len(d) == 2 and obsI[d["dewey.match"]] != obsI[d["pat.match"]]:
            out.append({"kind": "dewey-vs-pattern", "idxs": [d["dewey.match"], d["pat.match"]], "detail": "Dewey and Pattern disagree"})
    return out


def stats(cases, obsI):
    d = {}
    for c, o in zip(cases, obsI):
        k = c.op + ":" + str(o)
        d[k] = d.get(k, 0) + 1
    return {"observations": d}
