"""C12 - checksum and size verification passes only for files that really match."""
from common import Case, enc, dec
import dgen
import hashes

PID = "C12"
RULE = ("a distinfo recording 1-4 files (DIST_SUBDIR names sharing tails, patch files) with TRUE sizes and digests of generated "
        "contents (empty, binary, with/without final newline, with '$NetBSD' lines), then verified against real files written in a "
        "private directory: the exact content, every kind of single corruption (one byte changed, one byte appended/removed), a "
        "corrupted recorded hash / size, an unrecorded algorithm, a missing file, and lookup paths with extra leading directories "
        "or unrelated names; non-trivial = a corruption, a sub-directory lookup or a patch file")
FUNCTIONAL = True
ASSUMPTIONS = ["File::open / metadata().len() / the file system are not modelled: the harness writes real files under a private temp dir and chdir()s into it",
               "digest functions: Python hashlib as reference (see C13)"]
CONTENTS = [b"", b"x", b"hello\n", b"no newline", b"\x00\x01\xff\xfe", b"$NetBSD: patch-aa,v 1.1 $\n\n--- a\n+++ b\n", b"a\n$NetBSD$\nb\n", b"a\nb $NetBSD$\n", b"\n", b"ab" * 100,
            b"a\n$$NetBSD$$\nb\n", b"$N$NetBSD\nk\n", b"$5 and $NetBSD: y $\nkeep\n",
            b"# see CVS keyword $NetBSD\n\n--- a\n+++ b\n", b"keep\n$NetBSD\nkeep2\n", b"keep\n$NetBSD", b"$NetBSD\n", b"keep\nx$NetBS\nD\n", b"k\n$NetBSD\r\nz\n",
            # the marker straddling the first / second 8192-byte refill of the patch reader's buffer
            b"a" * (8192 - 3 - 3) + b"\n+ $NetBSD: x $ tail\nkeep\n", b"a" * (8192 - 3 - 6) + b"\n+ $NetBSD: x $ tail\nkeep\n",
            b"a" * (16384 - 3 - 1) + b"\n+ $NetBSD: x $ tail\nkeep\n", b"a" * (8192 - 3) + b"\n+ $NetBSD$\n",
            # ONE line longer than any reader's block (8 KiB, 64 KiB) with the marker at its start, at its end, in the middle:
            # the whole line is left out, however it is read; and an unterminated last line of exactly one / two blocks
            b"+ $NetBSD: x $ " + b"x" * 9000 + b"\nkeep\n", b"+ " + b"x" * 9000 + b" $NetBSD$\nkeep\n", b"keep\n+ " + b"y" * 8190 + b"$NetBSD$" + b"z" * 8190 + b"\nlast",
            b"+ $NetBSD$ " + b"x" * 70000 + b"\nkeep\n", b"+ " + b"x" * 70000 + b" $NetBSD$\nkeep\n", b"l1\n" + b"q" * (8192 - 3), b"q" * 8192, b"q" * 16384, b"l1\n" + b"q" * 65536]


def model_post(c, o):
    if o.startswith("HASH:"):
        _, a, exp, pre, name = o.split(":", 4)
        a = int(a)
        actual = hashes.digest(a, bytes(dec(pre)))
        expected = "".join(chr(x) for x in dec(exp))
        if actual == expected:
            return "OK:%d" % a
        return "E:Checksum:%d:%s:%s:%s" % (a, exp, enc(actual), name)
    return o


def filter_patch(b):
    if not b:
        return b""
    lines = b.split(b"\n")
    if lines[-1] == b"":
        lines = lines[:-1]
    return b"".join(l + b"\n" for l in lines if b"$NetBSD" not in l)


def generate(rng, tier):
    n = 120 if tier == "quick" else 2500
    cases = []
    # every content of the table at least once as a patch file (filter applies) and as a distfile (it does not), verified
    # exactly and with its last byte dropped - not left to the luck of the draw
    for i, content in enumerate(CONTENTS):
        for nm, is_patch in ((b"patch-aa", True), (b"sub/patch-zz", True), (b"foo-1.0.tar.gz", False)):
            a = (i + len(nm)) % 6
            pre = filter_patch(content) if is_patch else content
            text = b"$NetBSD$\n\n" + dgen.sum_line(a, nm, hashes.digest(a, pre)) + (b"" if is_patch else dgen.size_line(nm, len(content)))
            cases.append(Case("di.verify", [enc(text), enc(nm), enc(content), str(a)], meta={"kind": "table-exact", "nt": True}))
            if content:
                cases.append(Case("di.verify", [enc(text), enc(nm), enc(content[:-1]), str(a)], meta={"kind": "table-drop", "nt": True}))
            if not is_patch:
                cases.append(Case("di.verify", [enc(text), enc(nm), enc(content), "S"], meta={"kind": "table-size", "nt": True}))
    for _ in range(n):
        names = rng.sample([b"foo-1.0.tar.gz", b"dir/foo-1.0.tar.gz", b"other/dir/foo-1.0.tar.gz", b"bar.tgz", b"sub/bar.tgz", b"patch-aa", b"patch-ab",
                            b"go/v1.zip", b"rust/v1.zip", b"v1.zip", b"x/patch-aa", b"caf\xc3\xa0.tgz", b"l\xe9.tgz",
                            # recorded names with many directory components (16 / 17 / 33 / 65 / 300)
                            b"/".join(b"d%d" % i for i in range(15)) + b"/deep-1.0.tar.gz", b"/".join(b"d%d" % i for i in range(16)) + b"/deep-1.0.tar.gz",
                            b"/".join(b"e%d" % i for i in range(32)) + b"/deep-2.0.tar.gz", b"/".join(b"f%d" % i for i in range(64)) + b"/patch-deep",
                            b"/".join(b"g" for i in range(299)) + b"/deep-3.0.tgz"], rng.randint(1, 4))
        files = {}
        text = b"$NetBSD$\n\n"
        for nm in names:
            content = rng.choice(CONTENTS) if rng.random() < 0.7 else bytes(rng.randrange(256) for _ in range(rng.randint(0, 40)))
            is_patch = nm.rsplit(b"/", 1)[-1].startswith(b"patch-")
            algs = rng.sample(range(6), rng.randint(1, 3))
            pre = filter_patch(content) if is_patch else content
            sums = [(a, hashes.digest(a, pre)) for a in algs]
            files[nm] = (content, algs, sums, is_patch)
            for a, h in sums:
                text += dgen.sum_line(a, nm, h)
            if not is_patch and rng.random() < 0.9:
                text += dgen.size_line(nm, len(content))
        for nm, (content, algs, sums, is_patch) in files.items():
            variants = [("exact", nm, content)]
            if content:
                i = rng.randrange(len(content))
                variants.append(("flip", nm, content[:i] + bytes([content[i] ^ 1]) + content[i + 1:]))
                variants.append(("drop", nm, content[:-1]))
            variants.append(("append", nm, content + b"\n"))
            variants.append(("missing", nm, None))
            variants.append(("deeper", b"distfiles/" + nm, content))
            variants.append(("deeper2", b"a/b/" + nm, content))
            variants.append(("unrelated", b"zzz/" + nm.rsplit(b"/", 1)[-1] + b"x", content))
            if b"/" in nm:
                variants.append(("tail-only", nm.rsplit(b"/", 1)[-1], content))
            if is_patch and b"$NetBSD" in content:
                variants.append(("rcs-line-changed", nm, content.replace(b"$NetBSD", b"$NetBSD: new", 1)))
            for kind, path, body in rng.sample(variants, min(len(variants), 4)):
                what = rng.choice(["S"] + [str(a) for a in algs] + [str(rng.randrange(6))])
                # one check in five goes through a symbolic link: size and digest are those of the file it points to
                vop = "di.verifyl" if (body is not None and rng.random() < 0.2) else "di.verify"
                cases.append(Case(vop, [enc(text), enc(path), "N" if body is None else enc(body), what], mop="di.verify",
                                  meta={"kind": kind + ("-symlink" if vop == "di.verifyl" else ""), "nt": kind != "exact" or b"/" in nm or is_patch or vop == "di.verifyl"}))
        # lookups glued to a recorded name without a '/' in between are lookups of OTHER files (no recorded trailing sub-path)
        for nm2 in rng.sample(list(files), min(2, len(files))):
            content2 = files[nm2][0]
            base2 = nm2.rsplit(b"/", 1)[-1]
            for glued in (b"lib" + nm2, b"x" + base2, (nm2.rsplit(b"/", 1)[0] + b"x/" + base2) if b"/" in nm2 else b"zz" + nm2, b"a/b" + nm2):
                cases.append(Case("di.verify", [enc(text), enc(glued), enc(content2), rng.choice(["S"] + [str(a) for a in files[nm2][1]])], meta={"kind": "glued-name", "nt": True}))
                cases.append(Case("di.find", [enc(text), enc(glued)], meta={"kind": "find-glued", "nt": True}))
        # Entry-level verification of a file with ANOTHER name: the entry decides whether the patch filter applies
        for nm2 in rng.sample(list(files), min(2, len(files))):
            content2, algs2, sums2, is_patch2 = files[nm2]
            other = rng.choice([b"Makefile.diff", b"copy.orig", b"patch-zz", b"some.tar.gz", b"dir/patch-copy", b"emul-x-patch-y"])
            for body in (content2, content2 + b"+ $NetBSD: extra $\n", content2.rstrip(b"\n")):
                what = rng.choice([str(a) for a in algs2] + ["S"])
                cases.append(Case("di.everify", [enc(text), enc(nm2), enc(other), enc(body), what], mop="di.verify", margs=[enc(text), enc(nm2), enc(body), what],
                                  meta={"kind": "entry-level", "nt": True}))
        # a corrupted record: change one recorded hash character / the size
        nm = rng.choice(list(files))
        content, algs, sums, is_patch = files[nm]
        bad = text.replace(sums[0][1].encode(), (("0" if sums[0][1][0] != "0" else "1") + sums[0][1][1:]).encode(), 1)
        cases.append(Case("di.verify", [enc(bad), enc(nm), enc(content), str(sums[0][0])], meta={"kind": "bad-record", "nt": True}))
        # a recorded hash that differs from the digest only in letter case is still a mismatch
        h = sums[0][1]
        up = h.upper() if rng.random() < 0.5 else "".join(ch.upper() if (ch.isalpha() and rng.random() < 0.3) else ch for ch in h)
        if up != h:
            cases.append(Case("di.verify", [enc(text.replace(h.encode(), up.encode(), 1)), enc(nm), enc(content), str(sums[0][0])], meta={"kind": "bad-record-case", "nt": True}))
        # a recorded hash that is a proper prefix of the digest, the empty hash, or the digest plus one more character
        for kind2, h2 in (("bad-record-prefix", h[:-1]), ("bad-record-half", h[: len(h) // 2]), ("bad-record-longer", h + "0"), ("bad-record-empty", ""),
                          ("bad-record-nbsp", h + "\u00a0"), ("bad-record-nel", "\u0085" + h), ("bad-record-ls", h + "\u2028"), ("bad-record-vt", h + "\x0b"), ("bad-record-ideo", "\u3000" + h + "\u3000")):
            if rng.random() < 0.6:
                cases.append(Case("di.verify", [enc(text.replace((") = " + h + "\n").encode(), (") = " + h2 + "\n").encode(), 1)), enc(nm), enc(content), str(sums[0][0])], meta={"kind": kind2, "nt": True}))
        bad2 = text.replace(b") = %d bytes" % len(content), b") = %d bytes" % (len(content) + 1))
        cases.append(Case("di.verify", [enc(bad2), enc(nm), enc(content), "S"], meta={"kind": "bad-size-record", "nt": True}))
        cases.append(Case("di.find", [enc(text), enc(b"x/y/" + nm)], meta={"kind": "find", "nt": True}))
    return cases


def nontrivial(c):
    return c.meta.get("nt", False)


def stats(cases, obsI):
    d = {}
    for c, o in zip(cases, obsI):
        k = c.meta.get("kind", "?") + "->" + (o or "None").split(":")[0] + ":" + ((o or "").split(":") + [""])[1][:12]
        d[k] = d.get(k, 0) + 1
    return d


def shrinkable(c, ai):
    return c.op in ("di.verify", "di.verifyl") and ai == 2 and c.args[2] != "N"
