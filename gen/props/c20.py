"""C20 - package database iteration lists each installed package once, correctly split."""
from common import Case, enc

PID = "C20"
RULE = ("directory trees built for real in a private temp dir: package directories with 1-3 '-' in the name, nb revisions, no '-', "
        "non-ASCII names; incomplete directories missing every subset of +COMMENT/+CONTENTS/+DESC; extra metadata files; stray "
        "plain files; the empty database; results compared as sorted lists (directory order is the OS's); plus the 14-entry "
        "metadata table, from_filename on near-miss names, and read_metadata call sequences incl. non-numeric sizes; "
        "non-trivial = the tree has >= 2 entries or an incomplete directory")
FUNCTIONAL = True
ASSUMPTIONS = ["directory enumeration order, fs::read_dir, is_file/exists and read_to_string are not modelled: the harness builds real trees; results are compared sorted"]
NAMES = [b"\xe9-1", "go-tools-v0.1.0", "libfoo-snapshot20190101", "tex-bar-doc-r2019nb1", "trailing-", "p5-No-Comment-0.3", "caf\u00e9-2.0", "foo-1.0", "foo-1.0nb2", "py39-foo-bar-2.3", "a-b-c-d", "nodash", "x-", "-y", "é-1", "pkg_install-20240101", "foo-1.0nb2-extra", "-"]
META = ["+BUILD_INFO", "+BUILD_VERSION", "+COMMENT", "+CONTENTS", "+DEINSTALL", "+DESC", "+DISPLAY", "+INSTALL", "+INSTALLED_INFO", "+MTREE_DIRS", "+PRESERVE", "+REQUIRED_BY", "+SIZE_ALL", "+SIZE_PKG"]
REQ = ["+COMMENT", "+CONTENTS", "+DESC"]


def generate(rng, tier):
    n = 80 if tier == "quick" else 1500
    cases = []
    for i in range(14):
        cases.append(Case("md.table", [str(i)], meta={"nt": True}))
    for s in META + ["+BADFILE", "./+COMMENT", "a/+DESC", "/+CONTENTS", "+COMMENT/", "x/+SIZE_PKG", "./+BUILD_INFO", "+comment", "COMMENT", "+COMMENT ", " +COMMENT", "", "+", "+DESC2", "+SIZE_PKGS", "+DESК"]:
        cases.append(Case("md.from", [enc(s)], meta={"nt": True}))
    vals = ["", " x ", "line1\nline2\n", "\n\nA\r\nB\n", "42", " -7\n", "+5", "abc", "9223372036854775808", "", "1 2", "　pad　", "12\n13"]
    for _ in range(n * 3):
        ops = []
        for _ in range(rng.randint(1, 6)):
            i = rng.randrange(14)
            v = rng.choice(vals) if i < 12 or rng.random() < 0.5 else rng.choice(["42", " -7\n", "+5", "0", "-9223372036854775808"])
            ops.append("%d:%s" % (i, enc(v)))
        cases.append(Case("md.ops", ops, meta={"nt": len(ops) > 1}))
    # is_valid: every subset of the three required entries, set to an empty, a blank-only or a real value, in both orders
    import itertools
    # blank-only values made of every kind of Unicode White_Space (str::trim strips them all: VT, FF, U+0085, U+00A0,
    # U+1680, U+2000..U+200A, U+2028/9, U+202F, U+205F, U+3000) and of near-misses that are NOT white space
    # (U+001C..U+001F, U+200B, U+FEFF, U+180E): one required entry blank in that way, the other two real
    UBLANK = ["\x0b", "\x0c", "\u0085", "\u00a0", "\u00a0\n", " \u1680 ", "\u2000\u2001\u200a", "\u2028", "\u2029\n", "\u202f", "\u205f", "\u3000",
              "\t\x0b \u3000\n", "\x1c", "\x1f ", "\u200b", "\ufeff", "\u180e", "\u00a0x\u00a0", "\x00", "\u0085\u200b\u0085"]
    for b in UBLANK:
        for pos in range(3):
            sub = ["text\n", "x", "y\n"]
            sub[pos] = b
            ops = ["%d:%s" % (i, enc(v)) for i, v in zip((2, 3, 5), sub)]
            cases.append(Case("md.ops", ops, meta={"nt": True}))
            cases.append(Case("md.ops", list(reversed(ops)), meta={"nt": True}))
            # the blank value written after a real one (last write wins) and before it
            cases.append(Case("md.ops", ops + ["%d:%s" % ((2, 3, 5)[pos], enc("real"))], meta={"nt": True}))
            cases.append(Case("md.ops", ["%d:%s" % ((2, 3, 5)[pos], enc("real"))] + ops, meta={"nt": True}))
    for sub in itertools.product(["absent", "", " \n", "text\n"], repeat=3):
        ops = ["%d:%s" % (i, enc(v)) for i, v in zip((2, 3, 5), sub) if v != "absent"]
        if ops:
            cases.append(Case("md.ops", ops, meta={"nt": True}))
            cases.append(Case("md.ops", list(reversed(ops)) + ["13:%s" % enc("42")], meta={"nt": True}))
    cases.append(Case("db.iter", [], meta={"nt": True}))
    # contents of the metadata files: what read_metadata returns is the whole file when it is UTF-8, however long it is and
    # wherever its multi-byte characters fall (2-, 3- and 4-byte characters straddling 4096 / 8192 / 65536 at every
    # alignment), and an error when it is not UTF-8 - also when the offending byte comes late
    conts = []
    for block in (4096, 8192, 65536):
        for ch in ("\u00e9", "\u65e5", "\U0001F600"):
            w = len(ch.encode("utf-8"))
            for back in range(1, w):
                conts.append(b"x" * (block - back) + ch.encode("utf-8") + b" tail\n")
    conts += [("\u65e5" * 30000).encode("utf-8"), b"a" + ("\u00e9" * 40000).encode("utf-8"), b"y" * 70000, b"\xef\xbb\xbfbom\n", b"nul\x00inside\n", b"\n", b" ",
              b"x" * 8191 + b"\xe9", b"x" * 8192 + b"\xff tail", b"ok\n\xc3", b"x" * 70000 + b"\xa0", b"\xe9", "caf\u00e9\n".encode("utf-8"), b"\xed\xa0\x80", b"\xf4\x90\x80\x80", b"\xc0\xaf"]
    for i, c in enumerate(conts):
        which = REQ[i % 3]
        files = ",".join(enc(f) + ("=" + enc(c) if f == which else "") for f in REQ)
        files2 = ",".join(enc(f) + "=" + enc(c) for f in REQ)
        cases.append(Case("db.iter", ["d:%s:%s" % (enc(b"pkg-1.%d" % i), files), "d:%s:%s" % (enc(b"other-2.0"), files2)], meta={"nt": True, "content": True}))
    cases.append(Case("db.other", ["file"], meta={"nt": True}))
    cases.append(Case("db.other", ["missing"], meta={"nt": True}))
    for _ in range(n):
        ents = []
        used = set()
        for _ in range(rng.randint(0, 6)):
            nm = rng.choice(NAMES)
            nm = nm if isinstance(nm, bytes) else nm.encode("utf-8")
            if nm in used:
                continue
            used.add(nm)
            r = rng.random()
            if r < 0.15:
                ents.append("f:%s" % enc(nm))
            else:
                files = list(REQ)
                if r < 0.5:
                    for f in rng.sample(REQ, rng.randint(1, 3)):
                        files.remove(f)
                files += rng.sample([m for m in META if m not in REQ], rng.randint(0, 3))
                if rng.random() < 0.2:
                    files.append("stray.txt")
                # a mandatory file that exists but is empty still makes the directory a package (a leading NUL marks it)
                empt = set(rng.sample(files, min(len(files), rng.randint(1, 2)))) if (files and rng.random() < 0.25) else set()
                # one package in six is reached through a symbolic link to a directory outside the database
                ents.append("%s:%s:%s" % ("l" if rng.random() < 0.17 else "d", enc(nm), ",".join(("0 " if f in empt else "") + enc(f) for f in files)))
        cases.append(Case("db.iter", ents, meta={"nt": len(ents) >= 2 or any(e[:2] in ("d:", "l:") and not all(enc(q) in e for q in REQ) for e in ents)}))
    return cases


def nontrivial(c):
    return c.meta.get("nt", False)


def shrinkable(c, ai):
    return False


def stats(cases, obsI):
    d = {}
    for c, o in zip(cases, obsI):
        k = c.op + ":" + (o or "None")[:2]
        d[k] = d.get(k, 0) + 1
    return d
