"""C05 - glob and plain patterns: whole-name match, dispatch, inert fast-reject."""
from common import Case, enc, dec
import pgen

PID = "C05"
RULE = ("glob patterns from a token grammar (literals, '*', '?', [set], [!set], ranges, ']' first in a set, lone ']', "
        "odd fragments '**' '***' '[' '[!]'), plain strings, and dewey patterns; names sampled FROM the pattern, one-edit "
        "neighbours biased to index 0/1 (where the fast reject looks), names of length 0 and 1; plus EVERY pattern of length <= 3 (thorough 4) over 'a1-*?[]!^{},<>=A.' (all dispatch kinds) against a panel of short names; "
        "non-trivial = pattern has a metacharacter or differs from the name, and the name has length >= 1")
FUNCTIONAL = True
ASSUMPTIONS = ["glob crate 0.3.1 Pattern::new/matches with default MatchOptions is modelled (Pattern.v), not verified"]


def generate(rng, tier):
    n = 1500 if tier == "quick" else 40000
    cases = []
    fixed = [("mutt-[0-9]*", "mutt-2.2.13"), ("mutt-[0-9]*", "mutt-vid-1.1"), ("foo-[0-9", "foo-1"), ("foo-[0-9]***", "foo-1"),
             ("a", "a"), ("a", ""), ("", ""), ("", "a"), ("ab", "a"), ("ab", "ab"), ("ab", "ac"), ("*", ""), ("?", ""), ("?", "a"),
             ("a*", "a"), ("a*", "b"), ("[a]b", "ab"), ("[!a]b", "ab"), ("a[]]", "a]"), ("a]", "a]"), ("a[!]]", "ab"),
             ("**", "abc"), ("**/a", "x/a"), ("a/**/b", "a/b"), ("a/**/b", "a/x/y/b"), ("a**", "a"), ("**a", "a"), ("a/**", "a/x"),
             ("/**/**/a", "/x/a"), ("x/**/**/a", "x/y/a"), ("**/**/a", "y/a"), ("**/**", "a/b"),
             ("libX11-[0-9]*", "libx11-1.8.7"), ("foo-[a-z]", "foo-Q"), ("foo-[!a-z]", "foo-Q"), ("foo-[A-Z]", "foo-q"), ("Ab*", "ab1"),
             ("[a-", "a"), ("[!a-", "a"), ("foo-[0-9]*", "foo-\u0663.1"), ("foo-[0-9]*", "foo-\u00b2"), ("foo-[0-9]*", "foo-\uff11"), ("foo-[0-9]*", "foo-\u2167"),
             ("foo-[0-9]*", "foo-\u00bd"), ("foo-[a-z]*", "foo-\u00e9"), ("foo-[A-Z]", "foo-\u00c9"), ("?oo-[0-9]*", "\u00e9oo-1.0"), ("?a", "\u00fca"), ("?a", "\u2028a"), ("??", "\U0001F4E6a"),
             ("a?", "a\U0001F4E6"), ("[!a]b", "\U0001F4E6b"), ("*a", "\u00e9a"), ("foo-[^0-9]*", "foo-1.0"), ("foo-[^0-9]*", "foo-a1"), ("x[^]y", "x^y"), ("[^a]", "^"), ("[^a]", "b"),
             ("*-[0-9]*", ".foo-1.0"), ("?foo", ".foo"), ("[.]a", ".a"), ("a/*", "a/.b"), ("a/?b", "a/.b"), ("[--0]", "."), ("[a-c-e]", "-"), ("[a-c-e]", "d"), ("é*", "éa"), ("?", "é")]
    for p, nme in fixed:
        cases.append(Case("pat.match", [enc(p), enc(nme)], tag="fixed"))
        cases.append(Case("pat.new", [enc(p)], tag="fixed"))
    # small scope, exhaustively: every pattern of length <= 3 (thorough: 4) over an alphabet holding every character the
    # dispatch, the fast reject and the glob compiler look at, against a panel of short names
    import itertools
    sigma = "a1-*?[]!^{},<>=A."
    panel = ["", "a", "1", "-", "aa", "a1", "a-1", "A-1", "a-", "-1", "a]", "1a", "a*", "!", "^", ".a", "a^", "."]
    maxlen = 3 if tier == "quick" else 4
    cnt = 0
    for ln in range(0, maxlen + 1):
        for tup in itertools.product(sigma, repeat=ln):
            cnt += 1
            p = "".join(tup)
            cases.append(Case("pat.new", [enc(p)], tag="scope"))
            names = panel if ln <= 2 else [panel[(cnt + k * 5) % len(panel)] for k in range(3)] + [p[:1] + "-1", p.replace("*", "a").replace("?", "1")]
            for nme in names:
                cases.append(Case("pat.match", [enc(p), enc(nme)], tag="scope"))
    for _ in range(n):
        r = rng.random()
        if r < 0.7:
            p, toks = pgen.glob_pattern(rng)
            p = p.replace("{", "").replace("}", "").replace("<", "").replace(">", "")
            names = [pgen.sample_name(rng, toks)]
            names.append(pgen.edit(rng, names[0]))
            names.append(names[0].swapcase())
            # a non-ASCII digit / letter where an ASCII one matched: sets and ranges are over code points, not Unicode classes
            for i, ch in enumerate(names[0]):
                if ch.isdigit() or ch.isalpha():
                    names.append(names[0][:i] + rng.choice("\u0663\u00b2\uff11\u00e9\u0131\U0001F600") + names[0][i + 1:])
                    break
            names.append(pgen.edit(rng, p))
            if rng.random() < 0.3:
                names.append(rng.choice(["", p[:1], p[:2], rng.choice(pgen.ALPHA)]))
            cases.append(Case("pat.new", [enc(p)]))
        elif r < 0.9:
            p = pgen.lit(rng, rng.choice([0, 1, 2, 3, 5]))
            names = [p, pgen.edit(rng, p), p[:1], p[:-1] if p else "x", p + rng.choice(pgen.ALPHA)]
        else:
            b = rng.choice(["p", "pk", "a-b", "", "1"])
            p = b + rng.choice([">=", ">", "<", "<="]) + rng.choice(["1", "1.0", "", "2nb1"])
            names = [b + "-1", b + "-2", pgen.edit(rng, b + "-1"), b[:1], ""]
        for nme in names:
            cases.append(Case("pat.match", [enc(p), enc(nme)], meta={"p": p, "n": nme}))
    return cases


def property_fails(c, oi, om, os_):
    """a disagreement on a pattern with '**' is outside C05's subset (no '**'): the correspondence is broken there, but no
    input of the property is shown to fail"""
    try:
        p = "".join(chr(x) for x in dec(c.args[0]))
    except Exception:
        return True
    return "**" not in p


def nontrivial(c):
    if c.op != "pat.match":
        return True
    return c.args[0] != c.args[1] and c.args[1] != "-"


def stats(cases, obsI):
    d = {}
    for c, o in zip(cases, obsI):
        k = c.op + ":" + str(o)
        d[k] = d.get(k, 0) + 1
    short = sum(1 for c in cases if c.op == "pat.match" and len(c.args[1].split()) < 2)
    return {"observations": d, "names_shorter_than_2": short}
