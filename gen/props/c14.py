"""C14 - PLIST parses to one entry per non-blank line, arguments kept byte for byte."""
from common import Case, enc, dec
import plgen

PID = "C14"
RULE = ("byte strings assembled from lines: file names of length 1, 2 and longer over arbitrary bytes (0x85, 0xA0, 0x0B, NUL, "
        "non-UTF-8), each of the 17+ commands with absent / empty / ASCII / UTF-8 / non-UTF-8 arguments, tabs and several spaces "
        "after the command, leading blanks, blank and blank-only lines, '@' alone, unknown commands; with and without a final "
        "newline; every line is also parsed alone; plus EVERY sequence of <= 4 (thorough 5) tokens from {@, a, blank, tab, newline, 0xA0, @ignore, @cwd, @name}; non-trivial = >= 2 non-blank lines or a byte >= 0x80")
FUNCTIONAL = True
ASCII_WS = (9, 10, 12, 13, 32)


def generate(rng, tier):
    n = 700 if tier == "quick" else 15000
    cases = []
    fixed = [b"a\nbb\n", b"@\n", b"a", b"a\n", b"\n", b"", b"\n\n", b"a\n\nb", b"\xa0\n", b"@comment \xa0x\n", b"x\ny\nz", b" \n a\n", b"@name foo-1.0\n@cwd /usr/pkg\nbin/foo\n",
             b"@ignore\n+BUILD_INFO\n", b"a\r\nb\r\n", b"@comment\n@comment \n@comment  x\n",
             # a byte-order mark is three ordinary bytes of the first line; NUL is an ordinary byte; arguments have no length limit
             b"\xef\xbb\xbf@name x\nbin/a\n", b"\xef\xbb\xbf", b"\xef\xbb\xbfbin/a\n", b"\xef\xbb\xbf\n@name y\n", b"a\n\xef\xbb\xbf@name x\n", b"\xef\xbb@name x\n",
             b"@mode \x00\n", b"@ignore\x00\n", b"@ignore \x00\n", b"\x00\x00\n", b"bin/a\x00\n", b"\x00bin/a\n", b"@name foo\x00\n",
             b"@name " + b"n" * 255 + b"\n", b"@name " + b"n" * 256 + b"\n", b"@pkgdep " + b"{a,b}" * 60 + b">=1.0\n", b"@pkgcfl " + b"x" * 5000 + b"\n",
             b"@blddep " + b"y" * 257 + b"\nbin/z\n", b"@cwd /" + b"d" * 300 + b"\n" + b"f" * 300 + b"\n", b"@comment " + b"c" * 1000 + b"\n"]
    texts = list(fixed)
    for _ in range(n):
        k = rng.choice([1, 2, 3, 5, 8])
        ls = [plgen.line(rng) for _ in range(k)]
        ls = [l.replace(b"\n", b"") for l in ls]
        texts.append(b"\n".join(ls) + (b"\n" if rng.random() < 0.6 else b""))
    # small scope, exhaustively: every sequence of <= 4 (thorough 5) tokens from a set holding each kind of byte the scanner
    # and the command split look at
    import itertools
    toks = [b"@", b"a", b" ", b"\t", b"\n", b"\xa0", b"@ignore", b"@cwd", b"@name"]
    for L in range(1, (5 if tier == "quick" else 6)):
        for tup in itertools.product(toks, repeat=L):
            texts.append(b"".join(tup))
    # a skipped blank-only line must leave nothing behind for the next line: blank-only lines whose first space sits in
    # every column 0..24 (after tabs / CR / FF / VT), then 0-2 empty lines, then a command whose argument has spaces in
    # every even or every odd column
    spaced = [b"@exec a b c d e f g h i j k l m", b"@cwd a b c d e f g h i j k l m n", b"@comment x y z w v u t s r q p o", b"@unexec  rm -f a b c d e f g h i j",
              b"bin/a b c d e f g h i j k l m n o", b"@ignore x y z a b c d e f g h i j"]
    for col in range(25):
        for wsb in (b"\t", b"\r", b"\x0c", b"\x0b"):
            blank = wsb * col + b" " + (wsb if col % 3 == 0 else b"")
            for li, line in enumerate(spaced):
                gap = b"\n" * (1 + (col + li) % 3)
                texts.append(blank + gap + line + b"\n")
                if li == col % len(spaced):
                    texts.append(b"bin/first\n" + blank + gap + line + b"\n" + blank + b"\n" + spaced[(li + 1) % len(spaced)] + b"\n")
    for t in texts:
        lines = t.split(b"\n")
        nonblank = [l for l in lines if any(c not in ASCII_WS for c in l)]
        nt = len(nonblank) >= 2 or any(c >= 0x80 for c in t)
        cases.append(Case("pl.parse", [enc(t)], meta={"text": t, "nt": nt, "lines": nonblank}))
        for l in nonblank[:4]:
            cases.append(Case("pl.entry", [enc(l)], meta={"nt": nt, "line": l}))
    return cases


def nontrivial(c):
    return c.meta.get("nt", False)


def laws(cases, obsI):
    """whole-list parse = the per-line parses of the non-blank lines, in order"""
    out = []
    single = {}
    for i, c in enumerate(cases):
        if c.op == "pl.entry":
            single[c.meta["line"]] = i
    for i, c in enumerate(cases):
        if c.op != "pl.parse" or obsI[i] is None:
            continue
        ls = c.meta["lines"]
        singles = [obsI[single[l]] for l in ls if l in single]
        if len(singles) != len(ls):
            continue      # not every line was sampled alone
        if any(s is None for s in singles):
            continue
        errs = [s for s in singles if s.startswith("E:")]
        o = obsI[i]
        if errs:
            if o != errs[0]:
                out.append({"kind": "first-bad-line-decides", "idxs": [i], "detail": "%s vs %s" % (o, errs[0])})
        else:
            exp = "OK|" + ";".join(singles)
            if o != exp:
                out.append({"kind": "one-entry-per-nonblank-line", "idxs": [i], "detail": "whole-list parse differs from the per-line parses"})
    return out


def stats(cases, obsI):
    d = {}
    for c, o in zip(cases, obsI):
        k = c.op + ":" + (o or "None").split("|")[0].split(":")[0]
        d[k] = d.get(k, 0) + 1
    return d
