"""C10 - distinfo files round-trip byte-exactly, including non-UTF-8 names."""
from common import Case, enc
import dgen
import hashes

PID = "C10"
RULE = ("canonical distinfo files: RCS Id line ($NetBSD$ or '$NetBSD: ...' with arbitrary bytes), blank line, 0-4 distfile "
        "blocks (any subset/order of the six algorithms, then Size) and 0-4 patch blocks; names incl. DIST_SUBDIR components, "
        "valid UTF-8 (C3 A0, C3 85), invalid (lone E9, 85, A0, FF) and bytes such as 0x0B; sizes up to u64::MAX; parsed and "
        "written back (must reproduce the input) and API-built Distinfos written and re-parsed; "
        "non-trivial = the file has a name with a byte >= 0x80 or a sub-directory, or >= 2 files")
FUNCTIONAL = True


def classify(nm):
    base = nm.rsplit(b"/", 1)[-1]
    if base in (b"", b".", b".."):
        return "D"
    if base.startswith(b"patch-local-") or base.endswith((b".orig", b".rej", b"~")):
        return "D"
    if base.startswith(b"patch-") or (base.startswith(b"emul-") and b"-patch-" in base):
        return "D" if b".tar." in base else "P"
    return "D"


def canonical(rng):
    rcs = b"$NetBSD$" if rng.random() < 0.4 else b"$NetBSD: distinfo,v 1." + str(rng.randint(1, 99)).encode() + rng.choice([b" 2024/01/01 agc Exp $", b" caf\xc3\xa9 \xe9 $", b" x\xa0y $", b""])
    names = []
    for _ in range(rng.randint(0, 6)):
        nm = dgen.name(rng)
        if nm.endswith((b"/", b"/.")) or nm in (b".", b".."):
            continue
        norm = b"/".join(x for x in nm.split(b"/") if x not in (b"", b"."))
        if norm in [n2 for _, n2 in names]:
            continue
        names.append((nm, norm))
        if b"/" in norm and rng.random() < 0.35:
            # a second file whose name is a trailing part of this one's (DIST_SUBDIR/name and name): two different files,
            # next to each other in either order
            tail = norm.split(b"/", rng.randint(1, norm.count(b"/")))[-1]
            if tail not in [n2 for _, n2 in names] and tail not in (b".", b".."):
                names.insert(len(names) - rng.choice([0, 1]), (tail, tail))
    dist = [n for n, _ in names if classify(n) == "D"]
    patch = [n for n, _ in names if classify(n) == "P"]
    out = rcs + b"\n\n"
    ents = []
    for nm in dist:
        algs = rng.sample(range(6), rng.randint(0, 3))
        sz = dgen.size(rng)
        sums = [(a, dgen.hexhash(rng)) for a in algs]
        if sums and rng.random() < 0.15:
            # the same algorithm twice, with the same or another hash, adjacent or not: every line is a checksum of its own
            a0, h0 = rng.choice(sums)
            sums.insert(rng.randint(0, len(sums)), (a0, h0 if rng.random() < 0.6 else dgen.hexhash(rng)))
        for a, h in sums:
            out += dgen.sum_line(a, nm, h)
        out += dgen.size_line(nm, sz)
        ents.append((nm, sz, sums))
    for nm in patch:
        algs = rng.sample(range(6), rng.randint(1, 3))
        sums = [(a, dgen.hexhash(rng)) for a in algs]
        for a, h in sums:
            out += dgen.sum_line(a, nm, h)
        ents.append((nm, None, sums))
    return out, rcs, ents


def ent_arg(nm, sz, sums):
    return "%s~%s~%s" % (enc(nm), "N" if sz is None else sz, ",".join("%d=%s" % (a, enc(h)) for a, h in sums))


def generate(rng, tier):
    n = 500 if tier == "quick" else 10000
    cases = []
    for _ in range(n):
        text, rcs, ents = canonical(rng)
        nt = len(ents) >= 2 or any(b"/" in e[0] or any(c >= 0x80 for c in e[0]) for e in ents)
        cases.append(Case("di.roundtrip", [enc(text)], meta={"text": text, "nt": nt}))
        cases.append(Case("di.parse", [enc(text)], meta={"nt": nt}))
        # the same content assembled through the API
        cases.append(Case("di.build", [("N" if rcs == b"$NetBSD$" and rng.random() < 0.5 else enc(rcs))] + [ent_arg(*e) for e in ents],
                          meta={"text": text, "nt": nt, "api": True, "rcs": rcs}))
        if ents and rng.random() < 0.25:
            # inserting a second entry under an equal path (same components, another spelling: doubled '/', './', or the
            # identical name) replaces the first in place; what is written is the entry now stored
            nm, sz, sums = rng.choice(ents)
            alt = rng.choice([nm, nm.replace(b"/", b"//", 1), b"./" + nm, nm.replace(b"/", b"/./", 1)])
            e2 = (alt, dgen.size(rng) if sz is not None else None, [(a, dgen.hexhash(rng)) for a, _ in sums][: rng.randint(0, 3)] or sums[:1])
            cases.append(Case("di.build", [enc(rcs)] + [ent_arg(*e) for e in ents] + [ent_arg(*e2)], meta={"nt": True, "api2": True}))
            # ... whatever the replacement lacks is gone: a size replaced by none, checksums replaced by none or by fewer,
            # and the other way round (nothing of the earlier entry may survive the replacement)
            for sz2, sums2 in ((None, sums[:1]), (dgen.size(rng), []), (None, []), (dgen.size(rng), [(a, dgen.hexhash(rng)) for a, _ in sums] + [(((sums[0][0] if sums else 0) + 1) % 6, dgen.hexhash(rng))])):
                cases.append(Case("di.build", [enc(rcs)] + [ent_arg(*e) for e in ents] + [ent_arg(alt, sz2, sums2)], meta={"nt": True, "api2": True}))
    # checksum texts given to the API may hold any characters (they are Rust Strings): written as their UTF-8 bytes
    for h in ("\u00e9", "\u212a", "\U0001F600", "\u0085x", "\u00a0", "abc\u3000"):
        cases.append(Case("di.build", ["N", "%s~1~3=%s" % (enc(b"f"), enc(h))], meta={"nt": True, "api2": True}))
    return cases


def nontrivial(c):
    return c.meta.get("nt", False)


def laws(cases, obsI):
    out = []
    for i, c in enumerate(cases):
        if obsI[i] is None:
            continue
        if c.op == "di.roundtrip" and obsI[i] != c.args[0]:
            out.append({"kind": "parse-write-roundtrip", "idxs": [i], "detail": "as_bytes(from_bytes(x)) != x"})
        if c.op == "di.build" and "text" in c.meta and obsI[i].startswith("B="):
            b = obsI[i][2:].split("#")[0]
            if b != enc(c.meta["text"]):
                out.append({"kind": "api-write", "idxs": [i], "detail": "API-built Distinfo does not print the canonical text"})
    return out


def stats(cases, obsI):
    return {"cases": len(cases), "max_bytes": max(len(c.meta.get("text", b"")) for c in cases)}
