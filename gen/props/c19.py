"""C19 - PKGPATH accepts only category/package forms; both spellings give one value."""
import itertools
from common import Case, enc

PID = "C19"
RULE = ("EXHAUSTIVE: every sequence of 0-6 segments from {'..', '.', 'a', 'b', ''} joined by '/', with and without a leading "
        "'/' (39 062 strings; quick: up to 5 segments), the same over names mixing multi-byte characters with ASCII (quick: up to 4 segments), through PkgPath::new with both accessors and re-parsing; plus 'x:y' "
        "combinations of valid/invalid patterns and paths with 0-3 colons through Depend::new; "
        "non-trivial = the string has >= 2 segments")
FUNCTIONAL = True
PATS = ["mktools-[0-9]*", "pkg>=1.0", "pkg>2>3", "{a,b}-[0-9]*", "{a", "plain-1.0", "", "foo-[0-9", "p<1>0", "é*"]
PATHS = ["pkgtools/mktools", "../../pkgtools/mktools", "foo", "../foo/bar", "a//b/", "./a/b", "a/./b", "/a/b", "", "../../a/b/c", "a/b/..", ".. /../a/b"]


def generate(rng, tier):
    cases = []
    maxn = 5 if tier == "quick" else 6
    segs = ["..", ".", "a", "b", ""]
    seen = set()
    for n in range(0, maxn + 1):
        for tup in itertools.product(segs, repeat=n):
            for lead in ("", "/"):
                s = lead + "/".join(tup)
                if s in seen:
                    continue
                seen.add(s)
                cases.append(Case("path.new", [enc(s)], meta={"s": s}))
    # the same small scope over names that MIX multi-byte characters with ASCII (character index != byte offset from the
    # first such character on: every cut computed one way and used the other lands inside or beside a segment)
    segs2 = ["..", ".", "", "éa", "naïve", "日ab"] + ([] if tier == "quick" else ["é", "a😀b"])
    for n in range(0, 5 if tier == "quick" else 6):
        for tup in itertools.product(segs2, repeat=n):
            if not any(ord(ch) > 127 for t in tup for ch in t):
                continue
            for lead in ("", "/"):
                s = lead + "/".join(tup)
                if s in seen:
                    continue
                seen.add(s)
                cases.append(Case("path.new", [enc(s)], meta={"s": s}))
    for q in ["../../naïve/..", "../../éa/", "../../日ab/.", "../../naïve/pkg", "naïve/..", "../../éa/éa"]:
        cases.append(Case("dep.new", [enc("pkg-[0-9]*:" + q)], meta={"s": "x:" + q}))
    for s in ["foo/bar", "foo//bar//", "../../foo/bar/", "..//..//foo//bar//", "\0", ".. /../foo/bar", "é/漢", "a b/c d", "a/b/.", "./", "a/b//./.", "../../a/.b", "../../.a/b.", "a/..b"]:
        cases.append(Case("path.new", [enc(s)], meta={"s": s}))
    # names have no length limit (254 / 255 / 256 / 1000 / 5000 bytes), may start with dots, contain ':'-free odd characters
    for L in (254, 255, 256, 1000, 5000):
        for s in ("cat/" + "p" * L, "c" * L + "/pkg", "../../cat/" + "p" * L, "../../" + "c" * L + "/" + "p" * L, "c" * L + "/" + "p" * L + "/x"):
            cases.append(Case("path.new", [enc(s)], meta={"s": s}))
        cases.append(Case("dep.new", [enc("pkg-[0-9]*:../../cat/" + "p" * L)], meta={"s": "x:long"}))
    # more than two leading '..' (4, 6, 8), '..' in other places, and both forms glued
    for s in ["../../../../a/b", "../../../../../../a/b", "../../../../../../../../a/b", "../../../a/b", "../../../../../a/b", "../../a/b/../..", "../../a/../b", "../../../../a", "../../../..",
              "../..//../../a/b", "../../a/b/c/d", "../../../../a/b/", "a/b/../../a/b", "../../ ../../a/b"]:
        cases.append(Case("path.new", [enc(s)], meta={"s": s}))
        cases.append(Case("dep.new", [enc("pkg-[0-9]*:" + s)], meta={"s": "x:" + s}))
    # long runs of leading '..' (9 ... 40, 62 ... 66 components): a component count or a packed shape that wraps
    for k in list(range(9, 41)) + [62, 63, 64, 65, 66]:
        for suf in ("a/b", "a/b/c", "a", "x/../../a/b", "../a/b"):
            s = "../" * k + suf
            cases.append(Case("path.new", [enc(s)], meta={"s": s}))
        cases.append(Case("dep.new", [enc("pkg-[0-9]*:" + "../" * k + "a/b/c")], meta={"s": "x:dots%d" % k}))
    for s in ["../../.config/pkg", ".config/pkg", "../../..data/pkg", "../../.../pkg", ".../pkg", "../../cat/.pkg", "../../.a/.b", ".a/.b", "..a/b", "../../..a/b", "../.././a/b",
              "a/b\x00", "\x00/b", "a\n/b", "a/\u2028", "../../a\x7f/b", "\ufeffa/b"]:
        cases.append(Case("path.new", [enc(s)], meta={"s": s}))
    # every ':' separates, also inside [:class:] brackets
    for s in ["pkg-[[:digit:]]*:../../cat/pkg", "pkg-[[:digit:]]*", "pkg-[0-9]*:../../cat/[:x:]pkg", "pkg-[:]*:../../cat/pkg", "[:alpha:]:../../cat/pkg", "a[:b:]c:cat/pkg",
              "pkg-[0-9]*:../../cat/pkg:", ":pkg-[0-9]*:../../cat/pkg", "pkg-[0-9]*\x00:../../cat/pkg", "pkg-[0-9]*:\x00../../cat/pkg"]:
        cases.append(Case("dep.new", [enc(s)], meta={"s": s}))
    for p in PATS:
        for q in PATHS:
            for sep in (":", "", "::", ":x:"):
                s = p + sep + q
                cases.append(Case("dep.new", [enc(s)], meta={"s": s}))
    cases.append(Case("dep.new", [enc(":")], meta={"s": ":"}))
    cases.append(Case("dep.new", [enc("a:b:c:d")], meta={"s": "a:b:c:d"}))
    return cases


def nontrivial(c):
    return c.meta["s"].count("/") >= 1 or ":" in c.meta["s"]


def laws(cases, obsI):
    """both spellings of one category/package give equal values; accessors re-parse to an equal value"""
    out = []
    byval = {}
    for i, c in enumerate(cases):
        o = obsI[i]
        if c.op == "path.new" and o and o.startswith("OK:"):
            short, full, r1, r2 = o[3:].split("|")
            if r1 != "T" or r2 != "T":
                out.append({"kind": "reparse", "idxs": [i], "detail": o})
            if full != "P,P," + short or short.count("N:") != 2 or "P" in short.split(",") or "C" in short or "R" in short:
                out.append({"kind": "short-full-shape", "idxs": [i], "detail": o})
        if c.op == "dep.new" and o and o.startswith("OK:") and not o.endswith("|T"):
            out.append({"kind": "depend-parts", "idxs": [i], "detail": o})
    return out


def extra_coverage(cases, obsI, tier):
    return {"exhaustive": True, "exhaustive_space": "all '/'-joined sequences of <= %d segments over {'..','.','a','b',''} with/without leading '/'" % (5 if tier == "quick" else 6)}


def stats(cases, obsI):
    d = {}
    for c, o in zip(cases, obsI):
        k = c.op + ":" + (o or "None").split(":")[0] + (":" + o.split(":")[1] if o and o.startswith("E:") else "")
        d[k] = d.get(k, 0) + 1
    return d
