//! Coverage-guided exploration of the crate's entry points (thorough tier).
//! libFuzzer only *finds inputs*: whatever it keeps in its corpus is afterwards
//! run through the ordinary correspondence check (implementation vs. extracted
//! Coq model) by gen/fuzzer.py.  Input format: byte 0 selects the operation
//! among VERIF_FUZZ_OPS (comma separated, set by the orchestrator), the rest is
//! split at 0xFF into the arguments (0xFF never occurs in UTF-8).
#![no_main]
use libfuzzer_sys::fuzz_target;
use std::sync::OnceLock;

static OPS: OnceLock<Vec<(String, bool)>> = OnceLock::new();

/// operations taking raw bytes (all others take text)
const BYTE_OPS: &[&str] = &["stream", "di.parse", "di.roundtrip", "di.classify", "pl.parse", "pl.query", "pl.entry", "scan.readb", "dg.patchb", "dg.fileb"];

fn ops() -> &'static Vec<(String, bool)> {
    OPS.get_or_init(|| {
        let s = std::env::var("VERIF_FUZZ_OPS").unwrap_or_else(|_| "pat.match".to_string());
        s.split(',').map(|o| (o.to_string(), BYTE_OPS.contains(&o))).collect()
    })
}

fn nums_bytes(b: &[u8]) -> String {
    if b.is_empty() {
        return "-".to_string();
    }
    b.iter().map(|c| c.to_string()).collect::<Vec<_>>().join(" ")
}
fn nums_text(s: &str) -> String {
    if s.is_empty() {
        return "-".to_string();
    }
    s.chars().map(|c| (c as u32).to_string()).collect::<Vec<_>>().join(" ")
}

fuzz_target!(|data: &[u8]| {
    if data.is_empty() {
        return;
    }
    let table = ops();
    let (op, is_bytes) = &table[data[0] as usize % table.len()];
    let mut args: Vec<String> = Vec::new();
    for part in data[1..].split(|b| *b == 0xFF) {
        if *is_bytes {
            args.push(nums_bytes(part));
        } else {
            match std::str::from_utf8(part) {
                Ok(s) => args.push(nums_text(s)),
                Err(_) => return,
            }
        }
    }
    let (op, args) = pkgsrc_harness::fuzz_shape(op, args);
    let refs: Vec<&str> = args.iter().map(|s| s.as_str()).collect();
    let _ = pkgsrc_harness::run(&op, &refs);
});
