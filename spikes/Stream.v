From Coq Require Import List NArith Bool Lia Arith.
Import ListNotations.
Local Open Scope N_scope.
Definition str := list N.
Definition NL : N := 10.

(* windows(2).rposition(|w| w == b"\n\n") *)
Fixpoint last_nn_from (s:str) (i:nat) (acc:option nat) : option nat :=
  match s with
  | a :: ((b :: _) as r) => last_nn_from r (S i) (if N.eqb a NL && N.eqb b NL then Some i else acc)
  | _ => acc
  end.
Definition last_nn s := last_nn_from s 0%nat None.

(* str::split_terminator("\n\n"), leftmost non-overlapping, fuel = length *)
Fixpoint cut_nn (s:str) : option (str * str) :=
  match s with
  | a :: ((b :: t) as r) => if N.eqb a NL && N.eqb b NL then Some ([], t)
                            else match cut_nn r with Some (x, y) => Some (a :: x, y) | None => None end
  | _ => None
  end.
Fixpoint split_term (fuel:nat) (s:str) : list str :=
  match fuel with O => [] | S f =>
    match s with [] => [] | _ =>
      match cut_nn s with Some (x, y) => x :: split_term f y | None => [s] end end end.

Section Stream.
  Variable entry : Type.
  Variable parse_rec : str -> option entry.
  Variable valid : str -> bool.

  Record st := { buf : str; entries : list entry }.
  Inductive wres := WOk (s:st) | WErr (s:st).

  Fixpoint process (rs:list str) (es:list entry) : list entry * bool :=
    match rs with [] => (es, true) | r :: rs' =>
      match parse_rec r with Some e => process rs' (es ++ [e]) | None => (es, false) end end.

  Definition write (s:st) (chunk:str) : wres :=
    let b := buf s ++ chunk in
    match last_nn b with
    | None => WOk {| buf := b; entries := entries s |}
    | Some last =>
        let region := firstn (last + 2) b in
        if valid region then
          match process (split_term (length region) region) (entries s) with
          | (es, true) => WOk {| buf := skipn (last + 2) b; entries := es |}
          | (es, false) => WErr {| buf := b; entries := es |}
          end
        else WErr {| buf := b; entries := entries s |}
    end.

  Fixpoint writes (s:st) (cs:list str) : wres :=
    match cs with [] => WOk s | c :: cs' => match write s c with WOk s' => writes s' cs' | e => e end end.
End Stream.
