Require Import Alt.
From Coq Require Import List NArith Bool Lia Arith.
Import ListNotations.
Local Open Scope N_scope.

Definition no (c:N) (s:str) : Prop := ~ In c s.

Lemma no_app c a b : no c (a ++ b) <-> no c a /\ no c b.
Proof. unfold no; rewrite in_app_iff; tauto. Qed.
Lemma no_cons c x a : no c (x :: a) <-> x <> c /\ no c a.
Proof. unfold no; cbn; intuition congruence. Qed.

(* ---- rfind / find ---- *)
Lemma rfind_from_app c a b i acc :
  rfind_from c (a ++ b) i acc = rfind_from c b (i + length a)%nat (rfind_from c a i acc).
Proof. revert i acc; induction a as [|x a IH]; intros i acc; cbn [app rfind_from length].
  - f_equal; lia.
  - rewrite IH. f_equal. lia. Qed.
Lemma rfind_from_no c s i acc : no c s -> rfind_from c s i acc = acc.
Proof. revert i acc; induction s as [|x s IH]; intros i acc H; cbn; auto.
  apply no_cons in H as [H1 H2]. rewrite IH by auto. destruct (N.eqb_spec x c); congruence. Qed.
Lemma rfind_last c x y : no c y -> rfind c (x ++ c :: y) = Some (length x).
Proof. intros H. unfold rfind. rewrite rfind_from_app. cbn [rfind_from]. rewrite N.eqb_refl.
  rewrite rfind_from_no by auto. f_equal. Qed.
Lemma rfind_none c s : no c s -> rfind c s = None.
Proof. intros; unfold rfind; apply rfind_from_no; auto. Qed.
Lemma find_first c b z : no c b -> findc c (b ++ c :: z) = Some (length b).
Proof. induction b as [|x b IH]; intros H; cbn.
  - rewrite N.eqb_refl; auto.
  - apply no_cons in H as [H1 H2]. destruct (N.eqb_spec x c); [congruence|]. rewrite IH by auto. reflexivity. Qed.

Lemma firstn_app_len {A} (a b:list A) : firstn (length a) (a ++ b) = a.
Proof. induction a; cbn; congruence. Qed.
Lemma skipn_app_len {A} (a b:list A) : skipn (length a) (a ++ b) = b.
Proof. induction a; cbn; congruence. Qed.
Lemma removelast_snoc {A} (a:list A) x : removelast (a ++ [x]) = a.
Proof. apply removelast_last. Qed.

Lemma string_step_shape x b z : no LB b -> no RB b -> no LB z ->
  string_step (x ++ LB :: b ++ RB :: z) = Some (map (fun m => x ++ m ++ z) (split_on CM b)).
Proof.
  intros Hb1 Hb2 Hz. unfold string_step.
  rewrite rfind_last.
  2:{ apply no_app; split; auto. apply no_cons; split; [discriminate|auto]. }
  rewrite firstn_app_len, skipn_app_len.
  change (LB :: b ++ RB :: z) with ((LB :: b) ++ RB :: z).
  rewrite find_first. 2:{ apply no_cons; split; [discriminate|auto]. }
  replace (S (length (LB :: b))) with (length ((LB :: b) ++ [RB])) by (rewrite app_length; cbn; lia).
  replace ((LB :: b) ++ RB :: z) with (((LB :: b) ++ [RB]) ++ z) by (rewrite <- app_assoc; reflexivity).
  rewrite firstn_app_len, skipn_app_len. cbn [app tl].
  rewrite removelast_snoc. reflexivity.
Qed.

Lemma string_step_none s : no LB s -> string_step s = None.
Proof. intros H; unfold string_step; rewrite rfind_none; auto. Qed.

(* ---- well-formedness ---- *)
Fixpoint wf (inside:bool) (p:pat) : Prop :=
  match p with
  | PEnd => True
  | PCh c k => c <> LB /\ c <> RB /\ (inside = true -> c <> CM) /\ wf inside k
  | PGrp a k => wfa a /\ wf inside k
  end
with wfa (a:alts) : Prop :=
  match a with AOne p => wf true p | ACons p r => wf true p /\ wfa r end.

Lemma print_papp p q : print (papp p q) = print p ++ print q.
Proof. induction p using pat_mut with (P0 := fun _ => True); cbn; auto.
  - rewrite IHp; auto.
  - rewrite IHp0. rewrite <- app_assoc. reflexivity. Qed.

Lemma split_on_no c s : no c s -> split_on c s = [s].
Proof. induction s as [|x s IH]; intros H; cbn; auto.
  apply no_cons in H as [H1 H2]. destruct (N.eqb_spec x c); [congruence|]. rewrite IH; auto. Qed.
Lemma split_on_app c a b : no c a -> split_on c (a ++ c :: b) = a :: split_on c b.
Proof. induction a as [|x a IH]; intros H; cbn.
  - rewrite N.eqb_refl; auto.
  - apply no_cons in H as [H1 H2]. destruct (N.eqb_spec x c); [congruence|]. rewrite IH; auto. Qed.

(* The main structural lemma *)
Definition stepP (p:pat) : Prop := forall i, wf i p ->
  match rstep p with
  | None => no LB (print p) /\ no RB (print p) /\ (i = true -> no CM (print p))
  | Some ps => exists x b z, print p = x ++ LB :: b ++ RB :: z /\ no LB b /\ no RB b /\ no LB z /\
                 map print ps = map (fun m => x ++ m ++ z) (split_on CM b)
  end.
Definition stepA (a:alts) : Prop := wfa a ->
  match rstepa a with
  | None => no LB (printa a) /\ no RB (printa a) /\ split_on CM (printa a) = map print (alist a)
  | Some aa => exists x b z, printa a = x ++ LB :: b ++ RB :: z /\ no LB b /\ no RB b /\ no LB z /\
                 map printa aa = map (fun m => x ++ m ++ z) (split_on CM b)
  end.

Lemma step_shape : forall p, stepP p.
Proof.
  apply (pat_mut stepP stepA); unfold stepP, stepA.
  - (* PEnd *) intros i _. cbn. repeat split; intros; intros [].
  - (* PCh *) intros c k IH i (H1 & H2 & H3 & Hk). specialize (IH i Hk). cbn [rstep print].
    destruct (rstep k) as [ks|]; cbn [option_map].
    + destruct IH as (x & b & z & E & ? & ? & ? & Em). exists (c :: x), b, z. rewrite E. repeat split; auto.
      rewrite map_map. cbn [print]. rewrite <- (map_map print (cons c)), Em, map_map. reflexivity.
    + destruct IH as (A & B & C). repeat split; try (apply no_cons; split; auto).
      intros ->. apply no_cons; split; auto.
  - (* PGrp *) intros a IHa k IHk i (Ha & Hk). specialize (IHa Ha). specialize (IHk i Hk). cbn [rstep print].
    destruct (rstep k) as [ks|].
    + destruct IHk as (x & b & z & E & ? & ? & ? & Em).
      exists (LB :: printa a ++ RB :: x), b, z. rewrite E. repeat split; auto.
      * cbn. rewrite <- app_assoc. reflexivity.
      * rewrite map_map. cbn [print].
        transitivity (map (fun s => LB :: printa a ++ RB :: s) (map print ks)); [rewrite map_map; reflexivity|].
        rewrite Em, map_map. apply map_ext. intros m. cbn. rewrite <- app_assoc. reflexivity.
    + destruct IHk as (K1 & K2 & K3). destruct (rstepa a) as [aa|].
      * destruct IHa as (x & b & z & E & ? & ? & ? & Em).
        exists (LB :: x), b, (z ++ RB :: print k). rewrite E. repeat split; auto.
        -- cbn. rewrite <- app_assoc. cbn. rewrite <- app_assoc. reflexivity.
        -- apply no_app; split; auto. apply no_cons; split; [discriminate|auto].
        -- rewrite map_map. cbn [print].
           transitivity (map (fun s => LB :: s ++ RB :: print k) (map printa aa)); [rewrite map_map; reflexivity|].
           rewrite Em, map_map. apply map_ext. intros m. cbn. rewrite <- !app_assoc. reflexivity.
      * destruct IHa as (A1 & A2 & A3).
        exists [], (printa a), (print k). repeat split; auto.
        rewrite A3, !map_map. apply map_ext. intros l. rewrite print_papp. reflexivity.
  - (* AOne *) intros p IH Hp. specialize (IH true Hp). cbn [rstepa printa alist].
    destruct (rstep p) as [ps|]; cbn [option_map].
    + destruct IH as (x & b & z & E & ? & ? & ? & Em). exists x, b, z. repeat split; auto.
      rewrite map_map. cbn [printa]. exact Em.
    + destruct IH as (A & B & C). repeat split; auto. cbn. apply split_on_no; auto.
  - (* ACons *) intros p IHp r IHr (Hp & Hr). specialize (IHp true Hp). specialize (IHr Hr). cbn [rstepa printa alist].
    destruct (rstepa r) as [rs|].
    + destruct IHr as (x & b & z & E & ? & ? & ? & Em).
      exists (print p ++ CM :: x), b, z. rewrite E. repeat split; auto.
      * rewrite <- app_assoc. reflexivity.
      * rewrite map_map. cbn [printa].
        transitivity (map (fun s => print p ++ CM :: s) (map printa rs)); [rewrite map_map; reflexivity|].
        rewrite Em, map_map. apply map_ext. intros m. rewrite <- app_assoc. reflexivity.
    + destruct IHr as (R1 & R2 & R3). destruct (rstep p) as [ps|]; cbn [option_map].
      * destruct IHp as (x & b & z & E & ? & ? & ? & Em).
        exists x, b, (z ++ CM :: printa r). rewrite E. repeat split; auto.
        -- rewrite <- app_assoc. cbn. rewrite <- app_assoc. reflexivity.
        -- apply no_app; split; auto. apply no_cons; split; [discriminate|auto].
        -- rewrite map_map. cbn [printa].
           transitivity (map (fun s => s ++ CM :: printa r) (map print ps)); [rewrite map_map; reflexivity|].
           rewrite Em, map_map. apply map_ext. intros m. rewrite <- !app_assoc. reflexivity.
      * destruct IHp as (P1 & P2 & P3). repeat split.
        -- apply no_app; split; auto. apply no_cons; split; [discriminate|auto].
        -- apply no_app; split; auto. apply no_cons; split; [discriminate|auto].
        -- cbn [map]. rewrite split_on_app by auto. rewrite R3. reflexivity.
Qed.

Theorem string_step_is_rstep p i : wf i p -> string_step (print p) = option_map (map print) (rstep p).
Proof.
  intros H. pose proof (step_shape p i H) as S. destruct (rstep p) as [ps|]; cbn [option_map].
  - destruct S as (x & b & z & E & ? & ? & ? & Em). rewrite E, string_step_shape by auto. rewrite Em. reflexivity.
  - destruct S as (A & _). apply string_step_none; auto.
Qed.
Print Assumptions string_step_is_rstep.
