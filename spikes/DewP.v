Require Import Dew.
From Coq Require Import List ZArith Bool Lia Arith.
Import ListNotations.
Local Open Scope Z_scope.

Lemma test_cmp x o y : test x o y = testc (x ?= y) o.
Proof.
  destruct o; cbn; unfold Z.geb, Z.gtb, Z.leb, Z.ltb; destruct (x ?= y); reflexivity.
Qed.

Lemma tail0_first_nz t : tail0 t = match first_nz t with None => Eq | Some x => x ?= 0 end.
Proof. induction t as [|x t IH]; cbn [tail0 first_nz]; auto.
  destruct (Z.eqb_spec 0 x) as [<-|N].
  - rewrite Z.compare_refl. exact IH.
  - destruct (x ?= 0) eqn:E; try reflexivity. apply Z.compare_eq in E. congruence. Qed.
Lemma first_nz_nz t x : first_nz t = Some x -> x <> 0.
Proof. induction t as [|y t IH]; cbn [first_nz]; [discriminate|].
  destruct (Z.eqb_spec 0 y); auto. intros [= <-]. congruence. Qed.

Lemma common_spec l r : match common l r with
  | (Some (x,y), _) => x <> y /\ lexpad l r = (x ?= y)
  | (None, (lt, rt)) => (lt = [] \/ rt = []) /\ lexpad l r = lexpad lt rt /\
                        (length l - length lt = length r - length rt)%nat /\ (length lt <= length l)%nat /\ (length rt <= length r)%nat
  end.
Proof.
  revert r; induction l as [|x l IH]; intros r.
  - cbn. repeat split; auto. lia.
  - destruct r as [|y r]; [cbn; repeat split; auto; lia|].
    cbn [common]. destruct (Z.eqb_spec x y) as [->|N].
    + specialize (IH r). destruct (common l r) as [[[a b]|] [lt rt]].
      * cbn [lexpad]. rewrite Z.compare_refl. exact IH.
      * cbn [lexpad length]. rewrite Z.compare_refl. destruct IH as (A & B & C & D & E). repeat split; auto; lia.
    + split; auto. cbn [lexpad]. destruct (Z.compare_spec x y); try lia; reflexivity.
Qed.

Theorem cmp_is_padded_lex l o r : dewey_cmp l o r = testc (vcmp l r) o.
Proof.
  unfold dewey_cmp, vcmp. pose proof (common_spec (comps l) (comps r)) as H.
  destruct (common (comps l) (comps r)) as [[[x y]|] [lt rt]].
  - destruct H as [N ->]. rewrite test_cmp. destruct (Z.compare_spec x y); try lia; reflexivity.
  - destruct H as (Hnil & -> & Hlen & Hl1 & Hl2).
    destruct (Nat.compare_spec (length (comps l)) (length (comps r))) as [E|E|E].
    + assert (lt = [] /\ rt = []) as [-> ->].
      { destruct Hnil as [->| ->]; cbn [length] in *; split; auto; apply length_zero_iff_nil; lia. }
      cbn. apply test_cmp.
    + assert (lt = []) as ->. { destruct Hnil as [->| ->]; auto. cbn [length] in *. apply length_zero_iff_nil; lia. }
      cbn [lexpad]. rewrite tail0_first_nz. destruct (first_nz rt) as [y|] eqn:F.
      * apply first_nz_nz in F. rewrite test_cmp, <- Z.compare_antisym.
        destruct (Z.compare_spec 0 y); try lia; reflexivity.
      * cbn. apply test_cmp.
    + assert (rt = []) as ->. { destruct Hnil as [->| ->]; auto. cbn [length] in *. apply length_zero_iff_nil; lia. }
      assert (lexpad lt [] = tail0 lt) as -> by (destruct lt; reflexivity).
      rewrite tail0_first_nz. destruct (first_nz lt) as [x|] eqn:F.
      * apply first_nz_nz in F. rewrite test_cmp.
        destruct (Z.compare_spec x 0); try lia; reflexivity.
      * cbn. apply test_cmp.
Qed.

(* ---- lexpad = the literally padded comparison ---- *)
Lemma lex_repeat n : lex (repeat 0 n) (repeat 0 n) = Eq.
Proof. induction n; cbn [repeat lex]; auto. Qed.
Lemma lex_pad_nil_l n r : (length r <= n)%nat -> lex (repeat 0 n) (r ++ repeat 0 (n - length r)) = CompOpp (tail0 r).
Proof.
  revert n; induction r as [|y r IH]; intros n H.
  - cbn [app length]. rewrite Nat.sub_0_r. cbn [tail0 CompOpp]. apply lex_repeat.
  - destruct n as [|n]; cbn [length] in H; [lia|]. cbn [repeat app lex tail0 length Nat.sub].
    rewrite (Z.compare_antisym y 0). destruct (y ?= 0); cbn; auto. apply IH. lia.
Qed.
Lemma lex_pad_nil_r n l : (length l <= n)%nat -> lex (l ++ repeat 0 (n - length l)) (repeat 0 n) = tail0 l.
Proof.
  revert n; induction l as [|x l IH]; intros n H.
  - cbn [app length]. rewrite Nat.sub_0_r. cbn [tail0]. apply lex_repeat.
  - destruct n as [|n]; cbn [length] in H; [lia|]. cbn [repeat app lex tail0 length Nat.sub].
    destruct (x ?= 0); auto. apply IH. lia.
Qed.
Lemma lexpad_decl_gen l r n : (length l <= n)%nat -> (length r <= n)%nat -> lex (pad n l) (pad n r) = lexpad l r.
Proof.
  unfold pad. revert r n; induction l as [|x l IH]; intros r n Hl Hr.
  - cbn [app length lexpad]. rewrite Nat.sub_0_r. apply lex_pad_nil_l; auto.
  - destruct r as [|y r].
    + change (lexpad (x :: l) []) with (tail0 (x :: l)). cbn [app length]. rewrite Nat.sub_0_r.
      apply (lex_pad_nil_r n (x :: l)); auto.
    + destruct n as [|n]; cbn [length] in *; [lia|]. cbn [app lex lexpad Nat.sub].
      destruct (x ?= y); auto. apply IH; lia.
Qed.
Theorem lexpad_is_decl l r : lexpad_decl l r = lexpad l r.
Proof. unfold lexpad_decl. apply lexpad_decl_gen; lia. Qed.

(* ---- order laws ---- *)
Lemma lexpad_nil_r l : lexpad l [] = tail0 l. Proof. destruct l; reflexivity. Qed.
Lemma lexpad_antisym l r : lexpad r l = CompOpp (lexpad l r).
Proof.
  revert r; induction l as [|x l IH]; intros r.
  - rewrite lexpad_nil_r. cbn. rewrite CompOpp_involutive. reflexivity.
  - destruct r as [|y r]; [reflexivity|]. cbn [lexpad]. rewrite (Z.compare_antisym x y).
    destruct (x ?= y); cbn; auto.
Qed.
Lemma vcmp_antisym a b : vcmp b a = CompOpp (vcmp a b).
Proof. unfold vcmp. rewrite lexpad_antisym. destruct (lexpad (comps a) (comps b)); cbn; auto.
  apply Z.compare_antisym. Qed.
Lemma lexpad_refl l : lexpad l l = Eq.
Proof. induction l; cbn; auto. rewrite Z.compare_refl; auto. Qed.

(* transitivity, via the literally padded lists all of one length *)
Lemma lex_trans : forall a b c, length a = length b -> length b = length c ->
  lex a b <> Gt -> lex b c <> Gt -> lex a c <> Gt /\ (lex a c = Eq -> lex a b = Eq /\ lex b c = Eq).
Proof.
  induction a as [|x a IH]; intros [|y b] [|z c] H1 H2 Hab Hbc; cbn in *; try lia; auto.
  destruct (Z.compare_spec x y), (Z.compare_spec y z), (Z.compare_spec x z); try lia; try congruence;
    try (apply IH; auto; lia); split; auto; try congruence.
Qed.

Lemma pad_length n l : (length l <= n)%nat -> length (pad n l) = n.
Proof. intros; unfold pad; rewrite app_length, repeat_length; lia. Qed.

Lemma lexpad_trans a b c : lexpad a b <> Gt -> lexpad b c <> Gt ->
  lexpad a c <> Gt /\ (lexpad a c = Eq -> lexpad a b = Eq /\ lexpad b c = Eq).
Proof.
  set (n := Nat.max (length a) (Nat.max (length b) (length c))).
  rewrite <- (lexpad_decl_gen a b n), <- (lexpad_decl_gen b c n), <- (lexpad_decl_gen a c n) by lia.
  apply lex_trans; rewrite !pad_length; lia.
Qed.

Definition vle (a b:ver) : Prop := vcmp a b <> Gt.
Theorem vle_trans a b c : vle a b -> vle b c -> vle a c.
Proof.
  unfold vle, vcmp. intros Hab Hbc.
  destruct (lexpad (comps a) (comps b)) eqn:E1; try congruence;
  destruct (lexpad (comps b) (comps c)) eqn:E2; try congruence;
  destruct (lexpad_trans (comps a) (comps b) (comps c)) as [T1 T2]; try congruence;
  destruct (lexpad (comps a) (comps c)) eqn:E3; try congruence;
  try (destruct (T2 eq_refl); congruence).
  destruct (Z.compare_spec (Dew.rev a) (Dew.rev b)), (Z.compare_spec (Dew.rev b) (Dew.rev c)), (Z.compare_spec (Dew.rev a) (Dew.rev c));
    try lia; congruence.
Qed.
Lemma vcmp_refl a : vcmp a a = Eq.
Proof. unfold vcmp. rewrite lexpad_refl. apply Z.compare_refl. Qed.

Definition flip (o:op) : op := match o with GE => LE | GT => LT | LE => GE | LT => GT end.

(* C03 at the level of the code's own comparison routine *)
Theorem C03_trichotomy a b :
  let lt := dewey_cmp a LT b in let gt := dewey_cmp a GT b in
  let eq := dewey_cmp a LE b && dewey_cmp a GE b in
  (lt = true /\ gt = false /\ eq = false) \/ (lt = false /\ gt = true /\ eq = false) \/ (lt = false /\ gt = false /\ eq = true).
Proof. cbn. rewrite !cmp_is_padded_lex. destruct (vcmp a b); cbn; auto. Qed.
Theorem C03_le_is_not_gt a b : dewey_cmp a LE b = negb (dewey_cmp a GT b).
Proof. rewrite !cmp_is_padded_lex. destruct (vcmp a b); reflexivity. Qed.
Theorem C03_ge_is_not_lt a b : dewey_cmp a GE b = negb (dewey_cmp a LT b).
Proof. rewrite !cmp_is_padded_lex. destruct (vcmp a b); reflexivity. Qed.
Theorem C03_refl a : dewey_cmp a LE a = true /\ dewey_cmp a GE a = true.
Proof. rewrite !cmp_is_padded_lex, vcmp_refl. auto. Qed.
Theorem C03_swap a o b : dewey_cmp a o b = dewey_cmp b (flip o) a.
Proof. rewrite !cmp_is_padded_lex, (vcmp_antisym a b). destruct o, (vcmp a b); reflexivity. Qed.
Theorem C03_trans a b c : dewey_cmp a LE b = true -> dewey_cmp b LE c = true -> dewey_cmp a LE c = true.
Proof.
  rewrite !cmp_is_padded_lex. intros H1 H2.
  assert (vle a c) as H.
  { apply (vle_trans a b c); unfold vle; intros E; rewrite E in *; discriminate. }
  unfold vle in H. destruct (vcmp a c); cbn; congruence.
Qed.
Print Assumptions C03_trans.
Print Assumptions C03_trichotomy.
