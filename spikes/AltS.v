Require Import Alt AltP AltQ AltR.
From Coq Require Import List NArith Bool Lia Arith.
Import ListNotations.
Local Open Scope N_scope.

(* every string accepted by the balance check is the print of a well-formed tree *)
Inductive B : str -> Prop :=
| B_nil : B []
| B_ch c s : c <> LB -> c <> RB -> B s -> B (c :: s)
| B_grp a s : B a -> B s -> B (LB :: a ++ RB :: s).

Fixpoint joinRB (l:list str) : str :=
  match l with [] => [] | [a] => a | a :: r => a ++ RB :: joinRB r end.

Lemma bal_pieces : forall s d, bal s d = true -> exists l, length l = S d /\ Forall B l /\ s = joinRB l.
Proof.
  induction s as [|c s IH]; intros d H; cbn [bal] in H.
  - apply Nat.eqb_eq in H as ->. exists [[]]. repeat split; auto using B_nil.
  - destruct (N.eqb_spec c LB) as [->|N1].
    + apply IH in H as (l & Hl & HB & ->). destruct l as [|a0 [|a1 r]]; cbn in Hl; try lia.
      inversion HB as [|? ? B0 HB']; subst. inversion HB' as [|? ? B1 HB'']; subst.
      exists ((LB :: a0 ++ RB :: a1) :: r). repeat split.
      * cbn. cbn in Hl. lia.
      * constructor; auto using B_grp.
      * destruct r; cbn; [reflexivity|]. rewrite <- app_assoc. reflexivity.
    + destruct (N.eqb_spec c RB) as [->|N2].
      * destruct d as [|d']; [discriminate|]. apply IH in H as (l & Hl & HB & ->).
        exists ([] :: l). repeat split; cbn; auto using B_nil. destruct l; cbn in *; [lia|reflexivity].
      * apply IH in H as (l & Hl & HB & ->). destruct l as [|a0 r]; cbn in Hl; [lia|].
        inversion HB; subst. exists ((c :: a0) :: r). repeat split; auto.
        -- constructor; auto using B_ch.
        -- destruct r; reflexivity.
Qed.

Definition acons_ch (c:N) (A:alts) : alts :=
  match A with AOne p => AOne (PCh c p) | ACons p r => ACons (PCh c p) r end.
Definition acons_grp (G:alts) (A:alts) : alts :=
  match A with AOne p => AOne (PGrp G p) | ACons p r => ACons (PGrp G p) r end.

Lemma B_alts s : B s -> exists A, wfa A /\ printa A = s.
Proof.
  induction 1 as [|c s N1 N2 HB (A & WA & EA)|a s HBa (G & WG & EG) HBs (A & WA & EA)].
  - exists (AOne PEnd). cbn; auto.
  - destruct (N.eq_dec c CM) as [->|NC].
    + exists (ACons PEnd A). cbn. split; auto. congruence.
    + exists (acons_ch c A). destruct A; cbn in *; subst; repeat split; auto; tauto.
  - exists (acons_grp G A). destruct A; cbn in *; subst; repeat split; auto; try tauto;
      rewrite <- ?app_assoc; reflexivity.
Qed.

Lemma B_pat s : B s -> exists p, wf false p /\ print p = s.
Proof.
  induction 1 as [|c s N1 N2 HB (p & Wp & Ep)|a s HBa _ HBs (p & Wp & Ep)].
  - exists PEnd; cbn; auto.
  - exists (PCh c p). cbn. subst. repeat split; auto. discriminate.
  - destruct (B_alts a HBa) as (G & WG & EG). exists (PGrp G p). cbn. subst. auto.
Qed.

Theorem balanced_is_tree s : bal s 0 = true -> exists p, wf false p /\ print p = s.
Proof.
  intros H. apply bal_pieces in H as (l & Hl & HB & ->).
  destruct l as [|a [|? ?]]; cbn in Hl; try lia. inversion HB; subst. apply B_pat; auto.
Qed.

(* the API-level statement: for every string the code accepts as an Alternate pattern *)
Section Api.
  Variable base_pm : str -> str -> bool.
  Variable quick : str -> str -> bool.
  Variable pkg : str.
  Hypothesis quick_inert : forall p, wf false p -> quick (print p) pkg = false -> spec base_pm pkg p = false.
  Theorem alternate_sound_complete s :
    bal s 0 = true ->
    exists p, wf false p /\ print p = s /\
      pm base_pm quick pkg (S (nLB s)) s = existsb (fun e => base_pm e pkg) (exp p).
  Proof.
    intros H. destruct (balanced_is_tree s H) as (p & W & E). exists p. repeat split; auto.
    subst s. apply pm_spec; auto.
  Qed.
End Api.
Print Assumptions alternate_sound_complete.
