Require Import Glob.
From Coq Require Import List NArith Bool Lia.
Import ListNotations.
Local Open Scope nat_scope.

Definition is_star (t:tok) : bool := match t with TStar => true | _ => false end.
Fixpoint min_len (ts:list tok) : nat :=
  match ts with [] => 0 | t :: r => (if is_star t then 0 else 1) + min_len r end.

(* the star loop as a standalone function *)
Fixpoint sloop (f : list chr -> mres) (s:list chr) : mres :=
  match f s with
  | Sub => match s with [] => f [] | _ :: s' => sloop f s' end
  | m => m
  end.

Lemma gm_star_unfold ts s : gm (TStar :: ts) s = sloop (gm ts) s.
Proof. cbn [gm]. induction s as [|c s IH].
  - cbn. destruct (gm ts []); reflexivity.
  - cbn [sloop]. simpl. destruct (gm ts (c :: s)); try reflexivity. exact IH.
Qed.

Lemma gmatch_min_len ts s : gmatch ts s -> min_len ts <= length s.
Proof. induction 1; cbn [min_len is_star]; try lia.
  - rewrite app_length. lia.
  - destruct tk; cbn; try lia; congruence.
Qed.

Lemma sloop_spec f s r : sloop f s = r ->
  exists s1 s2, s = s1 ++ s2 /\ f s2 = r /\
    (forall a b, s1 = a ++ b -> b <> [] -> f (b ++ s2) = Sub).
Proof.
  revert r; induction s as [|c s IH]; intros r H; cbn [sloop] in H.
  - exists [], []. split; [reflexivity|]. split.
    + destruct (f []) eqn:E; congruence.
    + intros a b E; destruct a, b; cbn in E; congruence.
  - destruct (f (c :: s)) eqn:E.
    + exists [], (c::s). repeat split; try congruence. intros a b E'; destruct a, b; cbn in E'; congruence.
    + destruct (IH r H) as (s1 & s2 & -> & Hf & Hsub).
      exists (c :: s1), s2. repeat split; auto.
      intros a b Hab Hb. destruct a as [|x a]; cbn in Hab.
      * subst b. cbn. exact E.
      * injection Hab as -> ->. eapply Hsub; eauto.
    + exists [], (c::s). repeat split; try congruence. intros a b E'; destruct a, b; cbn in E'; congruence.
Qed.

Theorem gm_sound ts : forall s, gm ts s = Match -> gmatch ts s.
Proof.
  induction ts as [|t ts IH]; intros s H.
  - destruct s; cbn in H; [constructor | congruence].
  - destruct t.
    1,2,4,5: destruct s as [|x s']; cbn [gm] in H; [congruence|];
      destruct (tok1 _ x) eqn:E; [|congruence]; constructor; [congruence| exact E | auto].
    rewrite gm_star_unfold in H. apply sloop_spec in H as (s1 & s2 & -> & Hf & _).
    constructor; auto.
Qed.

Lemma sloop_complete f s1 s2 :
  f s2 = Match -> (forall a b, s1 = a ++ b -> f (b ++ s2) <> Entire) -> sloop f (s1 ++ s2) = Match.
Proof.
  induction s1 as [|c s1 IH]; intros Hm Hne; cbn [app].
  - destruct s2; cbn [sloop]; rewrite Hm; reflexivity.
  - cbn [sloop]. destruct (f (c :: s1 ++ s2)) eqn:E; try reflexivity.
    + apply IH; auto. intros a b ->. apply (Hne (c :: a) b). reflexivity.
    + exfalso. apply (Hne [] (c :: s1)); auto.
Qed.


Lemma gmatch_inv_nonstar t ts s : is_star t = false -> gmatch (t :: ts) s ->
  exists c s', s = c :: s' /\ tok1 t c = true /\ gmatch ts s'.
Proof. intros Hs H; inversion H; subst; [discriminate|]. eauto. Qed.

Lemma gmatch_inv_star ts s : gmatch (TStar :: ts) s -> exists s1 s2, s = s1 ++ s2 /\ gmatch ts s2.
Proof. intros H; inversion H; subst; [eauto|congruence]. Qed.

Lemma suffix_cases {A} (a b a' b' : list A) : a ++ b = a' ++ b' ->
  (exists m, a = a' ++ m /\ b' = m ++ b) \/ (exists m, m <> [] /\ a' = a ++ m /\ b = m ++ b').
Proof.
  revert a'; induction a as [|x a IH]; intros a' H; cbn in H.
  - destruct a' as [|y a']; cbn in H.
    + left. exists []. split; auto.
    + right. exists (y :: a'). repeat split; auto; congruence.
  - destruct a' as [|y a']; cbn in H.
    + left. exists (x :: a). split; auto.
    + injection H as -> H. destruct (IH _ H) as [(m & -> & ->)|(m & Hm & -> & ->)].
      * left. exists m. auto.
      * right. exists m. auto.
Qed.

Lemma gm_both ts :
  (forall s, gmatch ts s -> gm ts s = Match) /\
  (forall s, gm ts s = Entire -> forall a b, s = a ++ b -> ~ gmatch ts b).
Proof.
  induction ts as [|t ts [IHc IHe]].
  - split.
    + intros s H; inversion H; reflexivity.
    + intros s H; destruct s; cbn in H; congruence.
  - destruct (is_star t) eqn:St.
    + destruct t; try discriminate. split.
      * intros s H. apply gmatch_inv_star in H as (s1 & s2 & -> & H2).
        rewrite gm_star_unfold. apply sloop_complete; auto.
        intros a b -> HE. eapply IHe in HE; [|reflexivity]. eauto.
      * intros s H a b -> Hm. rewrite gm_star_unfold in H.
        apply sloop_spec in H as (s1 & s2 & E & Hf & Hsub).
        apply gmatch_inv_star in Hm as (b1 & b2 & -> & H2).
        rewrite app_assoc in E.
        destruct (suffix_cases _ _ _ _ E) as [(m & E1 & ->)|(m & Hm & -> & ->)].
        -- eapply IHe; eauto.
        -- apply IHc in H2. rewrite (Hsub (a ++ b1) m) in H2; auto; congruence.
    + split.
      * intros s H. apply gmatch_inv_nonstar in H as (c & s' & -> & H1 & H2); auto.
        destruct t; try discriminate; cbn [gm]; rewrite H1; auto.
      * intros s H a b -> Hm.
        apply gmatch_inv_nonstar in Hm as (c & s' & -> & H1 & H2); auto.
        assert (gm ts (match a with [] => s' | _ :: a' => a' ++ c :: s' end) = Entire) as HE.
        { destruct t; try discriminate; destruct a as [|x a']; cbn [app gm] in H;
            match type of H with (if ?b then _ else _) = _ => destruct b; [exact H|congruence] end. }
        destruct a as [|x a'].
        -- eapply (IHe _ HE []); [reflexivity| exact H2].
        -- eapply (IHe _ HE (a' ++ [c])); [rewrite <- app_assoc; reflexivity| exact H2].
Qed.

Theorem gm_complete ts s : gmatch ts s -> gm ts s = Match.
Proof. apply gm_both. Qed.

Theorem gm_correct ts s : gm ts s = Match <-> gmatch ts s.
Proof. split; [apply gm_sound | apply gm_complete]. Qed.
Print Assumptions gm_correct.
