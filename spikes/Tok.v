From Coq Require Import List NArith ZArith Bool Lia Arith.
Import ListNotations.
Local Open Scope N_scope.
Notation str := (list N).

Definition is_digit (c:N) : bool := (48 <=? c) && (c <=? 57).
Definition is_alpha (c:N) : bool := ((65 <=? c) && (c <=? 90)) || ((97 <=? c) && (c <=? 122)).
Definition lower (c:N) : N := if (65 <=? c) && (c <=? 90) then c + 32 else c.
Fixpoint span_digits (s:str) : str * str :=
  match s with c :: r => if is_digit c then let (d, t) := span_digits r in (c :: d, t) else ([], s) | [] => ([], []) end.
Definition value (ds:str) : Z := fold_left (fun acc d => (10 * acc + (Z.of_N d - 48))%Z) ds 0%Z.
Definition i64max : Z := 9223372036854775807%Z.
Fixpoint prefix_ci (m s:str) : bool :=
  match m, s with [], _ => true | a :: m', b :: s' => (lower b =? a) && prefix_ci m' s' | _ :: _, [] => false end.

Inductive tok := TNum (z:Z) | TLetter (c:N) | TRev (z:Z) | TSkip.
Definition m_nb : str := [110;98]. Definition m_alpha : str := [97;108;112;104;97].
Definition m_beta : str := [98;101;116;97]. Definition m_pre : str := [112;114;101].
Definition m_rc : str := [114;99]. Definition m_pl : str := [112;108].

Definition lex1_body (c:N) (s:str) : option (tok * nat) :=
    let ds := fst (span_digits s) in
    match ds with _ :: _ => Some (TNum (Z.min (value ds) i64max), length ds) | [] =>
      if (c =? 46) || (c =? 95) then Some (TNum 0, 1%nat)
      else if prefix_ci m_nb s then
        let d2 := fst (span_digits (skipn 2 s)) in
        Some (TRev (match d2 with [] => 0%Z | _ => if (value d2 <=? i64max)%Z then value d2 else 0%Z end), (2 + length d2)%nat)
      else if prefix_ci m_alpha s then Some (TNum (-3), 5%nat)
      else if prefix_ci m_beta s then Some (TNum (-2), 4%nat)
      else if prefix_ci m_pre s then Some (TNum (-1), 3%nat)
      else if prefix_ci m_rc s then Some (TNum (-1), 2%nat)
      else if prefix_ci m_pl s then Some (TNum 0, 2%nat)
      else if is_alpha c then Some (TLetter (lower c), 1%nat)
      else Some (TSkip, 1%nat)
    end.
Definition lex1 (s:str) : option (tok * nat) :=
  match s with [] => None | c :: _ => lex1_body c s end.

Fixpoint tokens (fuel:nat) (s:str) : option (list tok) :=
  match fuel with O => None | S f =>
    match lex1 s with None => Some [] | Some (t, n) => option_map (cons t) (tokens f (skipn n s)) end end.

Definition comps_of (t:tok) : list Z :=
  match t with TNum z => [z] | TLetter c => [0%Z; Z.of_N c] | _ => [] end.
Definition revision (ts:list tok) : Z := fold_left (fun r t => match t with TRev n => n | _ => r end) ts 0%Z.
Definition mkv (s:str) : option (list Z * Z) :=
  option_map (fun ts => (flat_map comps_of ts, revision ts)) (tokens (S (length s)) s).

Definition s_ (l:list nat) : str := map N.of_nat l.
(* "1.0alpha1beta2rc3pl4_5nb17" *)
Eval vm_compute in mkv [49;46;48;97;108;112;104;97;49;98;101;116;97;50;114;99;51;112;108;52;95;53;110;98;49;55].
(* "ojnknb30_-" *)
Eval vm_compute in mkv [111;106;110;107;110;98;51;48;95;45].
