From Coq Require Import List ZArith Bool Lia Arith.
Import ListNotations.
Local Open Scope Z_scope.

Inductive op := GE | GT | LE | LT.
Definition test (l:Z) (o:op) (r:Z) : bool :=
  match o with GE => l >=? r | GT => l >? r | LE => l <=? r | LT => l <? r end.

Record ver := { comps : list Z; rev : Z }.

(* dewey_cmp, branch for branch *)
Fixpoint common (l r:list Z) : option (Z*Z) * (list Z * list Z) :=
  match l, r with
  | x :: l', y :: r' => if x =? y then common l' r' else (Some (x,y), (l', r'))
  | _, _ => (None, (l, r))
  end.
Fixpoint first_nz (t:list Z) : option Z :=
  match t with [] => None | x :: t' => if 0 =? x then first_nz t' else Some x end.
Definition dewey_cmp (l:ver) (o:op) (r:ver) : bool :=
  match common (comps l) (comps r) with
  | (Some (x,y), _) => test x o y
  | (None, (lt, rt)) =>
      match Nat.compare (length (comps l)) (length (comps r)) with
      | Lt => match first_nz rt with Some y => test 0 o y | None => test (rev l) o (rev r) end
      | Gt => match first_nz lt with Some x => test x o 0 | None => test (rev l) o (rev r) end
      | Eq => test (rev l) o (rev r)
      end
  end.

(* spec: zero-padded lexicographic, then revision *)
Fixpoint tail0 (l:list Z) : comparison :=
  match l with [] => Eq | x :: l' => match x ?= 0 with Eq => tail0 l' | c => c end end.
Fixpoint lexpad (l r:list Z) {struct l} : comparison :=
  match l, r with
  | [], _ => CompOpp (tail0 r)
  | _, [] => tail0 l
  | x :: l', y :: r' => match x ?= y with Eq => lexpad l' r' | c => c end
  end.
(* the fully declarative reading: pad both to the same length, compare position by position *)
Fixpoint lex (l r:list Z) : comparison :=
  match l, r with x :: l', y :: r' => match x ?= y with Eq => lex l' r' | c => c end | _, _ => Eq end.
Definition pad (n:nat) (l:list Z) : list Z := l ++ repeat 0 (n - length l).
Definition lexpad_decl (l r:list Z) : comparison :=
  let n := Nat.max (length l) (length r) in lex (pad n l) (pad n r).
Definition vcmp (a b:ver) : comparison :=
  match lexpad (comps a) (comps b) with Eq => rev a ?= rev b | c => c end.
Definition testc (c:comparison) (o:op) : bool :=
  match o, c with
  | GE, Lt => false | GE, _ => true
  | GT, Gt => true | GT, _ => false
  | LE, Gt => false | LE, _ => true
  | LT, Lt => true | LT, _ => false
  end.
