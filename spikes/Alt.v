From Coq Require Import List NArith Bool Lia Arith.
Import ListNotations.
Local Open Scope N_scope.
Definition str := list N.
Definition LB : N := 123. Definition RB : N := 125. Definition CM : N := 44.

(* ---------- string-level model of the (fixed) code ---------- *)
Fixpoint rfind_from (c:N) (s:str) (i:nat) (acc:option nat) : option nat :=
  match s with [] => acc | x :: r => rfind_from c r (S i) (if N.eqb x c then Some i else acc) end.
Definition rfind c s := rfind_from c s 0%nat None.
Fixpoint findc (c:N) (s:str) : option nat :=
  match s with [] => None | x :: r => if N.eqb x c then Some 0%nat else option_map S (findc c r) end.
Fixpoint split_on (c:N) (s:str) : list str :=
  match s with [] => [[]] | x :: r =>
    if N.eqb x c then [] :: split_on c r
    else match split_on c r with [] => [[x]] | h :: t => (x :: h) :: t end end.
(* one rewriting step: the list of strings first++m++last *)
Definition string_step (p:str) : option (list str) :=
  match rfind LB p with None => None | Some i =>
    let first := firstn i p in let rest := skipn i p in
    match findc RB rest with None => None | Some n =>
      let grp := firstn (S n) rest in let last := skipn (S n) rest in
      let body := removelast (tl grp) in
      Some (map (fun m => first ++ m ++ last) (split_on CM body)) end end.

(* ---------- tree spec ---------- *)
Inductive pat := PEnd | PCh (c:N) (k:pat) | PGrp (a:alts) (k:pat)
with alts := AOne (p:pat) | ACons (p:pat) (r:alts).
Scheme pat_mut := Induction for pat Sort Prop
with alts_mut := Induction for alts Sort Prop.

Fixpoint print (p:pat) : str :=
  match p with PEnd => [] | PCh c k => c :: print k | PGrp a k => LB :: printa a ++ RB :: print k end
with printa (a:alts) : str :=
  match a with AOne p => print p | ACons p r => print p ++ CM :: printa r end.

Definition cross (xs ys : list str) : list str := flat_map (fun x => map (fun y => x ++ y) ys) xs.
Fixpoint exp (p:pat) : list str :=
  match p with PEnd => [[]] | PCh c k => map (cons c) (exp k) | PGrp a k => cross (expa a) (exp k) end
with expa (a:alts) : list str :=
  match a with AOne p => exp p | ACons p r => exp p ++ expa r end.

Fixpoint papp (p q:pat) : pat :=
  match p with PEnd => q | PCh c k => PCh c (papp k q) | PGrp a k => PGrp a (papp k q) end.
Fixpoint alist (a:alts) : list pat := match a with AOne p => [p] | ACons p r => p :: alist r end.

Fixpoint rstep (p:pat) : option (list pat) :=
  match p with
  | PEnd => None
  | PCh c k => option_map (map (PCh c)) (rstep k)
  | PGrp a k =>
      match rstep k with
      | Some ks => Some (map (PGrp a) ks)
      | None => match rstepa a with
                | Some aa => Some (map (fun a' => PGrp a' k) aa)
                | None => Some (map (fun l => papp l k) (alist a))
                end
      end
  end
with rstepa (a:alts) : option (list alts) :=
  match a with
  | AOne p => option_map (map AOne) (rstep p)
  | ACons p r => match rstepa r with
                 | Some rs => Some (map (ACons p) rs)
                 | None => option_map (map (fun p' => ACons p' r)) (rstep p)
                 end
  end.

Definition s (l:list nat) : str := map N.of_nat l.
(* {a{b,c},d}-1 *)
Definition ex1 := PGrp (ACons (PCh 97 (PGrp (ACons (PCh 98 PEnd) (AOne (PCh 99 PEnd))) PEnd)) (AOne (PCh 100 PEnd))) (PCh 45 (PCh 49 PEnd)).
Eval vm_compute in print ex1.
Eval vm_compute in exp ex1.
Eval vm_compute in (string_step (print ex1), option_map (map print) (rstep ex1)).
Definition ex2 := PCh 120 (PGrp (AOne PEnd) (PGrp (ACons PEnd (ACons (PCh 97 PEnd) (AOne PEnd))) (PCh 121 PEnd))).
Eval vm_compute in print ex2.
Eval vm_compute in (string_step (print ex2), option_map (map print) (rstep ex2)).
