Require Import Alt AltP AltQ.
From Coq Require Import List NArith Bool Lia Arith.
Import ListNotations.
Local Open Scope N_scope.

(* ---- balance check, as in Pattern::new ---- *)
Fixpoint bal (s:str) (d:nat) : bool :=
  match s with
  | [] => Nat.eqb d 0
  | c :: r => if N.eqb c LB then bal r (S d)
              else if N.eqb c RB then match d with O => false | S d' => bal r d' end
              else bal r d
  end.
Definition has_brace (s:str) : bool := existsb (fun c => N.eqb c LB || N.eqb c RB) s.

Lemma bal_print : forall p i, wf i p -> forall rest d, bal (print p ++ rest) d = bal rest d.
Proof.
  apply (pat_mut (fun p => forall i, wf i p -> forall rest d, bal (print p ++ rest) d = bal rest d)
                 (fun a => wfa a -> forall rest d, bal (printa a ++ rest) d = bal rest d)).
  - reflexivity.
  - intros c k IH i (H1 & H2 & _ & Hk) rest d. cbn [print app bal].
    destruct (N.eqb_spec c LB); [congruence|]. destruct (N.eqb_spec c RB); [congruence|]. eauto.
  - intros a IHa k IHk i (Ha & Hk) rest d. cbn [print app bal]. rewrite N.eqb_refl.
    rewrite <- app_assoc. rewrite IHa by auto. cbn [app bal]. cbn. eauto.
  - intros p IH Hp rest d. cbn. eauto.
  - intros p IHp r IHr (Hp & Hr) rest d. cbn [printa]. rewrite <- app_assoc. rewrite (IHp true) by auto.
    cbn [app bal]. cbn. eauto.
Qed.
Lemma balanced_print p i : wf i p -> bal (print p) 0 = true.
Proof. intros H. rewrite <- (app_nil_r (print p)). rewrite (bal_print p i H). reflexivity. Qed.

(* ---- wf is preserved ---- *)
Lemma wf_weaken p : wf true p -> wf false p.
Proof. induction p using pat_mut with (P0 := fun _ => True); cbn; auto.
  - intros (?&?&?&?); repeat split; auto; discriminate.
  - intros (?&?); split; auto. Qed.
Lemma wf_papp i l k : wf i l -> wf i k -> wf i (papp l k).
Proof. induction l using pat_mut with (P0 := fun _ => True); cbn; auto.
  - intros (?&?&?&?) ?; repeat split; auto.
  - intros (?&?) ?; split; auto. Qed.
Lemma wfa_alist a : wfa a -> forall l, In l (alist a) -> wf true l.
Proof. induction a; cbn; intros H l [<-|Hl]; try tauto. apply IHa; tauto. Qed.

Lemma wf_step : forall p i, wf i p -> forall ps, rstep p = Some ps -> forall p', In p' ps -> wf i p'.
Proof.
  apply (pat_mut (fun p => forall i, wf i p -> forall ps, rstep p = Some ps -> forall p', In p' ps -> wf i p')
                 (fun a => wfa a -> forall aa, rstepa a = Some aa -> forall a', In a' aa -> wfa a')).
  - discriminate.
  - intros c k IH i (H1&H2&H3&Hk) ps H p' Hp'. cbn in H. destruct (rstep k) as [ks|]; [|discriminate]. injection H as <-.
    apply in_map_iff in Hp' as (k' & <- & Hk'). cbn. repeat split; eauto.
  - intros a IHa k IHk i (Ha&Hk) ps H p' Hp'. cbn in H. destruct (rstep k) as [ks|].
    { injection H as <-. apply in_map_iff in Hp' as (k' & <- & Hk'). cbn. split; eauto. }
    destruct (rstepa a) as [aa|]; injection H as <-; apply in_map_iff in Hp' as (y & <- & Hy).
    + cbn. split; eauto.
    + apply wf_papp; auto. pose proof (wfa_alist a Ha y Hy). destruct i; auto using wf_weaken.
  - intros p IH Hp aa H a' Ha'. cbn in H. destruct (rstep p) as [ps|]; [|discriminate]. injection H as <-.
    apply in_map_iff in Ha' as (p' & <- & Hp'). cbn. eauto.
  - intros p IHp r IHr (Hp&Hr) aa H a' Ha'. cbn in H. destruct (rstepa r) as [rs|].
    { injection H as <-. apply in_map_iff in Ha' as (r' & <- & Hr'). cbn. split; eauto. }
    destruct (rstep p) as [ps|]; [|discriminate]. injection H as <-.
    apply in_map_iff in Ha' as (p' & <- & Hp'). cbn. split; eauto.
Qed.

(* ---- counting '{' ---- *)
Definition nLB (s:str) : nat := count_occ N.eq_dec s LB.
Lemma nLB_app a b : nLB (a ++ b) = (nLB a + nLB b)%nat.
Proof. apply count_occ_app. Qed.
Lemma nLB_no s : no LB s -> nLB s = 0%nat.
Proof. intros H. apply count_occ_not_In. exact H. Qed.
Lemma split_on_sub c s m : In m (split_on c s) -> forall y, In y m -> In y s.
Proof.
  revert m; induction s as [|x s IH]; intros m H y Hy; cbn in H.
  - destruct H as [<-|[]]. destruct Hy.
  - destruct (N.eqb_spec x c).
    + destruct H as [<-|H]; [destruct Hy|]. right. eauto.
    + destruct (split_on c s) as [|h t] eqn:E.
      * destruct H as [<-|[]]. destruct Hy as [<-|[]]. left; auto.
      * destruct H as [<-|H].
        -- destruct Hy as [<-|Hy]; [left; auto|]. right. apply (IH h); cbn; auto.
        -- right. apply (IH m); cbn; auto.
Qed.

Lemma nLB_step p i ps p' : wf i p -> rstep p = Some ps -> In p' ps -> S (nLB (print p')) = nLB (print p).
Proof.
  intros Hw Hs Hp'. pose proof (step_shape p i Hw) as S. rewrite Hs in S.
  destruct S as (x & b & z & E & Hb1 & Hb2 & Hz & Em).
  assert (In (print p') (map print ps)) as Hin by (apply in_map; auto).
  rewrite Em in Hin. apply in_map_iff in Hin as (m & Hm & Hmin).
  rewrite E, <- Hm. rewrite !nLB_app. cbn [nLB count_occ]. destruct (N.eq_dec LB LB); [|congruence].
  fold (nLB (b ++ RB :: z)). rewrite nLB_app. cbn [nLB count_occ]. destruct (N.eq_dec RB LB); [discriminate|].
  fold (nLB z). rewrite (nLB_no b) by auto.
  rewrite (nLB_no m). 2:{ intros Hc. apply Hb1. eapply split_on_sub; eauto. }
  lia.
Qed.

Lemma rstep_none_exp p : rstep p = None -> exp p = [print p].
Proof. induction p; cbn; intros H; auto.
  - destruct (rstep p); [discriminate|]. rewrite IHp; auto.
  - destruct (rstep p); [discriminate|]. destruct (rstepa a); discriminate. Qed.

Lemma has_brace_false s : no LB s -> no RB s -> has_brace s = false.
Proof. induction s as [|c s IH]; cbn; auto. intros H1 H2. apply no_cons in H1 as [? ?], H2 as [? ?].
  destruct (N.eqb_spec c LB); [congruence|]. destruct (N.eqb_spec c RB); [congruence|]. cbn. auto. Qed.
Lemma has_brace_true x y : has_brace (x ++ LB :: y) = true.
Proof. unfold has_brace. rewrite existsb_app. cbn. rewrite orb_true_r. reflexivity. Qed.

Section Main.
  Variable base_pm : str -> str -> bool.   (* compile-and-match of a brace-free pattern *)
  Variable quick : str -> str -> bool.
  Variable pkg : str.
  Definition spec (p:pat) : bool := existsb (fun e => base_pm e pkg) (exp p).
  Hypothesis quick_inert : forall p, wf false p -> quick (print p) pkg = false -> spec p = false.

  Fixpoint pm (f:nat) (s:str) : bool :=
    match f with O => false | S f' =>
      if has_brace s then
        if bal s 0 && quick s pkg then
          match string_step s with Some l => existsb (pm f') l | None => false end
        else false
      else base_pm s pkg
    end.

  Lemma existsb_ext_in {A} (f g:A->bool) l : (forall x, In x l -> f x = g x) -> existsb f l = existsb g l.
  Proof. induction l; cbn; intros H; auto. rewrite H, IHl; auto. Qed.

  Lemma existsb_map' {A B} (f:B->bool) (g:A->B) l : existsb f (map g l) = existsb (fun x => f (g x)) l.
  Proof. induction l; cbn; congruence. Qed.

  Theorem pm_spec : forall n p, wf false p -> (nLB (print p) < n)%nat -> pm n (print p) = spec p.
  Proof.
    induction n as [|n IH]; intros p Hw Hn; [lia|]. cbn [pm].
    pose proof (step_shape p false Hw) as S. pose proof (string_step_is_rstep p false Hw) as SS.
    destruct (rstep p) as [ps|] eqn:Ep.
    - destruct S as (x & b & z & E & _). rewrite E at 1. rewrite has_brace_true.
      rewrite (balanced_print p false Hw). cbn [andb].
      destruct (quick (print p) pkg) eqn:Q; [|symmetry; apply quick_inert; auto].
      rewrite SS. cbn [option_map]. rewrite existsb_map'.
      rewrite (existsb_ext_in _ spec ps).
      2:{ intros p' Hp'. apply IH; [eapply wf_step; eauto|]. pose proof (nLB_step _ _ _ _ Hw Ep Hp'). lia. }
      unfold spec. apply eq_true_iff_eq. rewrite !existsb_exists. split.
      + intros (p' & Hp' & H). apply existsb_exists in H as (e & He & Hb). exists e. split; auto.
        apply (exp_step p ps Ep). eauto.
      + intros (e & He & Hb). apply (exp_step p ps Ep) in He as (p' & Hp' & He). exists p'. split; auto.
        apply existsb_exists. eauto.
    - destruct S as (A & B & _). rewrite has_brace_false by auto. unfold spec. rewrite rstep_none_exp by auto.
      cbn. rewrite orb_false_r. reflexivity.
  Qed.
End Main.
Print Assumptions pm_spec.
