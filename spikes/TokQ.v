Require Import Tok TokP.
From Coq Require Import List NArith ZArith Bool Lia Arith.
Import ListNotations.
Local Open Scope N_scope.

Inductive toks : str -> list tok -> Prop :=
| toks_nil : toks [] []
| toks_cons s t n ts : lex1 s = Some (t, n) -> toks (skipn n s) ts -> toks s (t :: ts).

Lemma lex1_none s : lex1 s = None -> s = [].
Proof. unfold lex1. destruct s as [|c s]; auto. intros H. exfalso. unfold lex1_body in H.
  destruct (fst (span_digits (c :: s))); [|discriminate].
  repeat match type of H with (if ?b then _ else _) = None => destruct b; try discriminate end. Qed.

Lemma tokens_toks : forall f s, (length s < f)%nat -> exists ts, tokens f s = Some ts /\ toks s ts.
Proof.
  induction f as [|f IH]; intros s H; [lia|]. cbn [tokens].
  destruct (lex1 s) as [[t n]|] eqn:E.
  - pose proof (lex1_bounds _ _ _ E) as B. destruct (IH (skipn n s)) as (ts & -> & T); [rewrite skipn_length; lia|].
    exists (t :: ts). split; auto. econstructor; eauto.
  - apply lex1_none in E as ->. exists []. split; auto. constructor.
Qed.
Lemma toks_det s : forall t1 t2, toks s t1 -> toks s t2 -> t1 = t2.
Proof. intros t1 t2 H; revert t2; induction H; intros t2 H2; inversion H2; subst; auto; try (cbn in *; discriminate).
  rewrite H in H1. injection H1 as <- <-. f_equal; auto. Qed.

(* --- no token that starts inside p can run past p when the suffix starts with 'n' --- *)
Lemma span_app_stop p c r : is_digit c = false -> fst (span_digits (p ++ c :: r)) = fst (span_digits p).
Proof. intros Hc; induction p as [|x p IH]; cbn.
  - rewrite Hc; reflexivity.
  - destruct (is_digit x); auto. destruct (span_digits (p ++ c :: r)), (span_digits p); cbn in *; congruence. Qed.

Lemma prefix_no_n m p r : ~ In 110 m -> prefix_ci m (p ++ 110 :: r) = true -> (length m <= length p)%nat.
Proof.
  revert p; induction m as [|a m IH]; intros p Hn H; cbn; [lia|].
  destruct p as [|b p]; cbn [app prefix_ci] in H.
  - exfalso. apply andb_prop in H as [H _]. change (lower 110) with 110 in H. apply N.eqb_eq in H. apply Hn. left. auto.
  - apply andb_prop in H as [_ H]. apply IH in H; [cbn; lia|]. intros X; apply Hn; right; auto.
Qed.
Lemma prefix_nb p r : p <> [] -> prefix_ci m_nb (p ++ 110 :: 98 :: r) = true -> (2 <= length p)%nat.
Proof. intros Hp H. destruct p as [|a [|b p]]; try congruence; cbn [length]; try lia.
  cbn [app prefix_ci m_nb] in H. unfold m_nb in H. cbn [prefix_ci] in H.
  apply andb_prop in H as [_ H]. apply andb_prop in H as [H _]. discriminate. Qed.

Lemma lex1_within p r t n : p <> [] -> lex1 (p ++ 110 :: 98 :: r) = Some (t, n) -> (n <= length p)%nat.
Proof.
  intros Hp. assert (exists c p', p = c :: p') as (c & p' & Ep) by (destruct p; [congruence|eauto]).
  replace (lex1 (p ++ 110 :: 98 :: r)) with (lex1_body c (p ++ 110 :: 98 :: r)) by (subst; reflexivity).
  unfold lex1_body.
  rewrite span_app_stop by reflexivity. pose proof (span_len p) as HL.
  destruct (fst (span_digits p)) as [|d ds].
  - destruct ((c =? 46) || (c =? 95)). { intros [= <- <-]; subst; cbn; lia. }
    destruct (prefix_ci m_nb _) eqn:Pnb.
    { intros [= <- <-]. apply prefix_nb in Pnb; [|exact Hp].
      destruct p' as [|b p'']; [subst; cbn in Pnb; lia|]. subst p.
      cbn [app].
      rewrite span_app_stop by reflexivity. pose proof (span_len p''). cbn [length] in *. lia. }
    destruct (prefix_ci m_alpha _) eqn:P1.
    { intros [= <- <-]. apply prefix_no_n in P1; [exact P1|]. cbn; intuition discriminate. }
    destruct (prefix_ci m_beta _) eqn:P2.
    { intros [= <- <-]. apply prefix_no_n in P2; [exact P2|]. cbn; intuition discriminate. }
    destruct (prefix_ci m_pre _) eqn:P3.
    { intros [= <- <-]. apply prefix_no_n in P3; [exact P3|]. cbn; intuition discriminate. }
    destruct (prefix_ci m_rc _) eqn:P4.
    { intros [= <- <-]. apply prefix_no_n in P4; [exact P4|]. cbn; intuition discriminate. }
    destruct (prefix_ci m_pl _) eqn:P5.
    { intros [= <- <-]. apply prefix_no_n in P5; [exact P5|]. cbn; intuition discriminate. }
    destruct (is_alpha c); intros [= <- <-]; subst; cbn; lia.
  - intros [= <- <-]. exact HL.
Qed.

Definition all_digits (ds:str) : Prop := forallb is_digit ds = true.
Lemma span_all ds : all_digits ds -> span_digits ds = (ds, []).
Proof. unfold all_digits. induction ds as [|d ds IH]; cbn; auto. intros H. apply andb_prop in H as [-> H].
  rewrite IH; auto. Qed.

Definition nbval (ds:str) : Z := match ds with [] => 0%Z | _ => if (value ds <=? i64max)%Z then value ds else 0%Z end.

Lemma lex1_final ds : all_digits ds -> lex1 (110 :: 98 :: ds) = Some (TRev (nbval ds), (2 + length ds)%nat).
Proof. intros H. change (lex1 (110 :: 98 :: ds)) with (lex1_body 110 (110 :: 98 :: ds)). unfold lex1_body.
  change (fst (span_digits (110 :: 98 :: ds))) with (@nil N). cbv iota.
  change ((110 =? 46) || (110 =? 95)) with false. cbv iota.
  change (prefix_ci m_nb (110 :: 98 :: ds)) with true. cbv iota.
  change (skipn 2 (110 :: 98 :: ds)) with ds. rewrite span_all by auto. reflexivity. Qed.

Lemma toks_suffix ds : all_digits ds -> forall k p, (length p <= k)%nat ->
  exists ts, toks (p ++ 110 :: 98 :: ds) (ts ++ [TRev (nbval ds)]).
Proof.
  intros Hd. induction k as [|k IH]; intros p Hk.
  - destruct p; [|cbn in Hk; lia]. exists []. cbn [app]. econstructor; [apply lex1_final; auto|].
    rewrite skipn_all2 by (cbn; lia). constructor.
  - destruct p as [|c p'] eqn:Ep.
    + exists []. cbn [app]. econstructor; [apply lex1_final; auto|]. rewrite skipn_all2 by (cbn; lia). constructor.
    + rewrite <- Ep in *. assert (p <> []) as Hne by (subst; discriminate).
      destruct (lex1 (p ++ 110 :: 98 :: ds)) as [[t n]|] eqn:E.
      2:{ apply lex1_none in E. destruct p; discriminate. }
      pose proof (lex1_within _ _ _ _ Hne E) as W. pose proof (lex1_bounds _ _ _ E) as Bn.
      destruct (IH (skipn n p)) as (ts & T). { rewrite skipn_length. subst p. cbn [length] in *. lia. }
      exists (t :: ts). cbn [app]. econstructor; [exact E|].
      rewrite skipn_app. replace (n - length p)%nat with 0%nat by lia. exact T.
Qed.

Lemma revision_snoc ts v : revision (ts ++ [TRev v]) = v.
Proof. unfold revision. rewrite fold_left_app. reflexivity. Qed.

(* C18: for a version ending in nb<digits>, the comparison uses exactly that number *)
Theorem revision_of_nb_suffix p ds : all_digits ds ->
  exists cs, mkv (p ++ 110 :: 98 :: ds) = Some (cs, nbval ds).
Proof.
  intros Hd. unfold mkv. set (s := p ++ 110 :: 98 :: ds).
  destruct (tokens_toks (S (length s)) s) as (ts & -> & T); [lia|].
  destruct (toks_suffix ds Hd (length p) p) as (ts' & T'); [lia|].
  rewrite (toks_det _ _ _ T T'). cbn [option_map]. rewrite revision_snoc. eauto.
Qed.
Print Assumptions revision_of_nb_suffix.
