Require Import Tok.
From Coq Require Import List NArith ZArith Bool Lia Arith.
Import ListNotations.
Local Open Scope N_scope.

Lemma span_len s : (length (fst (span_digits s)) <= length s)%nat.
Proof. induction s as [|c s IH]; cbn; auto. destruct (is_digit c); cbn; [|lia].
  destruct (span_digits s); cbn in *; lia. Qed.
Lemma prefix_ci_len m s : prefix_ci m s = true -> (length m <= length s)%nat.
Proof. revert s; induction m as [|a m IH]; intros [|b s] H; cbn in *; try lia; try discriminate.
  apply andb_prop in H as [_ H]. apply IH in H. lia. Qed.

Lemma lex1_bounds s t n : lex1 s = Some (t, n) -> (1 <= n <= length s)%nat.
Proof.
  unfold lex1. destruct s as [|c s']; [discriminate|]. set (s := c :: s'). unfold lex1_body.
  pose proof (span_len s) as HL.
  destruct (fst (span_digits s)) as [|d ds] eqn:E.
  - destruct ((c =? 46) || (c =? 95)). { intros [= <- <-]; cbn; lia. }
    destruct (prefix_ci m_nb s) eqn:Pnb.
    { intros [= <- <-]. apply prefix_ci_len in Pnb. pose proof (span_len (skipn 2 s)). rewrite skipn_length in H. cbn in *. lia. }
    destruct (prefix_ci m_alpha s) eqn:P1. { intros [= <- <-]. apply prefix_ci_len in P1. cbn in *; lia. }
    destruct (prefix_ci m_beta s) eqn:P2. { intros [= <- <-]. apply prefix_ci_len in P2. cbn in *; lia. }
    destruct (prefix_ci m_pre s) eqn:P3. { intros [= <- <-]. apply prefix_ci_len in P3. cbn in *; lia. }
    destruct (prefix_ci m_rc s) eqn:P4. { intros [= <- <-]. apply prefix_ci_len in P4. cbn in *; lia. }
    destruct (prefix_ci m_pl s) eqn:P5. { intros [= <- <-]. apply prefix_ci_len in P5. cbn in *; lia. }
    destruct (is_alpha c); intros [= <- <-]; cbn; lia.
  - intros [= <- <-]. cbn [length] in *. lia.
Qed.

Theorem tokens_fuel_ok : forall f s, (length s < f)%nat -> tokens f s <> None.
Proof.
  induction f as [|f IH]; intros s H; [lia|]. cbn [tokens].
  destruct (lex1 s) as [[t n]|] eqn:E; [|discriminate].
  apply lex1_bounds in E. specialize (IH (skipn n s)). rewrite skipn_length in IH.
  destruct (tokens f (skipn n s)); [discriminate|]. exfalso. apply IH; [lia|reflexivity].
Qed.
Corollary mkv_total s : mkv s <> None.
Proof. unfold mkv. pose proof (tokens_fuel_ok (S (length s)) s). destruct (tokens _ s); [discriminate|]. exfalso; apply H; auto. Qed.
Print Assumptions mkv_total.
