Require Import Alt AltP.
From Coq Require Import List NArith Bool Lia Arith.
Import ListNotations.
Local Open Scope N_scope.

(* ---- In-characterisations ---- *)
Lemma in_cross X Y e : In e (cross X Y) <-> exists x y, In x X /\ In y Y /\ e = x ++ y.
Proof. unfold cross. rewrite in_flat_map. split.
  - intros (x & Hx & H). apply in_map_iff in H as (y & <- & Hy). eauto.
  - intros (x & y & Hx & Hy & ->). exists x. split; auto. apply in_map_iff. eauto. Qed.

Lemma in_expa a e : In e (expa a) <-> exists l, In l (alist a) /\ In e (exp l).
Proof. induction a as [p|p r IH]; cbn [expa alist].
  - split; [intros; exists p; cbn; auto | intros (l & [<-|[]] & H); auto].
  - rewrite in_app_iff, IH. split.
    + intros [H|(l & Hl & H)]; [exists p; cbn; auto | exists l; cbn; auto].
    + intros (l & [<-|Hl] & H); [auto | right; eauto]. Qed.

Lemma in_exp_papp l k e : In e (exp (papp l k)) <-> exists x y, In x (exp l) /\ In y (exp k) /\ e = x ++ y.
Proof.
  revert e. induction l using pat_mut with (P0 := fun _ => True); try (intros e; cbn [papp exp]); auto.
  - split; [intros H; exists [], e; cbn; auto | intros (x & y & [<-|[]] & Hy & ->); auto].
  - rewrite in_map_iff. split.
    + intros (t & <- & Ht). apply IHl in Ht as (x & y & Hx & Hy & ->). exists (c :: x), y. repeat split; auto. apply in_map; auto.
    + intros (x & y & Hx & Hy & ->). apply in_map_iff in Hx as (x' & <- & Hx'). exists (x' ++ y). split; auto. apply IHl. eauto.
  - rewrite !in_cross. split.
    + intros (u & v & Hu & Hv & ->). apply IHl0 in Hv as (x & y & Hx & Hy & ->).
      exists (u ++ x), y. repeat split; auto; [apply in_cross; eauto | apply app_assoc].
    + intros (x & y & Hx & Hy & ->). apply in_cross in Hx as (u & v & Hu & Hv & ->).
      exists u, (v ++ y). repeat split; auto; [apply IHl0; eauto | symmetry; apply app_assoc]. Qed.

Lemma map_nonnil {A B} (f:A->B) l : l <> [] -> map f l <> [].
Proof. destruct l; cbn; congruence. Qed.
Lemma alist_nonnil a : alist a <> [].
Proof. destruct a; cbn; congruence. Qed.
Lemma rstep_nonempty : forall p ps, rstep p = Some ps -> ps <> [].
Proof.
  apply (pat_mut (fun p => forall ps, rstep p = Some ps -> ps <> []) (fun a => forall aa, rstepa a = Some aa -> aa <> [])).
  - discriminate.
  - intros c k IH ps H. cbn in H. destruct (rstep k); [|discriminate]. injection H as <-. apply map_nonnil; eauto.
  - intros a IHa k IHk ps H. cbn in H. destruct (rstep k).
    { injection H as <-. apply map_nonnil; eauto. }
    destruct (rstepa a); injection H as <-; apply map_nonnil; eauto using alist_nonnil.
  - intros p IH aa H. cbn in H. destruct (rstep p); [|discriminate]. injection H as <-. apply map_nonnil; eauto.
  - intros p IHp r IHr aa H. cbn in H. destruct (rstepa r).
    { injection H as <-. apply map_nonnil; eauto. }
    destruct (rstep p); [|discriminate]. injection H as <-. apply map_nonnil; eauto.
Qed.
Lemma rstepa_nonempty a aa : rstepa a = Some aa -> aa <> [].
Proof.
  revert aa. induction a as [p|p r IH]; intros aa H; cbn in H.
  - destruct (rstep p) eqn:E; [|discriminate]. injection H as <-. apply map_nonnil. eapply rstep_nonempty; eauto.
  - destruct (rstepa r).
    { injection H as <-. apply map_nonnil; eauto. }
    destruct (rstep p) eqn:E; [|discriminate]. injection H as <-. apply map_nonnil. eapply rstep_nonempty; eauto.
Qed.

(* ---- expansions are preserved by a rewriting step ---- *)
Definition expP (p:pat) := forall ps, rstep p = Some ps -> forall e, In e (exp p) <-> exists p', In p' ps /\ In e (exp p').
Definition expA (a:alts) := forall aa, rstepa a = Some aa -> forall e, In e (expa a) <-> exists a', In a' aa /\ In e (expa a').

Lemma exp_step : forall p, expP p.
Proof.
  apply (pat_mut expP expA); unfold expP, expA.
  - intros ps H; discriminate.
  - intros c k IH ps H e. cbn [rstep] in H. destruct (rstep k) as [ks|]; [|discriminate]. injection H as <-.
    cbn [exp]. rewrite in_map_iff. split.
    + intros (t & <- & Ht). apply (IH _ eq_refl) in Ht as (k' & Hk' & Ht). exists (PCh c k'). split; [apply in_map; auto|]. cbn. apply in_map; auto.
    + intros (p' & Hp' & He). apply in_map_iff in Hp' as (k' & <- & Hk'). cbn in He. apply in_map_iff in He as (t & <- & Ht).
      exists t. split; auto. apply (IH _ eq_refl). eauto.
  - intros a IHa k IHk ps H e. cbn [rstep] in H. cbn [exp]. rewrite in_cross.
    destruct (rstep k) as [ks|].
    { injection H as <-. split.
      - intros (x & y & Hx & Hy & ->). apply (IHk _ eq_refl) in Hy as (k' & Hk' & Hy).
        exists (PGrp a k'). split; [apply in_map; auto|]. cbn. apply in_cross. eauto.
      - intros (p' & Hp' & He). apply in_map_iff in Hp' as (k' & <- & Hk'). cbn in He. apply in_cross in He as (x & y & Hx & Hy & ->).
        exists x, y. repeat split; auto. apply (IHk _ eq_refl). eauto. }
    destruct (rstepa a) as [aa|].
    { injection H as <-. split.
      - intros (x & y & Hx & Hy & ->). apply (IHa _ eq_refl) in Hx as (a' & Ha' & Hx).
        exists (PGrp a' k). split; [apply in_map_iff; eauto|]. cbn. apply in_cross. eauto.
      - intros (p' & Hp' & He). apply in_map_iff in Hp' as (a' & <- & Ha'). cbn in He. apply in_cross in He as (x & y & Hx & Hy & ->).
        exists x, y. repeat split; auto. apply (IHa _ eq_refl). eauto. }
    injection H as <-. split.
    + intros (x & y & Hx & Hy & ->). apply in_expa in Hx as (l & Hl & Hx).
      exists (papp l k). split; [apply in_map_iff; eauto|]. apply in_exp_papp. eauto.
    + intros (p' & Hp' & He). apply in_map_iff in Hp' as (l & <- & Hl). apply in_exp_papp in He as (x & y & Hx & Hy & ->).
      exists x, y. repeat split; auto. apply in_expa. eauto.
  - intros p IH aa H e. cbn [rstepa] in H. destruct (rstep p) as [ps|]; [|discriminate]. injection H as <-. cbn [expa].
    rewrite (IH _ eq_refl). split.
    + intros (p' & Hp' & He). exists (AOne p'). split; [apply in_map; auto| auto].
    + intros (a' & Ha' & He). apply in_map_iff in Ha' as (p' & <- & Hp'). eauto.
  - intros p IHp r IHr aa H e. cbn [rstepa] in H. cbn [expa]. rewrite in_app_iff.
    destruct (rstepa r) as [rs|] eqn:Er.
    { injection H as <-. pose proof (rstepa_nonempty _ _ Er) as Hne. split.
      - intros [He|He].
        + destruct rs as [|r0 rs']; [congruence|].
          exists (ACons p r0). split; [cbn; auto|]. cbn. apply in_app_iff; auto.
        + apply (IHr _ eq_refl) in He as (r' & Hr' & He). exists (ACons p r'). split; [apply in_map; auto|]. cbn. apply in_app_iff; auto.
      - intros (a' & Ha' & He). apply in_map_iff in Ha' as (r' & <- & Hr'). cbn in He. apply in_app_iff in He as [He|He]; auto.
        right. apply (IHr _ eq_refl). eauto. }
    destruct (rstep p) as [ps|] eqn:Ep; [|discriminate]. injection H as <-.
    pose proof (rstep_nonempty _ _ Ep) as Hne. split.
    + intros [He|He].
      * apply (IHp _ eq_refl) in He as (p' & Hp' & He). exists (ACons p' r). split; [apply in_map_iff; eauto|]. cbn. apply in_app_iff; auto.
      * destruct ps as [|p0 ps']; [congruence|]. exists (ACons p0 r). split; [cbn; auto|]. cbn. apply in_app_iff; auto.
    + intros (a' & Ha' & He). apply in_map_iff in Ha' as (p' & <- & Hp'). cbn in He. apply in_app_iff in He as [He|He]; auto.
      left. apply (IHp _ eq_refl). eauto.
Qed.
Print Assumptions exp_step.
