Require Import Stream.
From Coq Require Import List NArith Bool Lia Arith.
Import ListNotations.
Local Open Scope N_scope.

(* shape of a record as split_terminator sees it *)
Fixpoint no_adj (s:str) : Prop :=
  match s with a :: ((b :: _) as r) => ~ (a = NL /\ b = NL) /\ no_adj r | _ => True end.
Definition starts_ok (s:str) : Prop := match s with c :: _ => c <> NL | [] => True end.
Definition safe (s:str) : Prop := starts_ok s /\ no_adj s.
Definition good (r:str) : Prop := r <> [] /\ safe r /\ last r 0 <> NL.

Definition term (r:str) : str := r ++ [NL; NL].
Definition join (rs:list str) : str := concat (map term rs).

Lemma no_adj_cons a s : no_adj (a :: s) <-> (match s with b :: _ => ~ (a = NL /\ b = NL) | [] => True end) /\ no_adj s.
Proof. destruct s; cbn; tauto. Qed.

Lemma last_nn_from_cons2 a b t i acc :
  last_nn_from (a :: b :: t) i acc = last_nn_from (b :: t) (S i) (if N.eqb a NL && N.eqb b NL then Some i else acc).
Proof. reflexivity. Qed.
Lemma last_nn_from_1 a i acc : last_nn_from [a] i acc = acc. Proof. reflexivity. Qed.

Lemma last_nn_from_safe s i acc : no_adj s -> last_nn_from s i acc = acc.
Proof.
  revert i acc; induction s as [|a s IH]; intros i acc H; [reflexivity|].
  destruct s as [|b t]; [reflexivity|]. rewrite last_nn_from_cons2. destruct H as [H1 H2].
  rewrite IH by exact H2.
  destruct (N.eqb_spec a NL), (N.eqb_spec b NL); cbn; try reflexivity. tauto.
Qed.

(* x then NL NL then a safe tail: the last occurrence is at |x| *)
Lemma last_nn_from_app x t i acc : safe t ->
  last_nn_from (x ++ NL :: NL :: t) i acc = Some (i + length x)%nat.
Proof.
  intros [Ht1 Ht2]. revert i acc; induction x as [|a x IH]; intros i acc.
  - cbn [app length]. rewrite last_nn_from_cons2, N.eqb_refl. cbn [andb].
    destruct t as [|c t'].
    + rewrite last_nn_from_1. f_equal; lia.
    + rewrite last_nn_from_cons2, N.eqb_refl. cbn in Ht1.
      destruct (N.eqb_spec c NL); [congruence|]. cbn [andb].
      rewrite last_nn_from_safe by exact Ht2. f_equal; lia.
  - cbn [app length]. destruct (x ++ NL :: NL :: t) as [|b r] eqn:E.
    + destruct x; discriminate.
    + rewrite last_nn_from_cons2. rewrite IH. f_equal; lia.
Qed.
Lemma last_nn_app x t : safe t -> last_nn (x ++ NL :: NL :: t) = Some (length x).
Proof. intros; unfold last_nn; rewrite last_nn_from_app; auto. Qed.
Lemma last_nn_safe t : no_adj t -> last_nn t = None.
Proof. intros; unfold last_nn; apply last_nn_from_safe; auto. Qed.

(* cut_nn on  r ++ NL NL ++ rest  for good r *)
Lemma no_adj_app_inv a b : no_adj (a ++ b) -> no_adj a.
Proof. induction a as [|x a IH]; cbn [app]; intros H; [exact I|].
  apply no_adj_cons in H as [H1 H2]. apply no_adj_cons. split; auto. destruct a; cbn in *; auto. Qed.

Lemma cut_nn_cons2 a b t : cut_nn (a :: b :: t) =
  if N.eqb a NL && N.eqb b NL then Some ([], t)
  else match cut_nn (b :: t) with Some (x, y) => Some (a :: x, y) | None => None end.
Proof. reflexivity. Qed.

Lemma cut_nn_good' r rest : r <> [] -> no_adj r -> last r 0 <> NL -> cut_nn (r ++ NL :: NL :: rest) = Some (r, rest).
Proof.
  induction r as [|a r IH]; intros Hne Ha Hl; [congruence|].
  destruct r as [|b r'].
  - cbn in Hl. cbn [app]. rewrite cut_nn_cons2. destruct (N.eqb_spec a NL); [congruence|]. cbn [andb].
    rewrite cut_nn_cons2, N.eqb_refl. reflexivity.
  - cbn [app]. rewrite cut_nn_cons2. destruct Ha as [Ha1 Ha2].
    assert (N.eqb a NL && N.eqb b NL = false) as ->.
    { destruct (N.eqb_spec a NL), (N.eqb_spec b NL); cbn; auto. tauto. }
    change (b :: r' ++ NL :: NL :: rest) with ((b :: r') ++ NL :: NL :: rest).
    rewrite IH; auto; discriminate.
Qed.
Lemma cut_nn_good r rest : good r -> cut_nn (r ++ NL :: NL :: rest) = Some (r, rest).
Proof. intros (Hne & (Hs & Ha) & Hl). apply cut_nn_good'; auto. Qed.

Lemma join_cons r rs : join (r :: rs) = r ++ NL :: NL :: join rs.
Proof. unfold join, term. cbn. rewrite <- app_assoc. reflexivity. Qed.

Lemma split_term_join rs : Forall good rs -> forall f, (length (join rs) <= f)%nat -> split_term f (join rs) = rs.
Proof.
  induction rs as [|r rs IH]; intros HG f Hf.
  - destruct f; reflexivity.
  - inversion HG as [|? ? G1 G2]; subst. rewrite join_cons in Hf. rewrite join_cons.
    rewrite app_length in Hf. cbn [length] in Hf.
    destruct f as [|f]; [lia|].
    cbn [split_term]. destruct (r ++ NL :: NL :: join rs) eqn:E.
    { destruct r; discriminate. }
    rewrite <- E, cut_nn_good by auto. f_equal. apply IH; auto. lia.
Qed.

(* prefixes of a well-formed stream *)
Definition tail_of (r:str) (t:str) : Prop := exists u, u <> [] /\ term r = t ++ u.  (* proper prefix of r NL NL *)

Lemma no_adj_app a b : no_adj a -> no_adj b -> (last a 0 <> NL \/ starts_ok b) -> no_adj (a ++ b).
Proof.
  induction a as [|x a IH]; intros Ha Hb Hj; [exact Hb|].
  destruct a as [|y a'].
  - cbn [app]. apply no_adj_cons. split; auto. destruct b as [|z b']; auto. cbn in Hj.
    intros [-> ->]. destruct Hj; congruence.
  - destruct Ha as [Ha1 Ha2]. change ((x :: y :: a') ++ b) with (x :: (y :: a') ++ b).
    apply no_adj_cons. split; [exact Ha1|]. apply IH; auto.
Qed.

Lemma prefix_safe r t : good r -> tail_of r t -> safe t.
Proof.
  intros (Hne & (Hs & Ha) & Hl) (u & Hu & E). unfold term in E.
  (* t is a prefix of r ++ [NL] *)
  assert (exists v, r ++ [NL] = t ++ v) as (v & Ev).
  { destruct (exists_last Hu) as (u' & z & ->). rewrite app_assoc in E.
    change (r ++ [NL; NL]) with (r ++ [NL] ++ [NL]) in E. rewrite app_assoc in E.
    apply app_inj_tail in E as [E _]. eauto. }
  assert (no_adj (r ++ [NL])) as Hn by (apply no_adj_app; cbn; auto).
  rewrite Ev in Hn. split; [|eapply no_adj_app_inv; eauto].
  destruct t as [|c t']; cbn; auto. destruct r as [|c' r']; [congruence|].
  cbn in Ev. injection Ev as -> _. exact Hs.
Qed.

Lemma app_eq_cases {A} (a b a' b' : list A) : a ++ b = a' ++ b' ->
  (exists m, a = a' ++ m /\ b' = m ++ b) \/ (exists m, m <> [] /\ a' = a ++ m /\ b = m ++ b').
Proof.
  revert a'; induction a as [|x a IH]; intros a' H; cbn in H.
  - destruct a' as [|y a']; cbn in H.
    + left. exists []. split; auto.
    + right. exists (y :: a'). repeat split; auto; congruence.
  - destruct a' as [|y a']; cbn in H.
    + left. exists (x :: a). split; auto.
    + injection H as -> H. destruct (IH _ H) as [(m & -> & ->)|(m & Hm & -> & ->)].
      * left. exists m. auto.
      * right. exists m. auto.
Qed.

Lemma join_app a b : join (a ++ b) = join a ++ join b.
Proof. unfold join. rewrite map_app, concat_app. reflexivity. Qed.

Lemma decompose rs : Forall good rs -> forall P Q, P ++ Q = join rs ->
  exists j t, P = join (firstn j rs) ++ t /\ t ++ Q = join (skipn j rs) /\
              match skipn j rs with [] => t = [] | r :: _ => tail_of r t end.
Proof.
  induction rs as [|r rs IH]; intros HG P Q E.
  - cbn in E. apply app_eq_nil in E as [-> ->]. exists 0%nat, []. cbn. auto.
  - inversion HG as [|? ? G1 G2]; subst. unfold join in E; cbn [map concat] in E. fold (join rs) in E.
    destruct (app_eq_cases _ _ _ _ E) as [(m & -> & Em)|(m & Hm & Et & ->)].
    + destruct (IH G2 m Q (eq_sym Em)) as (j & t & -> & E2 & Hs).
      exists (S j), t. cbn [firstn skipn]. repeat split; auto.
      unfold join; cbn [map concat]. rewrite app_assoc. reflexivity.
    + exists 0%nat, P. cbn [firstn skipn]. repeat split; auto. exists m. auto.
Qed.

Section Thm.
  Variable entry : Type.
  Variable parse_rec : str -> option entry.
  Variable valid : str -> bool.
  Variable parsed : str -> entry.
  Notation write := (write entry parse_rec valid).
  Notation writes := (writes entry parse_rec valid).
  Notation process := (process entry parse_rec).

  Definition okrec (r:str) : Prop := good r /\ parse_rec r = Some (parsed r).
  Hypothesis valid_join : forall l, Forall okrec l -> valid (join l) = true.

  Lemma process_ok l : Forall okrec l -> forall es, process l es = (es ++ map parsed l, true).
  Proof. induction 1 as [|r l [_ Hr] _ IH]; intros es; cbn [process map].
    - rewrite app_nil_r; reflexivity.
    - rewrite Hr, IH, <- app_assoc. reflexivity. Qed.

  Lemma Forall_firstn {A} (P:A->Prop) l n : Forall P l -> Forall P (firstn n l).
  Proof. revert n; induction l; intros [|n] H; cbn; auto. inversion H; subst. constructor; auto. Qed.
  Lemma Forall_skipn {A} (P:A->Prop) l n : Forall P l -> Forall P (skipn n l).
  Proof. revert n; induction l; intros [|n] H; cbn; auto. inversion H; subst. auto. Qed.
  Lemma okrec_good l : Forall okrec l -> Forall good l.
  Proof. induction 1; constructor; auto. destruct H; auto. Qed.

  Lemma join_snoc_shape l : l <> [] -> exists x, join l = x ++ [NL; NL].
  Proof. intros H. destruct (exists_last H) as (l' & r & ->). rewrite join_app. unfold join at 2; cbn. rewrite app_nil_r.
    exists (join l' ++ r). unfold term. rewrite app_assoc. reflexivity. Qed.

  Lemma tail_safe rs t : Forall good rs -> match rs with [] => t = [] | r :: _ => tail_of r t end -> safe t.
  Proof. intros HG H. destruct rs as [|r rs].
    - subst; split; cbn; auto.
    - inversion HG; subst. eapply prefix_safe; eauto. Qed.

  (* one write, on a buffer that is a prefix of a well-formed stream *)
  Lemma write_prefix rs t0 c Q es : Forall okrec rs -> (t0 ++ c) ++ Q = join rs ->
    exists j t, write {| buf := t0; entries := es |} c =
                  WOk entry {| buf := t; entries := es ++ map parsed (firstn j rs) |}
                /\ t ++ Q = join (skipn j rs)
                /\ match skipn j rs with [] => t = [] | r :: _ => tail_of r t end.
  Proof.
    intros Hok E. pose proof (okrec_good _ Hok) as HG.
    destruct (decompose rs HG _ _ E) as (j & t & EP & EQ & Ht).
    exists j, t. split; [|split; [exact EQ|exact Ht]].
    pose proof (tail_safe _ t (Forall_skipn _ _ j HG) Ht) as Hsafe.
    unfold write. cbn [buf entries]. rewrite EP.
    destruct (firstn j rs) as [|r0 l0] eqn:Ef.
    - cbn [join map concat app]. rewrite last_nn_safe by apply Hsafe. cbn [map]. rewrite app_nil_r. reflexivity.
    - assert (Forall okrec (r0 :: l0)) as Hok' by (rewrite <- Ef; apply Forall_firstn; auto).
      destruct (join_snoc_shape (r0 :: l0)) as (x & Ex); [discriminate|].
      rewrite Ex, <- app_assoc. cbn [app]. rewrite last_nn_app by exact Hsafe.
      assert (length x + 2 = length (x ++ [NL; NL]))%nat as -> by (rewrite app_length; cbn; lia).
      change (x ++ NL :: NL :: t) with (x ++ [NL; NL] ++ t). rewrite app_assoc.
      rewrite firstn_app, Nat.sub_diag, firstn_all, firstn_O, app_nil_r.
      rewrite skipn_app, Nat.sub_diag, skipn_all, skipn_O. cbn [app].
      rewrite <- Ex. rewrite valid_join by exact Hok'.
      rewrite split_term_join by (auto using okrec_good).
      rewrite process_ok by exact Hok'. reflexivity.
  Qed.

  Theorem chunk_independent_gen : forall cs rs t0 es, Forall okrec rs -> t0 ++ concat cs = join rs ->
    match rs with [] => t0 = [] | r :: _ => tail_of r t0 end ->
    writes {| buf := t0; entries := es |} cs = WOk entry {| buf := []; entries := es ++ map parsed rs |}.
  Proof.
    induction cs as [|c cs IH]; intros rs t0 es Hok E Ht; cbn [concat writes] in *.
    - rewrite app_nil_r in E. destruct rs as [|r rs].
      + subst. cbn. rewrite app_nil_r. reflexivity.
      + exfalso. destruct Ht as (u & Hu & Eu). rewrite join_cons in E. unfold term in Eu.
        assert (length (r ++ [NL; NL]) = length (t0 ++ u)) as HL by (rewrite Eu; reflexivity).
        rewrite E, !app_length in HL. cbn [length] in HL. destruct u; [congruence|]. cbn [length] in HL. lia.
    - rewrite app_assoc in E. destruct (write_prefix rs t0 c (concat cs) es Hok E) as (j & t & -> & EQ & Ht').
      rewrite (IH (skipn j rs) t _ (Forall_skipn _ _ j Hok) EQ Ht').
      rewrite <- app_assoc, <- map_app, firstn_skipn. reflexivity.
  Qed.

  (* the property: every partition of a well-formed stream gives the stream's entries, all writes succeed *)
  Theorem chunk_independent rs cs : Forall okrec rs -> concat cs = join rs ->
    writes {| buf := []; entries := [] |} cs = WOk entry {| buf := []; entries := map parsed rs |}.
  Proof.
    intros Hok E. apply (chunk_independent_gen cs rs [] [] Hok E).
    destruct rs as [|r rs]; auto. exists (term r). split; [unfold term; destruct r; discriminate | reflexivity].
  Qed.
End Thm.

Print Assumptions chunk_independent.
