From Coq Require Import List NArith Bool Lia.
Import ListNotations.
Definition chr := N.
Inductive spec := Single (c:chr) | Range (a b:chr).
Inductive tok := TChar (c:chr) | TAny | TStar | TIn (cs:list spec) | TNotIn (cs:list spec).
Inductive mres := Match | Sub | Entire.
Definition in_spec (c:chr) (s:spec) : bool :=
  match s with Single x => N.eqb c x | Range a b => N.leb a c && N.leb c b end.
Definition tok1 (t:tok) (c:chr) : bool :=
  match t with TChar x => N.eqb c x | TAny => true | TIn cs => existsb (in_spec c) cs
  | TNotIn cs => negb (existsb (in_spec c) cs) | TStar => false end.
Fixpoint gm (ts:list tok) (s:list chr) {struct ts} : mres :=
  match ts with
  | [] => match s with [] => Match | _ => Sub end
  | TStar :: ts' =>
      (fix loop (s:list chr) : mres :=
         match gm ts' s with
         | Sub => match s with [] => gm ts' [] | _ :: s' => loop s' end
         | m => m
         end) s
  | t :: ts' => match s with [] => Entire | c :: s' => if tok1 t c then gm ts' s' else Sub end
  end.
(* declarative spec *)
Inductive gmatch : list tok -> list chr -> Prop :=
| gm_nil : gmatch [] []
| gm_star t s1 s2 : gmatch t s2 -> gmatch (TStar :: t) (s1 ++ s2)
| gm_one tk t c s : tk <> TStar -> tok1 tk c = true -> gmatch t s -> gmatch (tk :: t) (c :: s).
Local Open Scope N_scope.
Eval vm_compute in gm [TChar 102; TStar; TIn [Range 48 57]; TStar] [102;111;45;49;46].
