From Coq Require Import List NArith ZArith Bool Lia Arith Decimal DecimalZ DecimalN DecimalPos.
Import ListNotations.
Local Open Scope Z_scope.
Notation str := (list N).

(* digits of a Decimal.uint as ASCII codes *)
Fixpoint uint_chars (u:uint) : str :=
  match u with
  | Nil => [] | D0 r => 48%N :: uint_chars r | D1 r => 49%N :: uint_chars r | D2 r => 50%N :: uint_chars r
  | D3 r => 51%N :: uint_chars r | D4 r => 52%N :: uint_chars r | D5 r => 53%N :: uint_chars r
  | D6 r => 54%N :: uint_chars r | D7 r => 55%N :: uint_chars r | D8 r => 56%N :: uint_chars r
  | D9 r => 57%N :: uint_chars r end.
(* Rust's Display for integers *)
Definition print_z (z:Z) : str :=
  match Z.to_int z with Pos u => uint_chars u | Neg u => 45%N :: uint_chars u end.

(* Rust's FromStr for i64: optional sign, >=1 digit, range check *)
Definition is_digit (c:N) : bool := (48 <=? c)%N && (c <=? 57)%N.
Definition digits_value (ds:str) : Z := fold_left (fun acc d => 10 * acc + (Z.of_N d - 48)) ds 0.
Definition parse_digits (ds:str) : option Z :=
  match ds with [] => None | _ => if forallb is_digit ds then Some (digits_value ds) else None end.
Definition i64_min := -9223372036854775808. Definition i64_max := 9223372036854775807.
Definition parse_i64 (s:str) : option Z :=
  let r := match s with
           | 45%N :: ds => option_map Z.opp (parse_digits ds)
           | 43%N :: ds => parse_digits ds
           | _ => parse_digits s end in
  match r with Some v => if (i64_min <=? v) && (v <=? i64_max) then Some v else None | None => None end.

Eval vm_compute in (print_z 0, print_z (-120), print_z 9223372036854775807).
Eval vm_compute in map parse_i64 [print_z 0; print_z (-120); [43;53]%N; [45;48]%N; [48;48;55]%N; []; [45]%N; print_z 9223372036854775808; print_z (-9223372036854775808)].

(* round trip *)
Lemma uint_chars_digits u : forallb is_digit (uint_chars u) = true.
Proof. induction u; cbn; auto. Qed.

Lemma fold_value_acc ds acc : fold_left (fun a d => 10 * a + (Z.of_N d - 48)) ds acc =
  acc * 10 ^ Z.of_nat (length ds) + digits_value ds.
Proof.
  unfold digits_value. revert acc; induction ds as [|d ds IH]; intros acc.
  - cbn. lia.
  - cbn [fold_left length]. rewrite IH. rewrite (IH (10 * 0 + _)). rewrite Nat2Z.inj_succ, Z.pow_succ_r by lia. lia.
Qed.

Import DecimalPos.Unsigned.

Lemma of_lu_rev_cons (f:uint->uint) (k:N) u :
  (forall d, of_lu (f d) = k + 10 * of_lu d)%N -> (forall d d', revapp (f d) d' = revapp d (f d')) ->
  Z.of_N (of_lu (rev (f u))) = Z.of_N (of_lu (rev u)) + Z.of_N k * 10 ^ Z.of_N (usize u).
Proof.
  intros Hf Hr. unfold rev. rewrite Hr, of_lu_revapp, Hf. cbn [of_lu].
  rewrite N2Z.inj_add, N2Z.inj_mul, N2Z.inj_pow, N2Z.inj_add, N2Z.inj_mul. cbn. unfold rev. ring.
Qed.

Ltac zn := repeat match goal with |- context[Z.of_N (Npos ?p)] => change (Z.of_N (Npos p)) with (Zpos p) end; change (Z.of_N 0) with 0.

Lemma fold_uint u : forall acc,
  fold_left (fun a d => 10 * a + (Z.of_N d - 48)) (uint_chars u) acc =
  acc * 10 ^ Z.of_N (usize u) + Z.of_N (of_lu (rev u)).
Proof.
  induction u; intros acc; cbn [uint_chars fold_left usize]; [cbn; lia | ..];
  rewrite IHu, N2Z.inj_succ, Z.pow_succ_r by lia.
  - rewrite (of_lu_rev_cons D0 0) by (intros; reflexivity). zn; ring.
  - rewrite (of_lu_rev_cons D1 1) by (intros; reflexivity). zn; ring.
  - rewrite (of_lu_rev_cons D2 2) by (intros; reflexivity). zn; ring.
  - rewrite (of_lu_rev_cons D3 3) by (intros; reflexivity). zn; ring.
  - rewrite (of_lu_rev_cons D4 4) by (intros; reflexivity). zn; ring.
  - rewrite (of_lu_rev_cons D5 5) by (intros; reflexivity). zn; ring.
  - rewrite (of_lu_rev_cons D6 6) by (intros; reflexivity). zn; ring.
  - rewrite (of_lu_rev_cons D7 7) by (intros; reflexivity). zn; ring.
  - rewrite (of_lu_rev_cons D8 8) by (intros; reflexivity). zn; ring.
  - rewrite (of_lu_rev_cons D9 9) by (intros; reflexivity). zn; ring.
Qed.

Lemma value_of_uint u : digits_value (uint_chars u) = Z.of_N (Pos.of_uint u).
Proof. unfold digits_value. rewrite fold_uint, of_uint_alt. lia. Qed.

Lemma uint_chars_nonnil u : u <> Nil -> uint_chars u <> [].
Proof. destruct u; cbn; congruence. Qed.

Lemma parse_digits_uint u : u <> Nil -> parse_digits (uint_chars u) = Some (Z.of_N (Pos.of_uint u)).
Proof. intros H. unfold parse_digits. destruct (uint_chars u) eqn:E; [apply uint_chars_nonnil in H; congruence|].
  rewrite <- E, uint_chars_digits, value_of_uint. reflexivity. Qed.

Lemma head_digit u : match uint_chars u with c :: _ => (48 <= Z.of_N c <= 57) | [] => True end.
Proof. destruct u; cbn; lia. Qed.

Theorem parse_print_i64 z : i64_min <= z <= i64_max -> parse_i64 (print_z z) = Some z.
Proof.
  intros R. unfold parse_i64, print_z. pose proof (DecimalZ.of_to z) as OT.
  destruct (Z.to_int z) as [u|u] eqn:E.
  - (* non-negative *)
    assert (u <> Nil) as Hn.
    { intros ->. destruct z as [|p|p]; cbn in E; try discriminate.
      all: injection E as E; apply (to_uint_nonnil p); auto. }
    assert (Z.of_N (Pos.of_uint u) = z) as V by (cbn in OT; exact OT).
    pose proof (head_digit u) as HD. destruct (uint_chars u) as [|c r] eqn:EC; [apply uint_chars_nonnil in Hn; congruence|].
    assert (parse_digits (c :: r) = Some z) as P by (rewrite <- EC, parse_digits_uint, V; auto).
    destruct c as [|p]; [lia|].
    assert (Npos p <> 45%N /\ Npos p <> 43%N) as [N1 N2] by (split; intros X; rewrite X in HD; cbn in HD; lia).
    replace (match Npos p with 45%N => _ | 43%N => _ | _ => parse_digits (Npos p :: r) end) with (parse_digits (Npos p :: r)).
    2:{ clear -N1 N2. repeat (destruct p as [p|p|]; try reflexivity); congruence. }
    rewrite P. replace ((i64_min <=? z) && (z <=? i64_max)) with true; auto.
    symmetry. apply andb_true_intro. split; apply Z.leb_le; lia.
  - assert (u <> Nil) as Hn.
    { intros ->. destruct z as [|p|p]; cbn in E; try discriminate.
      all: injection E as E; apply (to_uint_nonnil p); auto. }
    assert (- Z.of_N (Pos.of_uint u) = z) as V by (cbn in OT; exact OT).
    rewrite parse_digits_uint by auto. cbn [option_map]. rewrite V.
    replace ((i64_min <=? z) && (z <=? i64_max)) with true; auto.
    symmetry. apply andb_true_intro. split; apply Z.leb_le; lia.
Qed.
Print Assumptions parse_print_i64.
