(* ScanIndex.v - executable model of src/scanindex.rs: ScanIndex::from_reader
   (grouping of lines into records at 'PKGNAME=' lines) and the record
   deserialiser (KEY=VALUE map, last wins, list fields split on white space).
   Text = Unicode scalar values. *)
Require Import PV.Base PV.Dec PV.Dewey PV.Pattern PV.Summary PV.Distinfo PV.PkgPathM.
Require Import Coq.Strings.String.
Import Coq.Lists.List ListNotations.
Local Open Scope N_scope.

(* str::trim: Unicode White_Space at both ends *)
Fixpoint trim_start (s : str) : str :=
  match s with c :: r => if is_uni_ws c then trim_start r else s | [] => [] end.
Definition trim (s : str) : str := frev (trim_start (frev (trim_start s))).
(* str::split_whitespace *)
Fixpoint words_aux (cur : str) (l : str) : list str :=
  match l with
  | [] => match cur with [] => [] | _ => [frev cur] end
  | c :: r => if is_uni_ws c
              then match cur with [] => words_aux [] r | _ => frev cur :: words_aux [] r end
              else words_aux (c :: cur) r
  end.
Definition words (s : str) : list str := words_aux [] s.

(* the KEY=VALUE map of one block: the trimmed value of the last line whose
   trimmed key is k; lines without '=' are ignored *)
Definition kv_get (k : str) (block : list str) : option str :=
  fold_left (fun acc l => match split_once 61 l with
                          | Some (a, b) => if eqs (trim a) k then Some (trim b) else acc
                          | None => acc end) block None.

Record scanrec := mkscanrec {
  sr_pkgname : str; sr_location : option pkgpath; sr_all_depends : list depend;
  sr_scalars : list (option str);      (* PKG_SKIP_REASON PKG_FAIL_REASON NO_BIN_ON_FTP RESTRICTED CATEGORIES
                                          MAINTAINER USE_DESTDIR BOOTSTRAP_PKG USERGROUP_PHASE PBULK_WEIGHT *)
  sr_scan_depends : list str; sr_multi_version : list str }.
Definition scalar_keys : list str :=
  [lit "PKG_SKIP_REASON"; lit "PKG_FAIL_REASON"; lit "NO_BIN_ON_FTP"; lit "RESTRICTED"; lit "CATEGORIES";
   lit "MAINTAINER"; lit "USE_DESTDIR"; lit "BOOTSTRAP_PKG"; lit "USERGROUP_PHASE"; lit "PBULK_WEIGHT"].
Fixpoint all_some {A} (l : list (option A)) : option (list A) :=
  match l with
  | [] => Some []
  | Some x :: r => option_map (cons x) (all_some r)
  | None :: _ => None
  end.
(* the Deserialize impl: any invalid ALL_DEPENDS item, a missing PKGNAME or an
   invalid PKG_LOCATION fails the record *)
Definition record_of (block : list str) : option scanrec :=
  let deps := match kv_get (lit "ALL_DEPENDS") block with
              | None => Some []
              | Some v => all_some (map (fun w => match depend_new w with Val d => Some d | _ => None end) (words v))
              end in
  match deps with
  | None => None
  | Some ds =>
      match kv_get (lit "PKGNAME") block with
      | None => None
      | Some name =>
          let loc := match kv_get (lit "PKG_LOCATION") block with
                     | None => Some None
                     | Some v => option_map Some (pkgpath_new v)
                     end in
          match loc with
          | None => None
          | Some lo =>
              Some (mkscanrec name lo ds (map (fun k => kv_get k block) scalar_keys)
                              (match kv_get (lit "SCAN_DEPENDS") block with None => [] | Some v => words v end)
                              (match kv_get (lit "MULTI_VERSION") block with None => [] | Some v => words v end))
          end
      end
  end.

(* from_reader: the read loop.  [buffer] holds the lines of the record being
   collected (reversed). *)
Fixpoint read_loop (ls : list str) (buffer : list str) (done : list scanrec) : option (list scanrec) :=
  match ls with
  | [] => match buffer with
          | [] => Some (frev done)
          | _ => match record_of (frev buffer) with Some r => Some (frev (r :: done)) | None => None end
          end
  | l0 :: r =>
      let l := trim l0 in
      match l with
      | [] => read_loop r buffer done
      | _ =>
          if starts_with (lit "PKGNAME=") l && (match buffer with [] => false | _ => true end)
          then match record_of (frev buffer) with
               | Some rec => read_loop r [l] (rec :: done)
               | None => None
               end
          else read_loop r (l :: buffer) done
      end
  end.
(* [io_fail]: the reader reports an I/O error at some line: the whole read fails *)
Definition scan_read (t : str) (io_fail : bool) : option (list scanrec) :=
  if io_fail then None else read_loop (lines t) [] [].
