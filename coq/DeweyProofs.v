(* DeweyProofs.v - proofs about the dewey model: fuel sufficiency, the code's
   three-branch comparison = zero-padded lexicographic order, order laws,
   revision of an nb suffix, model tokeniser = table tokeniser. *)
Require Import PV.Base PV.Dewey PV.DeweySpec.
Local Open Scope Z_scope.

(* ================= comparison ================= *)
Lemma test_cmp x o y : test x o y = testc (x ?= y) o.
Proof.
  destruct o; cbn; unfold Z.geb, Z.gtb, Z.leb, Z.ltb; destruct (x ?= y); reflexivity.
Qed.

Lemma tail0_first_nz t : tail0 t = match first_nz t with None => Eq | Some x => x ?= 0 end.
Proof. induction t as [|x t IH]; cbn [tail0 first_nz]; auto.
  destruct (Z.eqb_spec 0 x) as [<-|N].
  - rewrite Z.compare_refl. exact IH.
  - destruct (x ?= 0) eqn:E; try reflexivity. apply Z.compare_eq in E. congruence. Qed.
Lemma first_nz_nz t x : first_nz t = Some x -> x <> 0.
Proof. induction t as [|y t IH]; cbn [first_nz]; [discriminate|].
  destruct (Z.eqb_spec 0 y); auto. intros [= <-]. congruence. Qed.

Lemma common_spec l r : match common l r with
  | (Some (x,y), _) => x <> y /\ lexpad l r = (x ?= y)
  | (None, (lt, rt)) => (lt = [] \/ rt = []) /\ lexpad l r = lexpad lt rt /\
                        (length l - length lt = length r - length rt)%nat /\ (length lt <= length l)%nat /\ (length rt <= length r)%nat
  end.
Proof.
  revert r; induction l as [|x l IH]; intros r.
  - cbn. repeat split; auto. lia.
  - destruct r as [|y r]; [cbn; repeat split; auto; lia|].
    cbn [common]. destruct (Z.eqb_spec x y) as [->|N].
    + specialize (IH r). destruct (common l r) as [[[a b]|] [lt rt]].
      * cbn [lexpad]. rewrite Z.compare_refl. exact IH.
      * cbn [lexpad length]. rewrite Z.compare_refl. destruct IH as (A & B & C & D & E). repeat split; auto; lia.
    + split; auto. cbn [lexpad]. destruct (Z.compare_spec x y); try lia; reflexivity.
Qed.

Theorem cmp_is_padded_lex l o r : dewey_cmp l o r = testc (vcmp l r) o.
Proof.
  unfold dewey_cmp, vcmp. pose proof (common_spec (comps l) (comps r)) as H.
  destruct (common (comps l) (comps r)) as [[[x y]|] [lt rt]].
  - destruct H as [N ->]. rewrite test_cmp. destruct (Z.compare_spec x y); try lia; reflexivity.
  - destruct H as (Hnil & -> & Hlen & Hl1 & Hl2).
    destruct (Nat.compare_spec (length (comps l)) (length (comps r))) as [E|E|E].
    + assert (lt = [] /\ rt = []) as [-> ->].
      { destruct Hnil as [->| ->]; cbn [length] in *; split; auto; apply length_zero_iff_nil; lia. }
      cbn. apply test_cmp.
    + assert (lt = []) as ->. { destruct Hnil as [->| ->]; auto. cbn [length] in *. apply length_zero_iff_nil; lia. }
      cbn [lexpad]. rewrite tail0_first_nz. destruct (first_nz rt) as [y|] eqn:F.
      * apply first_nz_nz in F. rewrite test_cmp, <- Z.compare_antisym.
        destruct (Z.compare_spec 0 y); try lia; reflexivity.
      * cbn. apply test_cmp.
    + assert (rt = []) as ->. { destruct Hnil as [->| ->]; auto. cbn [length] in *. apply length_zero_iff_nil; lia. }
      assert (lexpad lt [] = tail0 lt) as -> by (destruct lt; reflexivity).
      rewrite tail0_first_nz. destruct (first_nz lt) as [x|] eqn:F.
      * apply first_nz_nz in F. rewrite test_cmp.
        destruct (Z.compare_spec x 0); try lia; reflexivity.
      * cbn. apply test_cmp.
Qed.

(* ---- lexpad = the literally padded comparison ---- *)
Lemma lex_repeat n : lex (repeat 0 n) (repeat 0 n) = Eq.
Proof. induction n; cbn [repeat lex]; auto. Qed.
Lemma lex_pad_nil_l n r : (length r <= n)%nat -> lex (repeat 0 n) (r ++ repeat 0 (n - length r)) = CompOpp (tail0 r).
Proof.
  revert n; induction r as [|y r IH]; intros n H.
  - cbn [app length]. rewrite Nat.sub_0_r. cbn [tail0 CompOpp]. apply lex_repeat.
  - destruct n as [|n]; cbn [length] in H; [lia|]. cbn [repeat app lex tail0 length Nat.sub].
    rewrite (Z.compare_antisym y 0). destruct (y ?= 0); cbn; auto. apply IH. lia.
Qed.
Lemma lex_pad_nil_r n l : (length l <= n)%nat -> lex (l ++ repeat 0 (n - length l)) (repeat 0 n) = tail0 l.
Proof.
  revert n; induction l as [|x l IH]; intros n H.
  - cbn [app length]. rewrite Nat.sub_0_r. cbn [tail0]. apply lex_repeat.
  - destruct n as [|n]; cbn [length] in H; [lia|]. cbn [repeat app lex tail0 length Nat.sub].
    destruct (x ?= 0); auto. apply IH. lia.
Qed.
Lemma lexpad_decl_gen l r n : (length l <= n)%nat -> (length r <= n)%nat -> lex (pad n l) (pad n r) = lexpad l r.
Proof.
  unfold pad. revert r n; induction l as [|x l IH]; intros r n Hl Hr.
  - cbn [app length lexpad]. rewrite Nat.sub_0_r. apply lex_pad_nil_l; auto.
  - destruct r as [|y r].
    + change (lexpad (x :: l) []) with (tail0 (x :: l)). cbn [app length]. rewrite Nat.sub_0_r.
      apply (lex_pad_nil_r n (x :: l)); auto.
    + destruct n as [|n]; cbn [length] in *; [lia|]. cbn [app lex lexpad Nat.sub].
      destruct (x ?= y); auto. apply IH; lia.
Qed.
Theorem lexpad_is_decl l r : lexpad_decl l r = lexpad l r.
Proof. unfold lexpad_decl. apply lexpad_decl_gen; lia. Qed.

(* ---- order laws ---- *)
Lemma lexpad_nil_r l : lexpad l [] = tail0 l. Proof. destruct l; reflexivity. Qed.
Lemma lexpad_antisym l r : lexpad r l = CompOpp (lexpad l r).
Proof.
  revert r; induction l as [|x l IH]; intros r.
  - rewrite lexpad_nil_r. cbn. rewrite CompOpp_involutive. reflexivity.
  - destruct r as [|y r]; [reflexivity|]. cbn [lexpad]. rewrite (Z.compare_antisym x y).
    destruct (x ?= y); cbn; auto.
Qed.
Lemma vcmp_antisym a b : vcmp b a = CompOpp (vcmp a b).
Proof. unfold vcmp. rewrite lexpad_antisym. destruct (lexpad (comps a) (comps b)); cbn; auto.
  apply Z.compare_antisym. Qed.
Lemma lexpad_refl l : lexpad l l = Eq.
Proof. induction l; cbn; auto. rewrite Z.compare_refl; auto. Qed.

Lemma lex_trans : forall a b c, length a = length b -> length b = length c ->
  lex a b <> Gt -> lex b c <> Gt -> lex a c <> Gt /\ (lex a c = Eq -> lex a b = Eq /\ lex b c = Eq).
Proof.
  induction a as [|x a IH]; intros [|y b] [|z c] H1 H2 Hab Hbc; cbn in *; try lia; auto.
  destruct (Z.compare_spec x y), (Z.compare_spec y z), (Z.compare_spec x z); try lia; try congruence;
    try (apply IH; auto; lia); split; auto; try congruence.
Qed.
Lemma pad_length n l : (length l <= n)%nat -> length (pad n l) = n.
Proof. intros; unfold pad; rewrite app_length, repeat_length; lia. Qed.
Lemma lexpad_trans a b c : lexpad a b <> Gt -> lexpad b c <> Gt ->
  lexpad a c <> Gt /\ (lexpad a c = Eq -> lexpad a b = Eq /\ lexpad b c = Eq).
Proof.
  set (n := Nat.max (length a) (Nat.max (length b) (length c))).
  rewrite <- (lexpad_decl_gen a b n), <- (lexpad_decl_gen b c n), <- (lexpad_decl_gen a c n) by lia.
  apply lex_trans; rewrite !pad_length; lia.
Qed.

Definition vle (a b : ver) : Prop := vcmp a b <> Gt.
Theorem vle_trans a b c : vle a b -> vle b c -> vle a c.
Proof.
  unfold vle, vcmp. intros Hab Hbc.
  destruct (lexpad (comps a) (comps b)) eqn:E1; try congruence;
  destruct (lexpad (comps b) (comps c)) eqn:E2; try congruence;
  destruct (lexpad_trans (comps a) (comps b) (comps c)) as [T1 T2]; try congruence;
  destruct (lexpad (comps a) (comps c)) eqn:E3; try congruence;
  try (destruct (T2 eq_refl); congruence).
  destruct (Z.compare_spec (revn a) (revn b)), (Z.compare_spec (revn b) (revn c)), (Z.compare_spec (revn a) (revn c));
    try lia; congruence.
Qed.
Lemma vcmp_refl a : vcmp a a = Eq.
Proof. unfold vcmp. rewrite lexpad_refl. apply Z.compare_refl. Qed.
(* vcmp Eq-classes are respected by the order: needed for best_match *)
Lemma vcmp_trans_gen a b c : vcmp a b <> Gt -> vcmp b c <> Gt -> vcmp a c <> Gt.
Proof. exact (vle_trans a b c). Qed.
Lemma vcmp_eq_trans a b c : vcmp a b = Eq -> vcmp b c = Eq -> vcmp a c = Eq.
Proof.
  intros H1 H2.
  assert (vcmp a c <> Gt) as A by (apply (vle_trans a b c); unfold vle; congruence).
  assert (vcmp c a <> Gt) as B.
  { apply (vle_trans c b a); unfold vle; rewrite vcmp_antisym; [rewrite H2|rewrite H1]; discriminate. }
  rewrite vcmp_antisym in B. destruct (vcmp a c); cbn in *; congruence.
Qed.

Theorem law_trichotomy a b :
  let lt := dewey_cmp a LT b in let gt := dewey_cmp a GT b in
  let eq := dewey_cmp a LE b && dewey_cmp a GE b in
  (lt = true /\ gt = false /\ eq = false) \/ (lt = false /\ gt = true /\ eq = false) \/ (lt = false /\ gt = false /\ eq = true).
Proof. cbn. rewrite !cmp_is_padded_lex. destruct (vcmp a b); cbn; auto. Qed.
Theorem law_le_is_not_gt a b : dewey_cmp a LE b = negb (dewey_cmp a GT b).
Proof. rewrite !cmp_is_padded_lex. destruct (vcmp a b); reflexivity. Qed.
Theorem law_ge_is_not_lt a b : dewey_cmp a GE b = negb (dewey_cmp a LT b).
Proof. rewrite !cmp_is_padded_lex. destruct (vcmp a b); reflexivity. Qed.
Theorem law_refl a : dewey_cmp a LE a = true /\ dewey_cmp a GE a = true.
Proof. rewrite !cmp_is_padded_lex, vcmp_refl. auto. Qed.
Theorem law_swap a o b : dewey_cmp a o b = dewey_cmp b (flip o) a.
Proof. rewrite !cmp_is_padded_lex, (vcmp_antisym a b). destruct o, (vcmp a b); reflexivity. Qed.
Theorem law_trans a b c : dewey_cmp a LE b = true -> dewey_cmp b LE c = true -> dewey_cmp a LE c = true.
Proof.
  rewrite !cmp_is_padded_lex. intros H1 H2.
  assert (vle a c) as H.
  { apply (vle_trans a b c); unfold vle; intros E; rewrite E in *; discriminate. }
  unfold vle in H. destruct (vcmp a c); cbn; congruence.
Qed.

(* ================= tokeniser ================= *)
Local Open Scope N_scope.
Lemma prefix_ci_len m s : prefix_ci m s = true -> (length m <= length s)%nat.
Proof. revert s; induction m as [|a m IH]; intros [|b s] H; cbn in *; try lia; try discriminate.
  apply andb_prop in H as [_ H]. apply IH in H. lia. Qed.

Lemma lex1_bounds s t n : lex1 s = Some (t, n) -> (1 <= n <= length s)%nat.
Proof.
  unfold lex1. destruct s as [|c s']; [discriminate|]. set (s := c :: s'). unfold lex1_body.
  pose proof (span_len s) as HL.
  destruct (fst (span_digits s)) as [|d ds] eqn:E.
  - destruct ((c =? 46) || (c =? 95)). { intros [= <- <-]; cbn; lia. }
    destruct (prefix_ci m_nb s) eqn:Pnb.
    { intros [= <- <-]. apply prefix_ci_len in Pnb. pose proof (span_len (skipn 2 s)). rewrite skipn_length in H. cbn in *. lia. }
    destruct (prefix_ci m_alpha s) eqn:P1. { intros [= <- <-]. apply prefix_ci_len in P1. cbn in *; lia. }
    destruct (prefix_ci m_beta s) eqn:P2. { intros [= <- <-]. apply prefix_ci_len in P2. cbn in *; lia. }
    destruct (prefix_ci m_pre s) eqn:P3. { intros [= <- <-]. apply prefix_ci_len in P3. cbn in *; lia. }
    destruct (prefix_ci m_rc s) eqn:P4. { intros [= <- <-]. apply prefix_ci_len in P4. cbn in *; lia. }
    destruct (prefix_ci m_pl s) eqn:P5. { intros [= <- <-]. apply prefix_ci_len in P5. cbn in *; lia. }
    destruct (is_alpha c); intros [= <- <-]; cbn; lia.
  - intros [= <- <-]. cbn [length] in *. lia.
Qed.

Theorem tokens_fuel_ok : forall f s, (length s < f)%nat -> tokens f s <> None.
Proof.
  induction f as [|f IH]; intros s H; [lia|]. cbn [tokens].
  destruct (lex1 s) as [[t n]|] eqn:E; [|discriminate].
  apply lex1_bounds in E. specialize (IH (skipn n s)). rewrite skipn_length in IH.
  destruct (tokens f (skipn n s)); [discriminate|]. exfalso. apply IH; [lia|reflexivity].
Qed.
Corollary mkv_total s : mkv_opt s <> None.
Proof. unfold mkv_opt. pose proof (tokens_fuel_ok (S (length s)) s) as H.
  destruct (tokens _ s); [discriminate|]. exfalso; apply H; auto. Qed.
Lemma mkv_opt_mkv s : mkv_opt s = Some (mkv s).
Proof. unfold mkv. pose proof (mkv_total s). destruct (mkv_opt s); congruence. Qed.

Inductive toks : str -> list tok -> Prop :=
| toks_nil : toks [] []
| toks_cons s t n ts : lex1 s = Some (t, n) -> toks (skipn n s) ts -> toks s (t :: ts).

Lemma lex1_none s : lex1 s = None -> s = [].
Proof. unfold lex1. destruct s as [|c s]; auto. intros H. exfalso. unfold lex1_body in H.
  destruct (fst (span_digits (c :: s))); [|discriminate].
  repeat match type of H with (if ?b then _ else _) = None => destruct b; try discriminate end. Qed.

Lemma tokens_toks : forall f s, (length s < f)%nat -> exists ts, tokens f s = Some ts /\ toks s ts.
Proof.
  induction f as [|f IH]; intros s H; [lia|]. cbn [tokens].
  destruct (lex1 s) as [[t n]|] eqn:E.
  - pose proof (lex1_bounds _ _ _ E) as B. destruct (IH (skipn n s)) as (ts & -> & T); [rewrite skipn_length; lia|].
    exists (t :: ts). split; auto. econstructor; eauto.
  - apply lex1_none in E as ->. exists []. split; auto. constructor.
Qed.
Lemma toks_det s : forall t1 t2, toks s t1 -> toks s t2 -> t1 = t2.
Proof. intros t1 t2 H; revert t2; induction H; intros t2 H2; inversion H2; subst; auto; try (cbn in *; discriminate).
  match goal with A : lex1 ?s = Some (t, n), B : lex1 ?s = Some _ |- _ => rewrite A in B; injection B as <- <- end.
  f_equal; auto. Qed.
Lemma mkv_toks s ts : toks s ts -> mkv s = ver_of_toks ts.
Proof.
  intros T. pose proof (mkv_opt_mkv s) as H. unfold mkv_opt in H.
  destruct (tokens_toks (S (length s)) s) as (ts' & E & T'); [lia|].
  rewrite E in H. cbn in H. injection H as <-. rewrite (toks_det _ _ _ T' T). reflexivity.
Qed.

(* --- no token that starts inside p can run past p when the suffix is "nb..." --- *)
Lemma span_app_stop p c r : is_digit c = false -> fst (span_digits (p ++ c :: r)) = fst (span_digits p).
Proof. intros Hc; induction p as [|x p IH]; cbn.
  - rewrite Hc; reflexivity.
  - destruct (is_digit x); auto. destruct (span_digits (p ++ c :: r)), (span_digits p); cbn in *; congruence. Qed.

Lemma prefix_no_n m p r : ~ In 110 m -> prefix_ci m (p ++ 110 :: r) = true -> (length m <= length p)%nat.
Proof.
  revert p; induction m as [|a m IH]; intros p Hn H; cbn; [lia|].
  destruct p as [|b p]; cbn [app prefix_ci] in H.
  - exfalso. apply andb_prop in H as [H _]. change (lower 110) with 110 in H. apply N.eqb_eq in H. apply Hn. left. auto.
  - apply andb_prop in H as [_ H]. apply IH in H; [cbn; lia|]. intros X; apply Hn; right; auto.
Qed.
Lemma prefix_nb p r : p <> [] -> prefix_ci m_nb (p ++ 110 :: 98 :: r) = true -> (2 <= length p)%nat.
Proof. intros Hp H. destruct p as [|a [|b p]]; try congruence; cbn [length]; try lia.
  cbn [app prefix_ci m_nb] in H. unfold m_nb in H. cbn [prefix_ci] in H.
  apply andb_prop in H as [_ H]. apply andb_prop in H as [H _]. discriminate. Qed.

Lemma lex1_within p r t n : p <> [] -> lex1 (p ++ 110 :: 98 :: r) = Some (t, n) -> (n <= length p)%nat.
Proof.
  intros Hp. assert (exists c p', p = c :: p') as (c & p' & Ep) by (destruct p; [congruence|eauto]).
  replace (lex1 (p ++ 110 :: 98 :: r)) with (lex1_body c (p ++ 110 :: 98 :: r)) by (subst; reflexivity).
  unfold lex1_body.
  rewrite span_app_stop by reflexivity. pose proof (span_len p) as HL.
  destruct (fst (span_digits p)) as [|d ds].
  - destruct ((c =? 46) || (c =? 95)). { intros [= <- <-]; subst; cbn; lia. }
    destruct (prefix_ci m_nb _) eqn:Pnb.
    { intros [= <- <-]. apply prefix_nb in Pnb; [|exact Hp].
      destruct p' as [|b p'']; [subst; cbn in Pnb; lia|]. subst p.
      cbn [app].
      rewrite span_app_stop by reflexivity. pose proof (span_len p''). cbn [length] in *. lia. }
    destruct (prefix_ci m_alpha _) eqn:P1.
    { intros [= <- <-]. apply prefix_no_n in P1; [exact P1|]. cbn; intuition discriminate. }
    destruct (prefix_ci m_beta _) eqn:P2.
    { intros [= <- <-]. apply prefix_no_n in P2; [exact P2|]. cbn; intuition discriminate. }
    destruct (prefix_ci m_pre _) eqn:P3.
    { intros [= <- <-]. apply prefix_no_n in P3; [exact P3|]. cbn; intuition discriminate. }
    destruct (prefix_ci m_rc _) eqn:P4.
    { intros [= <- <-]. apply prefix_no_n in P4; [exact P4|]. cbn; intuition discriminate. }
    destruct (prefix_ci m_pl _) eqn:P5.
    { intros [= <- <-]. apply prefix_no_n in P5; [exact P5|]. cbn; intuition discriminate. }
    destruct (is_alpha c); intros [= <- <-]; subst; cbn; lia.
  - intros [= <- <-]. exact HL.
Qed.

Lemma span_all ds : all_digits ds -> span_digits ds = (ds, []).
Proof. unfold all_digits. induction ds as [|d ds IH]; cbn; auto. intros H. apply andb_prop in H as [-> H].
  rewrite IH; auto. Qed.

(* the number an nb suffix denotes: its digits when they fit an i64, else 0 *)
Definition nbval (ds : str) : Z :=
  match ds with [] => 0%Z | _ => if (value ds <=? i64max)%Z then value ds else 0%Z end.

Lemma crev_eq d : all_digits d ->
  (if (cvalue (i64max + 1) d <=? i64max)%Z then cvalue (i64max + 1) d else 0%Z) = (if (value d <=? i64max)%Z then value d else 0%Z).
Proof.
  intros H. rewrite cvalue_spec by (auto; unfold i64max; lia).
  destruct (Z.le_gt_cases (value d) i64max) as [L|G].
  - rewrite Z.min_l by lia. reflexivity.
  - rewrite Z.min_r by lia. replace (i64max + 1 <=? i64max)%Z with false by (symmetry; apply Z.leb_gt; lia).
    replace (value d <=? i64max)%Z with false by (symmetry; apply Z.leb_gt; lia). reflexivity.
Qed.
Lemma lex1_final ds : all_digits ds -> lex1 (110 :: 98 :: ds) = Some (TRev (nbval ds), (2 + length ds)%nat).
Proof. intros H. change (lex1 (110 :: 98 :: ds)) with (lex1_body 110 (110 :: 98 :: ds)). unfold lex1_body.
  change (fst (span_digits (110 :: 98 :: ds))) with (@nil N). cbv iota.
  change ((110 =? 46) || (110 =? 95)) with false. cbv iota.
  change (prefix_ci m_nb (110 :: 98 :: ds)) with true. cbv iota.
  change (skipn 2 (110 :: 98 :: ds)) with ds. rewrite span_all by auto. cbn [fst]. unfold nbval.
  destruct ds as [|d ds']; [reflexivity|]. cbv zeta iota. rewrite (crev_eq (d :: ds')) by auto. reflexivity. Qed.

Lemma toks_suffix ds : all_digits ds -> forall k p, (length p <= k)%nat ->
  exists ts, toks (p ++ 110 :: 98 :: ds) (ts ++ [TRev (nbval ds)]).
Proof.
  intros Hd. induction k as [|k IH]; intros p Hk.
  - destruct p; [|cbn in Hk; lia]. exists []. cbn [app]. econstructor; [apply lex1_final; auto|].
    rewrite skipn_all2 by (cbn; lia). constructor.
  - destruct p as [|c p'] eqn:Ep.
    + exists []. cbn [app]. econstructor; [apply lex1_final; auto|]. rewrite skipn_all2 by (cbn; lia). constructor.
    + rewrite <- Ep in *. assert (p <> []) as Hne by (subst; discriminate).
      destruct (lex1 (p ++ 110 :: 98 :: ds)) as [[t n]|] eqn:E.
      2:{ apply lex1_none in E. destruct p; discriminate. }
      pose proof (lex1_within _ _ _ _ Hne E) as W. pose proof (lex1_bounds _ _ _ E) as Bn.
      destruct (IH (skipn n p)) as (ts & T). { rewrite skipn_length. subst p. cbn [length] in *. lia. }
      exists (t :: ts). cbn [app]. econstructor; [exact E|].
      rewrite skipn_app. replace (n - length p)%nat with 0%nat by lia. exact T.
Qed.

Lemma revision_snoc ts v : revision (ts ++ [TRev v]) = v.
Proof. unfold revision. rewrite fold_left_app. reflexivity. Qed.

Theorem revision_of_nb_suffix p ds : all_digits ds -> revn (mkv (p ++ 110 :: 98 :: ds)) = nbval ds.
Proof.
  intros Hd. destruct (toks_suffix ds Hd (length p) p) as (ts' & T'); [lia|].
  rewrite (mkv_toks _ _ T'). cbn. apply revision_snoc.
Qed.
