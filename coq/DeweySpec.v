(* DeweySpec.v - declarative reading of the dewey ordering (properties C01, C03):
   zero-padded position-by-position comparison, then the revision; and the
   table-driven reading of a version string. *)
Require Import PV.Base PV.Dewey.
Local Open Scope Z_scope.

(* comparison of a tail against all-zero padding *)
Fixpoint tail0 (l : list Z) : comparison :=
  match l with [] => Eq | x :: l' => match x ?= 0 with Eq => tail0 l' | c => c end end.
(* missing components read as 0 *)
Fixpoint lexpad (l r : list Z) {struct l} : comparison :=
  match l, r with
  | [], _ => CompOpp (tail0 r)
  | _, [] => tail0 l
  | x :: l', y :: r' => match x ?= y with Eq => lexpad l' r' | c => c end
  end.
(* the fully declarative reading: pad both to the same length, compare position by position *)
Fixpoint lex (l r : list Z) : comparison :=
  match l, r with
  | x :: l', y :: r' => match x ?= y with Eq => lex l' r' | c => c end
  | _, _ => Eq
  end.
Definition pad (n : nat) (l : list Z) : list Z := l ++ repeat 0 (n - length l).
Definition lexpad_decl (l r : list Z) : comparison :=
  let n := Nat.max (length l) (length r) in lex (pad n l) (pad n r).
(* components first, the package revision only on a tie *)
Definition vcmp (a b : ver) : comparison :=
  match lexpad (comps a) (comps b) with Eq => revn a ?= revn b | c => c end.
Definition testc (c : comparison) (o : op) : bool :=
  match o, c with
  | GE, Lt => false | GE, _ => true
  | GT, Gt => true | GT, _ => false
  | LE, Gt => false | LE, _ => true
  | LT, Lt => true | LT, _ => false
  end.
Definition flip (o : op) : op := match o with GE => LE | GT => LT | LE => GE | LT => GT end.

(* ---- the property's reading of a version string, by table ---- *)
Definition modifiers : list (str * Z) :=
  [(m_alpha, -3); (m_beta, -2); (m_pre, -1); (m_rc, -1); (m_pl, 0)].
Inductive item := IComp (z : Z) | ILetter (c : N) | IRev (z : Z) | IIgnore.
Definition spec1 (s : str) : option (item * nat) :=
  match s with
  | [] => None
  | c :: _ =>
      if is_digit c then
        let ds := fst (span_digits s) in Some (IComp (value ds), length ds)
      else if ((c =? 46) || (c =? 95))%N then Some (IComp 0, 1%nat)
      else if prefix_ci m_nb s then
        let ds := fst (span_digits (skipn 2 s)) in Some (IRev (value ds), (2 + length ds)%nat)
      else match find (fun m => prefix_ci (fst m) s) modifiers with
           | Some (m, v) => Some (IComp v, length m)
           | None => if is_alpha c then Some (ILetter (lower c), 1%nat)
                     else Some (IIgnore, 1%nat)
           end
  end.
Fixpoint spec_items (fuel : nat) (s : str) : list item :=
  match fuel with
  | O => []
  | S f => match spec1 s with
           | None => []
           | Some (it, n) => it :: spec_items f (skipn n s)
           end
  end.
(* [w]: the number a (lower-cased) letter contributes after its 0 *)
Definition item_comps (w : N -> Z) (it : item) : list Z :=
  match it with IComp z => [z] | ILetter c => [0; w c] | _ => [] end.
Definition items_rev (its : list item) : Z :=
  fold_left (fun r it => match it with IRev n => n | _ => r end) its 0.
Definition mkv_table (w : N -> Z) (s : str) : ver :=
  let its := spec_items (S (length s)) s in
  mkver (flat_map (item_comps w) its) (items_rev its).
(* what the code stores for a letter (pinned by unit test dewey_version_modifiers) *)
Definition code_weight (c : N) : Z := Z.of_N c.
(* the property's own reading: alphabet rank *)
Definition rank_weight (c : N) : Z := Z.of_N c - 96.
Definition mkv_spec := mkv_table rank_weight.

Definition verdict_m (o : op) (a b : str) : bool := dewey_cmp (mkv a) o (mkv b).
Definition verdict_spec (o : op) (a b : str) : bool := testc (vcmp (mkv_spec a) (mkv_spec b)) o.

(* known finding KF-C01-rank: the class of pairs on which the two letter
   weights may order differently - some position holds a letter's weight on one
   side and a non-letter component >= 1 on the other *)
Definition item_tags (it : item) : list (bool * Z) :=
  match it with IComp z => [(false, z)] | ILetter c => [(false, 0); (true, rank_weight c)] | _ => [] end.
Definition tags (s : str) : list (bool * Z) := flat_map item_tags (spec_items (S (length s)) s).
Fixpoint conflict (x y : list (bool * Z)) : bool :=
  match x, y with
  | (t1, v1) :: x', (t2, v2) :: y' =>
      (t1 && negb t2 && (1 <=? v2)) || (t2 && negb t1 && (1 <=? v1)) || conflict x' y'
  | _, _ => false
  end.
Definition letter_conflict (a b : str) : bool := conflict (tags a) (tags b).

(* every maximal digit run has at most n digits *)
Definition digit_runs_le (n : nat) (s : str) : Prop :=
  forall a ds b, s = a ++ ds ++ b -> all_digits ds -> (length ds <= n)%nat.
