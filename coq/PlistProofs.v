(* PlistProofs.v - packing lists: the line scanner yields exactly the non-blank
   lines (C14), the entry table (C14), the queries (C15). *)
Require Import PV.Base PV.Dec PV.Summary PV.Plist.
Require Import Coq.Strings.String.
Import Coq.Lists.List ListNotations.
Local Open Scope N_scope.

(* ================= the scanner ================= *)
Definition nonblank (l : str) : bool := existsb (fun c => negb (is_ascii_ws c)) l.
Definition segs (pre b : str) : list str :=
  match split_on 10 b with p :: ps => (pre ++ p) :: ps | [] => [pre] end.
Definition finalize (s : scan_st) : list str :=
  frev (if push_ok s then frev (cur s) :: pushed s else pushed s).
Definition scan_inv (s : scan_st) : Prop :=
  if trimming s then nonblank (cur s) = false /\ nlead s = List.length (cur s)
  else nonblank (cur s) = true /\ (nlead s < List.length (cur s))%nat.
Lemma nonblank_rev l : nonblank (List.rev l) = nonblank l.
Proof. unfold nonblank. induction l as [|c l IH]; cbn [List.rev existsb]; auto.
  rewrite existsb_app, IH. cbn. rewrite orb_false_r, orb_comm. reflexivity. Qed.
Lemma push_ok_nonblank s : scan_inv s -> push_ok s = nonblank (List.rev (cur s)).
Proof.
  unfold scan_inv, push_ok. rewrite nonblank_rev. destruct (trimming s); intros [H1 H2]; rewrite H1.
  - rewrite H2, Nat.ltb_irrefl, andb_false_r. reflexivity.
  - apply Nat.ltb_lt in H2 as H3. rewrite H3, andb_true_r. apply Nat.ltb_lt. lia.
Qed.
Lemma scan_inv_init : scan_inv scan_init. Proof. split; reflexivity. Qed.
Lemma scan_inv_step s ch : scan_inv s -> scan_inv (scan_step s ch).
Proof.
  unfold scan_inv, scan_step. intros H. destruct (ch =? 10); [split; reflexivity|].
  destruct (trimming s) eqn:T; cbn [andb].
  - destruct H as [H1 H2]. destruct (is_ascii_ws ch) eqn:W; cbn [trimming cur nlead nonblank existsb List.length].
    + rewrite W. cbn [negb orb]. split; [exact H1|congruence].
    + rewrite W. cbn [negb orb]. split; [reflexivity|lia].
  - destruct H as [H1 H2]. cbn [trimming cur nlead nonblank existsb List.length]. unfold nonblank in H1. rewrite H1, orb_true_r. split; [reflexivity|lia].
Qed.
Lemma segs_nl pre r : segs pre (10 :: r) = pre :: split_on 10 r.
Proof. unfold segs. cbn [split_on N.eqb Pos.eqb]. rewrite app_nil_r. reflexivity. Qed.
Lemma segs_char pre c r : (c =? 10) = false -> segs pre (c :: r) = segs (pre ++ [c]) r.
Proof. intros H. unfold segs. cbn [split_on]. rewrite H. pose proof (split_on_nonnil 10 r) as N.
  destruct (split_on 10 r) as [|p ps]; [congruence|]. rewrite <- app_assoc. reflexivity. Qed.
Lemma scan_fold b : forall s, scan_inv s ->
  finalize (fold_left scan_step b s) = List.rev (pushed s) ++ filter nonblank (segs (List.rev (cur s)) b).
Proof.
  induction b as [|c r IH]; intros s I.
  - cbn [fold_left]. unfold finalize, segs. rewrite !frev_eq. cbn [split_on]. rewrite app_nil_r, (push_ok_nonblank s I). cbn [filter].
    destruct (nonblank (List.rev (cur s))); cbn [List.rev]; [reflexivity|rewrite app_nil_r; reflexivity].
  - cbn [fold_left]. rewrite IH by (apply scan_inv_step; auto). unfold scan_step. rewrite ?frev_eq.
    destruct (N.eqb_spec c 10) as [->|Hc].
    + cbn [pushed cur List.rev app]. rewrite segs_nl. cbn [filter]. rewrite (push_ok_nonblank s I).
      unfold segs. pose proof (split_on_nonnil 10 r) as N. destruct (split_on 10 r) as [|p ps]; [congruence|]. cbn [app].
      destruct (nonblank (List.rev (cur s))); cbn [List.rev]; [rewrite <- app_assoc|]; reflexivity.
    + assert ((c =? 10) = false) as Hc' by (apply N.eqb_neq; auto). rewrite (segs_char _ c r Hc').
      destruct (trimming s && is_ascii_ws c)%bool; cbn [pushed cur List.rev]; reflexivity.
Qed.
(* the scanner returns exactly the lines that contain a non-blank byte, in order *)
Theorem scan_lines_spec b : scan_lines b = filter nonblank (split_on 10 b).
Proof.
  unfold scan_lines. fold (finalize (fold_left scan_step b scan_init)). rewrite scan_fold by apply scan_inv_init.
  cbn [pushed cur scan_init List.rev app]. unfold segs. pose proof (split_on_nonnil 10 b) as N.
  destruct (split_on 10 b); [congruence|reflexivity].
Qed.
Theorem plist_lines b : plist_of_bytes b = mapM entry_of_bytes (filter nonblank (split_on 10 b)).
Proof. unfold plist_of_bytes. rewrite scan_lines_spec. reflexivity. Qed.
(* with or without a final newline *)
Lemma split_on_snoc_nl b : split_on 10 (b ++ [10]) = split_on 10 b ++ [[]].
Proof.
  induction b as [|c r IH]; [reflexivity|]. cbn [app split_on]. rewrite IH.
  destruct (c =? 10); [reflexivity|]. pose proof (split_on_nonnil 10 r) as N. destruct (split_on 10 r); [congruence|reflexivity].
Qed.
Theorem final_newline_irrelevant b : plist_of_bytes (b ++ [10]) = plist_of_bytes b.
Proof. rewrite !plist_lines, split_on_snoc_nl, filter_app. cbn [filter nonblank existsb]. rewrite app_nil_r. reflexivity. Qed.

(* ================= one line ================= *)
Definition arg_of (rest : str) : option str := match skip_blanks rest with [] => None | a => Some a end.
Lemma position_app_first c w rest : mem c w = false -> position c (w ++ c :: rest) = Some (List.length w).
Proof. induction w as [|x w IH]; cbn [app position mem List.length]; intros H; [rewrite N.eqb_refl; reflexivity|].
  apply orb_false_elim in H as [H1 H2]. rewrite H1, IH by auto. reflexivity. Qed.
Lemma position_none c w : mem c w = false -> position c w = None.
Proof. induction w as [|x w IH]; cbn [position mem]; intros H; auto. apply orb_false_elim in H as [H1 H2]. rewrite H1, IH by auto. reflexivity. Qed.
(* the command word ends at the first space; the argument is the rest minus its leading blanks *)
Theorem cmd_args_split w rest : mem 32 w = false -> w <> [] -> cmd_args (w ++ 32 :: rest) = (w, arg_of rest).
Proof.
  intros H Hne. unfold cmd_args. rewrite position_app_first by auto.
  rewrite firstn_app, Nat.sub_diag, firstn_all, firstn_O, app_nil_r.
  assert (Nat.eqb (List.length w) 0 = false) as -> by (destruct w; [congruence|reflexivity]).
  rewrite app_length. cbn [List.length orb].
  rewrite skipn_app, Nat.sub_diag, skipn_all. cbn [skipn app skip_blanks is_ascii_ws N.eqb Pos.eqb orb].
  unfold arg_of. destruct rest as [|c r]; cbn [List.length].
  - assert (Nat.leb (List.length w + 1) (List.length w + 1) = true) as -> by (apply Nat.leb_le; lia). reflexivity.
  - assert (Nat.leb (List.length w + S (S (List.length r))) (List.length w + 1) = false) as -> by (apply Nat.leb_gt; lia).
    destruct (skip_blanks (c :: r)); reflexivity.
Qed.
Theorem cmd_args_nospace b : mem 32 b = false -> cmd_args b = (b, None).
Proof. intros H. unfold cmd_args. rewrite position_none by auto. reflexivity. Qed.

(* the table: command word -> what it does with its (optional) argument *)
Definition opt_preserve (a : option str) : res perr pentry :=
  match a with
  | Some s => if utf8_valid s then (if eqs s (lit "preserve") then Val PPreserve else Fail PEUnsupported) else Fail PEArgs
  | None => Fail PEArgs
  end.
Definition table : list (str * (option str -> res perr pentry)) :=
  [(lit "@cwd", need_os PCwd); (lit "@src", need_os PCwd); (lit "@cd", need_os PCwd);
   (lit "@exec", need_os PExec); (lit "@unexec", need_os PUnExec); (lit "@option", opt_preserve);
   (lit "@mode", opt_str PMode); (lit "@owner", opt_str POwner); (lit "@group", opt_str PGroup);
   (lit "@comment", fun a => Val (PComment a));
   (lit "@ignore", fun a => match a with Some _ => Fail PEArgs | None => Val PIgnore end);
   (lit "@name", need_str PName); (lit "@pkgdep", need_str PPkgDep); (lit "@blddep", need_str PBldDep);
   (lit "@pkgcfl", need_str PPkgCfl); (lit "@pkgdir", need_os PPkgDir); (lit "@dirrm", need_os PDirRm);
   (lit "@display", need_os PDisplay)].
Theorem entry_table w h : In (w, h) table ->
  (forall rest, entry_of_bytes (w ++ 32 :: rest) = h (arg_of rest)) /\ entry_of_bytes w = h None.
Proof.
  intros H. cbn [table In] in H.
  repeat (destruct H as [H|H]; [injection H as <- <-; split;
    [intros rest; unfold entry_of_bytes; rewrite cmd_args_split by (try reflexivity; discriminate); reflexivity
    |unfold entry_of_bytes; rewrite cmd_args_nospace by reflexivity; reflexivity]|]).
  destruct H.
Qed.
(* a line is a file entry unless it begins with '@' - whole line, byte for byte *)
Theorem file_unless_at b : match b with 64 :: _ => False | _ => True end -> entry_of_bytes b = Val (PFile b).
Proof.
  intros H. unfold entry_of_bytes. destruct (cmd_args b) as [cmd a] eqn:E.
  assert (match cmd with 64 :: _ => False | _ => True end) as Hc.
  { unfold cmd_args in E. destruct (position 32 b) as [i|]; [|injection E as <- _; exact H].
    assert (cmd = firstn i b) as -> by (destruct (_ || _)%bool; [|destruct (skip_blanks _)]; congruence).
    destruct b as [|c r]; [destruct i; exact I|]. destruct i; [exact I|]. cbn [firstn]. exact H. }
  destruct cmd as [|c r]; auto. destruct c as [|p]; auto.
  destruct (Pos.eq_dec p 64) as [->|N]; [tauto|]. repeat (destruct p as [p|p|]; auto); congruence.
Qed.
(* unknown commands are errors, never files *)
Ltac in_table := cbn [map fst table In]; repeat (first [left; reflexivity | right]).
Theorem unknown_is_error w : (exists r, w = 64 :: r) -> mem 32 w = false ->
  (forall x h, In (x, h) table -> w <> x) ->
  (forall rest, entry_of_bytes (w ++ 32 :: rest) = Fail PEUnsupported) /\ entry_of_bytes w = Fail PEUnsupported.
Proof.
  intros (r & ->) Hs Hn.
  assert (forall x, In x (map fst table) -> eqs (64 :: r) x = false) as F.
  { intros x Hx. apply in_map_iff in Hx as ((x', h) & <- & Hin). cbn [fst]. destruct (eqs_spec (64 :: r) x'); auto. exfalso. eapply Hn; eauto. }
  assert (forall a, (if eqs (64 :: r) (lit "@cwd") || eqs (64 :: r) (lit "@src") || eqs (64 :: r) (lit "@cd") then need_os PCwd a
      else if eqs (64 :: r) (lit "@exec") then need_os PExec a
      else if eqs (64 :: r) (lit "@unexec") then need_os PUnExec a
      else if eqs (64 :: r) (lit "@option") then opt_preserve a
      else if eqs (64 :: r) (lit "@mode") then opt_str PMode a
      else if eqs (64 :: r) (lit "@owner") then opt_str POwner a
      else if eqs (64 :: r) (lit "@group") then opt_str PGroup a
      else if eqs (64 :: r) (lit "@comment") then Val (PComment a)
      else if eqs (64 :: r) (lit "@ignore") then match a with Some _ => Fail PEArgs | None => Val PIgnore end
      else if eqs (64 :: r) (lit "@name") then need_str PName a
      else if eqs (64 :: r) (lit "@pkgdep") then need_str PPkgDep a
      else if eqs (64 :: r) (lit "@blddep") then need_str PBldDep a
      else if eqs (64 :: r) (lit "@pkgcfl") then need_str PPkgCfl a
      else if eqs (64 :: r) (lit "@pkgdir") then need_os PPkgDir a
      else if eqs (64 :: r) (lit "@dirrm") then need_os PDirRm a
      else if eqs (64 :: r) (lit "@display") then need_os PDisplay a
      else Fail PEUnsupported) = Fail PEUnsupported) as G.
  { intros a.
    rewrite (F (lit "@cwd")), (F (lit "@src")), (F (lit "@cd")), (F (lit "@exec")), (F (lit "@unexec")), (F (lit "@option")),
      (F (lit "@mode")), (F (lit "@owner")), (F (lit "@group")), (F (lit "@comment")), (F (lit "@ignore")), (F (lit "@name")),
      (F (lit "@pkgdep")), (F (lit "@blddep")), (F (lit "@pkgcfl")), (F (lit "@pkgdir")), (F (lit "@dirrm")), (F (lit "@display")) by in_table.
    reflexivity. }
  split.
  - intros rest. unfold entry_of_bytes. rewrite cmd_args_split by (auto; discriminate). apply G.
  - unfold entry_of_bytes. rewrite cmd_args_nospace by auto. apply G.
Qed.

(* ================= queries (C15) ================= *)
Definition is_file (e : pentry) : bool := match e with PFile _ => true | _ => false end.
Definition is_ignore (e : pentry) : bool := match e with PIgnore => true | _ => false end.
Definition no_files (seg : list pentry) : Prop := forallb (fun e => negb (is_file e)) seg = true.
Definition last_cwd (pfx : str) (seg : list pentry) : str :=
  fold_left (fun p e => match e with PCwd d => d | _ => p end) seg pfx.

(* one block = the entries up to and including the next file entry *)
Lemma files_from_seg seg : no_files seg -> forall ign rest,
  files_from ign (seg ++ rest) = files_from (ign || existsb is_ignore seg) rest.
Proof.
  unfold no_files. induction seg as [|e seg IH]; intros H ign rest; cbn [app existsb]; [rewrite orb_false_r; reflexivity|].
  cbn [forallb] in H. apply andb_prop in H as [He H]. destruct e; try discriminate; cbn [files_from is_ignore]; rewrite IH by auto;
    rewrite ?orb_false_l, ?orb_true_r; try reflexivity.
Qed.
Theorem files_block seg f rest ign : no_files seg ->
  files_from ign (seg ++ PFile f :: rest) = (if ign || existsb is_ignore seg then [] else [f]) ++ files_from false rest.
Proof. intros H. rewrite files_from_seg by auto. cbn [files_from]. destruct (ign || existsb is_ignore seg); reflexivity. Qed.
Theorem files_tail seg ign : no_files seg -> files_from ign seg = [].
Proof. intros H. rewrite <- (app_nil_r seg), files_from_seg by auto. reflexivity. Qed.

Lemma prefixed_seg seg : no_files seg -> forall ign pfx rest,
  files_prefixed_from ign pfx (seg ++ rest) = files_prefixed_from (ign || existsb is_ignore seg) (last_cwd pfx seg) rest.
Proof.
  unfold no_files. induction seg as [|e seg IH]; intros H ign pfx rest; cbn [app existsb last_cwd fold_left]; [rewrite orb_false_r; reflexivity|].
  cbn [forallb] in H. apply andb_prop in H as [He H]. fold (last_cwd (match e with PCwd d => d | _ => pfx end) seg).
  destruct e; try discriminate; cbn [files_prefixed_from is_ignore]; rewrite IH by auto;
    rewrite ?orb_false_l, ?orb_true_r; try reflexivity.
Qed.
(* the prefix is the most recent @cwd (empty if none yet) plus '/' unless it ends in one *)
Theorem prefixed_block seg f rest ign pfx : no_files seg ->
  files_prefixed_from ign pfx (seg ++ PFile f :: rest) =
  (if ign || existsb is_ignore seg then [] else [with_slash (last_cwd pfx seg) ++ f]) ++ files_prefixed_from false (last_cwd pfx seg) rest.
Proof. intros H. rewrite prefixed_seg by auto. cbn [files_prefixed_from]. destruct (ign || existsb is_ignore seg); reflexivity. Qed.

Lemma cmds_seg keep seg : no_files seg -> forall ign rest,
  cmds_from keep ign (seg ++ rest) = filter keep (filter (fun e => negb (is_ignore e)) seg) ++ cmds_from keep (ign || existsb is_ignore seg) rest.
Proof.
  unfold no_files. induction seg as [|e seg IH]; intros H ign rest; cbn [app existsb filter]; [rewrite orb_false_r; reflexivity|].
  cbn [forallb] in H. apply andb_prop in H as [He H].
  destruct e; try discriminate; cbn [cmds_from is_ignore negb filter]; rewrite IH by auto;
    rewrite ?orb_false_l, ?orb_true_r; try (match goal with |- context[if ?b then _ else _] => destruct b end); try reflexivity.
Qed.
(* install / uninstall lists: the same files as files(), plus exactly the listed command kinds, in original order *)
Theorem cmds_block keep seg f rest ign : no_files seg -> keep PIgnore = false ->
  cmds_from keep ign (seg ++ PFile f :: rest) =
  filter keep seg ++ (if ign || existsb is_ignore seg then [] else [PFile f]) ++ cmds_from keep false rest.
Proof.
  intros H Hk. rewrite cmds_seg by auto. cbn [cmds_from].
  assert (filter keep (filter (fun e => negb (is_ignore e)) seg) = filter keep seg) as ->.
  { clear H. induction seg as [|e seg IH]; [reflexivity|]. cbn [filter]. destruct e; cbn [is_ignore negb filter]; rewrite ?IH; try reflexivity.
    rewrite Hk. reflexivity. }
  destruct (ign || existsb is_ignore seg); reflexivity.
Qed.
Definition files_of (l : list pentry) : list str := flat_map (fun e => match e with PFile f => [f] | _ => [] end) l.
Theorem views_same_files keep : (forall f, keep (PFile f) = false \/ True) -> forall l ign,
  files_of (cmds_from keep ign l) = files_from ign l.
Proof.
  intros _. induction l as [|e l IH]; intros ign; [reflexivity|].
  destruct e; cbn [cmds_from files_from]; try (destruct (keep _); cbn [files_of flat_map app]; apply IH); try apply IH.
  destruct ign; cbn [files_of flat_map app]; [apply IH|f_equal; apply IH].
Qed.
Theorem prefixed_same_count l : forall ign pfx, List.length (files_prefixed_from ign pfx l) = List.length (files_from ign l).
Proof. induction l as [|e l IH]; intros ign pfx; [reflexivity|]. destruct e; cbn [files_prefixed_from files_from]; auto.
  destruct ign; cbn [List.length]; auto. Qed.
Theorem cmds_only_listed_kinds keep l : forall ign e, In e (cmds_from keep ign l) -> is_file e = true \/ keep e = true.
Proof.
  induction l as [|x l IH]; intros ign e H; [destruct H|].
  destruct x; cbn [cmds_from] in H;
    try (match type of H with In _ (if ?b then _ else _) => destruct b eqn:K end; [destruct H as [<-|H]; [right; exact K|eauto]|eauto]); eauto.
  - destruct ign; [eauto|]. destruct H as [<-|H]; [left; reflexivity|eauto].
Qed.
Theorem is_preserve_iff l : is_preserve l = true <-> In PPreserve l.
Proof. unfold is_preserve. rewrite existsb_exists. split.
  - intros (e & He & H). destruct e; try discriminate. exact He.
  - intros H. exists PPreserve. split; auto. Qed.
