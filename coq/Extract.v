(* Extract.v - monolithic extraction of the executable models and specs.
   ExtrOcamlBasic only: bool, option, list, prod, unit, sumbool map to
   OCaml's; N, Z, positive and nat stay the extracted inductives. *)
Require Import PV.Base PV.Dec PV.Dewey PV.DeweySpec PV.Pattern PV.AltSpec PV.Summary PV.Distinfo PV.DigestM PV.Plist PV.PkgPathM PV.ScanIndex PV.Metadata.
Require Extraction.
Require Import ExtrOcamlBasic.
Extraction Language OCaml.
Extraction "model.ml"
  eqs
  mkv dewey_cmp dewey_new dewey_matches
  mkv_spec vcmp testc verdict_m verdict_spec letter_conflict
  print_z parse_i64 parse_u64
  pattern_new pm pm_w glob_new glob_matches quick best2 best2_w fuel_for pkgname_new string_step
  print exp spec_match
  all_vars kind_of empty apply_op run get print_entry parse_entry is_completed sum_pkgbase sum_pkgversion
  is_canonical
  stream_write stream_init print_stream utf8_valid lines
  all_algs alg_name alg_parse alg_parse_bytes filter_patch classify parse_dline di_from_bytes di_as_bytes di_insert di_empty
  hash_file_pre hash_patch_pre
  pkgpath_new pkgpath_eqb depend_new scan_read words trim
  all_mentries to_filename from_filename read_metadata meta_empty meta_is_valid db_iter db_open_iter pkg_read_file valid_pkgdir package_of
  entry_of_bytes plist_of_bytes scan_lines files files_prefixed install_cmds uninstall_cmds depends build_depends conflicts pkgdirs pkgrmdirs pl_pkgname pl_display is_preserve
  entry_bytes find_entry verify_size verify_checksum path_eqb pcomps.
