(* Extract.v - monolithic extraction of the executable models and specs.
   ExtrOcamlBasic only: bool, option, list, prod, unit, sumbool map to
   OCaml's; N, Z, positive and nat stay the extracted inductives. *)
Require Import PV.Base PV.Dewey PV.DeweySpec.
Require Extraction.
Require Import ExtrOcamlBasic.
Extraction Language OCaml.
Extraction "model.ml"
  eqs
  mkv dewey_cmp dewey_new dewey_matches
  mkv_spec vcmp testc verdict_m verdict_spec.
