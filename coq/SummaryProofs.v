(* SummaryProofs.v - pkg_summary entries: what an accepted text means (C08),
   why a rejected one is rejected (C08), print/parse round trips and history
   independence (C07), the PKGNAME split of the accessors (C18). *)
Require Import PV.Base PV.Dec PV.Summary.
Local Open Scope N_scope.

(* ---------- variables ---------- *)
Lemma var_eqb_spec a b : reflect (a = b) (var_eqb a b).
Proof. destruct a, b; cbn; constructor; congruence. Qed.
Lemma var_eqb_refl a : var_eqb a a = true.
Proof. destruct a; reflexivity. Qed.
Lemma all_vars_complete v : In v all_vars.
Proof. destruct v; cbn; tauto. Qed.
Lemma all_vars_nodup : NoDup all_vars.
Proof. repeat constructor; cbn; intuition discriminate. Qed.
Lemma parse_name_vname v : parse_name (vname v) = Some v.
Proof. destruct v; reflexivity. Qed.
Lemma parse_name_inv s v : parse_name s = Some v -> s = vname v.
Proof. unfold parse_name. intros H. apply find_some in H as [_ H]. apply eqs_eq in H. exact H. Qed.
Lemma vname_no_eq v : mem 61 (vname v) = false.
Proof. destruct v; reflexivity. Qed.
Lemma vname_no_nl v : mem 10 (vname v) = false /\ mem 13 (vname v) = false.
Proof. destruct v; split; reflexivity. Qed.

Lemma upd_same e v x : upd e v x v = Some x.
Proof. unfold upd. rewrite var_eqb_refl. reflexivity. Qed.
Lemma upd_other e v x w : w <> v -> upd e v x w = e w.
Proof. unfold upd. destruct (var_eqb_spec w v); congruence. Qed.

(* ---------- the meaning of a list of lines ---------- *)
(* the values given to v, in input order: everything after the FIRST '=' *)
Definition vals_of (v : var) (ls : list str) : list str :=
  flat_map (fun l => match line_kv l with Some (w, x) => if var_eqb w v then [x] else [] | None => [] end) ls.
(* single-valued variables keep the last value, list variables accumulate in order *)
Definition collect (v : var) (ls : list str) : option value :=
  match vals_of v ls with
  | [] => None
  | x :: r =>
      match kind_of v with
      | KS => Some (VS (last r x))
      | KI => option_map VI (parse_i64 (last r x))
      | KA => Some (VA (x :: r))
      end
  end.
Definition line_ok (l : str) : Prop :=
  exists v x, line_kv l = Some (v, x) /\ (kind_of v = KI -> parse_i64 x <> None).
(* why a line is rejected *)
Definition cause (l : str) : sum_err :=
  match split_once 61 l with
  | None => ELine
  | Some (k, _) => match parse_name k with None => EVar | Some _ => EInt end
  end.

Lemma parse_lines_app e a b : parse_lines e (a ++ b) = bind (parse_lines e a) (fun e' => parse_lines e' b).
Proof. revert e; induction a as [|l a IH]; intros e; cbn [app parse_lines]; auto.
  destruct (parse_line e l); cbn [bind]; auto. Qed.
Lemma vals_of_app v a b : vals_of v (a ++ b) = vals_of v a ++ vals_of v b.
Proof. unfold vals_of. apply flat_map_app. Qed.
Lemma last_snoc {A} (l : list A) x d : last (l ++ [x]) d = x.
Proof. induction l as [|a l IH]; cbn; auto. destruct (l ++ [x]) eqn:E; [destruct l; discriminate|]. exact IH. Qed.

Lemma collect_snoc_other v w x ls l : line_kv l = Some (w, x) -> w <> v -> collect v (ls ++ [l]) = collect v ls.
Proof. intros H N. unfold collect. rewrite vals_of_app. unfold vals_of at 2. cbn [flat_map]. rewrite H.
  destruct (var_eqb_spec w v); [congruence|]. cbn. rewrite app_nil_r. reflexivity. Qed.
Lemma vals_snoc_same v x ls l : line_kv l = Some (v, x) -> vals_of v (ls ++ [l]) = vals_of v ls ++ [x].
Proof. intros H. rewrite vals_of_app. unfold vals_of at 2. cbn [flat_map]. rewrite H, var_eqb_refl. reflexivity. Qed.
Lemma nonempty_snoc {A} (l : list A) x : exists y r, l ++ [x] = y :: r /\ last r y = x.
Proof. destruct l as [|y l]; cbn; [exists x, []; auto|]. exists y, (l ++ [x]). split; auto.
  destruct (l ++ [x]) eqn:E; [destruct l; discriminate|]. rewrite <- E. apply last_snoc. Qed.

Lemma last_in {A} (r : list A) x : In (last r x) (x :: r).
Proof.
  destruct r as [|y r]; [left; reflexivity|]. right.
  assert (In (last (y :: r) x) (removelast (y :: r) ++ [last (y :: r) x])) as H by (apply in_or_app; right; left; reflexivity).
  rewrite <- app_removelast_last in H by discriminate. exact H.
Qed.

(* what one accepted line does *)
Lemma parse_line_sem e ls l e' : (forall v, e v = collect v ls) -> parse_line e l = Val e' ->
  line_ok l /\ forall v, e' v = collect v (ls ++ [l]).
Proof.
  intros Inv. unfold parse_line. destruct (split_once 61 l) as [[k x]|] eqn:S; [|discriminate].
  destruct (parse_name k) as [w|] eqn:P; [|discriminate].
  assert (line_kv l = Some (w, x)) as KV by (unfold line_kv; rewrite S, P; reflexivity).
  assert (forall e'', (e'' = upd e w (match kind_of w with KS => VS x | KI => VI (match parse_i64 x with Some z => z | None => 0%Z end)
                                       | KA => VA (match vals_of w ls with [] => [x] | y :: r => (y :: r) ++ [x] end) end)) ->
          (kind_of w = KI -> parse_i64 x <> None) -> forall v, e'' v = collect v (ls ++ [l])) as Fin.
  { intros e'' -> HI v. destruct (var_eqb_spec v w) as [->|N].
    - rewrite upd_same. unfold collect. rewrite (vals_snoc_same w x ls l KV).
      destruct (nonempty_snoc (vals_of w ls) x) as (y & r & E & L). rewrite E.
      destruct (kind_of w) eqn:K.
      + rewrite L. reflexivity.
      + rewrite L. destruct (parse_i64 x); [reflexivity|]. exfalso. apply HI; auto.
      + rewrite <- E. destruct (vals_of w ls); reflexivity.
    - rewrite upd_other by auto. rewrite (collect_snoc_other v w x ls l KV) by congruence. apply Inv. }
  destruct (kind_of w) eqn:K.
  - intros [= <-]. split; [exists w, x; split; auto; congruence|]. apply Fin; [reflexivity|congruence].
  - destruct (parse_i64 x) as [z|] eqn:PI; [|discriminate]. intros [= <-].
    split; [exists w, x; split; auto; congruence|]. apply Fin; [reflexivity|congruence].
  - unfold push. pose proof (Inv w) as Iw. unfold collect in Iw. rewrite K in Iw.
    destruct (vals_of w ls) as [|y r] eqn:V; rewrite Iw.
    + intros [= <-]. split; [exists w, x; split; auto; congruence|]. apply Fin; [reflexivity|congruence].
    + intros [= <-]. split; [exists w, x; split; auto; congruence|]. apply Fin; [reflexivity|congruence].
Qed.
(* ... and an acceptable line is accepted *)
Lemma parse_line_ok e ls l : (forall v, e v = collect v ls) -> line_ok l -> exists e', parse_line e l = Val e'.
Proof.
  intros Inv (w & x & KV & HI). unfold line_kv in KV. unfold parse_line.
  destruct (split_once 61 l) as [[k x']|]; [|discriminate]. destruct (parse_name k) as [w'|]; [|discriminate].
  injection KV as -> ->. destruct (kind_of w) eqn:K; eauto.
  - destruct (parse_i64 x); eauto. exfalso. apply HI; auto.
  - unfold push. pose proof (Inv w) as Iw. unfold collect in Iw. rewrite K in Iw.
    destruct (vals_of w ls); rewrite Iw; eauto.
Qed.
Lemma parse_line_bad e l : ~ line_ok l -> is_panic (parse_line e l) = false -> parse_line e l = Fail (cause l).
Proof.
  unfold parse_line, cause, line_ok, line_kv. intros H NP.
  destruct (split_once 61 l) as [[k x]|]; auto. destruct (parse_name k) as [w|]; auto.
  destruct (kind_of w) eqn:K.
  - exfalso. apply H. exists w, x. split; auto. congruence.
  - destruct (parse_i64 x) eqn:PI; auto. exfalso. apply H. exists w, x. split; auto. congruence.
  - exfalso. apply H. exists w, x. split; auto. congruence.
Qed.

Theorem parse_lines_sem ls : forall e, parse_lines empty ls = Val e ->
  Forall line_ok ls /\ forall v, e v = collect v ls.
Proof.
  induction ls as [|l ls IH] using rev_ind; intros e H.
  - injection H as <-. split; [constructor|]. intros v. reflexivity.
  - rewrite parse_lines_app in H. destruct (parse_lines empty ls) as [e0| | |] eqn:E0; try discriminate.
    cbn [bind parse_lines] in H. destruct (parse_line e0 l) as [e1| | |] eqn:E1; try discriminate.
    cbn [bind] in H. injection H as <-. destruct (IH e0 eq_refl) as [F Inv].
    destruct (parse_line_sem e0 ls l e1 Inv E1) as [Ok Sem]. split; auto.
    apply Forall_app. split; auto.
Qed.
Theorem parse_lines_accepts ls : Forall line_ok ls -> exists e, parse_lines empty ls = Val e.
Proof.
  induction ls as [|l ls IH] using rev_ind; intros H; [eexists; reflexivity|].
  apply Forall_app in H as [H1 H2]. inversion H2 as [|? ? Hl _]; subst.
  destruct (IH H1) as (e0 & E0). destruct (parse_lines_sem ls e0 E0) as [_ Inv].
  destruct (parse_line_ok e0 ls l Inv Hl) as (e1 & E1).
  exists e1. rewrite parse_lines_app, E0. cbn [bind parse_lines]. rewrite E1. reflexivity.
Qed.
Theorem parse_lines_first_bad good bad rest : Forall line_ok good -> ~ line_ok bad ->
  parse_lines empty (good ++ bad :: rest) = Fail (cause bad).
Proof.
  intros Hg Hb. destruct (parse_lines_accepts good Hg) as (e0 & E0).
  rewrite parse_lines_app, E0. cbn [bind parse_lines].
  destruct (parse_lines_sem good e0 E0) as [_ Inv].
  rewrite parse_line_bad; auto.
  (* the line cannot panic: list variables always hold a list *)
  unfold parse_line. destruct (split_once 61 bad) as [[k x]|]; auto. destruct (parse_name k) as [w|]; auto.
  destruct (kind_of w) eqn:K; auto. { destruct (parse_i64 x); auto. }
  unfold push. pose proof (Inv w) as Iw. unfold collect in Iw. rewrite K in Iw. destruct (vals_of w good); rewrite Iw; auto.
Qed.

(* ---------- whole entries ---------- *)
Definition present (v : var) (ls : list str) : Prop := vals_of v ls <> [].
Lemma collect_none_iff v ls : Forall line_ok ls -> (collect v ls = None <-> vals_of v ls = []).
Proof.
  intros F. unfold collect. destruct (vals_of v ls) as [|x r] eqn:V; [tauto|]. split; [|discriminate].
  destruct (kind_of v) eqn:K; try discriminate.
  (* KI: the last value parses because its line is ok *)
  intros H. exfalso. destruct (parse_i64 (last r x)) eqn:P; [discriminate|].
  assert (In (last r x) (vals_of v ls)) as Hin.
  { rewrite V. apply last_in. }
  unfold vals_of in Hin. apply in_flat_map in Hin as (l & Hl & Hx).
  rewrite Forall_forall in F. destruct (F l Hl) as (w & x' & KV & HI). rewrite KV in Hx.
  destruct (var_eqb_spec w v) as [->|]; [|destruct Hx]. destruct Hx as [E|[]]. rewrite <- E in P. apply HI; auto.
Qed.

Theorem parse_entry_accept_iff t : is_val (parse_entry t) = true <->
  Forall line_ok (lines t) /\ forall v, In v required -> present v (lines t).
Proof.
  unfold parse_entry. split.
  - destruct (parse_lines empty (lines t)) as [e| | |] eqn:E; try discriminate. cbn [bind].
    destruct (first_missing e) as [m|] eqn:M; [discriminate|]. intros _.
    destruct (parse_lines_sem _ _ E) as [F Inv]. split; auto. intros v Hv. unfold present.
    intros Z. apply (collect_none_iff v _ F) in Z. rewrite <- Inv in Z.
    unfold first_missing in M. eapply find_none in M; eauto. cbn in M. rewrite Z in M. discriminate.
  - intros [F P]. destruct (parse_lines_accepts _ F) as (e & E). rewrite E. cbn [bind].
    destruct (first_missing e) as [m|] eqn:M; [|reflexivity]. exfalso.
    unfold first_missing in M. apply find_some in M as [Hin Hm].
    destruct (parse_lines_sem _ _ E) as [_ Inv]. rewrite Inv in Hm.
    destruct (collect m (lines t)) eqn:C; [discriminate|]. apply (collect_none_iff m _ F) in C. apply (P m Hin). exact C.
Qed.
Theorem parse_entry_semantics t e : parse_entry t = Val e -> forall v, e v = collect v (lines t).
Proof.
  unfold parse_entry. destruct (parse_lines empty (lines t)) as [e0| | |] eqn:E; try discriminate. cbn [bind].
  destruct (first_missing e0); [discriminate|]. intros [= <-]. apply parse_lines_sem; auto.
Qed.
Theorem parse_entry_first_bad t good bad rest : lines t = good ++ bad :: rest ->
  Forall line_ok good -> ~ line_ok bad -> parse_entry t = Fail (cause bad).
Proof. intros L G B. unfold parse_entry. rewrite L, parse_lines_first_bad by auto. reflexivity. Qed.
Theorem parse_entry_missing t : Forall line_ok (lines t) ->
  parse_entry t = match find (fun v => match vals_of v (lines t) with [] => true | _ => false end) required with
                  | Some v => Fail (EMissing v)
                  | None => match parse_lines empty (lines t) with Val e => Val e | r => r end
                  end.
Proof.
  intros F. unfold parse_entry. destruct (parse_lines_accepts _ F) as (e & E). rewrite E. cbn [bind].
  destruct (parse_lines_sem _ _ E) as [_ Inv]. unfold first_missing.
  assert (forall l, find (fun v => match e v with None => true | Some _ => false end) l =
                    find (fun v => match vals_of v (lines t) with [] => true | _ => false end) l) as ->.
  { induction l as [|v l IH]; cbn [find]; auto. rewrite IH.
    destruct (e v) eqn:Ev; rewrite Inv in Ev.
    - destruct (vals_of v (lines t)) eqn:V; auto. unfold collect in Ev. rewrite V in Ev. discriminate.
    - apply (collect_none_iff v _ F) in Ev. rewrite Ev. reflexivity. }
  destruct (find _ required); reflexivity.
Qed.
Theorem is_completed_iff e : is_completed e = true <-> forall v, In v required -> e v <> None.
Proof.
  unfold is_completed, first_missing. split.
  - destruct (find _ required) eqn:F; [discriminate|]. intros _ v Hv Z. eapply find_none in F; eauto. cbn in F. rewrite Z in F. discriminate.
  - intros H. destruct (find _ required) eqn:F; auto. apply find_some in F as [Hin Hm]. specialize (H _ Hin).
    destruct (e v); [discriminate|congruence].
Qed.

(* ================= printing ================= *)
Definition strs_of (x : option value) : list str :=
  match x with None => [] | Some (VS s) => [s] | Some (VI z) => [print_z z] | Some (VA l) => l end.
Definition kv_line (v : var) (x : str) : str := vname v ++ 61 :: x.
Definition printed_lines (e : entry) : list str :=
  flat_map (fun v => map (kv_line v) (strs_of (e v))) all_vars.

Lemma print_var_lines e v : print_var e v = term_lines (map (kv_line v) (strs_of (e v))).
Proof.
  unfold print_var, term_lines, line_of, kv_line. destruct (e v) as [[s|z|l]|]; cbn [strs_of map concat]; auto.
  - rewrite app_nil_r, <- app_assoc. reflexivity.
  - rewrite app_nil_r, <- app_assoc. reflexivity.
  - induction l as [|x l IH]; cbn [map concat]; auto. rewrite IH, <- !app_assoc. cbn [app]. rewrite <- !app_assoc. reflexivity.
Qed.
Lemma term_lines_app a b : term_lines (a ++ b) = term_lines a ++ term_lines b.
Proof. unfold term_lines. rewrite map_app, concat_app. reflexivity. Qed.
Lemma print_entry_lines e : print_entry e = term_lines (printed_lines e).
Proof.
  unfold print_entry, printed_lines. induction all_vars as [|v vs IH]; cbn [flat_map]; auto.
  rewrite term_lines_app, print_var_lines, IH. reflexivity.
Qed.

(* the printed form depends only on the current values *)
Theorem print_ext e1 e2 : (forall v, e1 v = e2 v) -> print_entry e1 = print_entry e2.
Proof. intros H. unfold print_entry. apply flat_map_ext. intros v. unfold print_var. rewrite H. reflexivity. Qed.

(* ---------- str::lines on printed text ---------- *)
Lemma split_on_line l r : mem 10 l = false -> split_on 10 (l ++ 10 :: r) = l :: split_on 10 r.
Proof.
  induction l as [|x l IH]; cbn [app split_on mem]; intros H.
  - rewrite N.eqb_refl. reflexivity.
  - apply orb_false_elim in H as [H1 H2]. rewrite H1, IH by auto. reflexivity.
Qed.
Definition clean (l : str) : Prop := mem 10 l = false /\ mem 13 l = false.
Lemma strip_cr_clean l : mem 13 l = false -> strip_cr l = l.
Proof.
  intros H. unfold strip_cr. rewrite frev_eq. destruct (List.rev l) as [|c r] eqn:E; auto.
  destruct (N.eqb_spec c 13) as [->|N].
  - exfalso. assert (In 13 l) as Hin by (apply in_rev; rewrite E; left; reflexivity).
    apply mem_In in Hin. congruence.
  - destruct c as [|p]; auto. destruct (Pos.eq_dec p 13) as [->|Np]; [congruence|].
    repeat (destruct p as [p|p|]; auto); congruence.
Qed.
Lemma split_on_term ls : Forall clean ls -> split_on 10 (term_lines ls) = ls ++ [[]].
Proof.
  induction 1 as [|l ls [H1 H2] _ IH]; [reflexivity|]. unfold term_lines in *. cbn [map concat app].
  rewrite <- app_assoc. cbn [app]. rewrite split_on_line by auto. rewrite IH. reflexivity.
Qed.
Theorem lines_term ls : Forall clean ls -> lines (term_lines ls) = ls.
Proof.
  intros H. unfold lines. rewrite split_on_term by auto. rewrite removelast_last, last_last. cbn. rewrite app_nil_r.
  induction H as [|l ls [H1 H2] _ IH]; cbn [map]; auto. rewrite strip_cr_clean, IH by auto. reflexivity.
Qed.

(* ---------- well-kinded, complete, printable entries ---------- *)
Definition wk (e : entry) : Prop :=
  forall v, match e v with
            | None => True
            | Some (VS _) => kind_of v = KS | Some (VI _) => kind_of v = KI | Some (VA _) => kind_of v = KA
            end.
Definition values_ok (e : entry) : Prop :=
  forall v, match e v with
            | None => True
            | Some (VS s) => clean s
            | Some (VI z) => (i64min <= z <= i64max)%Z
            | Some (VA l) => l <> [] /\ Forall clean l
            end.
Definition complete (e : entry) : Prop := forall v, In v required -> e v <> None.

Lemma print_z_clean z : clean (print_z z).
Proof.
  split; destruct (mem _ (print_z z)) eqn:E; auto; apply mem_In, print_z_chars in E;
    destruct E as [E|E]; try discriminate; vm_compute in E; discriminate.
Qed.
Lemma strs_clean e v : values_ok e -> Forall clean (strs_of (e v)).
Proof. intros H. specialize (H v). destruct (e v) as [[s|z|l]|]; cbn [strs_of]; auto using print_z_clean. tauto. Qed.
Lemma mem_app c a b : mem c (a ++ b) = mem c a || mem c b.
Proof. induction a as [|x a IH]; cbn; auto. rewrite IH, orb_assoc. reflexivity. Qed.
Lemma kv_line_clean v x : clean x -> clean (kv_line v x).
Proof. intros [H1 H2]. destruct (vname_no_nl v) as [N1 N2]. unfold kv_line, clean.
  rewrite !mem_app, N1, N2. cbn. rewrite H1, H2. auto. Qed.
Lemma printed_lines_clean e : values_ok e -> Forall clean (printed_lines e).
Proof.
  intros H. unfold printed_lines. apply Forall_flat_map. apply Forall_forall. intros v _.
  apply Forall_map. eapply Forall_impl; [|apply strs_clean; eauto]. intros x. apply kv_line_clean.
Qed.

Lemma line_kv_kv v x : line_kv (kv_line v x) = Some (v, x).
Proof. unfold line_kv, kv_line. rewrite split_once_app by apply vname_no_eq. rewrite parse_name_vname. reflexivity. Qed.
Lemma vals_of_kv v w xs : vals_of v (map (kv_line w) xs) = if var_eqb w v then xs else [].
Proof.
  unfold vals_of. induction xs as [|x xs IH]; cbn [map flat_map]; [destruct (var_eqb w v); reflexivity|].
  rewrite line_kv_kv, IH. destruct (var_eqb w v); reflexivity.
Qed.
Lemma flat_map_nil {A B} (g : A -> list B) l : (forall w, In w l -> g w = []) -> flat_map g l = [].
Proof. induction l as [|w ws IH]; intros H; cbn [flat_map]; auto. rewrite H, IH; auto; [intros; apply H; right; auto|left; auto]. Qed.
Lemma flat_map_single_gen {A B} (g : A -> list B) v l : In v l -> NoDup l -> (forall w, w <> v -> g w = []) -> flat_map g l = g v.
Proof.
  induction l as [|w ws IH]; intros Hin ND H; [destruct Hin|]. cbn [flat_map]. inversion ND as [|? ? Nin ND']; subst.
  destruct Hin as [->|Hin].
  - rewrite flat_map_nil; [apply app_nil_r|]. intros u Hu. apply H. intros ->. contradiction.
  - rewrite H, IH; auto. intros ->. contradiction.
Qed.
Lemma flat_map_single {B} (g : var -> list B) v : (forall w, w <> v -> g w = []) -> flat_map g all_vars = g v.
Proof. apply flat_map_single_gen; [apply all_vars_complete|apply all_vars_nodup]. Qed.
Lemma vals_of_flat_map {A} v (f : A -> list str) l : vals_of v (flat_map f l) = flat_map (fun w => vals_of v (f w)) l.
Proof. induction l as [|w l IH]; cbn [flat_map]; auto. rewrite vals_of_app, IH. reflexivity. Qed.
Lemma vals_of_printed e v : vals_of v (printed_lines e) = strs_of (e v).
Proof.
  unfold printed_lines. rewrite vals_of_flat_map. rewrite (flat_map_single _ v).
  - rewrite vals_of_kv, var_eqb_refl. reflexivity.
  - intros w N. rewrite vals_of_kv. destruct (var_eqb_spec w v); congruence.
Qed.
Lemma collect_printed e v : wk e -> values_ok e -> collect v (printed_lines e) = e v.
Proof.
  intros W V. unfold collect. rewrite vals_of_printed. specialize (W v). specialize (V v).
  destruct (e v) as [[s|z|l]|]; cbn [strs_of]; auto; rewrite W.
  - reflexivity.
  - cbn [last]. rewrite parse_print_i64 by auto. reflexivity.
  - destruct l as [|x r]; [tauto|reflexivity].
Qed.
Lemma printed_lines_ok e : wk e -> values_ok e -> Forall line_ok (printed_lines e).
Proof.
  intros W V. unfold printed_lines. apply Forall_flat_map. apply Forall_forall. intros v _.
  apply Forall_map. apply Forall_forall. intros x Hx. exists v, x. split; [apply line_kv_kv|].
  intros K. specialize (W v). specialize (V v). destruct (e v) as [[s|z|l]|]; cbn [strs_of] in Hx; try congruence.
  - destruct Hx as [<-|[]]. rewrite parse_print_i64 by auto. discriminate.
  - destruct Hx.
Qed.

(* generate -> parse: every variable reads back as it was *)
Theorem parse_print e : wk e -> values_ok e -> complete e ->
  exists e', parse_entry (print_entry e) = Val e' /\ forall v, e' v = e v.
Proof.
  intros W V C.
  assert (lines (print_entry e) = printed_lines e) as L by (rewrite print_entry_lines; apply lines_term, printed_lines_clean; auto).
  assert (is_val (parse_entry (print_entry e)) = true) as A.
  { apply parse_entry_accept_iff. rewrite L. split; [apply printed_lines_ok; auto|].
    intros v Hv. unfold present. rewrite vals_of_printed. specialize (C v Hv). specialize (V v).
    destruct (e v) as [[s|z|l]|]; cbn; try discriminate; try congruence. tauto. }
  destruct (parse_entry (print_entry e)) as [e'| | |] eqn:P; try discriminate.
  exists e'. split; auto. intros v. rewrite (parse_entry_semantics _ _ P), L. apply collect_printed; auto.
Qed.
(* canonical parse -> generate: the text of such an entry is reproduced byte for byte *)
Theorem print_parse_print e : wk e -> values_ok e -> complete e ->
  exists e', parse_entry (print_entry e) = Val e' /\ print_entry e' = print_entry e.
Proof. intros W V C. destruct (parse_print e W V C) as (e' & P & E). exists e'. split; auto. apply print_ext; auto. Qed.

(* ---------- call histories ---------- *)
Lemma wk_empty : wk empty. Proof. intros v; exact I. Qed.
Lemma wk_upd e v x : wk e ->
  match x with VS _ => kind_of v = KS | VI _ => kind_of v = KI | VA _ => kind_of v = KA end -> wk (upd e v x).
Proof. intros W H w. unfold upd. destruct (var_eqb_spec w v) as [->|]; [destruct x; auto|apply W]. Qed.
Theorem apply_op_wk e o : wk e -> op_ok o = true -> exists e', apply_op e o = Val e' /\ wk e'.
Proof.
  intros W H. destruct o as [v s|v z|v l|v s]; cbn [op_ok apply_op] in *; destruct (kind_of v) eqn:K; try discriminate.
  - eexists; split; eauto. apply wk_upd; auto.
  - eexists; split; eauto. apply wk_upd; auto.
  - eexists; split; eauto. apply wk_upd; auto.
  - unfold push. pose proof (W v) as Wv. destruct (e v) as [[?|?|l]|]; try congruence.
    + eexists; split; eauto. apply wk_upd; auto.
    + eexists; split; eauto. apply wk_upd; auto.
Qed.
Theorem run_wk ops : forall e, wk e -> Forall (fun o => op_ok o = true) ops -> exists e', run e ops = Val e' /\ wk e'.
Proof.
  induction ops as [|o ops IH]; intros e W H; cbn [run]; [eauto|].
  inversion H as [|? ? Ho Hr]; subst. destruct (apply_op_wk e o W Ho) as (e1 & -> & W1). cbn [bind]. auto.
Qed.
Theorem get_wk e v : wk e -> get e v = Val (e v).
Proof. intros W. unfold get. specialize (W v). destruct (e v) as [[?|?|?]|]; auto; rewrite W; reflexivity. Qed.
(* two histories with the same final values print the same text *)
Theorem history_independent ops1 ops2 e1 e2 : run empty ops1 = Val e1 -> run empty ops2 = Val e2 ->
  (forall v, e1 v = e2 v) -> print_entry e1 = print_entry e2.
Proof. intros _ _. apply print_ext. Qed.

(* ================= canonical text, syntactically ================= *)
Lemma line_kv_inv l v x : line_kv l = Some (v, x) -> l = kv_line v x.
Proof.
  unfold line_kv. destruct (split_once 61 l) as [[k y]|] eqn:E; [|discriminate].
  destruct (parse_name k) eqn:P; [|discriminate]. intros [= -> ->].
  apply split_once_some in E as [-> _]. apply parse_name_inv in P as ->. reflexivity.
Qed.
Lemma eql_eq a : forall b, eql a b = true -> a = b.
Proof. induction a as [|x a IH]; intros [|y b]; cbn [eql]; try discriminate; auto.
  intros H. apply andb_prop in H as [H1 H2]. apply eqs_eq in H1. f_equal; auto. Qed.
Lemma eql_refl a : eql a a = true.
Proof. induction a as [|x a IH]; cbn [eql]; auto. rewrite eqs_refl, IH. reflexivity. Qed.
Lemma lines_of_vals v ls : lines_of v ls = map (kv_line v) (vals_of v ls).
Proof.
  unfold lines_of, vals_of, line_var. induction ls as [|l ls IH]; cbn [filter flat_map]; auto.
  destruct (line_kv l) as [[w x]|] eqn:E; [|exact IH].
  destruct (var_eqb_spec w v) as [->|]; [|exact IH]. cbn [app map]. rewrite IH. f_equal. apply line_kv_inv. exact E.
Qed.
Lemma line_canon_ok l : line_canon l = true -> line_ok l.
Proof.
  unfold line_canon, line_ok. destruct (line_kv l) as [[v x]|]; [|discriminate]. intros H. exists v, x. split; auto.
  intros K. rewrite K in H. destruct (parse_i64 x); [discriminate|discriminate].
Qed.
Lemma has_var_present ls v : has_var ls v = true -> present v ls.
Proof.
  unfold has_var, present, vals_of, line_var. induction ls as [|l ls IH]; cbn [existsb flat_map]; [discriminate|].
  destruct (line_kv l) as [[w x]|]; [|exact IH]. destruct (var_eqb w v); [discriminate|exact IH].
Qed.
(* what the accepted entry prints for v is exactly what the text said for v *)
Lemma strs_collect v ls : Forall (fun l => line_canon l = true) ls ->
  (match kind_of v with KA => True | _ => (List.length (vals_of v ls) <= 1)%nat end) ->
  strs_of (collect v ls) = vals_of v ls.
Proof.
  intros Hc Hl. unfold collect. destruct (vals_of v ls) as [|x r] eqn:E; [reflexivity|].
  destruct (kind_of v) eqn:K.
  - destruct r; [reflexivity|cbn in Hl; lia].
  - destruct r; [|cbn in Hl; lia]. cbn [last].
    assert (In x (vals_of v ls)) as Hin by (rewrite E; left; reflexivity).
    unfold vals_of in Hin. apply in_flat_map in Hin as (l & Hl1 & Hl2).
    rewrite Forall_forall in Hc. specialize (Hc l Hl1). unfold line_canon in Hc.
    destruct (line_kv l) as [[w y]|]; [|destruct Hl2]. destruct (var_eqb_spec w v) as [->|]; [|destruct Hl2].
    destruct Hl2 as [->|[]]. rewrite K in Hc. destruct (parse_i64 x) as [z|]; [|discriminate].
    apply eqs_eq in Hc. cbn [option_map strs_of]. rewrite Hc. reflexivity.
  - reflexivity.
Qed.
Theorem canonical_print_parse t : is_canonical t = true ->
  exists e, parse_entry t = Val e /\ print_entry e = t.
Proof.
  unfold is_canonical, canonical_lines, grouped. intros H.
  apply andb_prop in H as [Ht H]. apply andb_prop in H as [H Hreq]. apply andb_prop in H as [Hc Hg].
  apply andb_prop in Hg as [Hg Hs]. apply eqs_eq in Ht. apply eql_eq in Hg.
  rewrite forallb_forall in Hc, Hreq, Hs.
  assert (Forall (fun l => line_canon l = true) (lines t)) as Fc by (apply Forall_forall; exact Hc).
  assert (is_val (parse_entry t) = true) as Hv.
  { apply parse_entry_accept_iff. split.
    - eapply Forall_impl; [|exact Fc]. intros l. apply line_canon_ok.
    - intros v Hin. apply has_var_present. apply Hreq. exact Hin. }
  destruct (parse_entry t) as [e| | |] eqn:Pe; try discriminate. exists e. split; [reflexivity|].
  rewrite print_entry_lines. transitivity (term_lines (lines t)); [|symmetry; exact Ht]. f_equal.
  transitivity (flat_map (fun v => lines_of v (lines t)) all_vars); [|symmetry; exact Hg]. unfold printed_lines.
  apply flat_map_ext. intros v. rewrite lines_of_vals. f_equal.
  rewrite (parse_entry_semantics t e Pe v). apply strs_collect; auto.
  specialize (Hs v (all_vars_complete v)). destruct (kind_of v); auto; rewrite lines_of_vals, map_length in Hs; apply Nat.leb_le; exact Hs.
Qed.
(* ... and every printed form of a well-formed entry is canonical in this sense *)
Lemma present_has_var ls v : present v ls -> has_var ls v = true.
Proof.
  unfold has_var, present, vals_of, line_var. induction ls as [|l ls IH]; cbn [existsb flat_map]; [congruence|].
  destruct (line_kv l) as [[w x]|]; [|exact IH]. destruct (var_eqb w v); [reflexivity|exact IH].
Qed.
Theorem printed_is_canonical e : wk e -> values_ok e -> complete e -> is_canonical (print_entry e) = true.
Proof.
  intros W V C. unfold is_canonical. rewrite print_entry_lines, lines_term by (apply printed_lines_clean; auto).
  rewrite eqs_refl. cbn [andb]. unfold canonical_lines. rewrite !andb_true_iff. repeat split.
  - apply forallb_forall. intros l Hl. unfold printed_lines in Hl. apply in_flat_map in Hl as (v & _ & Hl).
    apply in_map_iff in Hl as (x & <- & Hx). unfold line_canon. rewrite line_kv_kv.
    destruct (kind_of v) eqn:K; auto. specialize (W v). specialize (V v).
    destruct (e v) as [[s|z|l]|]; try congruence; cbn [strs_of] in Hx; try destruct Hx as [<-|[]]; try destruct Hx.
    rewrite parse_print_i64 by exact V. apply eqs_refl.
  - unfold grouped. rewrite andb_true_iff. split.
    + replace (flat_map (fun v => lines_of v (printed_lines e)) all_vars) with (printed_lines e); [apply eql_refl|].
      unfold printed_lines at 1. apply flat_map_ext. intros v. rewrite lines_of_vals, vals_of_printed. reflexivity.
    + apply forallb_forall. intros v _. destruct (kind_of v) eqn:K; auto;
      rewrite lines_of_vals, map_length, vals_of_printed; specialize (W v);
      destruct (e v) as [[s|z|l]|]; try congruence; reflexivity.
  - apply forallb_forall. intros v Hv. apply present_has_var. unfold present. rewrite vals_of_printed.
    specialize (C v Hv). specialize (V v). destruct (e v) as [[s|z|l]|]; cbn [strs_of]; try discriminate; try congruence.
    destruct V as [V _]. exact V.
Qed.

(* ---------- the converse: a text that round-trips is canonical ---------- *)
Definition lff (l : str) : Prop := mem 10 l = false.
Lemma split_on_term_lff ls : Forall lff ls -> split_on 10 (term_lines ls) = ls ++ [[]].
Proof.
  induction 1 as [|l ls H1 _ IH]; [reflexivity|]. unfold term_lines in *. cbn [map concat app].
  rewrite <- app_assoc. cbn [app]. rewrite split_on_line by exact H1. rewrite IH. reflexivity.
Qed.
Lemma lines_term_lff ls : Forall lff ls -> lines (term_lines ls) = map strip_cr ls.
Proof.
  intros H. unfold lines. rewrite split_on_term_lff by auto. rewrite removelast_last, last_last. cbn. rewrite app_nil_r. reflexivity.
Qed.
Lemma split_on_lff c s : Forall (fun p => mem c p = false) (split_on c s).
Proof.
  induction s as [|x s IH]; cbn [split_on]; [repeat constructor|].
  destruct (x =? c) eqn:E; [constructor; [reflexivity|exact IH]|].
  destruct (split_on c s) as [|p ps]; [repeat constructor; cbn [mem]; rewrite E; reflexivity|].
  inversion IH as [|? ? Hp Hps]; subst. constructor; [cbn [mem]; rewrite E, Hp; reflexivity|exact Hps].
Qed.
Lemma strip_cr_spec l : (strip_cr l = l /\ (forall r, l <> r ++ [13])) \/ (l = strip_cr l ++ [13]).
Proof.
  unfold strip_cr. rewrite frev_eq. destruct (List.rev l) as [|c r] eqn:E.
  - left. split; auto. intros r0 ->. rewrite rev_app_distr in E. discriminate.
  - assert (l = List.rev r ++ [c]) as Hl by (rewrite <- (rev_involutive l), E; reflexivity).
    destruct (N.eq_dec c 13) as [->|Hn].
    + right. rewrite frev_eq. exact Hl.
    + left. split.
      * destruct c as [|p]; auto. repeat (destruct p as [p|p|]; auto); congruence.
      * intros r0 ->. rewrite rev_app_distr in E. cbn in E. congruence.
Qed.
Lemma strip_cr_lff l : lff l -> lff (strip_cr l).
Proof.
  intros H. destruct (strip_cr_spec l) as [[-> _]|E]; auto.
  unfold lff in *. rewrite E, mem_app in H. apply orb_false_elim in H as [H _]. exact H.
Qed.
Lemma lines_lff t : Forall lff (lines t).
Proof.
  unfold lines. apply Forall_app. split.
  - apply Forall_forall. intros l Hl. apply in_map_iff in Hl as (p & <- & Hp). apply strip_cr_lff.
    pose proof (split_on_lff 10 t) as F. rewrite Forall_forall in F. apply F.
    clear -Hp. induction (split_on 10 t) as [|a r IH]; [destruct Hp|]. cbn [removelast] in Hp. destruct r; [destruct Hp|].
    destruct Hp as [->|Hp]; [left; reflexivity|right; apply IH; exact Hp].
  - pose proof (split_on_lff 10 t) as F. destruct (last (split_on 10 t) []) as [|c r] eqn:E; [constructor|].
    constructor; [|constructor]. rewrite <- E. rewrite Forall_forall in F. apply F.
    pose proof (split_on_nonnil 10 t) as Hn. destruct (split_on 10 t) as [|a q]; [congruence|].
    clear -q. revert a. induction q as [|b q IH]; intros a; [left; reflexivity|]. right. apply IH.
Qed.
Lemma parse_i64_range s z : parse_i64 s = Some z -> (i64min <= z <= i64max)%Z.
Proof.
  rewrite parse_i64_eq. unfold parse_i64_spec.
  destruct (match s with 45 :: ds => option_map Z.opp (parse_digits ds) | 43 :: ds => parse_digits ds | _ => parse_digits s end) as [v|]; [|discriminate].
  destruct ((i64min <=? v)%Z && (v <=? i64max)%Z) eqn:E; [|discriminate]. intros [= <-].
  apply andb_prop in E as [A B]. apply Z.leb_le in A. apply Z.leb_le in B. lia.
Qed.
Definition sizes_ok (e : entry) : Prop :=
  forall v, match e v with Some (VI z) => (i64min <= z <= i64max)%Z | Some (VA l) => l <> [] | _ => True end.
Lemma printed_canonical_lines e : wk e -> sizes_ok e -> complete e -> canonical_lines (printed_lines e) = true.
Proof.
  intros W V C. unfold canonical_lines. rewrite !andb_true_iff. repeat split.
  - apply forallb_forall. intros l Hl. unfold printed_lines in Hl. apply in_flat_map in Hl as (v & _ & Hl).
    apply in_map_iff in Hl as (x & <- & Hx). unfold line_canon. rewrite line_kv_kv.
    destruct (kind_of v) eqn:K; auto. specialize (W v). specialize (V v).
    destruct (e v) as [[s|z|l]|]; try congruence; cbn [strs_of] in Hx; try destruct Hx as [<-|[]]; try destruct Hx.
    rewrite parse_print_i64 by exact V. apply eqs_refl.
  - unfold grouped. rewrite andb_true_iff. split.
    + replace (flat_map (fun v => lines_of v (printed_lines e)) all_vars) with (printed_lines e); [apply eql_refl|].
      unfold printed_lines at 1. apply flat_map_ext. intros v. rewrite lines_of_vals, vals_of_printed. reflexivity.
    + apply forallb_forall. intros v _. destruct (kind_of v) eqn:K; auto;
      rewrite lines_of_vals, map_length, vals_of_printed; specialize (W v);
      destruct (e v) as [[s|z|l]|]; try congruence; reflexivity.
  - apply forallb_forall. intros v Hv. apply present_has_var. unfold present. rewrite vals_of_printed.
    specialize (C v Hv). specialize (V v). destruct (e v) as [[s|z|l]|]; cbn [strs_of]; try discriminate; try congruence.
Qed.
(* what parsing produces is well-kinded, with sizes in range and non-empty lists *)
Lemma collect_wk ls : wk (fun v => collect v ls) /\ sizes_ok (fun v => collect v ls).
Proof.
  split; intros v; unfold collect; destruct (vals_of v ls) as [|x r]; auto; destruct (kind_of v) eqn:K; cbn; auto; try discriminate.
  - destruct (parse_i64 (last r x)); cbn; auto.
  - destruct (parse_i64 (last r x)) eqn:P; cbn; auto. apply parse_i64_range in P. exact P.
Qed.
Lemma strip_cr_snoc a : strip_cr (a ++ [13]) = a.
Proof. unfold strip_cr. rewrite frev_eq, rev_app_distr. cbn [List.rev app]. rewrite frev_eq, rev_involutive. reflexivity. Qed.
Lemma strip_cr_id l : (forall r, l <> r ++ [13]) -> strip_cr l = l.
Proof. intros H. destruct (strip_cr_spec l) as [[E _]|E]; auto. exfalso. apply (H _ E). Qed.
Lemma strip_cr_app p x : x <> [] -> strip_cr (p ++ x) = p ++ strip_cr x.
Proof.
  intros Hx. destruct (strip_cr_spec x) as [[E Hn]|E].
  - rewrite E. apply strip_cr_id. intros r Hr.
    destruct (exists_last Hx) as (x' & c & ->). rewrite app_assoc in Hr. apply app_inj_tail in Hr as [_ ->]. apply (Hn x'). reflexivity.
  - remember (strip_cr x) as y eqn:Hy. rewrite E, app_assoc. apply strip_cr_snoc.
Qed.
Lemma kv_strip v x : strip_cr (kv_line v x) = kv_line v (strip_cr x).
Proof.
  unfold kv_line. destruct x as [|c x'].
  - change (strip_cr []) with (@nil N). apply strip_cr_id. intros r Hr.
    change (vname v ++ [61]) with (vname v ++ [61]) in Hr. apply app_inj_tail in Hr as [_ Hr]. discriminate.
  - change (vname v ++ 61 :: c :: x') with (vname v ++ [61] ++ (c :: x')). rewrite app_assoc, strip_cr_app by discriminate.
    rewrite <- app_assoc. reflexivity.
Qed.
Lemma map_app_map {A B} (f : A -> B) (g : B -> B) l : map g (map f l) = map (fun x => g (f x)) l.
Proof. apply map_map. Qed.
Lemma vals_of_strip_kv v w xs : vals_of v (map strip_cr (map (kv_line w) xs)) = if var_eqb w v then map strip_cr xs else [].
Proof.
  unfold vals_of. induction xs as [|x xs IH]; cbn [map flat_map]; [destruct (var_eqb w v); reflexivity|].
  rewrite kv_strip, line_kv_kv, IH. destruct (var_eqb w v); reflexivity.
Qed.
Lemma map_flat_map {A B C} (g : B -> C) (f : A -> list B) l : map g (flat_map f l) = flat_map (fun a => map g (f a)) l.
Proof. induction l as [|a l IH]; cbn [flat_map map]; auto. rewrite map_app, IH. reflexivity. Qed.
Lemma vals_of_strip_printed e v : vals_of v (map strip_cr (printed_lines e)) = map strip_cr (strs_of (e v)).
Proof.
  unfold printed_lines. rewrite map_flat_map, vals_of_flat_map. rewrite (flat_map_single _ v).
  - rewrite vals_of_strip_kv, var_eqb_refl. reflexivity.
  - intros w N. rewrite vals_of_strip_kv. destruct (var_eqb_spec w v); congruence.
Qed.
Lemma map_fix {A} (f : A -> A) l : map f l = l -> forall x, In x l -> f x = x.
Proof. induction l as [|a l IH]; intros H x Hx; [destruct Hx|]. cbn [map] in H. injection H as H1 H2.
  destruct Hx as [<-|Hx]; auto. Qed.
Lemma vals_lff v ls : Forall lff ls -> Forall lff (vals_of v ls).
Proof.
  intros F. apply Forall_forall. intros x Hx. unfold vals_of in Hx. apply in_flat_map in Hx as (l & Hl & Hx).
  destruct (line_kv l) as [[w y]|] eqn:E; [|destruct Hx]. destruct (var_eqb w v); [|destruct Hx]. destruct Hx as [<-|[]].
  apply line_kv_inv in E. rewrite Forall_forall in F. specialize (F l Hl). unfold lff in *. rewrite E in F. unfold kv_line in F.
  rewrite mem_app in F. apply orb_false_elim in F as [_ F]. cbn [mem] in F. apply orb_false_elim in F as [_ F]. exact F.
Qed.
Theorem round_trip_canonical t e : parse_entry t = Val e -> print_entry e = t -> is_canonical t = true.
Proof.
  intros Pe Pr.
  pose proof (parse_entry_semantics t e Pe) as Sem.
  assert (is_val (parse_entry t) = true) as Hv by (rewrite Pe; reflexivity).
  apply parse_entry_accept_iff in Hv as [Hok Hreq].
  pose proof (lines_lff t) as Lf.
  remember (lines t) as ls eqn:Els.
  assert (forall v, Forall lff (strs_of (e v))) as Sl.
  { intros v. rewrite Sem. unfold collect. destruct (vals_of v ls) as [|x r] eqn:E; [constructor|].
    assert (Forall lff (x :: r)) as Fv by (rewrite <- E; apply vals_lff; exact Lf).
    destruct (kind_of v).
    - cbn. constructor; [|constructor]. rewrite Forall_forall in Fv. apply Fv. apply last_in.
    - destruct (parse_i64 (last r x)); cbn; [|constructor]. constructor; [|constructor]. apply print_z_clean.
    - cbn. exact Fv. }
  assert (Forall lff (printed_lines e)) as Pl.
  { apply Forall_forall. intros l Hl. unfold printed_lines in Hl. apply in_flat_map in Hl as (v & _ & Hl).
    apply in_map_iff in Hl as (x & <- & Hx). specialize (Sl v). rewrite Forall_forall in Sl. specialize (Sl x Hx).
    unfold lff, kv_line in *. rewrite mem_app. destruct (vname_no_nl v) as [-> _]. cbn [mem]. change (61 =? 10) with false. exact Sl. }
  assert (ls = map strip_cr (printed_lines e)) as Hls.
  { rewrite Els, <- Pr, print_entry_lines. apply lines_term_lff. exact Pl. }
  assert (forall v, map strip_cr (strs_of (e v)) = strs_of (e v)) as Fix.
  { intros v. pose proof (vals_of_strip_printed e v) as Hvs. rewrite <- Hls in Hvs.
    rewrite (Sem v). rewrite (Sem v) in Hvs. unfold collect in *. destruct (vals_of v ls) as [|x r] eqn:E; [reflexivity|].
    destruct (kind_of v).
    - cbn [strs_of map] in *. destruct r; [|discriminate]. cbn [last] in *. injection Hvs as Hx. rewrite <- Hx. reflexivity.
    - destruct (parse_i64 (last r x)); cbn [option_map strs_of map] in *; [|reflexivity].
      rewrite strip_cr_clean; [reflexivity|apply print_z_clean].
    - cbn [strs_of] in *. symmetry. exact Hvs. }
  assert (map strip_cr (printed_lines e) = printed_lines e) as Hid.
  { unfold printed_lines. rewrite map_flat_map. apply flat_map_ext. intros v. rewrite map_map.
    apply map_ext_in. intros x Hx. rewrite kv_strip. f_equal. apply (map_fix _ _ (Fix v)). exact Hx. }
  rewrite Hid in Hls.
  unfold is_canonical. rewrite <- Els, Hls. rewrite andb_true_iff. split.
  - apply eqs_eq. rewrite <- Pr. apply print_entry_lines.
  - destruct (collect_wk ls) as [W V]. apply printed_canonical_lines.
    + intros v. specialize (W v). cbn beta in W. rewrite Sem. exact W.
    + intros v. specialize (V v). cbn beta in V. rewrite Sem. exact V.
    + intros v Hin. rewrite Sem. intros Hn. apply collect_none_iff in Hn; [|exact Hok]. apply (Hreq v Hin). exact Hn.
Qed.
(* the syntactic predicate decides exactly the texts that round-trip *)
Theorem canonical_iff t : is_canonical t = true <-> exists e, parse_entry t = Val e /\ print_entry e = t.
Proof. split; [apply canonical_print_parse|intros (e & A & B); exact (round_trip_canonical t e A B)]. Qed.
