(* Plist.v - executable model of src/plist.rs: PlistEntry::from_bytes,
   Plist::from_bytes (the line scanner) and the query methods.  Bytes. *)
Require Import PV.Base PV.Dec PV.Summary.
Require Import Coq.Strings.String.
Import Coq.Lists.List ListNotations.
Local Open Scope N_scope.

Inductive pentry :=
| PFile (s : str) | PCwd (s : str) | PExec (s : str) | PUnExec (s : str)
| PMode (o : option str) | PPreserve | POwner (o : option str) | PGroup (o : option str)
| PComment (o : option str) | PIgnore | PName (s : str) | PPkgDir (s : str) | PDirRm (s : str)
| PDisplay (s : str) | PPkgDep (s : str) | PBldDep (s : str) | PPkgCfl (s : str).
Inductive perr := PEUnsupported | PEArgs | PEUtf8.

Fixpoint skip_blanks (l : str) : str :=
  match l with c :: r => if is_ascii_ws c then skip_blanks r else l | [] => [] end.
(* the command word and the argument of one line: the word ends at the first
   SPACE; the argument is what follows, stripped of leading ASCII white space;
   None when there is no space, the space is the first or the last byte, or
   nothing but blanks follows *)
Definition cmd_args (b : str) : str * option str :=
  match position 32 b with
  | None => (b, None)
  | Some i =>
      let cmd := firstn i b in
      if (Nat.eqb i 0 || Nat.leb (List.length b) (i + 1))%bool then (cmd, None)
      else match skip_blanks (skipn i b) with
           | [] => (cmd, None)
           | a => (cmd, Some a)
           end
  end.

Definition need_os (mk : str -> pentry) (a : option str) : res perr pentry :=
  match a with Some s => Val (mk s) | None => Fail PEArgs end.
Definition need_str (mk : str -> pentry) (a : option str) : res perr pentry :=
  match a with Some s => if utf8_valid s then Val (mk s) else Fail PEUtf8 | None => Fail PEArgs end.
Definition opt_str (mk : option str -> pentry) (a : option str) : res perr pentry :=
  match a with Some s => if utf8_valid s then Val (mk (Some s)) else Fail PEUtf8 | None => Val (mk None) end.

(* PlistEntry::from_bytes *)
Definition entry_of_bytes (b : str) : res perr pentry :=
  let (cmd, a) := cmd_args b in
  match cmd with
  | 64 :: _ =>
      if eqs cmd (lit "@cwd") || eqs cmd (lit "@src") || eqs cmd (lit "@cd") then need_os PCwd a
      else if eqs cmd (lit "@exec") then need_os PExec a
      else if eqs cmd (lit "@unexec") then need_os PUnExec a
      else if eqs cmd (lit "@option") then
        match a with
        | Some s => if utf8_valid s then (if eqs s (lit "preserve") then Val PPreserve else Fail PEUnsupported)
                    else Fail PEArgs
        | None => Fail PEArgs
        end
      else if eqs cmd (lit "@mode") then opt_str PMode a
      else if eqs cmd (lit "@owner") then opt_str POwner a
      else if eqs cmd (lit "@group") then opt_str PGroup a
      else if eqs cmd (lit "@comment") then Val (PComment a)
      else if eqs cmd (lit "@ignore") then match a with Some _ => Fail PEArgs | None => Val PIgnore end
      else if eqs cmd (lit "@name") then need_str PName a
      else if eqs cmd (lit "@pkgdep") then need_str PPkgDep a
      else if eqs cmd (lit "@blddep") then need_str PBldDep a
      else if eqs cmd (lit "@pkgcfl") then need_str PPkgCfl a
      else if eqs cmd (lit "@pkgdir") then need_os PPkgDir a
      else if eqs cmd (lit "@dirrm") then need_os PDirRm a
      else if eqs cmd (lit "@display") then need_os PDisplay a
      else Fail PEUnsupported
  | _ => Val (PFile b)
  end.

(* Plist::from_bytes: the line scanner.  State: the bytes of the current line
   so far (reversed; stands for bytes[start..idx]), the number of leading white
   space bytes seen (tstart - start), whether still trimming, and the lines
   pushed so far (reversed). *)
Record scan_st := mkscan { cur : str; nlead : nat; trimming : bool; pushed : list str }.
Definition scan_init : scan_st := mkscan [] 0 true [].
Definition push_ok (s : scan_st) : bool :=
  (Nat.ltb 0 (List.length (cur s)) && Nat.ltb (nlead s) (List.length (cur s)))%bool.
Definition scan_step (s : scan_st) (ch : N) : scan_st :=
  if ch =? 10 then
    mkscan [] 0 true (if push_ok s then frev (cur s) :: pushed s else pushed s)
  else if (trimming s && is_ascii_ws ch)%bool then
    mkscan (ch :: cur s) (S (nlead s)) true (pushed s)
  else mkscan (ch :: cur s) (nlead s) false (pushed s).
Definition scan_lines (b : str) : list str :=
  let s := fold_left scan_step b scan_init in
  frev (if push_ok s then frev (cur s) :: pushed s else pushed s).

Fixpoint mapM {E A B} (f : A -> res E B) (l : list A) : res E (list B) :=
  match l with
  | [] => Val []
  | x :: r => bind (f x) (fun y => bind (mapM f r) (fun ys => Val (y :: ys)))
  end.
Definition plist_of_bytes (b : str) : res perr (list pentry) := mapM entry_of_bytes (scan_lines b).

(* ================= queries ================= *)
Fixpoint files_from (ign : bool) (l : list pentry) : list str :=
  match l with
  | [] => []
  | PIgnore :: r => files_from true r
  | PFile f :: r => if ign then files_from false r else f :: files_from false r
  | _ :: r => files_from ign r
  end.
Definition files := files_from false.
Definition with_slash (p : str) : str := match frev p with 47 :: _ => p | _ => p ++ [47] end.
Fixpoint files_prefixed_from (ign : bool) (pfx : str) (l : list pentry) : list str :=
  match l with
  | [] => []
  | PCwd d :: r => files_prefixed_from ign d r
  | PIgnore :: r => files_prefixed_from true pfx r
  | PFile f :: r => if ign then files_prefixed_from false pfx r
                    else (with_slash pfx ++ f) :: files_prefixed_from false pfx r
  | _ :: r => files_prefixed_from ign pfx r
  end.
Definition files_prefixed := files_prefixed_from false [].
Definition is_install (e : pentry) : bool :=
  match e with PCwd _ | PExec _ | PMode _ | POwner _ | PGroup _ | PPkgDir _ => true | _ => false end.
Definition is_uninstall (e : pentry) : bool :=
  match e with PCwd _ | PUnExec _ | PMode _ | POwner _ | PGroup _ | PPkgDir _ | PDirRm _ => true | _ => false end.
Fixpoint cmds_from (keep : pentry -> bool) (ign : bool) (l : list pentry) : list pentry :=
  match l with
  | [] => []
  | PIgnore :: r => cmds_from keep true r
  | PFile f :: r => if ign then cmds_from keep false r else PFile f :: cmds_from keep false r
  | e :: r => if keep e then e :: cmds_from keep ign r else cmds_from keep ign r
  end.
Definition install_cmds := cmds_from is_install false.
Definition uninstall_cmds := cmds_from is_uninstall false.
Definition pick {A} (f : pentry -> option A) (l : list pentry) : list A :=
  flat_map (fun e => match f e with Some x => [x] | None => [] end) l.
Definition depends := pick (fun e => match e with PPkgDep s => Some s | _ => None end).
Definition build_depends := pick (fun e => match e with PBldDep s => Some s | _ => None end).
Definition conflicts := pick (fun e => match e with PPkgCfl s => Some s | _ => None end).
Definition pkgdirs := pick (fun e => match e with PPkgDir s => Some s | _ => None end).
Definition pkgrmdirs := pick (fun e => match e with PDirRm s => Some s | _ => None end).
Definition pl_pkgname (l : list pentry) : option str := hd_error (pick (fun e => match e with PName s => Some s | _ => None end) l).
Definition pl_display (l : list pentry) : option str := hd_error (pick (fun e => match e with PDisplay s => Some s | _ => None end) l).
Definition is_preserve (l : list pentry) : bool := existsb (fun e => match e with PPreserve => true | _ => false end) l.
