(* PathProofs.v - PKGPATH and DEPENDS (C19). *)
Require Import PV.Base PV.Dec PV.Dewey PV.Pattern PV.Summary PV.Distinfo PV.DistinfoProofs PV.PkgPathM.
Require Import Coq.Strings.String.
Import Coq.Lists.List ListNotations.
Local Open Scope N_scope.

Definition head_comps (p : str) : list comp :=
  match p with 47 :: _ => [CRoot] | [46] => [CCur] | 46 :: 47 :: _ => [CCur] | _ => [] end.
Definition head_comps_b (p : str) : list comp :=
  match p with
  | [] => []
  | c :: r => if c =? 47 then [CRoot]
              else if (c =? 46) && (match r with [] => true | c2 :: _ => c2 =? 47 end) then [CCur] else []
  end.
Lemma head_comps_spec p : head_comps p = head_comps_b p.
Proof.
  destruct p as [|c r]; [reflexivity|]. unfold head_comps, head_comps_b.
  destruct (N.eqb_spec c 47) as [->|N47]; [reflexivity|].
  destruct (N.eqb_spec c 46) as [->|N46]; cbn [andb].
  - destruct r as [|c2 r2]; [reflexivity|]. destruct (N.eqb_spec c2 47) as [->|M47]; [reflexivity|].
    destruct c2 as [|p2]; [reflexivity|]. repeat (destruct p2 as [p2|p2|]; try reflexivity); congruence.
  - destruct c as [|pc]; [reflexivity|]. repeat (destruct pc as [pc|pc|]; try reflexivity); congruence.
Qed.
Lemma head_comps_no_normal p x : ~ In (CNormal x) (head_comps p).
Proof. rewrite head_comps_spec. unfold head_comps_b. destruct p as [|c r]; [intros []|].
  destruct (c =? 47); [intros [H|[]]; discriminate|]. destruct ((c =? 46) && _); [intros [H|[]]; discriminate|intros []]. Qed.
Lemma pcomps_unfold p : pcomps p = head_comps p ++ flat_map seg_comp (split_on 47 p).
Proof. reflexivity. Qed.
Lemma seg_other s : s <> [] -> s <> [46] -> s <> [46; 46] -> seg_comp s = [CNormal s].
Proof.
  intros A B C. unfold seg_comp. destruct s as [|c r]; [congruence|].
  destruct c as [|p]; auto. destruct r as [|c2 r2].
  - destruct (Pos.eq_dec p 46) as [->|]; [congruence|]. repeat (destruct p as [p|p|]; auto); congruence.
  - destruct (Pos.eq_dec p 46) as [->|N1]; [|repeat (destruct p as [p|p|]; auto); congruence].
    destruct r2 as [|c3 r3]; [|destruct c2 as [|p2]; auto; repeat (destruct p2 as [p2|p2|]; auto)].
    destruct c2 as [|p2]; auto. destruct (Pos.eq_dec p2 46) as [->|N2]; [congruence|]. repeat (destruct p2 as [p2|p2|]; auto); congruence.
Qed.
Lemma seg_comp_cases s : (s = [] /\ seg_comp s = []) \/ (s = [46] /\ seg_comp s = []) \/
  (s = [46; 46] /\ seg_comp s = [CParent]) \/ (s <> [] /\ s <> [46] /\ s <> [46; 46] /\ seg_comp s = [CNormal s]).
Proof.
  destruct (list_eq_dec N.eq_dec s []) as [->|A]; [left; auto|].
  destruct (list_eq_dec N.eq_dec s [46]) as [->|B]; [right; left; auto|].
  destruct (list_eq_dec N.eq_dec s [46; 46]) as [->|C]; [right; right; left; auto|].
  right; right; right. repeat split; auto. apply seg_other; auto.
Qed.
Lemma split_on_no_sep c s : forall p, In p (split_on c s) -> mem c p = false.
Proof.
  induction s as [|x s IH]; intros p H; cbn [split_on] in H.
  - destruct H as [<-|[]]. reflexivity.
  - destruct (N.eqb_spec x c) as [->|Nx].
    + destruct H as [<-|H]; [reflexivity|auto].
    + pose proof (split_on_nonnil c s) as NN. destruct (split_on c s) as [|q qs]; [congruence|].
      destruct H as [<-|H]; [|apply IH; right; auto]. cbn [mem]. apply N.eqb_neq in Nx. rewrite Nx. cbn. apply IH. left; auto.
Qed.
(* a Normal component is an ordinary name *)
Lemma normal_ordinary p x : In (CNormal x) (pcomps p) -> ordinary x.
Proof.
  rewrite pcomps_unfold. intros H. apply in_app_or in H. destruct H as [H|H].
  - exfalso. eapply head_comps_no_normal; eauto.
  - apply in_flat_map in H as (s & Hs & Hx). pose proof (split_on_no_sep 47 p s Hs) as M.
    destruct (seg_comp_cases s) as [(-> & E)|[(-> & E)|[(-> & E)|(A & B & C & E)]]]; rewrite E in Hx; cbn in Hx; try tauto; try (destruct Hx as [Hx|[]]; discriminate).
    destruct Hx as [Hx|[]]. injection Hx as <-. repeat split; auto.
Qed.
Lemma head_nil_of_normal p a l : pcomps p = CNormal a :: l -> head_comps p = [].
Proof.
  rewrite pcomps_unfold, head_comps_spec. unfold head_comps_b. destruct p as [|c r]; auto.
  destruct (c =? 47); [discriminate|]. destruct ((c =? 46) && _); [discriminate|reflexivity].
Qed.
(* "../../" in front of a relative path adds two ParentDir components *)
Lemma pcomps_dotdot p a l : pcomps p = CNormal a :: l -> pcomps (lit "../../" ++ p) = CParent :: CParent :: pcomps p.
Proof.
  intros H. pose proof (head_nil_of_normal p a l H) as Hh. rewrite (pcomps_unfold p), Hh. cbn [app].
  change (lit "../../" ++ p) with (46 :: 46 :: 47 :: 46 :: 46 :: 47 :: p). rewrite pcomps_unfold.
  cbn [head_comps app]. pose proof (split_on_nonnil 47 p) as NN.
  cbn [split_on N.eqb Pos.eqb]. destruct (split_on 47 p) as [|q qs] eqn:E; [congruence|]. reflexivity.
Qed.
Lemma path_push_ordinary a b : ordinary a -> path_push a b = a ++ 47 :: b.
Proof.
  intros (A & M & _). unfold path_push. rewrite frev_eq. destruct (List.rev a) as [|c r] eqn:E.
  - apply (f_equal (@List.rev N)) in E. rewrite rev_involutive in E. cbn in E. congruence.
  - destruct (N.eqb_spec c 47) as [->|Nc].
    + exfalso. assert (In 47 a) as Hin by (apply in_rev; rewrite E; left; reflexivity). apply mem_In in Hin. congruence.
    + destruct c as [|pc]; auto. destruct (Pos.eq_dec pc 47) as [->|]; [congruence|]. repeat (destruct pc as [pc|pc|]; auto); congruence.
Qed.

(* accepted exactly for category/package and ../../category/package, component-wise *)
Theorem pkgpath_accept_iff p : (exists pp, pkgpath_new p = Some pp) <->
  (exists a b, pcomps p = [CNormal a; CNormal b]) \/ (exists a b, pcomps p = [CParent; CParent; CNormal a; CNormal b]).
Proof.
  unfold pkgpath_new. split.
  - intros (pp & H). destruct (pcomps p) as [|[| | |a] [|[| | |b] [|[| | |c] [|[| | |d] [|? ?]]]]]; try discriminate; eauto.
  - intros [(a & b & ->)|(a & b & ->)]; eauto.
Qed.
(* short path = category/package, full path = ../../category/package *)
Theorem pkgpath_short_full p pp : pkgpath_new p = Some pp ->
  exists a b, pcomps (pp_short pp) = [CNormal a; CNormal b] /\
              pcomps (pp_full pp) = [CParent; CParent; CNormal a; CNormal b] /\
              (pcomps p = [CNormal a; CNormal b] \/ pcomps p = [CParent; CParent; CNormal a; CNormal b]).
Proof.
  unfold pkgpath_new. intros H.
  destruct (pcomps p) as [|[| | |a] [|[| | |b] [|[| | |c] [|[| | |d] [|? ?]]]]] eqn:E; try discriminate; injection H as <-; cbn [pp_short pp_full].
  - (* ../../a/b *)
    exists c, d. assert (ordinary c) as Oc by (apply (normal_ordinary p); rewrite E; right; right; left; auto).
    assert (ordinary d) as Od by (apply (normal_ordinary p); rewrite E; right; right; right; left; auto).
    rewrite path_push_ordinary by auto. split; [|auto].
    change (c ++ 47 :: d) with (join_with 47 [c; d]). rewrite comps_ordinary by (auto; discriminate). reflexivity.
  - (* a/b *)
    exists a, b. split; [exact E|]. split; [|auto].
    change (path_push [46; 46; 47; 46; 46; 47] p) with (lit "../../" ++ p).
    rewrite (pcomps_dotdot p a [CNormal b] E), E. reflexivity.
Qed.
(* both spellings give equal values *)
Theorem pkgpath_spellings_equal p q x y a b : pcomps p = [CNormal a; CNormal b] ->
  pcomps q = [CParent; CParent; CNormal a; CNormal b] -> pkgpath_new p = Some x -> pkgpath_new q = Some y -> pkgpath_eqb x y = true.
Proof.
  intros Ep Eq Hx Hy. destruct (pkgpath_short_full p x Hx) as (a1 & b1 & S1 & F1 & [P1|P1]); [|congruence].
  destruct (pkgpath_short_full q y Hy) as (a2 & b2 & S2 & F2 & [P2|P2]); [congruence|].
  rewrite Ep in P1. rewrite Eq in P2. injection P1 as <- <-. injection P2 as <- <-.
  unfold pkgpath_eqb. apply andb_true_intro. split; apply path_eqb_eq; congruence.
Qed.
(* re-parsing either accessor's output gives an equal value *)
Theorem pkgpath_reparse p pp : pkgpath_new p = Some pp ->
  (exists y, pkgpath_new (pp_short pp) = Some y /\ pkgpath_eqb y pp = true) /\
  (exists y, pkgpath_new (pp_full pp) = Some y /\ pkgpath_eqb y pp = true).
Proof.
  intros H. destruct (pkgpath_short_full p pp H) as (a & b & S & F & _).
  assert (forall q, (pcomps q = [CNormal a; CNormal b] \/ pcomps q = [CParent; CParent; CNormal a; CNormal b]) ->
          exists y, pkgpath_new q = Some y /\ pkgpath_eqb y pp = true) as G.
  { intros q Hq. assert (exists y, pkgpath_new q = Some y) as (y & Hy).
    { apply pkgpath_accept_iff. destruct Hq; [left|right]; eauto. }
    exists y. split; auto. destruct (pkgpath_short_full q y Hy) as (a' & b' & S' & F' & Hq').
    assert (a' = a /\ b' = b) as [-> ->] by (destruct Hq as [Hq|Hq], Hq' as [Hq'|Hq']; rewrite Hq in Hq'; try discriminate; injection Hq' as <- <-; auto).
    unfold pkgpath_eqb. apply andb_true_intro. split; apply path_eqb_eq; congruence. }
  split; apply G; auto.
Qed.
(* DEPENDS: exactly 'pattern:pkgpath' with a single ':' and both halves valid; the parts are those of the halves *)
Theorem depend_iff s d : depend_new s = Val d <->
  exists x y, split_on 58 s = [x; y] /\ pattern_new x = Val (dep_pattern d) /\ pkgpath_new y = Some (dep_path d).
Proof.
  unfold depend_new. split.
  - destruct (split_on 58 s) as [|x [|y [|? ?]]]; try discriminate.
    destruct (pattern_new x) as [pt| | |] eqn:P; try discriminate. destruct (pkgpath_new y) as [pp|] eqn:Q; try discriminate.
    intros [= <-]. exists x, y. auto.
  - intros (x & y & -> & P & Q). rewrite P, Q. destruct d; reflexivity.
Qed.
Theorem depend_error s : (forall x y, split_on 58 s <> [x; y]) -> depend_new s = Fail DInvalid.
Proof. intros H. unfold depend_new. destruct (split_on 58 s) as [|x [|y [|? ?]]]; auto. exfalso. eapply H; eauto. Qed.
