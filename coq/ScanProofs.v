(* ScanProofs.v - pbulk-index: the read loop = one record per block, where a
   block starts at each 'PKGNAME=' line; all or nothing (C16). *)
Require Import PV.Base PV.Dec PV.Dewey PV.Pattern PV.Summary PV.Distinfo PV.PkgPathM PV.ScanIndex.
Require Import Coq.Strings.String.
Import Coq.Lists.List ListNotations.
Local Open Scope N_scope.

Definition is_head (l : str) : bool := starts_with (lit "PKGNAME=") l.
(* trimmed, non-blank lines *)
Definition clean (ls : list str) : list str := filter (fun l => match l with [] => false | _ => true end) (map trim ls).
(* declarative grouping: the lines before the first 'PKGNAME=' line (if any), then
   one block per 'PKGNAME=' line reaching to the next one *)
Fixpoint split_heads (ls : list str) : list str * list (list str) :=
  match ls with
  | [] => ([], [])
  | l :: r => let (b, bs) := split_heads r in if is_head l then ([], (l :: b) :: bs) else (l :: b, bs)
  end.
Definition blocks_from (pre : list str) (ls : list str) : list (list str) :=
  let (b, bs) := split_heads ls in match pre ++ b with [] => bs | x => x :: bs end.
Definition blocks (ls : list str) : list (list str) := blocks_from [] ls.

(* the loop on already-clean lines *)
Fixpoint read_clean (ls : list str) (buffer : list str) (done : list scanrec) : option (list scanrec) :=
  match ls with
  | [] => match buffer with
          | [] => Some (List.rev done)
          | _ => match record_of (List.rev buffer) with Some r => Some (List.rev (r :: done)) | None => None end
          end
  | l :: r =>
      if is_head l && (match buffer with [] => false | _ => true end)
      then match record_of (List.rev buffer) with Some rec => read_clean r [l] (rec :: done) | None => None end
      else read_clean r (l :: buffer) done
  end.
Lemma read_loop_clean ls : forall buffer done, read_loop ls buffer done = read_clean (clean ls) buffer done.
Proof.
  induction ls as [|l0 r IH]; intros buffer done; [cbn [read_loop clean map filter read_clean]; destruct buffer as [|b0 bs]; rewrite ?frev_eq; [reflexivity|]; destruct (record_of _); rewrite ?frev_eq; reflexivity|]. cbn [read_loop]. rewrite ?frev_eq. unfold clean. cbn [map filter].
  destruct (trim l0) as [|c t] eqn:E; [apply IH|]. cbn [read_clean]. fold (clean r). unfold is_head.
  destruct (starts_with (lit "PKGNAME=") (c :: t) && _)%bool; [destruct (record_of _); auto|auto].
Qed.

Lemma all_some_app {A} (a b : list (option A)) : all_some (a ++ b) =
  match all_some a, all_some b with Some x, Some y => Some (x ++ y) | _, _ => None end.
Proof. induction a as [|o a IH]; cbn [app all_some]; [destruct (all_some b); reflexivity|].
  destruct o; [|reflexivity]. rewrite IH. destruct (all_some a), (all_some b); reflexivity. Qed.

Theorem read_clean_spec ls : forall buffer done,
  read_clean ls buffer done =
  option_map (fun rs => List.rev done ++ rs) (all_some (map record_of (blocks_from (List.rev buffer) ls))).
Proof.
  induction ls as [|l r IH]; intros buffer done.
  - cbn [read_clean blocks_from split_heads]. rewrite app_nil_r. destruct buffer as [|x b].
    + cbn. rewrite app_nil_r. reflexivity.
    + destruct (List.rev (x :: b)) as [|y ys] eqn:E.
      { apply (f_equal (@List.rev str)) in E. rewrite rev_involutive in E. discriminate. }
      cbn [map all_some]. destruct (record_of (y :: ys)); cbn; reflexivity.
  - cbn [read_clean]. unfold blocks_from. cbn [split_heads]. destruct (split_heads r) as [b bs] eqn:S.
    destruct (is_head l) eqn:H; cbn [andb].
    + rewrite app_nil_r. destruct buffer as [|x bf].
      * cbn [List.rev]. rewrite IH. unfold blocks_from. rewrite S. cbn [List.rev app]. reflexivity.
      * destruct (List.rev (x :: bf)) as [|y ys] eqn:E.
        { apply (f_equal (@List.rev str)) in E. rewrite rev_involutive in E. discriminate. }
        cbn [map all_some]. destruct (record_of (y :: ys)) as [rec|]; [|reflexivity].
        rewrite IH. unfold blocks_from. rewrite S. cbn [List.rev app map all_some].
        destruct (record_of (l :: b)); cbn [option_map]; [|reflexivity].
        destruct (all_some (map record_of bs)); cbn [option_map]; [|reflexivity]. rewrite <- app_assoc. reflexivity.
    + rewrite IH. unfold blocks_from. rewrite S. cbn [List.rev]. rewrite <- app_assoc. cbn [app].
      destruct ((List.rev buffer ++ l :: b)); reflexivity.
Qed.

(* the read yields exactly one record per block, each built only from its own block, or fails as a whole *)
Theorem scan_read_spec t : scan_read t false = all_some (map record_of (blocks (clean (lines t)))).
Proof.
  unfold scan_read. rewrite read_loop_clean, read_clean_spec. cbn [List.rev app]. unfold blocks.
  destruct (all_some _); reflexivity.
Qed.
Theorem scan_read_io_error t : scan_read t true = None.
Proof. reflexivity. Qed.
Lemma all_some_length {A} (l : list (option A)) r : all_some l = Some r -> List.length r = List.length l.
Proof. revert r; induction l as [|o l IH]; intros r H; cbn [all_some] in H; [injection H as <-; reflexivity|].
  destruct o; [|discriminate]. destruct (all_some l) eqn:E; [|discriminate]. injection H as <-. cbn. f_equal. auto. Qed.
Lemma all_some_nth {A} (l : list (option A)) r : all_some l = Some r -> forall i d, (i < List.length l)%nat -> nth i l None = Some (nth i r d).
Proof.
  revert r; induction l as [|o l IH]; intros r H i d Hi; [cbn in Hi; lia|]. cbn [all_some] in H.
  destruct o as [x|]; [|discriminate]. destruct (all_some l) as [r'|] eqn:E; [|discriminate]. injection H as <-.
  destruct i; [reflexivity|]. cbn [nth]. apply IH; auto. cbn in Hi. lia.
Qed.
(* record i is a function of block i only *)
Theorem scan_no_leak t rs : scan_read t false = Some rs ->
  List.length rs = List.length (blocks (clean (lines t))) /\
  forall i d, (i < List.length rs)%nat -> Some (nth i rs d) = record_of (nth i (blocks (clean (lines t))) []).
Proof.
  rewrite scan_read_spec. intros H. pose proof (all_some_length _ _ H) as L. rewrite map_length in L. split; auto.
  intros i d Hi. rewrite <- (all_some_nth _ _ H i d) by (rewrite map_length; lia).
  change (@None scanrec) with (record_of []). rewrite map_nth. reflexivity.
Qed.
(* one record per 'PKGNAME=' line when the first line is one *)
Lemma split_heads_count ls : List.length (snd (split_heads ls)) = List.length (filter is_head ls).
Proof. induction ls as [|l r IH]; [reflexivity|]. cbn [split_heads filter]. destruct (split_heads r) as [b bs].
  destruct (is_head l); cbn [snd List.length] in *; auto. Qed.
Theorem blocks_count ls : (match ls with l :: _ => is_head l = true | [] => True end) ->
  List.length (blocks ls) = List.length (filter is_head ls).
Proof.
  intros H. unfold blocks, blocks_from. pose proof (split_heads_count ls) as C. destruct ls as [|l r]; [reflexivity|].
  cbn [split_heads] in *. destruct (split_heads r) as [b bs]. rewrite H in *. cbn [app snd] in *. exact C.
Qed.
(* scalar fields: the trimmed value of the last line for the key; absent keys are None *)
Theorem kv_get_snoc k block l : kv_get k (block ++ [l]) =
  match split_once 61 l with
  | Some (a, b) => if eqs (trim a) k then Some (trim b) else kv_get k block
  | None => kv_get k block end.
Proof. unfold kv_get. rewrite fold_left_app. reflexivity. Qed.
Theorem kv_get_none k block : (forall l a b, In l block -> split_once 61 l = Some (a, b) -> eqs (trim a) k = false) -> kv_get k block = None.
Proof.
  unfold kv_get. induction block as [|l r IH] using rev_ind; intros H; [reflexivity|]. rewrite fold_left_app. cbn [fold_left].
  destruct (split_once 61 l) as [[a b]|] eqn:E.
  - rewrite (H l a b) by (auto; apply in_or_app; right; left; reflexivity). apply IH. intros l' a' b' Hl'. apply H. apply in_or_app. left; auto.
  - apply IH. intros l' a' b' Hl'. apply H. apply in_or_app. left; auto.
Qed.
