(* StreamProofs.v - SummaryStream::write is independent of how the byte stream
   is chunked (C09).  Generic in the record parser and the validity test, then
   instantiated with the pkg_summary entry parser and UTF-8 validity. *)
Require Import PV.Base PV.Dec PV.Summary PV.SummaryProofs.
Local Open Scope N_scope.

(* shape of a record as split_terminator sees it *)
Fixpoint no_adj (s:str) : Prop :=
  match s with a :: ((b :: _) as r) => ~ (a = 10 /\ b = 10) /\ no_adj r | _ => True end.
Definition starts_ok (s:str) : Prop := match s with c :: _ => c <> 10 | [] => True end.
Definition safe (s:str) : Prop := starts_ok s /\ no_adj s.
Definition good (r:str) : Prop := r <> [] /\ safe r /\ last r 0 <> 10.

Definition term (r:str) : str := r ++ [10; 10].
Definition join (rs:list str) : str := concat (map term rs).

Lemma no_adj_cons a s : no_adj (a :: s) <-> (match s with b :: _ => ~ (a = 10 /\ b = 10) | [] => True end) /\ no_adj s.
Proof. destruct s; cbn; tauto. Qed.

Lemma last_nn_from_cons2 a b t i acc :
  last_nn_from (a :: b :: t) i acc = last_nn_from (b :: t) (S i) (if (a =? 10) && (b =? 10) then Some i else acc).
Proof. reflexivity. Qed.
Lemma last_nn_from_1 a i acc : last_nn_from [a] i acc = acc. Proof. reflexivity. Qed.

Lemma last_nn_from_safe s i acc : no_adj s -> last_nn_from s i acc = acc.
Proof.
  revert i acc; induction s as [|a s IH]; intros i acc H; [reflexivity|].
  destruct s as [|b t]; [reflexivity|]. rewrite last_nn_from_cons2. destruct H as [H1 H2].
  rewrite IH by exact H2.
  destruct (N.eqb_spec a 10), (N.eqb_spec b 10); cbn; try reflexivity. tauto.
Qed.

(* x then 10 10 then a safe tail: the last occurrence is at |x| *)
Lemma last_nn_from_app x t i acc : safe t ->
  last_nn_from (x ++ 10 :: 10 :: t) i acc = Some (i + length x)%nat.
Proof.
  intros [Ht1 Ht2]. revert i acc; induction x as [|a x IH]; intros i acc.
  - cbn [app length]. rewrite last_nn_from_cons2, N.eqb_refl. cbn [andb].
    destruct t as [|c t'].
    + rewrite last_nn_from_1. f_equal; lia.
    + rewrite last_nn_from_cons2, N.eqb_refl. cbn in Ht1.
      destruct (N.eqb_spec c 10); [congruence|]. cbn [andb].
      rewrite last_nn_from_safe by exact Ht2. f_equal; lia.
  - cbn [app length]. destruct (x ++ 10 :: 10 :: t) as [|b r] eqn:E.
    + destruct x; discriminate.
    + rewrite last_nn_from_cons2. rewrite IH. f_equal; lia.
Qed.
Lemma last_nn_app x t : safe t -> last_nn (x ++ 10 :: 10 :: t) = Some (length x).
Proof. intros; unfold last_nn; rewrite last_nn_from_app; auto. Qed.
Lemma last_nn_safe t : no_adj t -> last_nn t = None.
Proof. intros; unfold last_nn; apply last_nn_from_safe; auto. Qed.

(* cut_nn on  r ++ 10 10 ++ rest  for good r *)
Lemma no_adj_app_inv a b : no_adj (a ++ b) -> no_adj a.
Proof. induction a as [|x a IH]; cbn [app]; intros H; [exact I|].
  apply no_adj_cons in H as [H1 H2]. apply no_adj_cons. split; auto. destruct a; cbn in *; auto. Qed.

Lemma cut_nn_cons2 a b t : cut_nn (a :: b :: t) =
  if (a =? 10) && (b =? 10) then Some ([], t)
  else match cut_nn (b :: t) with Some (x, y) => Some (a :: x, y) | None => None end.
Proof. reflexivity. Qed.

Lemma cut_nn_good' r rest : r <> [] -> no_adj r -> last r 0 <> 10 -> cut_nn (r ++ 10 :: 10 :: rest) = Some (r, rest).
Proof.
  induction r as [|a r IH]; intros Hne Ha Hl; [congruence|].
  destruct r as [|b r'].
  - cbn in Hl. cbn [app]. rewrite cut_nn_cons2. destruct (N.eqb_spec a 10); [congruence|]. cbn [andb].
    rewrite cut_nn_cons2, N.eqb_refl. reflexivity.
  - cbn [app]. rewrite cut_nn_cons2. destruct Ha as [Ha1 Ha2].
    assert ((a =? 10) && (b =? 10) = false) as ->.
    { destruct (N.eqb_spec a 10), (N.eqb_spec b 10); cbn; auto. tauto. }
    change (b :: r' ++ 10 :: 10 :: rest) with ((b :: r') ++ 10 :: 10 :: rest).
    rewrite IH; auto; discriminate.
Qed.
Lemma cut_nn_good r rest : good r -> cut_nn (r ++ 10 :: 10 :: rest) = Some (r, rest).
Proof. intros (Hne & (Hs & Ha) & Hl). apply cut_nn_good'; auto. Qed.

Lemma join_cons r rs : join (r :: rs) = r ++ 10 :: 10 :: join rs.
Proof. unfold join, term. cbn. rewrite <- app_assoc. reflexivity. Qed.

Lemma split_term_join rs : Forall good rs -> forall f, (length (join rs) <= f)%nat -> split_term f (join rs) = rs.
Proof.
  induction rs as [|r rs IH]; intros HG f Hf.
  - destruct f; reflexivity.
  - inversion HG as [|? ? G1 G2]; subst. rewrite join_cons in Hf. rewrite join_cons.
    rewrite app_length in Hf. cbn [length] in Hf.
    destruct f as [|f]; [lia|].
    cbn [split_term]. destruct (r ++ 10 :: 10 :: join rs) eqn:E.
    { destruct r; discriminate. }
    rewrite <- E, cut_nn_good by auto. f_equal. apply IH; auto. lia.
Qed.

(* prefixes of a well-formed stream *)
Definition tail_of (r:str) (t:str) : Prop := exists u, u <> [] /\ term r = t ++ u.  (* proper prefix of r 10 10 *)

Lemma no_adj_app a b : no_adj a -> no_adj b -> (last a 0 <> 10 \/ starts_ok b) -> no_adj (a ++ b).
Proof.
  induction a as [|x a IH]; intros Ha Hb Hj; [exact Hb|].
  destruct a as [|y a'].
  - cbn [app]. apply no_adj_cons. split; auto. destruct b as [|z b']; auto. cbn in Hj.
    intros [-> ->]. destruct Hj; congruence.
  - destruct Ha as [Ha1 Ha2]. change ((x :: y :: a') ++ b) with (x :: (y :: a') ++ b).
    apply no_adj_cons. split; [exact Ha1|]. apply IH; auto.
Qed.

Lemma prefix_safe r t : good r -> tail_of r t -> safe t.
Proof.
  intros (Hne & (Hs & Ha) & Hl) (u & Hu & E). unfold term in E.
  (* t is a prefix of r ++ [10] *)
  assert (exists v, r ++ [10] = t ++ v) as (v & Ev).
  { destruct (exists_last Hu) as (u' & z & ->). rewrite app_assoc in E.
    change (r ++ [10; 10]) with (r ++ [10] ++ [10]) in E. rewrite app_assoc in E.
    apply app_inj_tail in E as [E _]. eauto. }
  assert (no_adj (r ++ [10])) as Hn by (apply no_adj_app; cbn; auto).
  rewrite Ev in Hn. split; [|eapply no_adj_app_inv; eauto].
  destruct t as [|c t']; cbn; auto. destruct r as [|c' r']; [congruence|].
  cbn in Ev. injection Ev as -> _. exact Hs.
Qed.

Lemma app_eq_cases {A} (a b a' b' : list A) : a ++ b = a' ++ b' ->
  (exists m, a = a' ++ m /\ b' = m ++ b) \/ (exists m, m <> [] /\ a' = a ++ m /\ b = m ++ b').
Proof.
  revert a'; induction a as [|x a IH]; intros a' H; cbn in H.
  - destruct a' as [|y a']; cbn in H.
    + left. exists []. split; auto.
    + right. exists (y :: a'). repeat split; auto; congruence.
  - destruct a' as [|y a']; cbn in H.
    + left. exists (x :: a). split; auto.
    + injection H as -> H. destruct (IH _ H) as [(m & -> & ->)|(m & Hm & -> & ->)].
      * left. exists m. auto.
      * right. exists m. auto.
Qed.

Lemma join_app a b : join (a ++ b) = join a ++ join b.
Proof. unfold join. rewrite map_app, concat_app. reflexivity. Qed.

Lemma decompose rs : Forall good rs -> forall P Q, P ++ Q = join rs ->
  exists j t, P = join (firstn j rs) ++ t /\ t ++ Q = join (skipn j rs) /\
              match skipn j rs with [] => t = [] | r :: _ => tail_of r t end.
Proof.
  induction rs as [|r rs IH]; intros HG P Q E.
  - cbn in E. apply app_eq_nil in E as [-> ->]. exists 0%nat, []. cbn. auto.
  - inversion HG as [|? ? G1 G2]; subst. unfold join in E; cbn [map concat] in E. fold (join rs) in E.
    destruct (app_eq_cases _ _ _ _ E) as [(m & -> & Em)|(m & Hm & Et & ->)].
    + destruct (IH G2 m Q (eq_sym Em)) as (j & t & -> & E2 & Hs).
      exists (S j), t. cbn [firstn skipn]. repeat split; auto.
      unfold join; cbn [map concat]. rewrite app_assoc. reflexivity.
    + exists 0%nat, P. cbn [firstn skipn]. repeat split; auto. exists m. auto.
Qed.

(* ---------- where the last blank line is ---------- *)
Lemma last_nn_from_some_later s : forall i acc k, (exists l, acc = Some l /\ (k <= l)%nat) ->
  exists l, last_nn_from s i acc = Some l /\ (k <= l \/ i <= l)%nat.
Proof.
  induction s as [|a s IH]; intros i acc k (l & -> & Hl); [exists l; split; auto|].
  destruct s as [|b t]; [exists l; split; auto|]. rewrite last_nn_from_cons2.
  destruct ((a =? 10) && (b =? 10)).
  - destruct (IH (S i) (Some i) i) as (l' & E & H); [exists i; split; auto|]. exists l'. split; auto. right. lia.
  - destruct (IH (S i) (Some l) k) as (l' & E & H); [exists l; split; auto|]. exists l'. split; auto. lia.
Qed.
Lemma last_nn_ge x y : exists l, last_nn (x ++ 10 :: 10 :: y) = Some l /\ (length x <= l)%nat.
Proof.
  assert (forall acc i, exists l, last_nn_from (x ++ 10 :: 10 :: y) i acc = Some l /\ (i + length x <= l)%nat) as G.
  { induction x as [|a x IH]; intros acc i; cbn [app length].
    - rewrite last_nn_from_cons2. cbn [N.eqb Pos.eqb andb].
      destruct (last_nn_from_some_later (10 :: y) (S i) (Some i) i) as (l & E & H); [exists i; split; auto|].
      exists l. split; auto. lia.
    - destruct (x ++ 10 :: 10 :: y) as [|b r] eqn:E; [destruct x; discriminate|].
      rewrite last_nn_from_cons2. destruct (IH (if (a =? 10) && (b =? 10) then Some i else acc) (S i)) as (l & El & Hl).
      exists l. split; auto. lia. }
  unfold last_nn. destruct (G None 0%nat) as (l & E & H). exists l. split; auto.
Qed.
(* the last blank line really is one: the region ends in "\n\n" *)
Lemma last_nn_from_is_nn s : forall i acc l, last_nn_from s i acc = Some l -> acc = Some l \/
  ((i <= l)%nat /\ exists p q, s = p ++ 10 :: 10 :: q /\ length p = (l - i)%nat).
Proof.
  induction s as [|a s IH]; intros i acc l H; [left; exact H|].
  destruct s as [|b t]; [left; exact H|]. rewrite last_nn_from_cons2 in H.
  apply IH in H as [H|(Hi & p & q & E & L)].
  - destruct (N.eqb_spec a 10) as [->|]; cbn [andb] in H; [|left; exact H].
    destruct (N.eqb_spec b 10) as [->|]; [|left; exact H].
    injection H as <-. right. split; [lia|]. exists [], t. split; auto. cbn. lia.
  - right. split; [lia|]. exists (a :: p), q. rewrite E. split; auto. cbn [length]. lia.
Qed.
Lemma last_nn_is_nn s l : last_nn s = Some l -> exists p q, s = p ++ 10 :: 10 :: q /\ length p = l.
Proof. unfold last_nn. intros H. apply last_nn_from_is_nn in H as [H|(_ & p & q & E & L)]; [discriminate|].
  exists p, q. split; auto. lia. Qed.

Lemma split_term_prefix rs : Forall good rs -> forall X f, (length (join rs ++ X) <= f)%nat ->
  exists f', (length X <= f')%nat /\ split_term f (join rs ++ X) = rs ++ split_term f' X.
Proof.
  induction rs as [|r rs IH]; intros HG X f Hf.
  - cbn [join map concat app length] in *. exists f. split; auto.
  - inversion HG as [|? ? G1 G2]; subst. rewrite join_cons in *. rewrite <- app_assoc in *. cbn [app] in *.
    rewrite app_length in Hf. cbn [length] in Hf.
    destruct f as [|f]; [lia|].
    cbn [split_term]. destruct (r ++ 10 :: 10 :: join rs ++ X) eqn:E.
    { destruct r; discriminate. }
    rewrite <- E, cut_nn_good by auto. cbn [app].
    assert (length (join rs ++ X) <= f)%nat as Hf' by lia.
    destruct (IH G2 X f Hf') as (f' & L & ->). exists f'. split; auto.
Qed.

Section Thm.
  Variable ent : Type.
  Variable parse_rec : str -> option ent.
  Variable valid : str -> bool.
  Variable parsed : str -> ent.
  Variable extra : str -> Prop.   (* any further condition on records, e.g. being UTF-8 *)
  Notation write := (write ent parse_rec valid).
  Notation writes := (writes ent parse_rec valid).
  Notation process := (process ent parse_rec).

  Definition okrec (r:str) : Prop := good r /\ parse_rec r = Some (parsed r) /\ extra r.
  Hypothesis valid_join : forall l, Forall okrec l -> valid (join l) = true.

  Lemma process_ok l : Forall okrec l -> forall es, process l es = (es ++ map parsed l, true).
  Proof. induction 1 as [|r l [_ [Hr _]] _ IH]; intros es; cbn [process map].
    - rewrite app_nil_r; reflexivity.
    - rewrite Hr, IH, <- app_assoc. reflexivity. Qed.

  Lemma Forall_firstn' {A} (P:A->Prop) l n : Forall P l -> Forall P (firstn n l).
  Proof. revert n; induction l; intros [|n] H; cbn; auto. inversion H; subst. constructor; auto. Qed.
  Lemma Forall_skipn' {A} (P:A->Prop) l n : Forall P l -> Forall P (skipn n l).
  Proof. revert n; induction l; intros [|n] H; cbn; auto. inversion H; subst. auto. Qed.
  Lemma okrec_good l : Forall okrec l -> Forall good l.
  Proof. induction 1; constructor; auto. destruct H; auto. Qed.

  Lemma join_snoc_shape l : l <> [] -> exists x, join l = x ++ [10; 10].
  Proof. intros H. destruct (exists_last H) as (l' & r & ->). rewrite join_app. unfold join at 2; cbn. rewrite app_nil_r.
    exists (join l' ++ r). unfold term. rewrite app_assoc. reflexivity. Qed.

  Lemma tail_safe rs t : Forall good rs -> match rs with [] => t = [] | r :: _ => tail_of r t end -> safe t.
  Proof. intros HG H. destruct rs as [|r rs].
    - subst; split; cbn; auto.
    - inversion HG; subst. eapply prefix_safe; eauto. Qed.

  (* one write, on a buffer that is a prefix of a stream of well-shaped records
     whose complete records so far are all acceptable *)
  Lemma write_prefix_g rs t0 c Q es : Forall good rs -> (t0 ++ c) ++ Q = join rs ->
    (forall j t, t0 ++ c = join (firstn j rs) ++ t -> t ++ Q = join (skipn j rs) -> Forall okrec (firstn j rs)) ->
    exists j t, write (mkst ent (t0) (es)) c =
                  WOk ent (mkst ent (t) (es ++ map parsed (firstn j rs)))
                /\ t ++ Q = join (skipn j rs)
                /\ match skipn j rs with [] => t = [] | r :: _ => tail_of r t end.
  Proof.
    intros HG E Hpre.
    destruct (decompose rs HG _ _ E) as (j & t & EP & EQ & Ht).
    exists j, t. split; [|split; [exact EQ|exact Ht]].
    pose proof (tail_safe _ t (Forall_skipn' _ _ j HG) Ht) as Hsafe.
    pose proof (Hpre j t EP EQ) as Hokj.
    unfold write. cbn [buf entries]. rewrite EP.
    destruct (firstn j rs) as [|r0 l0] eqn:Ef.
    - cbn [join map concat app]. rewrite last_nn_safe by apply Hsafe. cbn [map]. rewrite app_nil_r. reflexivity.
    - assert (Forall okrec (r0 :: l0)) as Hok' by exact Hokj.
      destruct (join_snoc_shape (r0 :: l0)) as (x & Ex); [discriminate|].
      rewrite Ex, <- app_assoc. cbn [app]. rewrite last_nn_app by exact Hsafe.
      assert ((length x + 2)%nat = length (x ++ [10; 10])) as -> by (rewrite app_length; cbn; lia).
      change (x ++ 10 :: 10 :: t) with (x ++ [10; 10] ++ t). rewrite app_assoc.
      rewrite firstn_app, Nat.sub_diag, firstn_all, firstn_O, app_nil_r.
      rewrite skipn_app, Nat.sub_diag, skipn_all, skipn_O. cbn [app].
      rewrite <- Ex. rewrite valid_join by exact Hok'.
      rewrite split_term_join by (auto using okrec_good).
      rewrite process_ok by exact Hok'. reflexivity.
  Qed.
  Lemma write_prefix rs t0 c Q es : Forall okrec rs -> (t0 ++ c) ++ Q = join rs ->
    exists j t, write (mkst ent (t0) (es)) c =
                  WOk ent (mkst ent (t) (es ++ map parsed (firstn j rs)))
                /\ t ++ Q = join (skipn j rs)
                /\ match skipn j rs with [] => t = [] | r :: _ => tail_of r t end.
  Proof.
    intros Hok E. apply write_prefix_g; auto using okrec_good.
    intros j t _ _. apply Forall_firstn'; auto.
  Qed.

  Theorem chunk_independent_gen : forall cs rs t0 es, Forall okrec rs -> t0 ++ concat cs = join rs ->
    match rs with [] => t0 = [] | r :: _ => tail_of r t0 end ->
    writes (mkst ent (t0) (es)) cs = WOk ent (mkst ent ([]) (es ++ map parsed rs)).
  Proof.
    induction cs as [|c cs IH]; intros rs t0 es Hok E Ht; cbn [concat writes] in *.
    - rewrite app_nil_r in E. destruct rs as [|r rs].
      + subst. cbn. rewrite app_nil_r. reflexivity.
      + exfalso. destruct Ht as (u & Hu & Eu). rewrite join_cons in E. unfold term in Eu.
        assert (length (r ++ [10; 10]) = length (t0 ++ u)) as HL by (rewrite Eu; reflexivity).
        rewrite E, !app_length in HL. cbn [length] in HL. destruct u; [congruence|]. cbn [length] in HL. lia.
    - rewrite app_assoc in E. destruct (write_prefix rs t0 c (concat cs) es Hok E) as (j & t & -> & EQ & Ht').
      rewrite (IH (skipn j rs) t _ (Forall_skipn' _ _ j Hok) EQ Ht').
      rewrite <- app_assoc, <- map_app, firstn_skipn. reflexivity.
  Qed.

  (* the property: every partition of a well-formed stream gives the stream's entries, all writes succeed *)
  Theorem chunk_independent rs cs : Forall okrec rs -> concat cs = join rs ->
    writes (mkst ent ([]) ([])) cs = WOk ent (mkst ent ([]) (map parsed rs)).
  Proof.
    intros Hok E. apply (chunk_independent_gen cs rs [] [] Hok E).
    destruct rs as [|r rs]; auto. exists (term r). split; [unfold term; destruct r; discriminate | reflexivity].
  Qed.
  (* ---------- a malformed entry in an otherwise well-formed stream ---------- *)
  Lemma process_bad l bad more : Forall okrec l -> parse_rec bad = None ->
    forall es, process (l ++ bad :: more) es = (es ++ map parsed l, false).
  Proof.
    induction 1 as [|r l [_ [Hr _]] _ IH]; intros Hb es; cbn [app process map].
    - rewrite Hb, app_nil_r. reflexivity.
    - rewrite Hr, IH, <- app_assoc by auto. reflexivity.
  Qed.
  Lemma firstn_add {A} (l : list A) k j : firstn (k + j) l = firstn k l ++ firstn j (skipn k l).
  Proof. revert l; induction k as [|k IH]; intros l; cbn [Nat.add firstn skipn app]; auto.
    destruct l; cbn [firstn skipn app]; [destruct j; reflexivity|]. rewrite IH. reflexivity. Qed.
  Lemma skipn_add {A} (l : list A) k j : skipn j (skipn k l) = skipn (k + j) l.
  Proof. revert l; induction k as [|k IH]; intros l; cbn [Nat.add skipn]; auto.
    destruct l; [destruct j; reflexivity|]. apply IH. Qed.
  Lemma term_length r : length (term r) = (length r + 2)%nat.
  Proof. unfold term. rewrite app_length. reflexivity. Qed.
  Lemma join_length_cons r l : (length (term r) <= length (join (r :: l)))%nat.
  Proof. rewrite join_cons, term_length, app_length. cbn [length]. lia. Qed.

  Section Bad.
    Variables (goods : list str) (bad rest : str).
    Hypothesis Hgoods : Forall okrec goods.
    Hypothesis Hshape : good bad.
    Hypothesis Hbad : parse_rec bad = None.
    Let rs := goods ++ [bad].
    Let S := join rs ++ rest.
    (* the stream is valid between any record boundary and any later blank line *)
    Hypothesis Hvalid : forall a m z, a ++ m ++ z = S ->
      (exists k, a = join (firstn k goods)) -> (exists m', m = m' ++ [10; 10]) -> valid m = true.

    Lemma rs_good : Forall good rs.
    Proof. apply Forall_app. split; [apply okrec_good; auto|constructor; auto]. Qed.
    Lemma skipn_rs k : (k <= length goods)%nat -> skipn k rs = skipn k goods ++ [bad].
    Proof. intros H. unfold rs. rewrite skipn_app. replace (k - length goods)%nat with 0%nat by lia. reflexivity. Qed.
    Lemma firstn_rs k : (k <= length goods)%nat -> firstn k rs = firstn k goods.
    Proof. intros H. unfold rs. rewrite firstn_app. replace (k - length goods)%nat with 0%nat by lia. cbn. apply app_nil_r. Qed.
    Lemma stream_split k : (k <= length goods)%nat -> join (firstn k goods) ++ join (skipn k rs) ++ rest = S.
    Proof. intros H. unfold S. rewrite <- (firstn_skipn k rs) at 2. rewrite join_app, firstn_rs, <- app_assoc by auto. reflexivity. Qed.

    (* the write that receives the end of the bad entry fails, keeping exactly the good ones *)
    Lemma write_bad k t c r1 z es : (k <= length goods)%nat -> t ++ c = join (skipn k rs) ++ r1 ->
      r1 ++ z = rest ->
      write (mkst ent t es) c = WErr ent (mkst ent (t ++ c) (es ++ map parsed (skipn k goods))).
    Proof.
      intros Hk E Ez. unfold write. cbn [buf entries]. set (b := t ++ c) in *.
      rewrite skipn_rs in E by auto. set (g := skipn k goods) in *.
      assert (join (g ++ [bad]) = (join g ++ bad) ++ [10; 10]) as J.
      { rewrite join_app. unfold join at 2. cbn [map concat]. unfold term. rewrite app_nil_r, app_assoc. reflexivity. }
      assert (b = (join g ++ bad) ++ 10 :: 10 :: r1) as Eb by (rewrite E, J, <- app_assoc; reflexivity).
      destruct (last_nn_ge (join g ++ bad) r1) as (l & El & Hl). rewrite <- Eb in El. rewrite El.
      destruct (last_nn_is_nn b l El) as (p & q & Ep & Lp).
      assert (firstn (l + 2) b = p ++ [10; 10]) as Reg.
      { rewrite Ep. change (p ++ 10 :: 10 :: q) with (p ++ [10; 10] ++ q). rewrite app_assoc.
        replace (l + 2)%nat with (length (p ++ [10; 10])) by (rewrite app_length; cbn; lia).
        rewrite firstn_app, Nat.sub_diag, firstn_all, firstn_O, app_nil_r. reflexivity. }
      assert (valid (firstn (l + 2) b) = true) as V.
      { rewrite Reg. apply (Hvalid (join (firstn k goods)) (p ++ [10; 10]) (q ++ z)); [|eauto|eauto].
        rewrite <- (stream_split k Hk), skipn_rs by auto. fold g. f_equal.
        rewrite <- Ez, (app_assoc (join (g ++ [bad]))), <- E, Ep, <- !app_assoc. reflexivity. }
      rewrite V.
      assert (exists y, firstn (l + 2) b = join (g ++ [bad]) ++ y) as (y & Ey).
      { rewrite E. rewrite firstn_app. rewrite firstn_all2 by (rewrite J, app_length; cbn [length]; lia). eauto. }
      rewrite Ey.
      assert (Forall good (g ++ [bad])) as HGg.
      { apply Forall_app. split; [apply okrec_good, Forall_skipn'; auto|constructor; auto]. }
      destruct (split_term_prefix (g ++ [bad]) HGg y (length (join (g ++ [bad]) ++ y)) ltac:(lia)) as (f' & _ & ->).
      rewrite <- app_assoc. cbn [app]. rewrite process_bad by (auto; apply Forall_skipn'; auto). reflexivity.
    Qed.

    Theorem malformed_detected : forall cs k t, (k <= length goods)%nat ->
      t ++ concat cs = join (skipn k rs) ++ rest ->
      match skipn k rs with [] => t = [] | r :: _ => tail_of r t end ->
      exists j stj st', (j < length cs)%nat /\
        writes (mkst ent t (map parsed (firstn k goods))) (firstn j cs) = WOk ent stj /\
        write stj (nth j cs []) = WErr ent st' /\ entries ent st' = map parsed goods /\
        (length (t ++ concat (firstn j cs)) < length (join (skipn k rs)) <= length (t ++ concat (firstn (Datatypes.S j) cs)))%nat.
    Proof.
      induction cs as [|c cs IH]; intros k t Hk E Ht.
      - exfalso. cbn [concat] in E. rewrite app_nil_r in E. rewrite skipn_rs in * by auto.
        destruct (skipn k goods ++ [bad]) as [|r l] eqn:R; [destruct (skipn k goods); discriminate|].
        destruct Ht as (u & Hu & Eu). pose proof (join_length_cons r l) as L.
        assert (length (term r) = length (t ++ u)) as L2 by (rewrite Eu; reflexivity).
        rewrite app_length in L2. rewrite E, app_length in L2. destruct u; [congruence|]. cbn [length] in L2. lia.
      - cbn [concat] in E. destruct (Nat.lt_ge_cases (length (t ++ c)) (length (join (skipn k rs)))) as [Lt|Ge].
        + (* the buffer is still a proper prefix: this write succeeds *)
          rewrite app_assoc in E. destruct (app_eq_cases _ _ _ _ E) as [(m & Em & Ec)|(Q & HQ & EJ & Ec)].
          { exfalso. rewrite Em, app_length in Lt. lia. }
          destruct (write_prefix_g (skipn k rs) t c Q (map parsed (firstn k goods))) as (j' & t' & W & EQ & Ht').
          { apply Forall_skipn', rs_good. }
          { symmetry. exact EJ. }
          { intros j0 t0 _ E0. rewrite skipn_add in E0.
            assert (skipn (k + j0) rs <> []) as NE.
            { intros Z. rewrite Z in E0. cbn in E0. apply app_eq_nil in E0 as [_ ->]. congruence. }
            assert (k + j0 <= length goods)%nat as Hkj.
            { destruct (Nat.le_gt_cases (k + j0) (length goods)); auto. exfalso. apply NE. apply skipn_all2.
              unfold rs. rewrite app_length. cbn [length]. lia. }
            rewrite skipn_rs by auto. rewrite firstn_app.
            replace (j0 - length (skipn k goods))%nat with 0%nat by (rewrite skipn_length; lia). cbn [firstn]. rewrite app_nil_r.
            apply Forall_firstn', Forall_skipn'. auto. }
          rewrite skipn_add in EQ, Ht'.
          assert (skipn (k + j') rs <> []) as NE.
          { intros Z. rewrite Z in EQ. cbn in EQ. apply app_eq_nil in EQ as [_ ->]. congruence. }
          assert (k + j' <= length goods)%nat as Hkj.
          { destruct (Nat.le_gt_cases (k + j') (length goods)); auto. exfalso. apply NE. apply skipn_all2.
            unfold rs. rewrite app_length. cbn [length]. lia. }
          assert (map parsed (firstn k goods) ++ map parsed (firstn j' (skipn k rs)) = map parsed (firstn (k + j') goods)) as Ees.
          { rewrite <- map_app. f_equal. rewrite firstn_add. f_equal. rewrite skipn_rs by auto. rewrite firstn_app.
            replace (j' - length (skipn k goods))%nat with 0%nat by (rewrite skipn_length; lia). cbn [firstn]. apply app_nil_r. }
          rewrite Ees in W.
          destruct (IH (k + j')%nat t' Hkj) as (j & stj & st' & Hj & Wj & We & Een & Pos).
          { rewrite <- EQ, <- app_assoc. f_equal. exact Ec. }
          { exact Ht'. }
          exists (Datatypes.S j), stj, st'. split; [cbn [length]; lia|]. split; [cbn [firstn writes]; rewrite W; exact Wj|].
          split; [exact We|]. split; [exact Een|].
          change (firstn (Datatypes.S (Datatypes.S j)) (c :: cs)) with (c :: firstn (Datatypes.S j) cs).
          change (firstn (Datatypes.S j) (c :: cs)) with (c :: firstn j cs).
          cbn [concat]. rewrite !app_length in *.
          assert (length (join (skipn k rs)) = length t + length c + length Q)%nat as L1 by (rewrite EJ, !app_length; lia).
          assert (length (join (skipn (k + j') rs)) = length t' + length Q)%nat as L2 by (rewrite <- EQ, app_length; lia).
          lia.
        + (* this write receives the end of the bad entry *)
          rewrite app_assoc in E. destruct (app_eq_cases _ _ _ _ E) as [(r1 & Em & Ec)|(Q & HQ & EJ & Ec)].
          2:{ exfalso. rewrite EJ, app_length in Ge. destruct Q; [congruence|]. cbn [length] in Ge. lia. }
          exists 0%nat, (mkst ent t (map parsed (firstn k goods))), (mkst ent (t ++ c) (map parsed (firstn k goods) ++ map parsed (skipn k goods))).
          split; [cbn [length]; lia|]. split; [reflexivity|]. split; [|split].
          * cbn [nth]. apply (write_bad k t c r1 (concat cs)); auto.
          * cbn [entries]. rewrite <- map_app, firstn_skipn. reflexivity.
          * cbn [firstn concat]. rewrite !app_nil_r. split; [|exact Ge].
            rewrite skipn_rs in * by auto. destruct (skipn k goods ++ [bad]) as [|r l] eqn:R; [destruct (skipn k goods); discriminate|].
            destruct Ht as (u & Hu & Eu). pose proof (join_length_cons r l) as L.
            assert (length (term r) = length (t ++ u)) as L2 by (rewrite Eu; reflexivity).
            rewrite app_length in L2. destruct u; [congruence|]. cbn [length] in L2. lia.
    Qed.
  End Bad.
End Thm.


(* ================= instance: UTF-8 validity ================= *)
Lemma utf8_valid_app : forall n a b, (length a <= n)%nat -> utf8_valid a = true -> utf8_valid (a ++ b) = utf8_valid b.
Proof.
  induction n as [|n IH]; intros a b L H.
  - destruct a; [reflexivity|cbn in L; lia].
  - destruct a as [|b0 r]; [reflexivity|]. cbn [length] in L. cbn [utf8_valid app] in *.
    destruct (b0 <? 128). { apply IH; [lia|auto]. }
    destruct (in_rng 194 223 b0).
    { destruct r as [|b1 r1]; [discriminate|]. cbn [app]. apply andb_prop in H as [H1 H2]. rewrite H1. cbn [andb].
      apply IH; [cbn [length] in L; lia|auto]. }
    destruct (in_rng 224 239 b0).
    { destruct r as [|b1 [|b2 r2]]; try discriminate. cbn [app].
      apply andb_prop in H as [H12 H3]. rewrite H12. cbn [andb]. apply IH; [cbn [length] in L; lia|auto]. }
    destruct (in_rng 240 244 b0); [|discriminate].
    destruct r as [|b1 [|b2 [|b3 r3]]]; try discriminate. cbn [app].
    apply andb_prop in H as [H123 H4]. rewrite H123. cbn [andb]. apply IH; [cbn [length] in L; lia|auto].
Qed.
Lemma utf8_valid_join l : Forall (fun r => utf8_valid r = true) l -> utf8_valid (join l) = true.
Proof.
  induction 1 as [|r l Hr _ IH]; [reflexivity|]. rewrite join_cons.
  rewrite (utf8_valid_app (length r)) by auto. cbn [utf8_valid]. exact IH.
Qed.

(* ================= instance: records of printed entries ================= *)
Definition parsed_entry (r : str) : entry := match parse_entry r with Val e => e | _ => empty end.
(* the text of one entry in a stream: its printed lines joined by newlines *)
Definition rec_of (e : entry) : str := join_with 10 (printed_lines e).

Lemma term_lines_join ls : ls <> [] -> term_lines ls = join_with 10 ls ++ [10].
Proof.
  induction ls as [|l ls IH]; [congruence|]. intros _. unfold term_lines in *. cbn [map concat].
  destruct ls as [|l2 ls']; [cbn; rewrite app_nil_r; reflexivity|].
  rewrite IH by discriminate. change (join_with 10 (l :: l2 :: ls')) with (l ++ 10 :: join_with 10 (l2 :: ls')).
  rewrite <- !app_assoc. reflexivity.
Qed.
Lemma split_on_join ls : ls <> [] -> Forall clean ls -> split_on 10 (join_with 10 ls) = ls.
Proof.
  induction ls as [|l ls IH]; [congruence|]. intros _ H. inversion H as [|? ? [H1 H2] Hr]; subst.
  destruct ls as [|l2 ls'].
  - cbn [join_with]. clear -H1. induction l as [|x l IHl]; [reflexivity|]. cbn [mem] in H1.
    apply orb_false_elim in H1 as [A B]. cbn [split_on]. rewrite A, IHl by auto. reflexivity.
  - change (join_with 10 (l :: l2 :: ls')) with (l ++ 10 :: join_with 10 (l2 :: ls')).
    rewrite split_on_line by auto. rewrite IH by (auto; discriminate). reflexivity.
Qed.
Lemma lines_join ls : ls <> [] -> Forall clean ls -> last ls [] <> [] -> lines (join_with 10 ls) = ls.
Proof.
  intros Hne Hc Hl. unfold lines. rewrite split_on_join by auto.
  destruct (last ls []) as [|c r] eqn:E; [congruence|]. rewrite <- E.
  rewrite (app_removelast_last [] Hne) at 3. f_equal.
  assert (Forall clean (removelast ls)) as Hc'.
  { rewrite (app_removelast_last [] Hne) in Hc. apply Forall_app in Hc. tauto. }
  induction Hc' as [|l ls' [_ H2] _ IH]; cbn [map]; auto. rewrite strip_cr_clean, IH by auto. reflexivity.
Qed.

Lemma kv_line_nonempty v x : kv_line v x <> [].
Proof. unfold kv_line. destruct (vname v) eqn:E; [destruct v; discriminate|discriminate]. Qed.
Lemma printed_lines_nonempty_lines e : Forall (fun l => l <> []) (printed_lines e).
Proof. unfold printed_lines. apply Forall_flat_map. apply Forall_forall. intros v _. apply Forall_map.
  apply Forall_forall. intros x _. apply kv_line_nonempty. Qed.
Lemma printed_lines_nonnil e : values_ok e -> complete e -> printed_lines e <> [].
Proof.
  intros V C H. assert (vals_of BuildDate (printed_lines e) = []) as Z by (rewrite H; reflexivity).
  rewrite vals_of_printed in Z. specialize (C BuildDate ltac:(left; reflexivity)). specialize (V BuildDate).
  destruct (e BuildDate) as [[s|z|l]|]; cbn in Z; try discriminate; try congruence. subst. tauto.
Qed.
Lemma last_in_list {A} (l : list A) d : l <> [] -> In (last l d) l.
Proof. intros H. rewrite (app_removelast_last d H) at 2. apply in_or_app. right. left. reflexivity. Qed.

Lemma lines_rec_of e : values_ok e -> complete e -> lines (rec_of e) = printed_lines e.
Proof.
  intros V C. unfold rec_of. pose proof (printed_lines_nonnil e V C) as Hne. apply lines_join; auto.
  - apply printed_lines_clean; auto.
  - pose proof (printed_lines_nonempty_lines e) as F. rewrite Forall_forall in F. apply F. apply last_in_list; auto.
Qed.
Lemma print_entry_rec e : values_ok e -> complete e -> print_entry e = rec_of e ++ [10].
Proof. intros V C. rewrite print_entry_lines. apply term_lines_join. apply printed_lines_nonnil; auto. Qed.

Theorem parse_rec_of e : wk e -> values_ok e -> complete e ->
  exists e', parse_entry (rec_of e) = Val e' /\ forall v, e' v = e v.
Proof.
  intros W V C. pose proof (lines_rec_of e V C) as L.
  assert (is_val (parse_entry (rec_of e)) = true) as A.
  { apply parse_entry_accept_iff. rewrite L. split; [apply printed_lines_ok; auto|].
    intros v Hv. unfold present. rewrite vals_of_printed. specialize (C v Hv). specialize (V v).
    destruct (e v) as [[s|z|l]|]; cbn; try discriminate; try congruence. tauto. }
  destruct (parse_entry (rec_of e)) as [e'| | |] eqn:P; try discriminate.
  exists e'. split; auto. intros v. rewrite (parse_entry_semantics _ _ P), L. apply collect_printed; auto.
Qed.

(* shape of a record: non-empty, no blank line inside, no newline at either end *)
Lemma join_with_cons c l ls : ls <> [] -> join_with c (l :: ls) = l ++ c :: join_with c ls.
Proof. destruct ls; [congruence|reflexivity]. Qed.
Lemma last_app_nonnil {A} (a b : list A) d : b <> [] -> last (a ++ b) d = last b d.
Proof. intros H. induction a as [|x a IH]; cbn [app]; auto. cbn [last]. destruct (a ++ b) eqn:E; [destruct a; [cbn in E; congruence|discriminate]|]. exact IH. Qed.
Lemma no_adj_join ls : ls <> [] -> Forall clean ls -> Forall (fun l => l <> []) ls ->
  safe (join_with 10 ls) /\ last (join_with 10 ls) 0 <> 10 /\ join_with 10 ls <> [].
Proof.
  induction ls as [|l ls IH]; [congruence|]. intros _ Hc Hn.
  inversion Hc as [|? ? [C1 _] Hc']; inversion Hn as [|? ? N1 Hn']; subst.
  assert (forall l, mem 10 l = false -> l <> [] -> safe l /\ last l 0 <> 10) as Single.
  { clear. intros l. induction l as [|x l IHl]; [congruence|]. intros H _. cbn [mem] in H. apply orb_false_elim in H as [Hx Hl].
    apply N.eqb_neq in Hx. destruct l as [|y l'].
    - cbn. repeat split; auto.
    - destruct (IHl Hl ltac:(discriminate)) as [[S1 S2] L]. split; [split|].
      + cbn. exact Hx.
      + apply no_adj_cons. split; auto. intros [A _]. congruence.
      + exact L. }
  destruct ls as [|l2 ls'].
  - cbn [join_with]. destruct (Single l C1 N1) as [S L]. repeat split; auto; apply S.
  - rewrite join_with_cons by discriminate. destruct (IH ltac:(discriminate) Hc' Hn') as ([S1 S2] & L & NE).
    destruct (Single l C1 N1) as [[T1 T2] TL]. split; [split|split].
    + destruct l; [congruence|exact T1].
    + apply no_adj_app; auto.
      * apply no_adj_cons. split; auto. destruct (join_with 10 (l2 :: ls')) as [|c r] eqn:E; [congruence|].
        intros [_ ->]. cbn in S1. congruence.
    + rewrite last_app_nonnil by discriminate. destruct (join_with 10 (l2 :: ls')) as [|c r] eqn:E; [congruence|]. exact L.
    + destruct l; discriminate.
Qed.

(* ================= the property for the real stream ================= *)
Definition ok_entry (e : entry) : Prop :=
  wk e /\ values_ok e /\ complete e /\ utf8_valid (rec_of e) = true.
Definition is_utf8 (r : str) : Prop := utf8_valid r = true.
Definition same_values (e' e : entry) : Prop := forall v, e' v = e v.

Lemma print_stream_join es : Forall ok_entry es -> print_stream es = join (map rec_of es).
Proof.
  induction 1 as [|e es (W & V & C & U) _ IH]; [reflexivity|]. unfold print_stream in *. cbn [flat_map map].
  rewrite join_cons, IH, print_entry_rec by auto. rewrite <- !app_assoc. reflexivity.
Qed.
Lemma ok_entry_okrec e : ok_entry e -> okrec entry parse_rec_entry parsed_entry is_utf8 (rec_of e).
Proof.
  intros (W & V & C & U). destruct (parse_rec_of e W V C) as (e' & P & _).
  pose proof (printed_lines_nonnil e V C) as Hne.
  destruct (no_adj_join (printed_lines e) Hne (printed_lines_clean e V) (printed_lines_nonempty_lines e)) as (S & L & NE).
  split; [|split].
  - repeat split; auto; apply S.
  - unfold parse_rec_entry, parsed_entry. rewrite P. reflexivity.
  - exact U.
Qed.

Theorem stream_chunk_independent es cs : Forall ok_entry es -> concat cs = print_stream es ->
  exists es', writes entry parse_rec_entry utf8_valid stream_init cs = WOk entry (mkst entry [] es') /\
              Forall2 same_values es' es /\ print_stream es' = concat cs.
Proof.
  intros Hok E. rewrite (print_stream_join es Hok) in E.
  assert (Forall (okrec entry parse_rec_entry parsed_entry is_utf8) (map rec_of es)) as HR.
  { apply Forall_map. eapply Forall_impl; [|exact Hok]. apply ok_entry_okrec. }
  exists (map parsed_entry (map rec_of es)). split; [|split].
  - apply (chunk_independent entry parse_rec_entry utf8_valid parsed_entry is_utf8); auto.
    intros l Hl. apply utf8_valid_join. eapply Forall_impl; [|exact Hl]. intros r (_ & _ & U). exact U.
  - clear E HR. induction Hok as [|e es (W & V & C & U) _ IH]; cbn [map]; constructor; auto.
    destruct (parse_rec_of e W V C) as (e' & P & Ev). unfold parsed_entry. rewrite P. exact Ev.
  - rewrite E. rewrite <- (print_stream_join es Hok). clear E HR.
    induction Hok as [|e es (W & V & C & U) _ IH]; [reflexivity|]. unfold print_stream in *. cbn [map flat_map]. rewrite IH. f_equal. f_equal.
    destruct (parse_rec_of e W V C) as (e' & P & Ev). unfold parsed_entry. rewrite P. apply print_ext. exact Ev.
Qed.

(* ---------- the malformed-entry clause for the real stream ---------- *)
Lemma cont_10 : cont 10 = false. Proof. reflexivity. Qed.
Lemma utf8_valid_prefix_nl : forall n p z, (length p <= n)%nat ->
  utf8_valid (p ++ 10 :: z) = true -> utf8_valid (p ++ [10]) = true.
Proof.
  induction n as [|n IH]; intros p z L H.
  - destruct p; [reflexivity|cbn in L; lia].
  - destruct p as [|b0 r]; [reflexivity|]. cbn [length] in L. cbn [app utf8_valid] in *.
    destruct (b0 <? 128). { apply (IH r z); [lia|auto]. }
    destruct (in_rng 194 223 b0).
    { destruct r as [|b1 r1]; cbn [app] in *.
      - rewrite cont_10 in H. discriminate.
      - apply andb_prop in H as [H1 H2]. rewrite H1. cbn [andb]. apply (IH r1 z); [cbn [length] in L; lia|auto]. }
    destruct (in_rng 224 239 b0).
    { destruct r as [|b1 [|b2 r2]]; cbn [app] in *.
      - destruct z as [|z0 z']; [discriminate|]. apply andb_prop in H as [H12 _]. apply andb_prop in H12 as [Ha _].
        exfalso. destruct (b0 =? 224); [discriminate|]. destruct (b0 =? 237); discriminate.
      - apply andb_prop in H as [H12 _]. apply andb_prop in H12 as [_ Hc]. rewrite cont_10 in Hc. discriminate.
      - apply andb_prop in H as [H12 H3]. rewrite H12. cbn [andb]. apply (IH r2 z); [cbn [length] in L; lia|auto]. }
    destruct (in_rng 240 244 b0); [|discriminate].
    destruct r as [|b1 [|b2 [|b3 r3]]]; cbn [app] in *.
    + destruct z as [|z0 [|z1 z']]; try discriminate. apply andb_prop in H as [H123 _].
      apply andb_prop in H123 as [H12 _]. apply andb_prop in H12 as [Ha _].
      exfalso. destruct (b0 =? 240); [discriminate|]. destruct (b0 =? 244); discriminate.
    + destruct z as [|z0 z']; try discriminate. apply andb_prop in H as [H123 _].
      apply andb_prop in H123 as [H12 _]. apply andb_prop in H12 as [_ Hc]. rewrite cont_10 in Hc. discriminate.
    + apply andb_prop in H as [H123 _]. apply andb_prop in H123 as [_ Hc]. rewrite cont_10 in Hc. discriminate.
    + apply andb_prop in H as [H123 H4]. rewrite H123. cbn [andb]. apply (IH r3 z); [cbn [length] in L; lia|auto].
Qed.

Theorem stream_malformed es bad rest cs :
  Forall ok_entry es -> good bad -> parse_rec_entry bad = None ->
  utf8_valid (print_stream es ++ term bad ++ rest) = true ->
  concat cs = print_stream es ++ term bad ++ rest ->
  exists j stj st', (j < length cs)%nat /\
    writes entry parse_rec_entry utf8_valid stream_init (firstn j cs) = WOk entry stj /\
    stream_write stj (nth j cs []) = WErr entry st' /\
    Forall2 same_values (entries entry st') es /\
    (length (concat (firstn j cs)) < length (print_stream es ++ term bad) <= length (concat (firstn (S j) cs)))%nat.
Proof.
  intros Hok Hshape Hbad Hvalid E. rewrite (print_stream_join es Hok) in *.
  set (goods := map rec_of es) in *.
  assert (Forall (okrec entry parse_rec_entry parsed_entry is_utf8) goods) as HR.
  { apply Forall_map. eapply Forall_impl; [|exact Hok]. apply ok_entry_okrec. }
  assert (join (goods ++ [bad]) = join goods ++ term bad) as J.
  { rewrite join_app. unfold join at 2. cbn [map concat]. rewrite app_nil_r. reflexivity. }
  destruct (malformed_detected entry parse_rec_entry utf8_valid parsed_entry is_utf8
              (fun l Hl => utf8_valid_join l (Forall_impl _ (fun r H => proj2 (proj2 H)) Hl))
              goods bad rest HR Hshape Hbad) with (cs := cs) (k := 0%nat) (t := @nil N)
    as (j & stj & st' & Hj & Wj & We & Een & Pos).
  - (* validity of every region: between a record boundary and a later blank line *)
    intros a m z Eamz (k & Ea) (m' & Em). rewrite J, <- app_assoc in Eamz.
    assert (utf8_valid a = true) as Va.
    { rewrite Ea. apply utf8_valid_join. apply Forall_firstn'. eapply Forall_impl; [|exact HR]. intros r (_ & _ & U). exact U. }
    rewrite <- Eamz in Hvalid. rewrite (utf8_valid_app (length a)) in Hvalid by auto.
    rewrite Em in *. replace ((m' ++ [10; 10]) ++ z) with ((m' ++ [10]) ++ 10 :: z) in Hvalid by (rewrite <- !app_assoc; reflexivity).
    apply (utf8_valid_prefix_nl (length (m' ++ [10]))) in Hvalid; auto.
    rewrite <- app_assoc in Hvalid. exact Hvalid.
  - lia.
  - cbn [skipn app]. rewrite J, <- app_assoc. exact E.
  - cbn [skipn]. destruct (goods ++ [bad]) as [|r l] eqn:R; [destruct goods; discriminate|].
    exists (term r). split; [unfold term; destruct r; discriminate|reflexivity].
  - exists j, stj, st'. cbn [firstn map app skipn] in *. rewrite J in Pos.
    repeat split; auto; try lia.
    rewrite Een. unfold goods. clear -Hok. induction Hok as [|e es (W & V & C & U) _ IH]; cbn [map]; constructor; auto.
    destruct (parse_rec_of e W V C) as (e' & P & Ev). unfold parsed_entry. rewrite P. exact Ev.
Qed.
