(* Distinfo.v - executable model of src/distinfo.rs (Line::from_bytes,
   Distinfo::from_bytes / as_bytes / insert / find_entry / verify_*,
   EntryType::from, Entry::new / as_bytes) and of the parts of src/digest.rs it
   uses (algorithm names, the patch filter).  Everything is bytes.  Unix
   Path::components / file_name / == are modelled (not verified). *)
Require Import PV.Base PV.Dec PV.Summary.
Require Import Coq.Strings.String.
Import Coq.Lists.List ListNotations.
Local Open Scope N_scope.

(* ================= digest names ================= *)
Inductive alg := BLAKE2s | MD5 | RMD160 | SHA1 | SHA256 | SHA512.
Definition all_algs : list alg := [BLAKE2s; MD5; RMD160; SHA1; SHA256; SHA512].
Definition alg_eqb (a b : alg) : bool :=
  match a, b with
  | BLAKE2s, BLAKE2s | MD5, MD5 | RMD160, RMD160 | SHA1, SHA1 | SHA256, SHA256 | SHA512, SHA512 => true
  | _, _ => false
  end.
(* Display *)
Definition alg_name (a : alg) : str :=
  match a with
  | BLAKE2s => lit "BLAKE2s" | MD5 => lit "MD5" | RMD160 => lit "RMD160"
  | SHA1 => lit "SHA1" | SHA256 => lit "SHA256" | SHA512 => lit "SHA512"
  end.
Definition alg_lname (a : alg) : str := map lower (alg_name a).
(* FromStr on text (code points): str::to_lowercase then compare.  The only
   non-ASCII code point whose lower case is an ASCII letter is U+212A KELVIN
   SIGN -> 'k' (U+0130 gives 'i' + U+0307, which no name contains). *)
Definition lower_uni (c : N) : N := if c =? 8490 then 107 else lower c.
Definition alg_parse (s : str) : option alg :=
  let l := map lower_uni s in List.find (fun a => eqs l (alg_lname a)) all_algs.
(* the same on UTF-8 bytes: E2 84 AA is U+212A *)
Fixpoint lower_bytes (s : str) : str :=
  match s with
  | 226 :: 132 :: 170 :: r => 107 :: lower_bytes r
  | c :: r => lower c :: lower_bytes r
  | [] => []
  end.
Definition alg_parse_bytes (s : str) : option alg :=
  let l := lower_bytes s in List.find (fun a => eqs l (alg_lname a)) all_algs.

(* hash_patch: newline-terminated lines (a final unterminated line counts as
   terminated) that do not contain "$NetBSD" *)
Definition netbsd : str := lit "$NetBSD".
Fixpoint contains (pat s : str) : bool :=
  match s with
  | [] => match pat with [] => true | _ => false end
  | _ :: r => starts_with pat s || contains pat r
  end.
Definition split_lines (s : str) : list str :=     (* BufRead::split(b'\n') *)
  let ps := split_on 10 s in
  match last ps [] with [] => removelast ps | _ => ps end.
Definition filter_patch (s : str) : str :=
  flat_map (fun l => if contains netbsd l then [] else l ++ [10]) (split_lines s).

(* ================= Unix paths ================= *)
Inductive comp := CRoot | CCur | CParent | CNormal (s : str).
Definition comp_eqb (a b : comp) : bool :=
  match a, b with
  | CRoot, CRoot | CCur, CCur | CParent, CParent => true
  | CNormal x, CNormal y => eqs x y
  | _, _ => false
  end.
Definition seg_comp (s : str) : list comp :=
  match s with
  | [] => []
  | [46] => []
  | [46; 46] => [CParent]
  | _ => [CNormal s]
  end.
(* Path::components() *)
Definition pcomps (p : str) : list comp :=
  let segs := split_on 47 p in
  let head := match p with
              | 47 :: _ => [CRoot]
              | [46] => [CCur]
              | 46 :: 47 :: _ => [CCur]
              | _ => []
              end in
  head ++ flat_map seg_comp segs.
Fixpoint comps_eqb (a b : list comp) : bool :=
  match a, b with
  | [], [] => true
  | x :: a', y :: b' => comp_eqb x y && comps_eqb a' b'
  | _, _ => false
  end.
Definition path_eqb (a b : str) : bool := comps_eqb (pcomps a) (pcomps b).
Definition file_name (p : str) : option str :=
  match last (pcomps p) CRoot with CNormal s => Some s | _ => None end.
(* the text of one component, as Path::iter() yields it *)
Definition comp_text (c : comp) : str :=
  match c with CRoot => [47] | CCur => [46] | CParent => [46; 46] | CNormal s => s end.

Definition ends_with (suf s : str) : bool := starts_with (frev suf) (frev s).

Inductive etype := Distfile | Patchfile.
(* EntryType::from *)
Definition classify (p : str) : etype :=
  match file_name p with
  | None => Distfile
  | Some s =>
      if starts_with (lit "patch-local-") s || ends_with (lit ".orig") s || ends_with (lit ".rej") s || ends_with (lit "~") s
      then Distfile
      else if starts_with (lit "patch-") s || (starts_with (lit "emul-") s && contains (lit "-patch-") s)
      then (if contains (lit ".tar.") s then Distfile else Patchfile)
      else Distfile
  end.

(* ================= lines ================= *)
Inductive dline := LRcs (s : str) | LSize (p : str) (n : Z) | LSum (a : alg) (p : str) (h : str) | LNone.

Fixpoint skip_ws (l : str) : str :=
  match l with c :: r => if is_ascii_ws c then skip_ws r else l | [] => [] end.
(* split on ASCII white space, dropping empty pieces *)
Fixpoint fields_aux (cur : str) (l : str) : list str :=
  match l with
  | [] => match cur with [] => [] | _ => [frev cur] end
  | c :: r => if is_ascii_ws c
              then match cur with [] => fields_aux [] r | _ => frev cur :: fields_aux [] r end
              else fields_aux (c :: cur) r
  end.
Definition fields (l : str) : list str := fields_aux [] l.
(* "(name)" -> name *)
Definition unparen (s : str) : option str :=
  match s with
  | 40 :: r => match frev r with 41 :: m => Some (frev m) | _ => None end
  | _ => None
  end.
Definition finish (action path value : str) : dline :=
  if eqs action (lit "Size") then
    match parse_u64 value with Some n => LSize path n | None => LNone end
  else match alg_parse_bytes action with Some a => LSum a path value | None => LNone end.
(* Line::from_bytes on one line (no '\n' inside) *)
Definition parse_dline (l0 : str) : dline :=
  let l := skip_ws l0 in
  match l with
  | [] => LNone
  | 35 :: _ => LNone
  | _ =>
      if starts_with (lit "$NetBSD: ") l then LRcs l
      else match fields l with
           | [] => LNone
           | f0 :: rest =>
               if negb (utf8_valid f0) then LNone
               else match rest with
                    | [] => finish f0 [] []
                    | f1 :: rest2 =>
                        match unparen f1 with
                        | None => LNone
                        | Some p =>
                            match rest2 with
                            | _ :: f3 :: _ => if negb (utf8_valid f3) then LNone else finish f0 p f3
                            | _ => finish f0 p []
                            end
                        end
                    end
           end
  end.

(* ================= Distinfo ================= *)
Record dentry := mkentry { ename : str; esize : option Z; esums : list (alg * str) }.
Record distinfo := mkdi { rcsid : option str; dists : list dentry; patches : list dentry }.
Definition di_empty : distinfo := mkdi None [] [].

(* IndexMap<PathBuf, Entry>: first-appearance order, keys compared as paths *)
Fixpoint upd_entry (key : str) (f : dentry -> dentry) (fresh : dentry) (l : list dentry) : list dentry :=
  match l with
  | [] => [fresh]
  | e :: r => if path_eqb (ename e) key then f e :: r else e :: upd_entry key f fresh r
  end.
Definition on_map (d : distinfo) (p : str) (g : list dentry -> list dentry) : distinfo :=
  match classify p with
  | Distfile => mkdi (rcsid d) (g (dists d)) (patches d)
  | Patchfile => mkdi (rcsid d) (dists d) (g (patches d))
  end.
Definition update_size (d : distinfo) (p : str) (n : Z) : distinfo :=
  on_map d p (upd_entry p (fun e => mkentry (ename e) (Some n) (esums e)) (mkentry p (Some n) [])).
Definition update_checksum (d : distinfo) (p : str) (a : alg) (h : str) : distinfo :=
  on_map d p (upd_entry p (fun e => mkentry (ename e) (esize e) (esums e ++ [(a, h)])) (mkentry p None [(a, h)])).
Definition apply_line (d : distinfo) (l : dline) : distinfo :=
  match l with
  | LRcs s => mkdi (Some s) (dists d) (patches d)
  | LSize p n => update_size d p n
  | LSum a p h => update_checksum d p a h
  | LNone => d
  end.
Definition di_from_bytes (b : str) : distinfo :=
  fold_left (fun d l => apply_line d (parse_dline l)) (split_on 10 b) di_empty.

(* Distinfo::insert of an Entry built by Entry::new: the value under an
   equal key is replaced in place *)
Definition di_insert (d : distinfo) (e : dentry) : distinfo :=
  on_map d (ename e) (upd_entry (ename e) (fun _ => e) e).

Definition sum_line (name : str) (ah : alg * str) : str :=
  alg_name (fst ah) ++ lit " (" ++ name ++ lit ") = " ++ snd ah ++ [10].
Definition size_line (name : str) (n : Z) : str :=
  lit "Size (" ++ name ++ lit ") = " ++ print_z n ++ lit " bytes" ++ [10].
(* Entry::as_bytes *)
Definition entry_bytes (e : dentry) : str :=
  flat_map (sum_line (ename e)) (esums e) ++ match esize e with Some n => size_line (ename e) n | None => [] end.
(* Distinfo::as_bytes: patch entries never print a size *)
Definition di_as_bytes (d : distinfo) : str :=
  (match rcsid d with Some s => s | None => lit "$NetBSD$" end) ++ [10; 10]
  ++ flat_map entry_bytes (dists d)
  ++ flat_map (fun e => flat_map (sum_line (ename e)) (esums e)) (patches d).

(* ================= lookup and verification ================= *)
Definition get_entry (l : list dentry) (p : str) : option dentry := List.find (fun e => path_eqb (ename e) p) l.
(* PathBuf::from(component).join(file) on relative tails *)
Definition join_path (c : comp) (file : str) : str :=
  match file with
  | [] => comp_text c
  | _ => match c with CRoot => 47 :: file | _ => comp_text c ++ 47 :: file end
  end.
(* Distinfo::find_entry: trailing sub-paths, shortest first, in the map of the path's class *)
Fixpoint find_walk (m : list dentry) (cs : list comp) (file : str) : option dentry :=
  match cs with
  | [] => None
  | c :: r =>
      let file' := match file with [] => comp_text c | [47] => comp_text c | _ => join_path c file end in
      match get_entry m file' with Some e => Some e | None => find_walk m r file' end
  end.
Definition find_entry (d : distinfo) (p : str) : option dentry :=
  find_walk (match classify p with Distfile => dists d | Patchfile => patches d end) (frev (pcomps p)) [].

Inductive verr := VIo | VNotFound | VSize (expected actual : Z) | VMissingSize
                | VChecksum (a : alg) (expected : str) (preimage : str) | VMissingChecksum.
Inductive vok := VOkSize (n : Z) | VOkChecksum (a : alg) (expected : str) (preimage : str).
(* verify_size: [content] = None when the file cannot be opened *)
Definition verify_size (d : distinfo) (p : str) (content : option str) : (vok + verr)%type :=
  match find_entry d p with
  | None => inr VNotFound
  | Some e =>
      match esize e with
      | None => inr VMissingSize
      | Some n =>
          match content with
          | None => inr VIo
          | Some c => if (Z.of_nat (List.length c) =? n)%Z then inl (VOkSize n)
                      else inr (VSize n (Z.of_nat (List.length c)))
          end
      end
  end.
(* verify_checksum: which bytes are hashed with which algorithm, and the recorded
   hash they must equal (the digest function itself is outside the model) *)
Definition verify_checksum (d : distinfo) (p : str) (a : alg) (content : option str) : ((alg * str * str * str) + verr)%type :=
  match find_entry d p with
  | None => inr VNotFound
  | Some e =>
      match List.find (fun ah => alg_eqb (fst ah) a) (esums e) with
      | None => inr VMissingChecksum
      | Some (_, h) =>
          match content with
          | None => inr VIo
          | Some c =>
              let pre := match classify (ename e) with Distfile => c | Patchfile => filter_patch c end in
              inl (a, h, pre, ename e)
          end
      end
  end.
