(* AltProofs.v - brace alternation (C04): the string-level rewriting of the
   right-most '{...}' group equals a tree-level step that preserves the set of
   csh expansions; every string accepted by the balance check is the print of
   a well-formed tree; hence Pattern::new + matches = existsb over the
   expansions.  Also: the fast reject is inert for alternates (C05). *)
Require Import PV.Base PV.Dec PV.Dewey PV.Pattern PV.AltSpec PV.PatternProofs.
Local Open Scope N_scope.

(* ---------- tree-level rewriting step (proof device) ---------- *)
Fixpoint papp (p q : pat) : pat :=
  match p with PEnd => q | PCh c k => PCh c (papp k q) | PGrp a k => PGrp a (papp k q) end.
Fixpoint alist (a : alts) : list pat := match a with AOne p => [p] | ACons p r => p :: alist r end.
Fixpoint rstep (p : pat) : option (list pat) :=
  match p with
  | PEnd => None
  | PCh c k => option_map (map (PCh c)) (rstep k)
  | PGrp a k =>
      match rstep k with
      | Some ks => Some (map (PGrp a) ks)
      | None => match rstepa a with
                | Some aa => Some (map (fun a' => PGrp a' k) aa)
                | None => Some (map (fun l => papp l k) (alist a))
                end
      end
  end
with rstepa (a : alts) : option (list alts) :=
  match a with
  | AOne p => option_map (map AOne) (rstep p)
  | ACons p r => match rstepa r with
                 | Some rs => Some (map (ACons p) rs)
                 | None => option_map (map (fun p' => ACons p' r)) (rstep p)
                 end
  end.


Definition no (c:N) (s:str) : Prop := ~ In c s.

Lemma no_app c a b : no c (a ++ b) <-> no c a /\ no c b.
Proof. unfold no; rewrite in_app_iff; tauto. Qed.
Lemma no_cons c x a : no c (x :: a) <-> x <> c /\ no c a.
Proof. unfold no; cbn; intuition congruence. Qed.

(* ---- rfind / find ---- *)
Lemma rfind_from_app c a b i acc :
  rfind_from c (a ++ b) i acc = rfind_from c b (i + length a)%nat (rfind_from c a i acc).
Proof. revert i acc; induction a as [|x a IH]; intros i acc; cbn [app rfind_from length].
  - f_equal; lia.
  - rewrite IH. f_equal. lia. Qed.
Lemma rfind_from_no c s i acc : no c s -> rfind_from c s i acc = acc.
Proof. revert i acc; induction s as [|x s IH]; intros i acc H; cbn; auto.
  apply no_cons in H as [H1 H2]. rewrite IH by auto. destruct (N.eqb_spec x c); congruence. Qed.
Lemma rfind_last c x y : no c y -> rfind c (x ++ c :: y) = Some (length x).
Proof. intros H. unfold rfind. rewrite rfind_from_app. cbn [rfind_from]. rewrite N.eqb_refl.
  rewrite rfind_from_no by auto. f_equal. Qed.
Lemma rfind_none c s : no c s -> rfind c s = None.
Proof. intros; unfold rfind; apply rfind_from_no; auto. Qed.
Lemma find_first c b z : no c b -> position c (b ++ c :: z) = Some (length b).
Proof. induction b as [|x b IH]; intros H; cbn.
  - rewrite N.eqb_refl; auto.
  - apply no_cons in H as [H1 H2]. destruct (N.eqb_spec x c); [congruence|]. rewrite IH by auto. reflexivity. Qed.

Lemma firstn_app_len {A} (a b:list A) : firstn (length a) (a ++ b) = a.
Proof. induction a; cbn; congruence. Qed.
Lemma skipn_app_len {A} (a b:list A) : skipn (length a) (a ++ b) = b.
Proof. induction a; cbn; congruence. Qed.
Lemma removelast_snoc {A} (a:list A) x : removelast (a ++ [x]) = a.
Proof. apply removelast_last. Qed.

Lemma string_step_shape x b z : no LB b -> no RB b -> no LB z ->
  string_step (x ++ LB :: b ++ RB :: z) = Some (map (fun m => x ++ m ++ z) (split_on CM b)).
Proof.
  intros Hb1 Hb2 Hz. unfold string_step.
  rewrite rfind_last.
  2:{ apply no_app; split; auto. apply no_cons; split; [discriminate|auto]. }
  rewrite firstn_app_len, skipn_app_len.
  change (LB :: b ++ RB :: z) with ((LB :: b) ++ RB :: z).
  rewrite find_first. 2:{ apply no_cons; split; [discriminate|auto]. }
  replace (S (length (LB :: b))) with (length ((LB :: b) ++ [RB])) by (rewrite app_length; cbn; lia).
  replace ((LB :: b) ++ RB :: z) with (((LB :: b) ++ [RB]) ++ z) by (rewrite <- app_assoc; reflexivity).
  rewrite firstn_app_len, skipn_app_len. cbn [app tl].
  rewrite removelast_snoc. reflexivity.
Qed.

Lemma string_step_none s : no LB s -> string_step s = None.
Proof. intros H; unfold string_step; rewrite rfind_none; auto. Qed.


Lemma print_papp p q : print (papp p q) = print p ++ print q.
Proof. induction p using pat_mut with (P0 := fun _ => True); cbn; auto.
  - rewrite IHp; auto.
  - rewrite IHp0. rewrite <- app_assoc. reflexivity. Qed.

Lemma split_on_no c s : no c s -> split_on c s = [s].
Proof. induction s as [|x s IH]; intros H; cbn; auto.
  apply no_cons in H as [H1 H2]. destruct (N.eqb_spec x c); [congruence|]. rewrite IH; auto. Qed.
Lemma split_on_app c a b : no c a -> split_on c (a ++ c :: b) = a :: split_on c b.
Proof. induction a as [|x a IH]; intros H; cbn.
  - rewrite N.eqb_refl; auto.
  - apply no_cons in H as [H1 H2]. destruct (N.eqb_spec x c); [congruence|]. rewrite IH; auto. Qed.

(* The main structural lemma *)
Definition stepP (p:pat) : Prop := forall i, wf i p ->
  match rstep p with
  | None => no LB (print p) /\ no RB (print p) /\ (i = true -> no CM (print p))
  | Some ps => exists x b z, print p = x ++ LB :: b ++ RB :: z /\ no LB b /\ no RB b /\ no LB z /\
                 map print ps = map (fun m => x ++ m ++ z) (split_on CM b)
  end.
Definition stepA (a:alts) : Prop := wfa a ->
  match rstepa a with
  | None => no LB (printa a) /\ no RB (printa a) /\ split_on CM (printa a) = map print (alist a)
  | Some aa => exists x b z, printa a = x ++ LB :: b ++ RB :: z /\ no LB b /\ no RB b /\ no LB z /\
                 map printa aa = map (fun m => x ++ m ++ z) (split_on CM b)
  end.

Lemma step_shape : forall p, stepP p.
Proof.
  apply (pat_mut stepP stepA); unfold stepP, stepA.
  - (* PEnd *) intros i _. cbn. repeat split; intros; intros [].
  - (* PCh *) intros c k IH i (H1 & H2 & H3 & Hk). specialize (IH i Hk). cbn [rstep print].
    destruct (rstep k) as [ks|]; cbn [option_map].
    + destruct IH as (x & b & z & E & ? & ? & ? & Em). exists (c :: x), b, z. rewrite E. repeat split; auto.
      rewrite map_map. cbn [print]. rewrite <- (map_map print (cons c)), Em, map_map. reflexivity.
    + destruct IH as (A & B & C). repeat split; try (apply no_cons; split; auto).
      intros ->. apply no_cons; split; auto.
  - (* PGrp *) intros a IHa k IHk i (Ha & Hk). specialize (IHa Ha). specialize (IHk i Hk). cbn [rstep print].
    destruct (rstep k) as [ks|].
    + destruct IHk as (x & b & z & E & ? & ? & ? & Em).
      exists (LB :: printa a ++ RB :: x), b, z. rewrite E. repeat split; auto.
      * cbn. rewrite <- app_assoc. reflexivity.
      * rewrite map_map. cbn [print].
        transitivity (map (fun s => LB :: printa a ++ RB :: s) (map print ks)); [rewrite map_map; reflexivity|].
        rewrite Em, map_map. apply map_ext. intros m. cbn. rewrite <- app_assoc. reflexivity.
    + destruct IHk as (K1 & K2 & K3). destruct (rstepa a) as [aa|].
      * destruct IHa as (x & b & z & E & ? & ? & ? & Em).
        exists (LB :: x), b, (z ++ RB :: print k). rewrite E. repeat split; auto.
        -- cbn. rewrite <- app_assoc. cbn. rewrite <- app_assoc. reflexivity.
        -- apply no_app; split; auto. apply no_cons; split; [discriminate|auto].
        -- rewrite map_map. cbn [print].
           transitivity (map (fun s => LB :: s ++ RB :: print k) (map printa aa)); [rewrite map_map; reflexivity|].
           rewrite Em, map_map. apply map_ext. intros m. cbn. rewrite <- !app_assoc. reflexivity.
      * destruct IHa as (A1 & A2 & A3).
        exists [], (printa a), (print k). repeat split; auto.
        rewrite A3, !map_map. apply map_ext. intros l. rewrite print_papp. reflexivity.
  - (* AOne *) intros p IH Hp. specialize (IH true Hp). cbn [rstepa printa alist].
    destruct (rstep p) as [ps|]; cbn [option_map].
    + destruct IH as (x & b & z & E & ? & ? & ? & Em). exists x, b, z. repeat split; auto.
      rewrite map_map. cbn [printa]. exact Em.
    + destruct IH as (A & B & C). repeat split; auto. cbn. apply split_on_no; auto.
  - (* ACons *) intros p IHp r IHr (Hp & Hr). specialize (IHp true Hp). specialize (IHr Hr). cbn [rstepa printa alist].
    destruct (rstepa r) as [rs|].
    + destruct IHr as (x & b & z & E & ? & ? & ? & Em).
      exists (print p ++ CM :: x), b, z. rewrite E. repeat split; auto.
      * rewrite <- app_assoc. reflexivity.
      * rewrite map_map. cbn [printa].
        transitivity (map (fun s => print p ++ CM :: s) (map printa rs)); [rewrite map_map; reflexivity|].
        rewrite Em, map_map. apply map_ext. intros m. rewrite <- app_assoc. reflexivity.
    + destruct IHr as (R1 & R2 & R3). destruct (rstep p) as [ps|]; cbn [option_map].
      * destruct IHp as (x & b & z & E & ? & ? & ? & Em).
        exists x, b, (z ++ CM :: printa r). rewrite E. repeat split; auto.
        -- rewrite <- app_assoc. cbn. rewrite <- app_assoc. reflexivity.
        -- apply no_app; split; auto. apply no_cons; split; [discriminate|auto].
        -- rewrite map_map. cbn [printa].
           transitivity (map (fun s => s ++ CM :: printa r) (map print ps)); [rewrite map_map; reflexivity|].
           rewrite Em, map_map. apply map_ext. intros m. rewrite <- !app_assoc. reflexivity.
      * destruct IHp as (P1 & P2 & P3). repeat split.
        -- apply no_app; split; auto. apply no_cons; split; [discriminate|auto].
        -- apply no_app; split; auto. apply no_cons; split; [discriminate|auto].
        -- cbn [map]. rewrite split_on_app by auto. rewrite R3. reflexivity.
Qed.

Theorem string_step_is_rstep p i : wf i p -> string_step (print p) = option_map (map print) (rstep p).
Proof.
  intros H. pose proof (step_shape p i H) as S. destruct (rstep p) as [ps|]; cbn [option_map].
  - destruct S as (x & b & z & E & ? & ? & ? & Em). rewrite E, string_step_shape by auto. rewrite Em. reflexivity.
  - destruct S as (A & _). apply string_step_none; auto.
Qed.

(* ---- In-characterisations ---- *)
Lemma in_cross X Y e : In e (cross X Y) <-> exists x y, In x X /\ In y Y /\ e = x ++ y.
Proof. unfold cross. rewrite in_flat_map. split.
  - intros (x & Hx & H). apply in_map_iff in H as (y & <- & Hy). eauto.
  - intros (x & y & Hx & Hy & ->). exists x. split; auto. apply in_map_iff. eauto. Qed.

Lemma in_expa a e : In e (expa a) <-> exists l, In l (alist a) /\ In e (exp l).
Proof. induction a as [p|p r IH]; cbn [expa alist].
  - split; [intros; exists p; cbn; auto | intros (l & [<-|[]] & H); auto].
  - rewrite in_app_iff, IH. split.
    + intros [H|(l & Hl & H)]; [exists p; cbn; auto | exists l; cbn; auto].
    + intros (l & [<-|Hl] & H); [auto | right; eauto]. Qed.

Lemma in_exp_papp l k e : In e (exp (papp l k)) <-> exists x y, In x (exp l) /\ In y (exp k) /\ e = x ++ y.
Proof.
  revert e. induction l using pat_mut with (P0 := fun _ => True); try (intros e; cbn [papp exp]); auto.
  - split; [intros H; exists [], e; cbn; auto | intros (x & y & [<-|[]] & Hy & ->); auto].
  - rewrite in_map_iff. split.
    + intros (t & <- & Ht). apply IHl in Ht as (x & y & Hx & Hy & ->). exists (c :: x), y. repeat split; auto. apply in_map; auto.
    + intros (x & y & Hx & Hy & ->). apply in_map_iff in Hx as (x' & <- & Hx'). exists (x' ++ y). split; auto. apply IHl. eauto.
  - rewrite !in_cross. split.
    + intros (u & v & Hu & Hv & ->). apply IHl0 in Hv as (x & y & Hx & Hy & ->).
      exists (u ++ x), y. repeat split; auto; [apply in_cross; eauto | apply app_assoc].
    + intros (x & y & Hx & Hy & ->). apply in_cross in Hx as (u & v & Hu & Hv & ->).
      exists u, (v ++ y). repeat split; auto; [apply IHl0; eauto | symmetry; apply app_assoc]. Qed.

Lemma map_nonnil {A B} (f:A->B) l : l <> [] -> map f l <> [].
Proof. destruct l; cbn; congruence. Qed.
Lemma alist_nonnil a : alist a <> [].
Proof. destruct a; cbn; congruence. Qed.
Lemma rstep_nonempty : forall p ps, rstep p = Some ps -> ps <> [].
Proof.
  apply (pat_mut (fun p => forall ps, rstep p = Some ps -> ps <> []) (fun a => forall aa, rstepa a = Some aa -> aa <> [])).
  - discriminate.
  - intros c k IH ps H. cbn in H. destruct (rstep k); [|discriminate]. injection H as <-. apply map_nonnil; eauto.
  - intros a IHa k IHk ps H. cbn in H. destruct (rstep k).
    { injection H as <-. apply map_nonnil; eauto. }
    destruct (rstepa a); injection H as <-; apply map_nonnil; eauto using alist_nonnil.
  - intros p IH aa H. cbn in H. destruct (rstep p); [|discriminate]. injection H as <-. apply map_nonnil; eauto.
  - intros p IHp r IHr aa H. cbn in H. destruct (rstepa r).
    { injection H as <-. apply map_nonnil; eauto. }
    destruct (rstep p); [|discriminate]. injection H as <-. apply map_nonnil; eauto.
Qed.
Lemma rstepa_nonempty a aa : rstepa a = Some aa -> aa <> [].
Proof.
  revert aa. induction a as [p|p r IH]; intros aa H; cbn in H.
  - destruct (rstep p) eqn:E; [|discriminate]. injection H as <-. apply map_nonnil. eapply rstep_nonempty; eauto.
  - destruct (rstepa r).
    { injection H as <-. apply map_nonnil; eauto. }
    destruct (rstep p) eqn:E; [|discriminate]. injection H as <-. apply map_nonnil. eapply rstep_nonempty; eauto.
Qed.

(* ---- expansions are preserved by a rewriting step ---- *)
Definition expP (p:pat) := forall ps, rstep p = Some ps -> forall e, In e (exp p) <-> exists p', In p' ps /\ In e (exp p').
Definition expA (a:alts) := forall aa, rstepa a = Some aa -> forall e, In e (expa a) <-> exists a', In a' aa /\ In e (expa a').

Lemma exp_step : forall p, expP p.
Proof.
  apply (pat_mut expP expA); unfold expP, expA.
  - intros ps H; discriminate.
  - intros c k IH ps H e. cbn [rstep] in H. destruct (rstep k) as [ks|]; [|discriminate]. injection H as <-.
    cbn [exp]. rewrite in_map_iff. split.
    + intros (t & <- & Ht). apply (IH _ eq_refl) in Ht as (k' & Hk' & Ht). exists (PCh c k'). split; [apply in_map; auto|]. cbn. apply in_map; auto.
    + intros (p' & Hp' & He). apply in_map_iff in Hp' as (k' & <- & Hk'). cbn in He. apply in_map_iff in He as (t & <- & Ht).
      exists t. split; auto. apply (IH _ eq_refl). eauto.
  - intros a IHa k IHk ps H e. cbn [rstep] in H. cbn [exp]. rewrite in_cross.
    destruct (rstep k) as [ks|].
    { injection H as <-. split.
      - intros (x & y & Hx & Hy & ->). apply (IHk _ eq_refl) in Hy as (k' & Hk' & Hy).
        exists (PGrp a k'). split; [apply in_map; auto|]. cbn. apply in_cross. eauto.
      - intros (p' & Hp' & He). apply in_map_iff in Hp' as (k' & <- & Hk'). cbn in He. apply in_cross in He as (x & y & Hx & Hy & ->).
        exists x, y. repeat split; auto. apply (IHk _ eq_refl). eauto. }
    destruct (rstepa a) as [aa|].
    { injection H as <-. split.
      - intros (x & y & Hx & Hy & ->). apply (IHa _ eq_refl) in Hx as (a' & Ha' & Hx).
        exists (PGrp a' k). split; [apply in_map_iff; eauto|]. cbn. apply in_cross. eauto.
      - intros (p' & Hp' & He). apply in_map_iff in Hp' as (a' & <- & Ha'). cbn in He. apply in_cross in He as (x & y & Hx & Hy & ->).
        exists x, y. repeat split; auto. apply (IHa _ eq_refl). eauto. }
    injection H as <-. split.
    + intros (x & y & Hx & Hy & ->). apply in_expa in Hx as (l & Hl & Hx).
      exists (papp l k). split; [apply in_map_iff; eauto|]. apply in_exp_papp. eauto.
    + intros (p' & Hp' & He). apply in_map_iff in Hp' as (l & <- & Hl). apply in_exp_papp in He as (x & y & Hx & Hy & ->).
      exists x, y. repeat split; auto. apply in_expa. eauto.
  - intros p IH aa H e. cbn [rstepa] in H. destruct (rstep p) as [ps|]; [|discriminate]. injection H as <-. cbn [expa].
    rewrite (IH _ eq_refl). split.
    + intros (p' & Hp' & He). exists (AOne p'). split; [apply in_map; auto| auto].
    + intros (a' & Ha' & He). apply in_map_iff in Ha' as (p' & <- & Hp'). eauto.
  - intros p IHp r IHr aa H e. cbn [rstepa] in H. cbn [expa]. rewrite in_app_iff.
    destruct (rstepa r) as [rs|] eqn:Er.
    { injection H as <-. pose proof (rstepa_nonempty _ _ Er) as Hne. split.
      - intros [He|He].
        + destruct rs as [|r0 rs']; [congruence|].
          exists (ACons p r0). split; [cbn; auto|]. cbn. apply in_app_iff; auto.
        + apply (IHr _ eq_refl) in He as (r' & Hr' & He). exists (ACons p r'). split; [apply in_map; auto|]. cbn. apply in_app_iff; auto.
      - intros (a' & Ha' & He). apply in_map_iff in Ha' as (r' & <- & Hr'). cbn in He. apply in_app_iff in He as [He|He]; auto.
        right. apply (IHr _ eq_refl). eauto. }
    destruct (rstep p) as [ps|] eqn:Ep; [|discriminate]. injection H as <-.
    pose proof (rstep_nonempty _ _ Ep) as Hne. split.
    + intros [He|He].
      * apply (IHp _ eq_refl) in He as (p' & Hp' & He). exists (ACons p' r). split; [apply in_map_iff; eauto|]. cbn. apply in_app_iff; auto.
      * destruct ps as [|p0 ps']; [congruence|]. exists (ACons p0 r). split; [cbn; auto|]. cbn. apply in_app_iff; auto.
    + intros (a' & Ha' & He). apply in_map_iff in Ha' as (p' & <- & Hp'). cbn in He. apply in_app_iff in He as [He|He]; auto.
      left. apply (IHp _ eq_refl). eauto.
Qed.

Lemma bal_print : forall p i, wf i p -> forall rest d, bal (print p ++ rest) d = bal rest d.
Proof.
  apply (pat_mut (fun p => forall i, wf i p -> forall rest d, bal (print p ++ rest) d = bal rest d)
                 (fun a => wfa a -> forall rest d, bal (printa a ++ rest) d = bal rest d)).
  - reflexivity.
  - intros c k IH i (H1 & H2 & _ & Hk) rest d. cbn [print app bal].
    destruct (N.eqb_spec c LB); [congruence|]. destruct (N.eqb_spec c RB); [congruence|]. eauto.
  - intros a IHa k IHk i (Ha & Hk) rest d. cbn [print app bal]. rewrite N.eqb_refl.
    rewrite <- app_assoc. rewrite IHa by auto. cbn [app bal]. cbn. eauto.
  - intros p IH Hp rest d. cbn. eauto.
  - intros p IHp r IHr (Hp & Hr) rest d. cbn [printa]. rewrite <- app_assoc. rewrite (IHp true) by auto.
    cbn [app bal]. cbn. eauto.
Qed.
Lemma balanced_print p i : wf i p -> bal (print p) 0 = true.
Proof. intros H. rewrite <- (app_nil_r (print p)). rewrite (bal_print p i H). reflexivity. Qed.

(* ---- wf is preserved ---- *)
Lemma wf_weaken p : wf true p -> wf false p.
Proof. induction p using pat_mut with (P0 := fun _ => True); cbn; auto.
  - intros (?&?&?&?); repeat split; auto; discriminate.
  - intros (?&?); split; auto. Qed.
Lemma wf_papp i l k : wf i l -> wf i k -> wf i (papp l k).
Proof. induction l using pat_mut with (P0 := fun _ => True); cbn; auto.
  - intros (?&?&?&?) ?; repeat split; auto.
  - intros (?&?) ?; split; auto. Qed.
Lemma wfa_alist a : wfa a -> forall l, In l (alist a) -> wf true l.
Proof. induction a; cbn; intros H l [<-|Hl]; try tauto. apply IHa; tauto. Qed.

Lemma wf_step : forall p i, wf i p -> forall ps, rstep p = Some ps -> forall p', In p' ps -> wf i p'.
Proof.
  apply (pat_mut (fun p => forall i, wf i p -> forall ps, rstep p = Some ps -> forall p', In p' ps -> wf i p')
                 (fun a => wfa a -> forall aa, rstepa a = Some aa -> forall a', In a' aa -> wfa a')).
  - discriminate.
  - intros c k IH i (H1&H2&H3&Hk) ps H p' Hp'. cbn in H. destruct (rstep k) as [ks|]; [|discriminate]. injection H as <-.
    apply in_map_iff in Hp' as (k' & <- & Hk'). cbn. repeat split; eauto.
  - intros a IHa k IHk i (Ha&Hk) ps H p' Hp'. cbn in H. destruct (rstep k) as [ks|].
    { injection H as <-. apply in_map_iff in Hp' as (k' & <- & Hk'). cbn. split; eauto. }
    destruct (rstepa a) as [aa|]; injection H as <-; apply in_map_iff in Hp' as (y & <- & Hy).
    + cbn. split; eauto.
    + apply wf_papp; auto. pose proof (wfa_alist a Ha y Hy). destruct i; auto using wf_weaken.
  - intros p IH Hp aa H a' Ha'. cbn in H. destruct (rstep p) as [ps|]; [|discriminate]. injection H as <-.
    apply in_map_iff in Ha' as (p' & <- & Hp'). cbn. eauto.
  - intros p IHp r IHr (Hp&Hr) aa H a' Ha'. cbn in H. destruct (rstepa r) as [rs|].
    { injection H as <-. apply in_map_iff in Ha' as (r' & <- & Hr'). cbn. split; eauto. }
    destruct (rstep p) as [ps|]; [|discriminate]. injection H as <-.
    apply in_map_iff in Ha' as (p' & <- & Hp'). cbn. split; eauto.
Qed.


Lemma nLB_app a b : nLB (a ++ b) = (nLB a + nLB b)%nat.
Proof. apply count_occ_app. Qed.
Lemma nLB_no s : no LB s -> nLB s = 0%nat.
Proof. intros H. apply count_occ_not_In. exact H. Qed.
Lemma split_on_sub c s m : In m (split_on c s) -> forall y, In y m -> In y s.
Proof.
  revert m; induction s as [|x s IH]; intros m H y Hy; cbn in H.
  - destruct H as [<-|[]]. destruct Hy.
  - destruct (N.eqb_spec x c).
    + destruct H as [<-|H]; [destruct Hy|]. right. eauto.
    + destruct (split_on c s) as [|h t] eqn:E.
      * destruct H as [<-|[]]. destruct Hy as [<-|[]]. left; auto.
      * destruct H as [<-|H].
        -- destruct Hy as [<-|Hy]; [left; auto|]. right. apply (IH h); cbn; auto.
        -- right. apply (IH m); cbn; auto.
Qed.

Lemma nLB_step p i ps p' : wf i p -> rstep p = Some ps -> In p' ps -> S (nLB (print p')) = nLB (print p).
Proof.
  intros Hw Hs Hp'. pose proof (step_shape p i Hw) as S. rewrite Hs in S.
  destruct S as (x & b & z & E & Hb1 & Hb2 & Hz & Em).
  assert (In (print p') (map print ps)) as Hin by (apply in_map; auto).
  rewrite Em in Hin. apply in_map_iff in Hin as (m & Hm & Hmin).
  rewrite E, <- Hm. rewrite !nLB_app. cbn [nLB count_occ]. destruct (N.eq_dec LB LB); [|congruence].
  fold (nLB (b ++ RB :: z)). rewrite nLB_app. cbn [nLB count_occ]. destruct (N.eq_dec RB LB); [discriminate|].
  fold (nLB z). rewrite (nLB_no b) by auto.
  rewrite (nLB_no m). 2:{ intros Hc. apply Hb1. eapply split_on_sub; eauto. }
  lia.
Qed.

Lemma rstep_none_exp p : rstep p = None -> exp p = [print p].
Proof. induction p; cbn; intros H; auto.
  - destruct (rstep p); [discriminate|]. rewrite IHp; auto.
  - destruct (rstep p); [discriminate|]. destruct (rstepa a); discriminate. Qed.


(* every string accepted by the balance check is the print of a well-formed tree *)
Inductive B : str -> Prop :=
| B_nil : B []
| B_ch c s : c <> LB -> c <> RB -> B s -> B (c :: s)
| B_grp a s : B a -> B s -> B (LB :: a ++ RB :: s).

Fixpoint joinRB (l:list str) : str :=
  match l with [] => [] | [a] => a | a :: r => a ++ RB :: joinRB r end.

Lemma bal_pieces : forall s d, bal s d = true -> exists l, length l = S d /\ Forall B l /\ s = joinRB l.
Proof.
  induction s as [|c s IH]; intros d H; cbn [bal] in H.
  - apply Nat.eqb_eq in H as ->. exists [[]]. repeat split; auto using B_nil.
  - destruct (N.eqb_spec c LB) as [->|N1].
    + apply IH in H as (l & Hl & HB & ->). destruct l as [|a0 [|a1 r]]; cbn in Hl; try lia.
      inversion HB as [|? ? B0 HB']; subst. inversion HB' as [|? ? B1 HB'']; subst.
      exists ((LB :: a0 ++ RB :: a1) :: r). repeat split.
      * cbn. cbn in Hl. lia.
      * constructor; auto using B_grp.
      * destruct r; cbn; [reflexivity|]. rewrite <- app_assoc. reflexivity.
    + destruct (N.eqb_spec c RB) as [->|N2].
      * destruct d as [|d']; [discriminate|]. apply IH in H as (l & Hl & HB & ->).
        exists ([] :: l). repeat split; cbn; auto using B_nil. destruct l; cbn in *; [lia|reflexivity].
      * apply IH in H as (l & Hl & HB & ->). destruct l as [|a0 r]; cbn in Hl; [lia|].
        inversion HB; subst. exists ((c :: a0) :: r). repeat split; auto.
        -- constructor; auto using B_ch.
        -- destruct r; reflexivity.
Qed.

Definition acons_ch (c:N) (A:alts) : alts :=
  match A with AOne p => AOne (PCh c p) | ACons p r => ACons (PCh c p) r end.
Definition acons_grp (G:alts) (A:alts) : alts :=
  match A with AOne p => AOne (PGrp G p) | ACons p r => ACons (PGrp G p) r end.

Lemma B_alts s : B s -> exists A, wfa A /\ printa A = s.
Proof.
  induction 1 as [|c s N1 N2 HB (A & WA & EA)|a s HBa (G & WG & EG) HBs (A & WA & EA)].
  - exists (AOne PEnd). cbn; auto.
  - destruct (N.eq_dec c CM) as [->|NC].
    + exists (ACons PEnd A). cbn. split; auto. congruence.
    + exists (acons_ch c A). destruct A; cbn in *; subst; repeat split; auto; tauto.
  - exists (acons_grp G A). destruct A; cbn in *; subst; repeat split; auto; try tauto;
      rewrite <- ?app_assoc; reflexivity.
Qed.

Lemma B_pat s : B s -> exists p, wf false p /\ print p = s.
Proof.
  induction 1 as [|c s N1 N2 HB (p & Wp & Ep)|a s HBa _ HBs (p & Wp & Ep)].
  - exists PEnd; cbn; auto.
  - exists (PCh c p). cbn. subst. repeat split; auto. discriminate.
  - destruct (B_alts a HBa) as (G & WG & EG). exists (PGrp G p). cbn. subst. auto.
Qed.

Theorem balanced_is_tree s : bal s 0 = true -> exists p, wf false p /\ print p = s.
Proof.
  intros H. apply bal_pieces in H as (l & Hl & HB & ->).
  destruct l as [|a [|? ?]]; cbn in Hl; try lia. inversion HB; subst. apply B_pat; auto.
Qed.


(* ================= the matcher = existsb over the expansion ================= *)
Lemma ptext_new p pt : pattern_new p = Val pt -> ptext pt = p.
Proof.
  unfold pattern_new. destruct (mem LB p || mem RB p).
  { destruct (bal p 0); [intros [= <-]; reflexivity|discriminate]. }
  destruct (mem 62 p || mem 60 p).
  { destruct (dewey_new p); try discriminate. intros [= <-]; reflexivity. }
  destruct (mem 42 p || mem 63 p || mem 91 p || mem 93 p).
  { destruct (glob_new p); try discriminate. intros [= <-]; reflexivity. }
  intros [= <-]; reflexivity.
Qed.
Lemma pattern_new_brace s : mem LB s = true \/ mem RB s = true ->
  pattern_new s = if bal s 0 then Val (mkpat KAlt s) else Fail EAlternate.
Proof. intros H. unfold pattern_new. replace (mem LB s || mem RB s) with true; auto.
  destruct H as [-> | ->]; auto using orb_true_r. Qed.
Lemma pattern_new_nobrace s pt : mem LB s = false -> mem RB s = false -> pattern_new s = Val pt -> pkind_of pt <> KAlt.
Proof.
  intros H1 H2. unfold pattern_new. rewrite H1, H2. cbn [orb].
  destruct (mem 62 s || mem 60 s). { destruct (dewey_new s); try discriminate. intros [= <-]; discriminate. }
  destruct (mem 42 s || mem 63 s || mem 91 s || mem 93 s). { destruct (glob_new s); try discriminate. intros [= <-]; discriminate. }
  intros [= <-]; discriminate.
Qed.
Lemma no_mem c s : no c s -> mem c s = false.
Proof. intros H. destruct (mem c s) eqn:E; auto. apply mem_In in E. contradiction. Qed.
Lemma mem_mid c x y : mem c (x ++ c :: y) = true.
Proof. apply mem_In, in_or_app. right. left. reflexivity. Qed.

Lemma pmatches_quick f pt pkg : pmatches f pt pkg = Some true -> quick (ptext pt) pkg = true.
Proof. destruct f; cbn [pmatches]; destruct (quick (ptext pt) pkg); cbn; auto; discriminate. Qed.
Lemma base_pm_quick e pkg : base_pm e pkg = true -> quick e pkg = true.
Proof.
  unfold base_pm, pm. destruct (pattern_new e) as [pt| | |] eqn:E; try discriminate.
  destruct (pmatches (fuel_for e) pt pkg) as [[|]|] eqn:M; try discriminate. intros _.
  apply pmatches_quick in M. rewrite (ptext_new _ _ E) in M. exact M.
Qed.

(* simple leading characters precede every group, so every expansion starts with them *)
Lemma exp_head1 t a r : print t = a :: r -> a <> LB -> forall e, In e (exp t) -> exists e', e = a :: e'.
Proof.
  destruct t as [|c k|al k]; cbn [print exp]; intros E Ha e He; try discriminate.
  - injection E as -> _. apply in_map_iff in He as (e' & <- & _). eauto.
  - injection E as <- _. congruence.
Qed.
Lemma exp_head2 t a b r : print t = a :: b :: r -> a <> LB -> b <> LB ->
  forall e, In e (exp t) -> exists e', e = a :: b :: e'.
Proof.
  destruct t as [|c k|al k]; cbn [print exp]; intros E Ha Hb e He; try discriminate.
  - injection E as -> E. apply in_map_iff in He as (e' & <- & He').
    destruct (exp_head1 k b r E Hb e' He') as (e'' & ->). eauto.
  - injection E as <- _. congruence.
Qed.
Lemma simple_not_LB c : is_simple_char c = true -> c <> LB.
Proof. intros H ->. vm_compute in H. discriminate. Qed.

Theorem quick_inert_alt t pkg : quick (print t) pkg = false -> spec_match t pkg = false.
Proof.
  intros Hq. unfold spec_match. destruct (existsb _ (exp t)) eqn:X; auto. exfalso.
  apply existsb_exists in X as (e & He & Hb). apply base_pm_quick in Hb.
  apply quick_false in Hq as [(a & p' & E & Sa & Hq)|(a & b & p' & E & Sa & Sb & r & Epkg & Hq)].
  - destruct (exp_head1 t a p' E (simple_not_LB _ Sa) e He) as (e' & ->).
    unfold quick in Hb. rewrite Sa in Hb. cbn [negb] in Hb.
    destruct Hq as [->|(x & r & -> & Hn)]; [discriminate|].
    destruct (N.eqb_spec x a); [congruence|]. discriminate.
  - destruct (exp_head2 t a b p' E (simple_not_LB _ Sa) (simple_not_LB _ Sb) e He) as (e' & ->).
    unfold quick in Hb. rewrite Sa, Sb in Hb. cbn [negb] in Hb. subst pkg. rewrite N.eqb_refl in Hb. cbn [negb] in Hb.
    destruct Hq as [->|(y & r' & -> & Hn)]; [discriminate|].
    destruct (N.eqb_spec y b); [congruence|]. discriminate.
Qed.

Lemma alt_any_map {A} (rec : pattern -> option bool) (h : A -> str) (g : A -> bool) l :
  (forall x, In x l -> match pattern_new (h x) with Val pt => rec pt | _ => Some false end = Some (g x)) ->
  alt_any rec (map h l) = Some (existsb g l).
Proof.
  intros H. induction l as [|x l IH]; [reflexivity|].
  change (alt_any rec (map h (x :: l))) with
    (match pattern_new (h x) with
     | Val pt' => match rec pt' with None => None | Some true => Some true | Some false => alt_any rec (map h l) end
     | _ => alt_any rec (map h l) end).
  pose proof (H x (or_introl eq_refl)) as Hx. rewrite IH by (intros y Hy; apply H; right; auto).
  cbn [existsb]. destruct (pattern_new (h x)) as [pt| | |]; try (injection Hx as <-; reflexivity).
  rewrite Hx. destruct (g x); reflexivity.
Qed.

Definition go_one (pkg : str) (f : nat) (s : str) : option bool :=
  match pattern_new s with Val pt => pmatches f pt pkg | _ => Some false end.

Lemma existsb_ext_in {A} (f g : A -> bool) l : (forall x, In x l -> f x = g x) -> existsb f l = existsb g l.
Proof. induction l; cbn; intros H; auto. rewrite H, IHl; auto. Qed.

Theorem go_one_spec pkg : forall n t, wf false t -> (nLB (print t) < n)%nat ->
  go_one pkg n (print t) = Some (spec_match t pkg).
Proof.
  induction n as [|n IH]; intros t Hw Hn; [lia|].
  pose proof (step_shape t false Hw) as S. pose proof (string_step_is_rstep t false Hw) as SS.
  unfold go_one. destruct (rstep t) as [ps|] eqn:Ep.
  - destruct S as (x & b & z & E & _).
    rewrite pattern_new_brace by (left; rewrite E; apply mem_mid).
    rewrite (balanced_print t false Hw). cbn [pmatches ptext pkind_of].
    destruct (quick (print t) pkg) eqn:Q; cbn [negb]; [|rewrite quick_inert_alt; auto].
    rewrite SS. cbn [option_map].
    rewrite (alt_any_map _ print (fun p' => spec_match p' pkg) ps).
    2:{ intros p' Hp'. apply (IH p'); [eapply wf_step; eauto|]. pose proof (nLB_step _ _ _ _ Hw Ep Hp'). lia. }
    f_equal. unfold spec_match. apply eq_true_iff_eq. rewrite !existsb_exists. split.
    + intros (p' & Hp' & H). apply existsb_exists in H as (e & He & Hb). exists e. split; auto.
      apply (exp_step t ps Ep). eauto.
    + intros (e & He & Hb). apply (exp_step t ps Ep) in He as (p' & Hp' & He). exists p'. split; auto.
      apply existsb_exists. eauto.
  - destruct S as (A & B & _). unfold spec_match. rewrite rstep_none_exp by auto. cbn [existsb]. rewrite orb_false_r.
    unfold base_pm, pm. destruct (pattern_new (print t)) as [pt| | |] eqn:E; auto.
    pose proof (pattern_new_nobrace _ _ (no_mem _ _ A) (no_mem _ _ B) E) as K.
    rewrite !pmatches_nonalt by auto.
    match goal with |- Some ?b = _ => destruct b; reflexivity end.
Qed.

(* groups <-> '{' in the printed form *)
Lemma nLB_print : forall t i, wf i t -> nLB (print t) = ngroups t.
Proof.
  apply (pat_mut (fun t => forall i, wf i t -> nLB (print t) = ngroups t) (fun a => wfa a -> nLB (printa a) = ngroupsa a)).
  - reflexivity.
  - intros c k IH i (H1 & _ & _ & Hk). cbn [print ngroups]. change (c :: print k) with ([c] ++ print k).
    rewrite nLB_app, (IH i Hk). unfold nLB. cbn. destruct (N.eq_dec c LB); [congruence|]. reflexivity.
  - intros a IHa k IHk i (Ha & Hk). cbn [print ngroups]. change (LB :: printa a ++ RB :: print k) with ([LB] ++ printa a ++ [RB] ++ print k).
    rewrite !nLB_app, IHa, (IHk i Hk) by auto. unfold nLB. cbn. lia.
  - intros p IH Hp. cbn. eauto.
  - intros p IHp r IHr (Hp & Hr). cbn [printa ngroupsa]. change (print p ++ CM :: printa r) with (print p ++ [CM] ++ printa r).
    rewrite !nLB_app, (IHp true Hp), IHr by auto. unfold nLB. cbn. lia.
Qed.

Theorem alternate_sound_complete t pkg : wf false t -> (0 < ngroups t)%nat ->
  pm (print t) pkg = MBool (spec_match t pkg).
Proof.
  intros Hw Hg. pose proof (go_one_spec pkg (fuel_for (print t)) t Hw ltac:(unfold fuel_for; lia)) as G.
  unfold go_one in G. unfold pm.
  pose proof (step_shape t false Hw) as S. destruct (rstep t) as [ps|] eqn:Ep.
  - destruct S as (x & b & z & E & _).
    rewrite pattern_new_brace in * by (left; rewrite E; apply mem_mid).
    rewrite (balanced_print t false Hw) in *. rewrite G. reflexivity.
  - exfalso. destruct S as (A & _). rewrite <- (nLB_print t false Hw) in Hg. rewrite nLB_no in Hg by auto. lia.
Qed.

(* compile: a pattern with a brace compiles exactly when its braces balance *)
Theorem compile_iff_balanced s : mem LB s = true \/ mem RB s = true ->
  (is_val (pattern_new s) = true <-> bal s 0 = true) /\ (bal s 0 = false -> pattern_new s = Fail EAlternate).
Proof. intros H. rewrite pattern_new_brace by auto. destruct (bal s 0); cbn.
  - split; [tauto|discriminate].
  - split; [split; discriminate|reflexivity]. Qed.
Theorem balanced_iff_tree s : bal s 0 = true <-> exists t, wf false t /\ print t = s.
Proof. split; [apply balanced_is_tree|]. intros (t & W & <-). eapply balanced_print; eauto. Qed.

(* for every string the code accepts as an alternate pattern *)
Theorem alternate_api s pkg : mem LB s = true \/ mem RB s = true -> bal s 0 = true ->
  exists t, wf false t /\ print t = s /\ pm s pkg = MBool (spec_match t pkg).
Proof.
  intros Hb H. destruct (balanced_is_tree s H) as (t & W & E). exists t. repeat split; auto. subst s.
  apply alternate_sound_complete; auto.
  rewrite <- (nLB_print t false W).
  destruct (Nat.eq_dec (nLB (print t)) 0) as [Z|]; [|lia]. exfalso.
  assert (no LB (print t)) as NL by (apply count_occ_not_In with (eq_dec := N.eq_dec); exact Z).
  destruct Hb as [Hb|Hb]; apply mem_In in Hb; [contradiction|].
  (* a '}' without any '{' cannot balance *)
  assert (forall s d, no LB s -> bal s d = true -> count_occ N.eq_dec s RB = d) as G.
  { induction s as [|c s IHs]; intros d NLs Hbal; cbn [bal count_occ] in *.
    - apply Nat.eqb_eq in Hbal. auto.
    - apply no_cons in NLs as [N1 N2]. destruct (N.eqb_spec c LB); [congruence|].
      destruct (N.eqb_spec c RB) as [->|NR].
      + destruct d as [|d']; [discriminate|]. destruct (N.eq_dec RB RB); [|congruence]. f_equal. auto.
      + destruct (N.eq_dec c RB); [congruence|]. auto. }
  specialize (G _ _ NL H). apply (count_occ_not_In N.eq_dec) in G. contradiction.
Qed.

(* ================= the work-list loop refines the recursive description ================= *)
Definition smatch (pkg : str) (t : pat) : bool := spec_match t pkg.

(* a fully expanded pattern: compiled and matched in its own right *)
Lemma worklist_leaf t pkg : wf false t -> rstep t = None -> quick (print t) pkg = true ->
  match pattern_new (print t) with
  | Val pt => nonalt_matches pt pkg = Some (spec_match t pkg)
  | _ => spec_match t pkg = false
  end.
Proof.
  intros Hw Ep Q. pose proof (step_shape t false Hw) as Sh. rewrite Ep in Sh. destruct Sh as (A & B & _).
  unfold spec_match. rewrite rstep_none_exp by auto. cbn [existsb]. rewrite orb_false_r.
  unfold base_pm, pm. destruct (pattern_new (print t)) as [pt| | |] eqn:E; auto.
  pose proof (pattern_new_nobrace _ _ (no_mem _ _ A) (no_mem _ _ B) E) as K.
  rewrite pmatches_nonalt by auto. unfold nonalt_matches. rewrite (ptext_new _ _ E), Q. cbn [negb andb].
  destruct (pkind_of pt); try congruence; match goal with |- Some ?b = _ => destruct b; reflexivity end.
Qed.
Lemma spec_match_step t ps pkg : rstep t = Some ps -> spec_match t pkg = existsb (smatch pkg) ps.
Proof.
  intros Ep. unfold smatch, spec_match. apply eq_true_iff_eq. rewrite !existsb_exists. split.
  - intros (e & He & Hb). apply (exp_step t ps Ep) in He as (p' & Hp' & He). exists p'. split; auto.
    apply existsb_exists. eauto.
  - intros (p' & Hp' & H). apply existsb_exists in H as (e & He & Hb). exists e. split; auto.
    apply (exp_step t ps Ep). eauto.
Qed.
Lemma rfind_some_of_mid x b z : no LB b -> no LB z -> exists i, rfind LB (x ++ LB :: b ++ RB :: z) = Some i.
Proof.
  intros Hb Hz. exists (length x). apply rfind_last. apply no_app; split; auto. apply no_cons; split; [discriminate|auto].
Qed.

(* Running the loop on the prints of [ts] (on top of any other work [W]): after
   [k] iterations either a match has been found, or exactly the work [W] is left. *)
Lemma worklist_prefix pkg : forall n ts, Forall (wf false) ts -> Forall (fun t => (ngroups t < n)%nat) ts ->
  exists k, forall W f,
    alt_work (k + f) (map print ts ++ W) pkg =
    if existsb (smatch pkg) ts then Some true else alt_work f W pkg.
Proof.
  induction n as [|n IHn]; intros ts Hw Hn.
  { destruct ts as [|t ts]; [exists 0%nat; reflexivity|]. inversion Hn; subst; lia. }
  induction ts as [|t ts IHts].
  { exists 0%nat. reflexivity. }
  inversion Hw as [|? ? Hwt Hwts]; subst. inversion Hn as [|? ? Hnt Hnts]; subst.
  destruct (IHts Hwts Hnts) as (k2 & H2).
  pose proof (step_shape t false Hwt) as Sh. pose proof (string_step_is_rstep t false Hwt) as SS.
  destruct (quick (print t) pkg) eqn:Q.
  2:{ (* fast reject *)
    exists (S k2). intros W f. cbn [map app existsb plus alt_work]. rewrite Q. cbn [negb].
    unfold smatch at 1. rewrite (quick_inert_alt t pkg Q). cbn [orb]. apply H2. }
  destruct (rstep t) as [ps|] eqn:Ep.
  - (* a group is expanded; its alternatives go on top of the work list *)
    destruct Sh as (x & b & z & E & Hb1 & Hb2 & Hz & Em).
    assert (Forall (wf false) ps) as Hwps.
    { apply Forall_forall. intros p' Hp'. eapply wf_step; eauto. }
    assert (Forall (fun t' => (ngroups t' < n)%nat) ps) as Hnps.
    { apply Forall_forall. intros p' Hp'. pose proof (nLB_step _ _ _ _ Hwt Ep Hp') as L.
      rewrite (nLB_print t false Hwt) in L. rewrite (nLB_print p' false) in L by (eapply wf_step; eauto). lia. }
    destruct (IHn ps Hwps Hnps) as (k1 & H1).
    exists (S (k1 + k2)). intros W f. cbn [map app plus alt_work]. rewrite Q. cbn [negb].
    destruct (rfind_some_of_mid x b z Hb1 Hz) as (i & Ei). rewrite E in *. rewrite Ei.
    rewrite <- E in *. rewrite SS. cbn [option_map].
    cbn [existsb]. unfold smatch at 1. rewrite (spec_match_step t ps pkg Ep).
    replace (k1 + k2 + f)%nat with (k1 + (k2 + f))%nat by lia.
    rewrite H1. destruct (existsb (smatch pkg) ps); cbn [orb]; [reflexivity|]. apply H2.
  - (* fully expanded *)
    destruct Sh as (A & B & _).
    exists (S k2). intros W f. cbn [map app plus alt_work existsb]. rewrite Q. cbn [negb].
    rewrite (rfind_none LB _ A).
    pose proof (worklist_leaf t pkg Hwt Ep Q) as L. unfold smatch at 1.
    destruct (pattern_new (print t)) as [pt| | |].
    + rewrite L. destruct (spec_match t pkg); cbn [orb]; [reflexivity|]. apply H2.
    + rewrite L. cbn [orb]. apply H2.
    + rewrite L. cbn [orb]. apply H2.
    + rewrite L. cbn [orb]. apply H2.
Qed.

(* Pattern::new + matches with the work-list loop = the recursive description,
   for every pattern string and name, once the loop is given enough iterations;
   more iterations never change the answer *)
Theorem worklist_refines p pkg : exists k, forall f, pm_w (k + f) p pkg = pm p pkg.
Proof.
  unfold pm_w, pm. destruct (pattern_new p) as [pt| | |] eqn:E; try (exists 0%nat; reflexivity).
  destruct (mem LB p || mem RB p) eqn:Hb.
  - (* alternate *)
    apply orb_true_iff in Hb. pose proof E as E'. rewrite pattern_new_brace in E' by auto.
    destruct (bal p 0) eqn:Hbal; [|discriminate]. injection E' as <-.
    destruct (alternate_api p pkg Hb Hbal) as (t & Hw & <- & Hpm).
    unfold pm in Hpm. rewrite E in Hpm.
    assert (Forall (wf false) [t]) as F1 by (constructor; auto).
    assert (Forall (fun t0 => (ngroups t0 < S (ngroups t))%nat) [t]) as F2 by (constructor; auto).
    destruct (worklist_prefix pkg (S (ngroups t)) [t] F1 F2) as (k & Hk).
    exists (S k). intros f. unfold pmatches_w. cbn [ptext pkind_of].
    destruct (pmatches (fuel_for (print t)) {| pkind_of := KAlt; ptext := print t |} pkg) as [b|] eqn:M; [|discriminate].
    injection Hpm as ->.
    destruct (quick (print t) pkg) eqn:Q; cbn [negb].
    + specialize (Hk [] (S f)). cbn [map app existsb] in Hk. rewrite orb_false_r in Hk. unfold smatch in Hk.
      replace (S k + f)%nat with (k + S f)%nat by lia. rewrite Hk. destruct (spec_match t pkg); reflexivity.
    + rewrite (quick_inert_alt t pkg Q). reflexivity.
  - (* not an alternate: the same code path *)
    exists 0%nat. intros f. apply orb_false_iff in Hb as [H1 H2].
    pose proof (pattern_new_nobrace _ _ H1 H2 E) as K.
    rewrite pmatches_nonalt by auto. unfold pmatches_w, nonalt_matches.
    destruct (quick (ptext pt) pkg); cbn [negb andb]; destruct (pkind_of pt); try congruence; reflexivity.
Qed.
