(* Pattern.v - executable model of src/pattern.rs (Pattern::new, matches,
   best_match, alternate_match, quick_pkg_match), of glob 0.3.1's
   Pattern::new / matches with default options (modelled, not verified), and
   of src/pkgname.rs.  Text = Unicode scalar values. *)
Require Import PV.Base PV.Dec PV.Dewey.
Local Open Scope N_scope.

Definition LB : N := 123.  (* { *)
Definition RB : N := 125.  (* } *)
Definition CM : N := 44.   (* , *)

(* ================= glob crate ================= *)
Inductive cspec := Single (c : N) | Range (a b : N).
Inductive gtok := TChar (c : N) | TAny | TStar | TRec | TIn (cs : list cspec) | TNotIn (cs : list cspec).
Inductive mres := Match | Sub | Entire.

(* parse_char_specifiers *)
Fixpoint parse_specs (fuel : nat) (s : str) : list cspec :=
  match fuel with
  | O => []
  | S f =>
      match s with
      | [] => []
      | a :: r =>
          match r with
          | m :: b :: r' => if m =? 45 then Range a b :: parse_specs f r' else Single a :: parse_specs f r
          | _ => Single a :: parse_specs f r
          end
      end
  end.

Definition is_sep (c : N) : bool := c =? 47.
Fixpoint count_stars (s : str) : nat :=
  match s with c :: r => if c =? 42 then S (count_stars r) else 0%nat | [] => 0%nat end.
Definition is_rec (t : gtok) : bool := match t with TRec => true | _ => false end.

Inductive glob_err := EWildcards | ERecursive | ERange.

(* glob::Pattern::new.  [prev]: the character before the current position
   (None at the start); [acc]: tokens so far, most recent first. *)
Definition push_rec (acc : list gtok) : list gtok :=
  match acc with
  | TRec :: _ :: _ => acc    (* collapse consecutive ** *)
  | _ => TRec :: acc
  end.
Fixpoint glob_compile (fuel : nat) (prev : option N) (acc : list gtok) (s : str)
  : res glob_err (list gtok) :=
  match fuel with
  | O => OutOfFuel
  | S f =>
      match s with
      | [] => Val (frev acc)
      | c :: r =>
          if c =? 63 then glob_compile f (Some 63) (TAny :: acc) r
          else if c =? 42 then
            let count := count_stars s in
            let r := skipn count s in
            if Nat.ltb 2 count then Fail EWildcards
            else if Nat.eqb count 2 then
              let starts_ok := match prev with None => true | Some p => is_sep p end in
              if starts_ok then
                match r with
                | [] => glob_compile f (Some 42) (push_rec acc) r
                | c :: r' => if is_sep c then glob_compile f (Some c) (push_rec acc) r'
                             else Fail ERecursive
                end
              else Fail ERecursive
            else glob_compile f (Some 42) (TStar :: acc) r
          else if c =? 91 then
            (* '[' : r = chars[i+1..] *)
            match r with
            | [] => Fail ERange
            | x :: r1 =>
                if x =? 33 then
                  match r1 with
                  | _ :: _ :: _ =>
                      match position 93 (skipn 2 r) with
                      | Some j =>
                          let set := firstn (S j) (skipn 1 r) in
                          glob_compile f (Some 93) (TNotIn (parse_specs (S (length set)) set) :: acc) (skipn (j + 3) r)
                      | None => Fail ERange
                      end
                  | _ => Fail ERange
                  end
                else
                  match r1 with
                  | _ :: _ =>
                      match position 93 (skipn 1 r) with
                      | Some j =>
                          let set := firstn (S j) r in
                          glob_compile f (Some 93) (TIn (parse_specs (S (length set)) set) :: acc) (skipn (j + 2) r)
                      | None => Fail ERange
                      end
                  | [] => Fail ERange
                  end
            end
          else glob_compile f (Some c) (TChar c :: acc) r
      end
  end.
Definition glob_new (p : str) : res glob_err (list gtok) := glob_compile (S (length p)) None [] p.

Definition in_spec (c : N) (s : cspec) : bool :=
  match s with Single x => c =? x | Range a b => (a <=? c) && (c <=? b) end.
Definition tok1 (t : gtok) (c : N) : bool :=
  match t with
  | TChar x => c =? x
  | TAny => true
  | TIn cs => existsb (in_spec c) cs
  | TNotIn cs => negb (existsb (in_spec c) cs)
  | TStar | TRec => false
  end.
(* matches_from with MatchOptions::new() *)
Fixpoint gm (ts : list gtok) (s : str) {struct ts} : mres :=
  match ts with
  | [] => match s with [] => Match | _ => Sub end
  | TStar :: ts' =>
      (fix loop (s : str) : mres :=
         match gm ts' s with
         | Sub => match s with [] => gm ts' [] | _ :: s' => loop s' end
         | m => m
         end) s
  | TRec :: ts' =>
      match gm ts' s with
      | Sub =>
          (fix loop (s : str) : mres :=
             match s with
             | [] => gm ts' []
             | c :: s' => if is_sep c
                          then match gm ts' s' with Sub => loop s' | m => m end
                          else loop s'
             end) s
      | m => m
      end
  | t :: ts' => match s with [] => Entire | c :: s' => if tok1 t c then gm ts' s' else Sub end
  end.
Definition glob_matches (ts : list gtok) (s : str) : bool :=
  match gm ts s with Match => true | _ => false end.

(* ================= Pattern ================= *)
Inductive pat_err := EAlternate | EDewey | EGlob.
Inductive pkind := KAlt | KDewey (d : dewey) | KGlob (ts : list gtok) | KSimple.
Record pattern := mkpat { pkind_of : pkind; ptext : str }.

(* the brace balance check of Pattern::new: a stack of '{' *)
Fixpoint bal (s : str) (d : nat) : bool :=
  match s with
  | [] => Nat.eqb d 0
  | c :: r => if c =? LB then bal r (S d)
              else if c =? RB then match d with O => false | S d' => bal r d' end
              else bal r d
  end.

Definition pattern_new (p : str) : res pat_err pattern :=
  if mem LB p || mem RB p then
    if bal p 0 then Val (mkpat KAlt p) else Fail EAlternate
  else if mem 62 p || mem 60 p then
    match dewey_new p with
    | Val d => Val (mkpat (KDewey d) p)
    | Fail _ => Fail EDewey
    | Panic k => Panic k
    | OutOfFuel => OutOfFuel
    end
  else if mem 42 p || mem 63 p || mem 91 p || mem 93 p then
    match glob_new p with
    | Val ts => Val (mkpat (KGlob ts) p)
    | Fail _ => Fail EGlob
    | Panic k => Panic k
    | OutOfFuel => OutOfFuel
    end
  else Val (mkpat KSimple p).

(* quick_pkg_match *)
Definition is_simple_char (c : N) : bool := is_alnum c || (c =? 45).
Definition quick (p pkg : str) : bool :=
  match p with
  | [] => true
  | a :: p' =>
      if negb (is_simple_char a) then true
      else match pkg with
           | [] => false
           | x :: pkg' =>
               if negb (x =? a) then false
               else match p' with
                    | [] => true
                    | b :: _ =>
                        if negb (is_simple_char b) then true
                        else match pkg' with
                             | [] => false
                             | y :: _ => y =? b
                             end
                    end
           end
  end.

Fixpoint rfind_from (c : N) (s : str) (i : nat) (acc : option nat) : option nat :=
  match s with [] => acc | x :: r => rfind_from c r (S i) (if x =? c then Some i else acc) end.
Definition rfind c s := rfind_from c s 0%nat None.

(* one rewriting step of alternate_match: the strings first ++ m ++ last for
   the alternatives m of the right-most '{' ... first following '}' group.
   None = no '{' (or no '}' after it) -> alternate_match returns false. *)
Definition string_step (p : str) : option (list str) :=
  match rfind LB p with
  | None => None
  | Some i =>
      let first := firstn i p in
      let rest := skipn i p in
      match position RB rest with
      | None => None
      | Some n =>
          let grp := firstn (S n) rest in
          let last := skipn (S n) rest in
          let body := removelast (tl grp) in
          Some (map (fun m => first ++ m ++ last) (split_on CM body))
      end
  end.

(* the loop over the alternatives in alternate_match: the first expansion
   that compiles and matches wins; expansions that do not compile are skipped.
   [rec] is the recursive Pattern::matches call. *)
Definition alt_any (rec : pattern -> option bool) : list str -> option bool :=
  fix go (ms : list str) : option bool :=
    match ms with
    | [] => Some false
    | m :: r =>
        match pattern_new m with
        | Val pt' =>
            match rec pt' with
            | None => None
            | Some true => Some true
            | Some false => go r
            end
        | _ => go r
        end
    end.

(* Pattern::matches on a compiled pattern; fuel bounds the recursion
   alternate_match -> Pattern::new -> matches (depth = number of '{') *)
Fixpoint pmatches (fuel : nat) (pt : pattern) (pkg : str) : option bool :=
  if negb (quick (ptext pt) pkg) then Some false
  else match pkind_of pt with
       | KSimple => Some (eqs (ptext pt) pkg)
       | KDewey d => Some (dewey_matches d pkg)
       | KGlob ts => Some (glob_matches ts pkg)
       | KAlt =>
           match fuel with
           | O => None
           | S f =>
               match string_step (ptext pt) with
               | None => Some false
               | Some cands => alt_any (fun pt' => pmatches f pt' pkg) cands
               end
           end
       end.
Definition nLB (s : str) : nat := count_occ N.eq_dec s LB.
Definition fuel_for (p : str) : nat := S (nLB p).

(* ---------- alternate_match as the code does it: an explicit work list ----------
   Since the repair of the stack overflow on patterns with very many groups the
   implementation no longer recurses through Pattern::matches: patterns still to
   be examined are kept on a Vec used as a stack.  [alt_work] transcribes that
   loop ([fuel] = number of loop iterations); AltProofs.worklist_refines proves
   that it computes what the recursive description [pmatches] computes. *)
(* Pattern::matches on a fully expanded pattern (no '{'): never an alternate *)
Definition nonalt_matches (pt : pattern) (pkg : str) : option bool :=
  if negb (quick (ptext pt) pkg) then Some false
  else match pkind_of pt with
       | KSimple => Some (eqs (ptext pt) pkg)
       | KDewey d => Some (dewey_matches d pkg)
       | KGlob ts => Some (glob_matches ts pkg)
       | KAlt => None      (* would re-enter alternate_match; unreachable, see worklist_leaf *)
       end.
Fixpoint alt_work (fuel : nat) (work : list str) (pkg : str) : option bool :=
  match fuel with
  | O => None
  | S f =>
      match work with
      | [] => Some false
      | p :: rest =>
          if negb (quick p pkg) then alt_work f rest pkg
          else match rfind LB p with
               | None =>
                   match pattern_new p with
                   | Val pt =>
                       match nonalt_matches pt pkg with
                       | None => None
                       | Some true => Some true
                       | Some false => alt_work f rest pkg
                       end
                   | _ => alt_work f rest pkg
                   end
               | Some _ =>
                   match string_step p with
                   | None => alt_work f rest pkg
                   | Some cands => alt_work f (cands ++ rest) pkg
                   end
               end
      end
  end.
Definition pmatches_w (fuel : nat) (pt : pattern) (pkg : str) : option bool :=
  if negb (quick (ptext pt) pkg) then Some false
  else match pkind_of pt with
       | KAlt => alt_work fuel [ptext pt] pkg
       | _ => nonalt_matches pt pkg
       end.

Inductive mobs := MErr (e : pat_err) | MBool (b : bool) | MPanic | MFuel.
(* Pattern::new(p) then .matches(pkg) *)
Definition pm_w (fuel : nat) (p pkg : str) : mobs :=
  match pattern_new p with
  | Val pt => match pmatches_w fuel pt pkg with Some b => MBool b | None => MFuel end
  | Fail e => MErr e
  | Panic _ => MPanic
  | OutOfFuel => MFuel
  end.
Definition pm (p pkg : str) : mobs :=
  match pattern_new p with
  | Val pt => match pmatches (fuel_for p) pt pkg with Some b => MBool b | None => MFuel end
  | Fail e => MErr e
  | Panic _ => MPanic
  | OutOfFuel => MFuel
  end.

(* ================= PkgName ================= *)
(* str::rsplit_once("nb"): split around the last occurrence of the two characters *)
Fixpoint rsplit_nb (s : str) : option (str * str) :=
  match s with
  | [] => None
  | x :: r =>
      match rsplit_nb r with
      | Some (a, b) => Some (x :: a, b)
      | None => match x, r with
                | 110, 98 :: t => Some ([], t)
                | _, _ => None
                end
      end
  end.
Record pkgname := mkpkgname { pn_base : str; pn_version : str; pn_revision : option Z }.
Definition pkgname_new (s : str) : pkgname :=
  let (b, v) := match rsplit_once 45 s with Some (b, v) => (b, v) | None => (s, []) end in
  let r := match rsplit_nb v with
           | Some (_, d) => Some (match parse_i64 d with Some z => z | None => 0%Z end)
           | None => None
           end in
  mkpkgname b v r.

(* ================= best_match ================= *)
(* byte-wise '<' of Rust str comparison; on code points UTF-8 order = code point order *)
Fixpoint str_ltb (a b : str) : bool :=
  match a, b with
  | _, [] => false
  | [], _ :: _ => true
  | x :: a', y :: b' => if x <? y then true else if y <? x then false else str_ltb a' b'
  end.
Inductive which := WNone | WFirst | WSecond.
Definition best2 (fuel : nat) (pt : pattern) (a b : str) : option which :=
  match pmatches fuel pt a, pmatches fuel pt b with
  | Some true, Some false => Some WFirst
  | Some false, Some true => Some WSecond
  | Some false, Some false => Some WNone
  | Some true, Some true =>
      let d1 := mkv (pn_version (pkgname_new a)) in
      let d2 := mkv (pn_version (pkgname_new b)) in
      if dewey_cmp d1 GT d2 then Some WFirst
      else if dewey_cmp d1 LT d2 then Some WSecond
      else if str_ltb a b then Some WFirst else Some WSecond
  | _, _ => None
  end.
(* the same with the work-list loop deciding the two matches (what the code runs; BestProofs.best2_w_refines) *)
Definition best2_w (fuel : nat) (pt : pattern) (a b : str) : option which :=
  match pmatches_w fuel pt a, pmatches_w fuel pt b with
  | Some true, Some false => Some WFirst
  | Some false, Some true => Some WSecond
  | Some false, Some false => Some WNone
  | Some true, Some true =>
      let d1 := mkv (pn_version (pkgname_new a)) in
      let d2 := mkv (pn_version (pkgname_new b)) in
      if dewey_cmp d1 GT d2 then Some WFirst
      else if dewey_cmp d1 LT d2 then Some WSecond
      else if str_ltb a b then Some WFirst else Some WSecond
  | _, _ => None
  end.
