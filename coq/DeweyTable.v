(* DeweyTable.v - the model tokeniser equals the table-driven reading of a
   version string (for digit runs of at most 18 digits), and the code's letter
   weight (ASCII code) orders like the property's (alphabet rank) outside the
   class letter_conflict (C01). *)
Require Import PV.Base PV.Dewey PV.DeweySpec PV.DeweyProofs.
Local Open Scope Z_scope.

(* ---------- digit strings of bounded length ---------- *)
Lemma fold_value_bound ds : forallb is_digit ds = true -> forall acc, 0 <= acc ->
  0 <= fold_left (fun a d => 10 * a + digit_val d) ds acc < (acc + 1) * 10 ^ Z.of_nat (length ds).
Proof.
  induction ds as [|d ds IH]; cbn [forallb fold_left length]; intros H acc Ha.
  - cbn. lia.
  - apply andb_prop in H as [Hd H].
    assert (0 <= digit_val d <= 9) as Dv.
    { unfold digit_val, is_digit in *. apply andb_prop in Hd as [X1 X2]. apply N.leb_le in X1, X2. lia. }
    specialize (IH H (10 * acc + digit_val d) ltac:(lia)).
    rewrite Nat2Z.inj_succ, Z.pow_succ_r by lia.
    assert (0 < 10 ^ Z.of_nat (length ds)) by (apply Z.pow_pos_nonneg; lia).
    nia.
Qed.
Lemma value_bound ds : forallb is_digit ds = true -> 0 <= value ds < 10 ^ Z.of_nat (length ds).
Proof. intros H. pose proof (fold_value_bound ds H 0 ltac:(lia)) as B. unfold value. lia. Qed.
Lemma value_fits ds : forallb is_digit ds = true -> (length ds <= 18)%nat -> 0 <= value ds <= i64max.
Proof.
  intros H L. pose proof (value_bound ds H) as B.
  assert (10 ^ Z.of_nat (length ds) <= 10 ^ 18) by (apply Z.pow_le_mono_r; lia).
  unfold i64max. change (10 ^ 18) with 1000000000000000000 in *. lia.
Qed.
Lemma span_digits_all s : forallb is_digit (fst (span_digits s)) = true.
Proof. induction s as [|c s IH]; cbn; auto. destruct (is_digit c) eqn:E; cbn; auto.
  destruct (span_digits s); cbn in *. rewrite E. auto. Qed.

(* ---------- one token ---------- *)
Definition tok_item (t : tok) : item :=
  match t with TNum z => IComp z | TLetter c => ILetter c | TRev z => IRev z | TSkip => IIgnore end.
Definition head_runs_ok (s : str) : Prop :=
  (length (fst (span_digits s)) <= 18)%nat /\ (length (fst (span_digits (skipn 2 s))) <= 18)%nat.

Lemma lex1_spec1 s : head_runs_ok s ->
  spec1 s = option_map (fun tn => (tok_item (fst tn), snd tn)) (lex1 s).
Proof.
  intros [R1 R2]. destruct s as [|c r]; [reflexivity|]. unfold lex1, spec1, lex1_body.
  set (s := c :: r) in *.
  pose proof (span_digits_all s) as A1. pose proof (span_digits_all (skipn 2 s)) as A2.
  destruct (is_digit c) eqn:Dc.
  - assert (fst (span_digits s) <> []) as Hne.
    { unfold s. cbn [span_digits]. rewrite Dc. destruct (span_digits r). cbn. discriminate. }
    destruct (fst (span_digits s)) as [|d ds] eqn:E; [congruence|].
    pose proof (value_fits (d :: ds) A1 R1) as F.
    cbn [option_map fst snd tok_item]. rewrite cvalue_spec by (auto; unfold i64max; lia). rewrite Z.min_l by lia. reflexivity.
  - assert (fst (span_digits s) = []) as ->.
    { unfold s. cbn [span_digits]. rewrite Dc. reflexivity. }
    destruct ((c =? 46) || (c =? 95))%N; [reflexivity|].
    destruct (prefix_ci m_nb s).
    { cbn [option_map fst snd tok_item]. f_equal. f_equal. f_equal.
      destruct (fst (span_digits (skipn 2 s))) as [|d ds] eqn:E; [reflexivity|].
      pose proof (value_fits (d :: ds) A2 R2) as F. cbv zeta.
      rewrite (crev_eq (d :: ds)) by exact A2.
      replace (value (d :: ds) <=? i64max) with true by (symmetry; apply Z.leb_le; lia). reflexivity. }
    unfold modifiers. cbn [find fst].
    destruct (prefix_ci m_alpha s); [reflexivity|].
    destruct (prefix_ci m_beta s); [reflexivity|].
    destruct (prefix_ci m_pre s); [reflexivity|].
    destruct (prefix_ci m_rc s); [reflexivity|].
    destruct (prefix_ci m_pl s); [reflexivity|].
    destruct (is_alpha c); reflexivity.
Qed.

(* ---------- whole strings ---------- *)
Lemma digit_runs_skipn n k s : digit_runs_le n s -> digit_runs_le n (skipn k s).
Proof. intros H a ds b E Hd. apply (H (firstn k s ++ a) ds b); auto.
  rewrite <- (firstn_skipn k s) at 1. rewrite E, <- app_assoc. reflexivity. Qed.
Lemma digit_runs_head s : digit_runs_le 18 s -> head_runs_ok s.
Proof.
  intros H. split.
  - apply (H [] (fst (span_digits s)) (snd (span_digits s))); [cbn; symmetry; apply span_digits_app|apply span_digits_all].
  - apply (H (firstn 2 s) (fst (span_digits (skipn 2 s))) (snd (span_digits (skipn 2 s)))); [|apply span_digits_all].
    rewrite span_digits_app, firstn_skipn. reflexivity.
Qed.

Lemma tokens_spec_items : forall f s, digit_runs_le 18 s -> (length s < f)%nat ->
  exists ts, tokens f s = Some ts /\ spec_items f s = map tok_item ts.
Proof.
  induction f as [|f IH]; intros s H L; [lia|]. cbn [tokens spec_items].
  rewrite (lex1_spec1 s) by (apply digit_runs_head; auto).
  destruct (lex1 s) as [[t n]|] eqn:E; cbn [option_map fst snd].
  - pose proof (lex1_bounds _ _ _ E) as B.
    destruct (IH (skipn n s)) as (ts & -> & ->); [apply digit_runs_skipn; auto|rewrite skipn_length; lia|].
    exists (t :: ts). split; reflexivity.
  - exists []. split; reflexivity.
Qed.

Lemma comps_of_item t : comps_of t = item_comps code_weight (tok_item t).
Proof. destruct t; reflexivity. Qed.
Lemma revision_items ts : revision ts = items_rev (map tok_item ts).
Proof. unfold revision, items_rev. generalize 0. induction ts as [|t ts IH]; intros z; cbn; auto.
  rewrite IH. destruct t; reflexivity. Qed.

Theorem tokens_follow_table s : digit_runs_le 18 s -> mkv s = mkv_table code_weight s.
Proof.
  intros H. destruct (tokens_spec_items (S (length s)) s H ltac:(lia)) as (ts & T & I).
  pose proof (mkv_opt_mkv s) as M. unfold mkv_opt in M. rewrite T in M. cbn in M. injection M as <-.
  unfold mkv_table, ver_of_toks. rewrite I. f_equal.
  - clear. induction ts as [|t ts IHt]; cbn [flat_map map]; auto. rewrite comps_of_item, IHt. reflexivity.
  - apply revision_items.
Qed.

(* ---------- every string: oversized numbers saturate (D3) ---------- *)
(* Beyond 18 digits the table reading is extended the way the repaired code
   reads them: a version component saturates at i64::MAX, a revision that does
   not fit counts as 0.  With that reading the tokeniser follows the table for
   EVERY string, not only for runs of at most 18 digits. *)
Definition sat_item (it : item) : item :=
  match it with
  | IComp z => IComp (Z.min z i64max)
  | IRev z => IRev (if (z <=? i64max)%Z then z else 0)
  | x => x
  end.
Lemma lex1_spec1_sat s :
  option_map (fun p => (sat_item (fst p), snd p)) (spec1 s) = option_map (fun tn => (tok_item (fst tn), snd tn)) (lex1 s).
Proof.
  destruct s as [|c r]; [reflexivity|]. unfold lex1, spec1, lex1_body.
  set (s := c :: r) in *.
  destruct (is_digit c) eqn:Dc.
  - assert (fst (span_digits s) <> []) as Hne.
    { unfold s. cbn [span_digits]. rewrite Dc. destruct (span_digits r). cbn. discriminate. }
    pose proof (span_digits_all s) as A1.
    destruct (fst (span_digits s)) as [|d ds] eqn:E; [congruence|].
    cbn [option_map fst snd tok_item sat_item]. rewrite cvalue_spec by (auto; unfold i64max; lia). reflexivity.
  - assert (fst (span_digits s) = []) as ->.
    { unfold s. cbn [span_digits]. rewrite Dc. reflexivity. }
    destruct ((c =? 46) || (c =? 95))%N; [reflexivity|].
    destruct (prefix_ci m_nb s).
    { cbn [option_map fst snd tok_item sat_item]. f_equal. f_equal. f_equal.
      pose proof (span_digits_all (skipn 2 s)) as A2.
      destruct (fst (span_digits (skipn 2 s))) as [|d ds] eqn:E; [reflexivity|]. cbv zeta.
      rewrite (crev_eq (d :: ds)) by exact A2. reflexivity. }
    unfold modifiers. cbn [find fst].
    destruct (prefix_ci m_alpha s); [reflexivity|].
    destruct (prefix_ci m_beta s); [reflexivity|].
    destruct (prefix_ci m_pre s); [reflexivity|].
    destruct (prefix_ci m_rc s); [reflexivity|].
    destruct (prefix_ci m_pl s); [reflexivity|].
    destruct (is_alpha c); reflexivity.
Qed.
Lemma tokens_spec_items_sat : forall f s, (length s < f)%nat ->
  exists ts, tokens f s = Some ts /\ map sat_item (spec_items f s) = map tok_item ts.
Proof.
  induction f as [|f IH]; intros s L; [lia|]. cbn [tokens spec_items].
  pose proof (lex1_spec1_sat s) as E1.
  destruct (lex1 s) as [[t n]|] eqn:E; cbn [option_map fst snd] in E1.
  - destruct (spec1 s) as [[it n']|]; [|discriminate]. cbn [option_map fst snd] in E1. injection E1 as E2 ->.
    pose proof (lex1_bounds _ _ _ E) as B.
    destruct (IH (skipn n s)) as (ts & -> & Hs); [rewrite skipn_length; lia|].
    exists (t :: ts). split; [reflexivity|]. cbn [map]. rewrite E2, Hs. reflexivity.
  - destruct (spec1 s) as [[it n']|]; [discriminate|]. exists []. split; reflexivity.
Qed.
Definition mkv_table_sat (w : N -> Z) (s : str) : ver :=
  let its := map sat_item (spec_items (S (length s)) s) in
  mkver (flat_map (item_comps w) its) (items_rev its).
Theorem tokens_follow_table_sat s : mkv s = mkv_table_sat code_weight s.
Proof.
  destruct (tokens_spec_items_sat (S (length s)) s ltac:(lia)) as (ts & T & I).
  pose proof (mkv_opt_mkv s) as M. unfold mkv_opt in M. rewrite T in M. cbn in M. injection M as <-.
  unfold mkv_table_sat, ver_of_toks. rewrite I. f_equal.
  - clear. induction ts as [|t ts IHt]; cbn [flat_map map]; auto. rewrite comps_of_item, IHt. reflexivity.
  - apply revision_items.
Qed.

(* ---------- code weight versus rank weight ---------- *)
Definition valC (tv : bool * Z) : Z := if fst tv then snd tv + 96 else snd tv.
Definition tag_ok (tv : bool * Z) : Prop := fst tv = true -> 1 <= snd tv.

Lemma tail0_tags y : Forall tag_ok y -> tail0 (map valC y) = tail0 (map snd y).
Proof.
  induction 1 as [|[t v] y Hy _ IH]; cbn [map tail0]; auto. unfold valC, tag_ok in *. cbn [fst snd] in *.
  destruct t.
  - specialize (Hy eq_refl). destruct (Z.compare_spec (v + 96) 0), (Z.compare_spec v 0); try lia; auto.
  - rewrite IH. reflexivity.
Qed.
Lemma lexpad_tags : forall x y, Forall tag_ok x -> Forall tag_ok y -> conflict x y = false ->
  lexpad (map valC x) (map valC y) = lexpad (map snd x) (map snd y).
Proof.
  induction x as [|[t1 v1] x IH]; intros y Hx Hy Hc.
  - cbn [map lexpad]. rewrite tail0_tags by auto. reflexivity.
  - destruct y as [|[t2 v2] y].
    + change (lexpad (map valC ((t1, v1) :: x)) (map valC [])) with (tail0 (map valC ((t1, v1) :: x))).
      change (lexpad (map snd ((t1, v1) :: x)) (map snd [])) with (tail0 (map snd ((t1, v1) :: x))).
      apply tail0_tags; auto.
    + inversion Hx as [|? ? H1 Hx']; inversion Hy as [|? ? H2 Hy']; subst.
      cbn [conflict] in Hc. apply orb_false_elim in Hc as [Hc Hc3]. apply orb_false_elim in Hc as [Hc1 Hc2].
      cbn [map lexpad]. rewrite (IH y Hx' Hy' Hc3). unfold valC, tag_ok in *. cbn [fst snd] in *.
      destruct t1, t2; cbn [negb andb] in *.
      * destruct (Z.compare_spec (v1 + 96) (v2 + 96)), (Z.compare_spec v1 v2); try lia; reflexivity.
      * specialize (H1 eq_refl). apply Z.leb_gt in Hc1.
        destruct (Z.compare_spec (v1 + 96) v2), (Z.compare_spec v1 v2); try lia; reflexivity.
      * specialize (H2 eq_refl). apply Z.leb_gt in Hc2.
        destruct (Z.compare_spec v1 (v2 + 96)), (Z.compare_spec v1 v2); try lia; reflexivity.
      * reflexivity.
Qed.

Lemma spec1_letter s c n : spec1 s = Some (ILetter c, n) -> (97 <= c <= 122)%N.
Proof.
  unfold spec1. destruct s as [|x r]; [discriminate|].
  destruct (is_digit x); [discriminate|]. destruct ((x =? 46) || (x =? 95))%N; [discriminate|].
  destruct (prefix_ci m_nb _); [discriminate|].
  destruct (find _ modifiers) as [[? ?]|]; [discriminate|].
  destruct (is_alpha x) eqn:A; [|discriminate]. intros [= <- _].
  unfold is_alpha, lower, is_upper, is_lower in *. destruct ((65 <=? x) && (x <=? 90))%N eqn:U.
  - apply andb_prop in U as [U1 U2]. apply N.leb_le in U1, U2. lia.
  - cbn in A. apply andb_prop in A as [A1 A2]. apply N.leb_le in A1, A2. lia.
Qed.
Lemma spec_items_tags_ok : forall f s, Forall tag_ok (flat_map item_tags (spec_items f s)).
Proof.
  induction f as [|f IH]; intros s; cbn [spec_items]; [constructor|].
  destruct (spec1 s) as [[it n]|] eqn:E; [|constructor]. cbn [flat_map]. apply Forall_app. split; [|apply IH].
  destruct it; cbn [item_tags]; repeat constructor; unfold tag_ok; cbn [fst snd]; try discriminate.
  intros _. apply spec1_letter in E. unfold rank_weight. lia.
Qed.
Lemma comps_code_tags its : flat_map (item_comps code_weight) its = map valC (flat_map item_tags its).
Proof. induction its as [|it its IH]; cbn [flat_map]; auto. rewrite map_app, IH. f_equal.
  destruct it; cbn; auto. unfold valC, code_weight, rank_weight. cbn. f_equal. f_equal. lia. Qed.
Lemma comps_rank_tags its : flat_map (item_comps rank_weight) its = map snd (flat_map item_tags its).
Proof. induction its as [|it its IH]; cbn [flat_map]; auto. rewrite map_app, IH. f_equal. destruct it; reflexivity. Qed.

Theorem table_weights_agree a b : letter_conflict a b = false ->
  vcmp (mkv_table code_weight a) (mkv_table code_weight b) = vcmp (mkv_spec a) (mkv_spec b).
Proof.
  intros H. unfold mkv_spec, mkv_table, vcmp. cbn [comps revn].
  rewrite !comps_code_tags, !comps_rank_tags.
  rewrite lexpad_tags; auto using spec_items_tags_ok.
Qed.

Theorem verdict_outside_known o a b : digit_runs_le 18 a -> digit_runs_le 18 b ->
  letter_conflict a b = false -> verdict_m o a b = verdict_spec o a b.
Proof.
  intros Ha Hb Hc. unfold verdict_m, verdict_spec.
  rewrite cmp_is_padded_lex, (tokens_follow_table a Ha), (tokens_follow_table b Hb), table_weights_agree by auto.
  reflexivity.
Qed.
