(* PatternProofs.v - dispatch of Pattern::new/matches and inertness of the
   first-two-characters fast reject for plain, dewey and glob patterns (C05,
   C02); PkgName lemmas (C18). *)
Require Import PV.Base PV.Dec PV.Dewey PV.DeweySpec PV.DeweyProofs PV.DeweyPat PV.Pattern PV.GlobProofs.
Local Open Scope N_scope.

Definition no_brace (p : str) : Prop := mem LB p = false /\ mem RB p = false.
Definition has_op (p : str) : Prop := mem 62 p = true \/ mem 60 p = true.
Definition has_meta (p : str) : Prop := mem 42 p = true \/ mem 63 p = true \/ mem 91 p = true \/ mem 93 p = true.

(* ---------- quick reject: what a false answer means ---------- *)
Lemma quick_false p pkg : quick p pkg = false ->
  (exists a p', p = a :: p' /\ is_simple_char a = true /\ (pkg = [] \/ exists x r, pkg = x :: r /\ x <> a)) \/
  (exists a b p', p = a :: b :: p' /\ is_simple_char a = true /\ is_simple_char b = true /\
     exists r, pkg = a :: r /\ (r = [] \/ exists y r', r = y :: r' /\ y <> b)).
Proof.
  unfold quick. destruct p as [|a p']; [discriminate|].
  destruct (is_simple_char a) eqn:Sa; cbn [negb]; [|discriminate].
  destruct pkg as [|x pkg']. { intros _. left. exists a, p'. auto. }
  destruct (N.eqb_spec x a) as [->|Hn]; cbn [negb].
  2:{ intros _. left. exists a, p'. repeat split; auto. right. eauto. }
  destruct p' as [|b p'']; [discriminate|].
  destruct (is_simple_char b) eqn:Sb; cbn [negb]; [|discriminate].
  intros H. right. exists a, b, p''. repeat split; auto. exists pkg'. split; auto.
  destruct pkg' as [|y r']; [left; auto|]. right. exists y, r'. split; auto.
  apply N.eqb_neq in H. exact H.
Qed.

(* ---------- plain patterns ---------- *)
Lemma quick_inert_plain p pkg : quick p pkg = false -> eqs p pkg = false.
Proof.
  intros H. destruct (eqs_spec p pkg) as [->|]; auto. exfalso.
  apply quick_false in H as [(a & p' & -> & _ & [E|(x & r & E & Hn)])|(a & b & p' & -> & _ & _ & r & E & [->|(y & r' & -> & Hn)])];
    try discriminate; injection E; congruence.
Qed.

(* ---------- dewey patterns: simple leading characters belong to the base ---------- *)
Lemma simple_not_op c : is_simple_char c = true -> (c =? 62) = false /\ (c =? 60) = false.
Proof.
  unfold is_simple_char, is_alnum, is_alpha, is_upper, is_lower, is_digit. intros H.
  split; apply N.eqb_neq; intros ->; vm_compute in H; discriminate.
Qed.

Lemma scan_ops_first i c s : (c =? 62) = false -> (c =? 60) = false -> scan_ops i (c :: s) = scan_ops (S i) s.
Proof. intros H1 H2. cbn [scan_ops]. rewrite H1, H2. reflexivity. Qed.

Lemma scan_ops_lb i s : Forall (fun t => (i <= fst (fst t))%nat) (scan_ops i s).
Proof.
  revert i; induction s as [|c s IH]; intros i; cbn [scan_ops]; [constructor|].
  assert (Forall (fun t => (i <= fst (fst t))%nat) (scan_ops (S i) s)) as H.
  { eapply Forall_impl; [|apply IH]. intros t; cbn; lia. }
  destruct (c =? 62); [constructor; [destruct (match s with 61 :: _ => true | _ => false end); cbn; lia|exact H]|].
  destruct (c =? 60); [constructor; [destruct (match s with 61 :: _ => true | _ => false end); cbn; lia|exact H]|].
  exact H.
Qed.

(* the base of a compiled dewey pattern is a prefix of the pattern text ending before the first operator *)
Lemma dewey_new_base p d : dewey_new p = Val d ->
  exists i, (i <= length p)%nat /\ dbase d = firstn i p /\
    match scan_ops 0 p with (i0, _, _) :: _ => i0 = i | [] => False end.
Proof.
  unfold dewey_new. destruct (scan_ops 0 p) as [|[[i0 v0] o0] [|[[i1 v1] o1] [|? ?]]] eqn:E; try discriminate.
  - destruct (slice p v0 (length p)); [|discriminate]. destruct (slice p 0 i0) as [b|] eqn:Sb; [|discriminate].
    intros [= <-]. unfold slice in Sb. destruct (Nat.leb 0 i0 && Nat.leb i0 (length p))%bool eqn:B; [|discriminate].
    injection Sb as <-. apply andb_prop in B as [_ B]. apply Nat.leb_le in B. exists i0. cbn. rewrite Nat.sub_0_r. auto.
  - destruct (is_lower_bound o0 && is_upper_bound o1)%bool; [|discriminate].
    destruct (slice p v0 i1); [|discriminate]. destruct (slice p v1 (length p)); [|discriminate].
    destruct (slice p 0 i0) as [b|] eqn:Sb; [|discriminate].
    intros [= <-]. unfold slice in Sb. destruct (Nat.leb 0 i0 && Nat.leb i0 (length p))%bool eqn:B; [|discriminate].
    injection Sb as <-. apply andb_prop in B as [_ B]. apply Nat.leb_le in B. exists i0. cbn. rewrite Nat.sub_0_r. auto.
Qed.

Lemma quick_inert_dewey p d pkg : dewey_new p = Val d -> quick p pkg = false -> dewey_matches d pkg = false.
Proof.
  intros Hd Hq. destruct (dewey_matches d pkg) eqn:M; auto. exfalso.
  apply matches_iff in M as (v & -> & _ & _).
  apply dewey_new_base in Hd as (i & Hi & Hb & Hs).
  apply quick_false in Hq as [(a & p' & -> & Sa & Hq)|(a & b & p' & -> & Sa & Sb & r & E & Hq)].
  - apply simple_not_op in Sa as [A1 A2]. rewrite scan_ops_first in Hs by auto.
    pose proof (scan_ops_lb 1 p') as L. destruct (scan_ops 1 p') as [|[[i0 ?] ?] ?]; [tauto|]. subst i0.
    inversion L as [|? ? L1 _]; subst. cbn in L1. destruct i as [|i]; [lia|].
    rewrite Hb in Hq. cbn in Hq. destruct Hq as [Hq|(x & r & Hq & Hn)]; [discriminate|]. congruence.
  - apply simple_not_op in Sa as [A1 A2]. apply simple_not_op in Sb as [B1 B2].
    rewrite scan_ops_first in Hs by auto. rewrite scan_ops_first in Hs by auto.
    pose proof (scan_ops_lb 2 p') as L. destruct (scan_ops 2 p') as [|[[i0 ?] ?] ?]; [tauto|]. subst i0.
    inversion L as [|? ? L1 _]; subst. cbn in L1. destruct i as [|[|i]]; try lia.
    rewrite Hb in E. cbn in E. injection E as <-.
    destruct Hq as [Hq|(y & r' & Hq & Hn)]; [discriminate|]. congruence.
Qed.

(* ---------- glob patterns: simple leading characters are literal tokens ---------- *)
Lemma glob_compile_acc : forall f prev acc s ts, glob_compile f prev acc s = Val ts -> exists ts', ts = List.rev acc ++ ts'.
Proof.
  induction f as [|f IH]; intros prev acc s ts; cbn [glob_compile]; [discriminate|].
  assert (forall acc', (exists t0, List.rev acc' = List.rev acc ++ t0) -> forall prev' s', glob_compile f prev' acc' s' = Val ts -> exists ts', ts = List.rev acc ++ ts') as Step.
  { intros acc' (t0 & Ht0) prev' s' H. apply IH in H as (ts' & ->). rewrite Ht0, <- app_assoc. eauto. }
  assert (forall x, exists t0, List.rev (x :: acc) = List.rev acc ++ t0) as Cons by (intros x; cbn; eauto).
  assert (exists t0, List.rev (push_rec acc) = List.rev acc ++ t0) as Push.
  { unfold push_rec. destruct acc as [|[] [|? ?]]; cbn; eauto; exists []; rewrite app_nil_r; auto. }
  destruct s as [|c r]. { rewrite frev_eq. intros [= <-]. exists []. rewrite app_nil_r. auto. }
  destruct (c =? 63). { apply Step, Cons. }
  destruct (c =? 42).
  { destruct (Nat.ltb 2 _); [discriminate|]. destruct (Nat.eqb _ 2).
    - destruct (match prev with None => true | Some p => is_sep p end); [|discriminate].
      destruct (skipn _ _) as [|c' r']; [apply Step, Push|]. destruct (is_sep c'); [apply Step, Push|discriminate].
    - apply Step, Cons. }
  destruct (c =? 91).
  { destruct r as [|x r1]; [discriminate|]. destruct (x =? 33).
    - destruct r1 as [|? [|? ?]]; try discriminate. destruct (position 93 _); [apply Step, Cons|discriminate].
    - destruct r1 as [|? ?]; try discriminate. destruct (position 93 _); [apply Step, Cons|discriminate]. }
  apply Step, Cons.
Qed.

Lemma simple_not_meta c : is_simple_char c = true -> (c =? 63) = false /\ (c =? 42) = false /\ (c =? 91) = false.
Proof.
  unfold is_simple_char, is_alnum, is_alpha, is_upper, is_lower, is_digit. intros H.
  repeat split; apply N.eqb_neq; intros ->; vm_compute in H; discriminate.
Qed.
Lemma glob_compile_simple f prev acc c s :
  is_simple_char c = true -> glob_compile (S f) prev acc (c :: s) = glob_compile f (Some c) (TChar c :: acc) s.
Proof. intros H. apply simple_not_meta in H as (H1 & H2 & H3). cbn [glob_compile]. rewrite H1, H2, H3. reflexivity. Qed.

Lemma gm_char_head c ts s : gm (TChar c :: ts) s = Match -> exists r, s = c :: r.
Proof. cbn [gm]. destruct s as [|x r]; [discriminate|]. cbn [tok1]. destruct (N.eqb_spec x c) as [->|]; [eauto|discriminate]. Qed.
Lemma gm_char2_head c1 c2 ts s : gm (TChar c1 :: TChar c2 :: ts) s = Match -> exists r, s = c1 :: c2 :: r.
Proof. cbn [gm]. destruct s as [|x r]; [discriminate|]. cbn [tok1]. destruct (N.eqb_spec x c1) as [->|]; [|discriminate].
  intros H. apply gm_char_head in H as (r' & ->). eauto. Qed.

Lemma quick_inert_glob p ts pkg : glob_new p = Val ts -> quick p pkg = false -> glob_matches ts pkg = false.
Proof.
  unfold glob_new, glob_matches. intros Hc Hq. destruct (gm ts pkg) eqn:M; auto. exfalso.
  apply quick_false in Hq as [(a & p' & -> & Sa & Hq)|(a & b & p' & -> & Sa & Sb & r & E & Hq)].
  - cbn [length] in Hc. rewrite glob_compile_simple in Hc by auto.
    apply glob_compile_acc in Hc as (ts' & ->). cbn in M. apply gm_char_head in M as (r & ->).
    destruct Hq as [Hq|(x & r' & Hq & Hn)]; [discriminate|]. congruence.
  - cbn [length] in Hc. rewrite !glob_compile_simple in Hc by auto.
    apply glob_compile_acc in Hc as (ts' & ->). cbn in M. apply gm_char2_head in M as (r0 & ->).
    injection E as <-. destruct Hq as [Hq|(y & r' & Hq & Hn)]; [discriminate|]. congruence.
Qed.

(* ---------- dispatch ---------- *)
Lemma orb_false2 a b : a = false -> b = false -> a || b = false. Proof. intros -> ->; auto. Qed.
Lemma pattern_new_dewey p : no_brace p -> has_op p ->
  pattern_new p = match dewey_new p with
                  | Val d => Val (mkpat (KDewey d) p) | Fail _ => Fail EDewey
                  | Panic k => Panic k | OutOfFuel => OutOfFuel end.
Proof. intros [B1 B2] H. unfold pattern_new. rewrite B1, B2. cbn [orb].
  replace (mem 62 p || mem 60 p) with true; auto. destruct H as [-> | ->]; auto using orb_true_r. Qed.
Lemma pattern_new_glob p : no_brace p -> no_op p -> has_meta p ->
  pattern_new p = match glob_new p with
                  | Val ts => Val (mkpat (KGlob ts) p) | Fail _ => Fail EGlob
                  | Panic k => Panic k | OutOfFuel => OutOfFuel end.
Proof. intros [B1 B2] [O1 O2] H. unfold pattern_new. rewrite B1, B2, O1, O2. cbn [orb].
  replace (mem 42 p || mem 63 p || mem 91 p || mem 93 p) with true; auto.
  destruct H as [-> | [-> | [-> | ->]]]; rewrite ?orb_true_r; auto. Qed.
Lemma pattern_new_plain p : no_brace p -> no_op p -> ~ has_meta p -> pattern_new p = Val (mkpat KSimple p).
Proof. intros [B1 B2] [O1 O2] H. unfold pattern_new. rewrite B1, B2, O1, O2. cbn [orb].
  unfold has_meta in H.
  destruct (mem 42 p), (mem 63 p), (mem 91 p), (mem 93 p); cbn; auto; exfalso; apply H; auto. Qed.

Lemma pmatches_nonalt f pt pkg : pkind_of pt <> KAlt ->
  pmatches f pt pkg = Some (quick (ptext pt) pkg &&
    match pkind_of pt with
    | KSimple => eqs (ptext pt) pkg | KDewey d => dewey_matches d pkg | KGlob ts => glob_matches ts pkg | KAlt => false end).
Proof. intros H. destruct f; cbn [pmatches]; destruct (quick (ptext pt) pkg); cbn; auto; destruct (pkind_of pt); auto; congruence. Qed.

(* the Pattern entry point for a dewey pattern = the Dewey entry point *)
Theorem pattern_agrees_with_dewey p pkg : no_brace p -> has_op p ->
  pm p pkg = match dewey_new p with
             | Val d => MBool (dewey_matches d pkg) | Fail _ => MErr EDewey
             | Panic _ => MPanic | OutOfFuel => MFuel end.
Proof.
  intros B H. unfold pm. rewrite pattern_new_dewey by auto.
  destruct (dewey_new p) as [d| | |] eqn:E; auto.
  rewrite pmatches_nonalt by (cbn; discriminate). cbn [ptext pkind_of].
  destruct (quick p pkg) eqn:Q; cbn; auto. rewrite (quick_inert_dewey _ _ _ E Q). reflexivity.
Qed.
Theorem glob_dispatch p pkg : no_brace p -> no_op p -> has_meta p ->
  pm p pkg = match glob_new p with
             | Val ts => MBool (glob_matches ts pkg) | Fail _ => MErr EGlob
             | Panic _ => MPanic | OutOfFuel => MFuel end.
Proof.
  intros B O H. unfold pm. rewrite pattern_new_glob by auto.
  destruct (glob_new p) as [ts| | |] eqn:E; auto.
  rewrite pmatches_nonalt by (cbn; discriminate). cbn [ptext pkind_of].
  destruct (quick p pkg) eqn:Q; cbn; auto. rewrite (quick_inert_glob _ _ _ E Q). reflexivity.
Qed.
Theorem plain_dispatch p pkg : no_brace p -> no_op p -> ~ has_meta p -> pm p pkg = MBool (eqs p pkg).
Proof.
  intros B O H. unfold pm. rewrite pattern_new_plain by auto.
  rewrite pmatches_nonalt by (cbn; discriminate). cbn [ptext pkind_of].
  destruct (quick p pkg) eqn:Q; cbn; auto. rewrite (quick_inert_plain _ _ Q). reflexivity.
Qed.
