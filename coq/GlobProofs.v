(* GlobProofs.v - the glob crate's matcher (three-valued result, Entire
   short-cut, star loop) equals the declarative whole-string glob relation;
   compile o render = id on the shell-glob subset pkgsrc uses (C05). *)
Require Import PV.Base PV.Dec PV.Dewey PV.Pattern.
Local Open Scope nat_scope.

(* ---------- declarative whole-string glob relation ---------- *)
Inductive gmatch : list gtok -> str -> Prop :=
| gm_nil : gmatch [] []
| gm_star t s1 s2 : gmatch t s2 -> gmatch (TStar :: t) (s1 ++ s2)
| gm_one tk t c s : tk <> TStar -> tk <> TRec -> tok1 tk c = true -> gmatch t s -> gmatch (tk :: t) (c :: s).

Definition no_rec (ts : list gtok) : Prop := forallb (fun t => negb (is_rec t)) ts = true.
Definition is_star (t : gtok) : bool := match t with TStar => true | _ => false end.

Fixpoint sloop (f : str -> mres) (s : str) : mres :=
  match f s with
  | Sub => match s with [] => f [] | _ :: s' => sloop f s' end
  | m => m
  end.
Lemma gm_star_unfold ts s : gm (TStar :: ts) s = sloop (gm ts) s.
Proof. cbn [gm]. induction s as [|c s IH].
  - cbn. destruct (gm ts []); reflexivity.
  - cbn [sloop]. simpl. destruct (gm ts (c :: s)); try reflexivity. exact IH.
Qed.

Lemma sloop_spec f s r : sloop f s = r ->
  exists s1 s2, s = s1 ++ s2 /\ f s2 = r /\
    (forall a b, s1 = a ++ b -> b <> [] -> f (b ++ s2) = Sub).
Proof.
  revert r; induction s as [|c s IH]; intros r H; cbn [sloop] in H.
  - exists [], []. split; [reflexivity|]. split.
    + destruct (f []) eqn:E; congruence.
    + intros a b E; destruct a, b; cbn in E; congruence.
  - destruct (f (c :: s)) eqn:E.
    + exists [], (c::s). repeat split; try congruence. intros a b E'; destruct a, b; cbn in E'; congruence.
    + destruct (IH r H) as (s1 & s2 & -> & Hf & Hsub).
      exists (c :: s1), s2. repeat split; auto.
      intros a b Hab Hb. destruct a as [|x a]; cbn in Hab.
      * subst b. cbn. exact E.
      * injection Hab as -> ->. eapply Hsub; eauto.
    + exists [], (c::s). repeat split; try congruence. intros a b E'; destruct a, b; cbn in E'; congruence.
Qed.

Lemma no_rec_cons t ts : no_rec (t :: ts) -> is_rec t = false /\ no_rec ts.
Proof. unfold no_rec; cbn. intros H. apply andb_prop in H as [H1 H2]. split; auto. destruct (is_rec t); auto; discriminate. Qed.

Theorem gm_sound ts : no_rec ts -> forall s, gm ts s = Match -> gmatch ts s.
Proof.
  induction ts as [|t ts IH]; intros NR s H.
  - destruct s; cbn in H; [constructor | congruence].
  - apply no_rec_cons in NR as [Nt NR]. destruct t; try discriminate.
    1,2,4,5: destruct s as [|x s']; cbn [gm] in H; [congruence|];
      destruct (tok1 _ x) eqn:E; [|congruence]; constructor; [congruence | congruence | exact E | auto].
    rewrite gm_star_unfold in H. apply sloop_spec in H as (s1 & s2 & -> & Hf & _).
    constructor; auto.
Qed.

Lemma sloop_complete f s1 s2 :
  f s2 = Match -> (forall a b, s1 = a ++ b -> f (b ++ s2) <> Entire) -> sloop f (s1 ++ s2) = Match.
Proof.
  induction s1 as [|c s1 IH]; intros Hm Hne; cbn [app].
  - destruct s2; cbn [sloop]; rewrite Hm; reflexivity.
  - cbn [sloop]. destruct (f (c :: s1 ++ s2)) eqn:E; try reflexivity.
    + apply IH; auto. intros a b ->. apply (Hne (c :: a) b). reflexivity.
    + exfalso. apply (Hne [] (c :: s1)); auto.
Qed.

Lemma gmatch_inv_nonstar t ts s : is_star t = false -> gmatch (t :: ts) s ->
  exists c s', s = c :: s' /\ tok1 t c = true /\ gmatch ts s'.
Proof. intros Hs H; inversion H; subst; [discriminate|]. eauto. Qed.
Lemma gmatch_inv_star ts s : gmatch (TStar :: ts) s -> exists s1 s2, s = s1 ++ s2 /\ gmatch ts s2.
Proof. intros H; inversion H; subst; [eauto|congruence]. Qed.

Lemma suffix_cases {A} (a b a' b' : list A) : a ++ b = a' ++ b' ->
  (exists m, a = a' ++ m /\ b' = m ++ b) \/ (exists m, m <> [] /\ a' = a ++ m /\ b = m ++ b').
Proof.
  revert a'; induction a as [|x a IH]; intros a' H; cbn in H.
  - destruct a' as [|y a']; cbn in H.
    + left. exists []. split; auto.
    + right. exists (y :: a'). repeat split; auto; congruence.
  - destruct a' as [|y a']; cbn in H.
    + left. exists (x :: a). split; auto.
    + injection H as -> H. destruct (IH _ H) as [(m & -> & ->)|(m & Hm & -> & ->)].
      * left. exists m. auto.
      * right. exists m. auto.
Qed.

Lemma gm_both ts : no_rec ts ->
  (forall s, gmatch ts s -> gm ts s = Match) /\
  (forall s, gm ts s = Entire -> forall a b, s = a ++ b -> ~ gmatch ts b).
Proof.
  induction ts as [|t ts IH]; intros NR.
  - split.
    + intros s H; inversion H; reflexivity.
    + intros s H; destruct s; cbn in H; congruence.
  - apply no_rec_cons in NR as [Nt NR]. destruct (IH NR) as [IHc IHe]. destruct (is_star t) eqn:St.
    + destruct t; try discriminate. split.
      * intros s H. apply gmatch_inv_star in H as (s1 & s2 & -> & H2).
        rewrite gm_star_unfold. apply sloop_complete; auto.
        intros a b -> HE. eapply IHe in HE; [|reflexivity]. eauto.
      * intros s H a b -> Hm. rewrite gm_star_unfold in H.
        apply sloop_spec in H as (s1 & s2 & E & Hf & Hsub).
        apply gmatch_inv_star in Hm as (b1 & b2 & -> & H2).
        rewrite app_assoc in E.
        destruct (suffix_cases _ _ _ _ E) as [(m & E1 & ->)|(m & Hm & -> & ->)].
        -- eapply IHe; eauto.
        -- apply IHc in H2. rewrite (Hsub (a ++ b1) m) in H2; auto; congruence.
    + split.
      * intros s H. apply gmatch_inv_nonstar in H as (c & s' & -> & H1 & H2); auto.
        destruct t; try discriminate; cbn [gm]; rewrite H1; auto.
      * intros s H a b -> Hm.
        apply gmatch_inv_nonstar in Hm as (c & s' & -> & H1 & H2); auto.
        assert (gm ts (match a with [] => s' | _ :: a' => a' ++ c :: s' end) = Entire) as HE.
        { destruct t; try discriminate; destruct a as [|x a']; cbn [app gm] in H;
            match type of H with (if ?b then _ else _) = _ => destruct b; [exact H|congruence] end. }
        destruct a as [|x a'].
        -- eapply (IHe _ HE []); [reflexivity| exact H2].
        -- eapply (IHe _ HE (a' ++ [c])); [rewrite <- app_assoc; reflexivity| exact H2].
Qed.

Theorem gm_correct ts s : no_rec ts -> (gm ts s = Match <-> gmatch ts s).
Proof. intros NR. split; [apply gm_sound; auto | apply gm_both; auto]. Qed.
Corollary glob_matches_correct ts s : no_rec ts -> (glob_matches ts s = true <-> gmatch ts s).
Proof. intros NR. rewrite <- gm_correct by auto. unfold glob_matches. destruct (gm ts s); split; congruence. Qed.
