(* PkgPathM.v - executable model of src/pkgpath.rs (PkgPath::new and its two
   accessors) and src/depend.rs (Depend::new).  Text; the path component model
   is the one of Distinfo.v. *)
Require Import PV.Base PV.Dec PV.Dewey PV.Pattern PV.Summary PV.Distinfo.
Require Import Coq.Strings.String.
Import Coq.Lists.List ListNotations.
Local Open Scope N_scope.

Record pkgpath := mkpkgpath { pp_short : str; pp_full : str }.
(* PathBuf::push of a relative path *)
Definition path_push (base p : str) : str :=
  match frev base with
  | [] => p
  | 47 :: _ => base ++ p
  | _ => base ++ 47 :: p
  end.
Definition pkgpath_new (p : str) : option pkgpath :=
  match pcomps p with
  | [CNormal _; CNormal _] => Some (mkpkgpath p (path_push (lit "../../") p))
  | [CParent; CParent; CNormal a; CNormal b] => Some (mkpkgpath (path_push a b) p)
  | _ => None
  end.
(* PkgPath equality: both PathBufs, component-wise *)
Definition pkgpath_eqb (x y : pkgpath) : bool :=
  path_eqb (pp_short x) (pp_short y) && path_eqb (pp_full x) (pp_full y).

Inductive dep_err := DInvalid | DPattern | DPkgPath.
Record depend := mkdepend { dep_pattern : pattern; dep_path : pkgpath }.
Definition depend_new (s : str) : res dep_err depend :=
  match split_on 58 s with
  | [x; y] =>
      match pattern_new x with
      | Val pt => match pkgpath_new y with Some pp => Val (mkdepend pt pp) | None => Fail DPkgPath end
      | Fail _ => Fail DPattern
      | Panic k => Panic k
      | OutOfFuel => OutOfFuel
      end
  | _ => Fail DInvalid
  end.
