(* PkgNameProofs.v - PKGNAME decomposition (C18). *)
Require Import PV.Base PV.Dec PV.Dewey PV.DeweySpec PV.DeweyProofs PV.Pattern.
Local Open Scope N_scope.

Theorem pkgname_rebuild n : mem 45 n = true ->
  pn_base (pkgname_new n) ++ 45 :: pn_version (pkgname_new n) = n /\ mem 45 (pn_version (pkgname_new n)) = false.
Proof.
  intros H. unfold pkgname_new. destruct (rsplit_once 45 n) as [[b v]|] eqn:E.
  - apply rsplit_once_some in E as [-> Hm]. cbn. auto.
  - apply rsplit_once_none in E. congruence.
Qed.
Theorem pkgname_no_dash n : mem 45 n = false ->
  pn_base (pkgname_new n) = n /\ pn_version (pkgname_new n) = [] /\ pn_revision (pkgname_new n) = None.
Proof. intros H. unfold pkgname_new. apply rsplit_once_none in H. rewrite H. cbn. auto. Qed.
Lemma pkgname_version_eq b v : mem 45 v = false -> pn_version (pkgname_new (b ++ 45 :: v)) = v /\ pn_base (pkgname_new (b ++ 45 :: v)) = b.
Proof. intros H. unfold pkgname_new. rewrite rsplit_once_app by auto. cbn. auto. Qed.

(* no "nb" inside a string of digits *)
Lemma rsplit_nb_digits ds : all_digits ds -> rsplit_nb ds = None.
Proof.
  unfold all_digits. induction ds as [|d ds IH]; cbn [rsplit_nb forallb]; auto. intros H. apply andb_prop in H as [Hd H].
  rewrite IH by auto. destruct d as [|p]; auto. destruct (Pos.eq_dec p 110) as [->|Hn]; [discriminate|].
  repeat (destruct p as [p|p|]; auto); congruence.
Qed.
Lemma rsplit_nb_app p ds : all_digits ds -> rsplit_nb (p ++ 110 :: 98 :: ds) = Some (p, ds).
Proof.
  intros H. induction p as [|x p IH]; cbn [app rsplit_nb].
  - cbn [rsplit_nb]. rewrite rsplit_nb_digits by auto. reflexivity.
  - rewrite IH. reflexivity.
Qed.
Lemma parse_i64_digits ds : all_digits ds -> parse_i64 ds = match ds with [] => None | _ => if (value ds <=? i64max)%Z then Some (value ds) else None end.
Proof.
  unfold all_digits. intros H. destruct ds as [|d ds]; [reflexivity|].
  assert (is_digit d = true) as Hd by (cbn in H; apply andb_prop in H; tauto).
  rewrite parse_i64_eq. unfold parse_i64_spec.
  assert (match d with 45 => option_map Z.opp (parse_digits ds) | 43 => parse_digits ds | _ => parse_digits (d :: ds) end = parse_digits (d :: ds)) as ->.
  { destruct d as [|p]; auto. destruct (Pos.eq_dec p 45) as [->|N1]; [discriminate|].
    destruct (Pos.eq_dec p 43) as [->|N2]; [discriminate|].
    repeat (destruct p as [p|p|]; auto); congruence. }
  unfold parse_digits. rewrite H.
  assert (0 <= value (d :: ds))%Z as Hnn.
  { assert (forall l acc, forallb is_digit l = true -> (0 <= acc)%Z -> (0 <= fold_left (fun a x => 10 * a + digit_val x) l acc)%Z) as G.
    { induction l as [|x l IHl]; cbn [fold_left forallb]; intros acc Hl Ha; auto. apply andb_prop in Hl as [Hx Hl].
      apply IHl; auto. unfold digit_val, is_digit in *. apply andb_prop in Hx as [X1 X2]. apply N.leb_le in X1, X2. lia. }
    apply (G (d :: ds) 0%Z); auto. lia. }
  replace (i64min <=? value (d :: ds))%Z with true by (symmetry; apply Z.leb_le; unfold i64min; lia).
  reflexivity.
Qed.

Theorem pkgname_revision b p ds : all_digits ds -> mem 45 (p ++ 110 :: 98 :: ds) = false ->
  let n := b ++ 45 :: p ++ 110 :: 98 :: ds in
  pn_revision (pkgname_new n) = Some (nbval ds) /\ revn (mkv (pn_version (pkgname_new n))) = nbval ds.
Proof.
  intros Hd Hm n. subst n. destruct (pkgname_version_eq b _ Hm) as [Ev _].
  split; [|rewrite Ev; apply revision_of_nb_suffix; auto].
  unfold pkgname_new. rewrite rsplit_once_app by auto. cbn [pn_revision].
  rewrite rsplit_nb_app by auto. rewrite parse_i64_digits by auto. unfold nbval.
  destruct ds; auto. destruct (value _ <=? i64max)%Z; auto.
Qed.

Lemma rsplit_nb_none v : rsplit_nb v = None -> forall a c, v <> a ++ 110 :: 98 :: c.
Proof.
  induction v as [|x v IH]; intros H a c E; [destruct a; discriminate|].
  cbn [rsplit_nb] in H. destruct (rsplit_nb v) as [[? ?]|] eqn:R; [discriminate|].
  destruct a as [|y a]; cbn in E.
  - injection E as -> ->. discriminate.
  - injection E as -> E. eapply IH; eauto.
Qed.
Lemma rsplit_nb_some v a c : rsplit_nb v = Some (a, c) -> v = a ++ 110 :: 98 :: c.
Proof.
  revert a c; induction v as [|x v IH]; intros a c H; [discriminate|]. cbn [rsplit_nb] in H.
  destruct (rsplit_nb v) as [[a' c']|] eqn:R.
  - injection H as <- <-. rewrite (IH _ _ eq_refl). reflexivity.
  - destruct x as [|px]; [discriminate|]. destruct (Pos.eq_dec px 110) as [->|Hn].
    + destruct v as [|y v']; [discriminate|]. destruct y as [|py]; [discriminate|].
      destruct (Pos.eq_dec py 98) as [->|Hm]; [injection H as <- <-; reflexivity|].
      exfalso. repeat (destruct py as [py|py|]; try discriminate); congruence.
    + exfalso. repeat (destruct px as [px|px|]; try discriminate); congruence.
Qed.
Theorem pkgname_no_nb n : (forall a c, pn_version (pkgname_new n) <> a ++ 110 :: 98 :: c) -> pn_revision (pkgname_new n) = None.
Proof.
  unfold pkgname_new. destruct (match rsplit_once 45 n with Some (b, v) => (b, v) | None => (n, []) end) as [b v].
  cbn [pn_version pn_revision]. intros H. destruct (rsplit_nb v) as [[a c]|] eqn:R; auto.
  apply rsplit_nb_some in R. exfalso. eapply H; eauto.
Qed.
