(* DeweyPat.v - proofs about Dewey::new / Dewey::matches (properties C02, C03). *)
Require Import PV.Base PV.Dewey PV.DeweySpec PV.DeweyProofs.
Local Open Scope N_scope.

Definition opstr (o : op) : str :=
  match o with GE => [62;61] | GT => [62] | LE => [60;61] | LT => [60] end.
Definition no_op (s : str) : Prop := mem 62 s = false /\ mem 60 s = false.
Definition not_starts_eq (s : str) : Prop := match s with 61 :: _ => False | _ => True end.

Lemma no_op_cons c s : no_op (c :: s) <-> (c =? 62) = false /\ (c =? 60) = false /\ no_op s.
Proof. unfold no_op; cbn. rewrite !orb_false_iff. rewrite (N.eqb_sym c 62), (N.eqb_sym c 60). tauto. Qed.

Lemma scan_ops_noop i s : no_op s -> scan_ops i s = [].
Proof.
  revert i; induction s as [|c s IH]; intros i H; [reflexivity|].
  apply no_op_cons in H as (H1 & H2 & H3). cbn [scan_ops]. rewrite H1, H2. auto.
Qed.
Lemma scan_ops_app i a s : no_op a -> scan_ops i (a ++ s) = scan_ops (i + length a) s.
Proof.
  revert i; induction a as [|c a IH]; intros i H; cbn [app length].
  - f_equal. lia.
  - apply no_op_cons in H as (H1 & H2 & H3). cbn [scan_ops]. rewrite H1, H2, IH by auto. f_equal. lia.
Qed.
Lemma scan_ops_op i o s : not_starts_eq s ->
  scan_ops i (opstr o ++ s) = (i, (i + length (opstr o))%nat, o) :: scan_ops (i + length (opstr o)) s.
Proof.
  intros Hs. destruct o; cbn [opstr app length scan_ops N.eqb Pos.eqb];
  try (replace (i + 2)%nat with (S (S i)) by lia; reflexivity);
  replace (i + 1)%nat with (S i) by lia;
  destruct s as [|c s]; try reflexivity; destruct c as [|p]; try reflexivity;
  cbn in Hs; destruct (Pos.eq_dec p 61) as [->|Hn]; try tauto;
  repeat (destruct p as [p|p|]; try reflexivity; try congruence).
Qed.

Lemma slice_mid a m b : slice (a ++ m ++ b) (length a) (length a + length m) = Some m.
Proof.
  unfold slice. rewrite !app_length.
  replace (Nat.leb (length a) (length a + length m)) with true by (symmetry; apply Nat.leb_le; lia).
  replace (Nat.leb (length a + length m) (length a + (length m + length b))) with true by (symmetry; apply Nat.leb_le; lia).
  cbn. rewrite skipn_app, skipn_all, Nat.sub_diag. cbn.
  replace (length a + length m - length a)%nat with (length m) by lia.
  rewrite firstn_app, firstn_all, Nat.sub_diag. cbn. rewrite app_nil_r. reflexivity.
Qed.
Lemma slice_prefix a b : slice (a ++ b) 0 (length a) = Some a.
Proof. pose proof (slice_mid [] a b) as H. cbn in H. exact H. Qed.
Lemma slice_suffix a b : slice (a ++ b) (length a) (length (a ++ b)) = Some b.
Proof. pose proof (slice_mid a b []) as H. rewrite !app_nil_r in H. rewrite app_length. exact H. Qed.

(* one bound: parts are exactly base, operator, mkv of the bound text *)
Theorem new_one_bound base o B : no_op base -> no_op B -> not_starts_eq B ->
  dewey_new (base ++ opstr o ++ B) = Val (mkdewey base [(o, mkv B)]).
Proof.
  intros Hb HB He. unfold dewey_new.
  rewrite scan_ops_app, scan_ops_op, scan_ops_noop by auto. cbn [Nat.add].
  replace (base ++ opstr o ++ B) with ((base ++ opstr o) ++ B) by (rewrite app_assoc; reflexivity).
  replace (length base + length (opstr o))%nat with (length (base ++ opstr o)) by (rewrite app_length; reflexivity).
  rewrite slice_suffix. rewrite <- app_assoc, slice_prefix. reflexivity.
Qed.

(* two bounds *)
Theorem new_two_bounds base o1 B1 o2 B2 :
  no_op base -> no_op B1 -> no_op B2 -> not_starts_eq B1 -> not_starts_eq B2 ->
  dewey_new (base ++ opstr o1 ++ B1 ++ opstr o2 ++ B2) =
    if is_lower_bound o1 && is_upper_bound o2
    then Val (mkdewey base [(o1, mkv B1); (o2, mkv B2)]) else Fail EOrder.
Proof.
  intros Hb H1 H2 E1 E2. unfold dewey_new.
  assert (not_starts_eq (B1 ++ opstr o2 ++ B2)) as E1'.
  { destruct B1 as [|c B1]; [destruct o2; exact I|exact E1]. }
  rewrite scan_ops_app, scan_ops_op, scan_ops_app, scan_ops_op, scan_ops_noop by auto.
  cbn [Nat.add]. destruct (is_lower_bound o1 && is_upper_bound o2); [|reflexivity].
  set (p := base ++ opstr o1 ++ B1 ++ opstr o2 ++ B2).
  assert (slice p (length base + length (opstr o1)) (length base + length (opstr o1) + length B1) = Some B1) as ->.
  { unfold p. replace (base ++ opstr o1 ++ B1 ++ opstr o2 ++ B2) with ((base ++ opstr o1) ++ B1 ++ (opstr o2 ++ B2))
      by (rewrite <- !app_assoc; reflexivity).
    rewrite <- (app_length base (opstr o1)). apply slice_mid. }
  assert (slice p (length base + length (opstr o1) + length B1 + length (opstr o2)) (length p) = Some B2) as ->.
  { unfold p. replace (base ++ opstr o1 ++ B1 ++ opstr o2 ++ B2) with ((base ++ opstr o1 ++ B1 ++ opstr o2) ++ B2)
      by (rewrite <- !app_assoc; reflexivity).
    replace (length base + length (opstr o1) + length B1 + length (opstr o2))%nat with (length (base ++ opstr o1 ++ B1 ++ opstr o2))
      by (rewrite !app_length; lia).
    apply slice_suffix. }
  unfold p. rewrite slice_prefix. reflexivity.
Qed.

(* matching: the text before the last '-' must be the base, the text after it
   must satisfy every bound; no '-' never matches *)
Theorem matches_iff d pkg : dewey_matches d pkg = true <->
  exists v, pkg = dbase d ++ 45 :: v /\ mem 45 v = false /\
            forall o k, In (o, k) (dbounds d) -> dewey_cmp (mkv v) o k = true.
Proof.
  unfold dewey_matches. destruct (rsplit_once 45 pkg) as [[b v]|] eqn:E.
  - apply rsplit_once_some in E as [-> Hm]. destruct (eqs_spec b (dbase d)) as [->|Hn].
    + rewrite forallb_forall. split.
      * intros H. exists v. repeat split; auto. intros o k Hin. apply (H (o, k) Hin).
      * intros (v' & Hv & Hm' & H). 
        assert (rsplit_once 45 (dbase d ++ 45 :: v) = Some (dbase d, v')) as X by (rewrite Hv; apply rsplit_once_app; auto).
        rewrite rsplit_once_app in X by auto. injection X as <-. intros [o k] Hin. apply H; auto.
    + split; [discriminate|]. intros (v' & Hv & Hm' & _). exfalso. apply Hn.
      assert (rsplit_once 45 (b ++ 45 :: v) = Some (dbase d, v')) as X by (rewrite Hv; apply rsplit_once_app; auto).
      rewrite rsplit_once_app in X by auto. congruence.
  - split; [discriminate|]. intros (v & -> & _). exfalso.
    apply rsplit_once_none in E. rewrite <- not_true_iff_false in E. apply E. apply mem_In, in_or_app. right. left. reflexivity.
Qed.
Corollary matches_no_dash d pkg : mem 45 pkg = false -> dewey_matches d pkg = false.
Proof. intros H. unfold dewey_matches. apply rsplit_once_none in H. rewrite H. reflexivity. Qed.

Theorem api_verdict base o A B :
  mem 45 A = false -> mem 62 base = false -> mem 60 base = false ->
  mem 62 B = false -> mem 60 B = false -> (match B with 61 :: _ => False | _ => True end) ->
  exists d, dewey_new (base ++ opstr o ++ B) = Val d /\
            dewey_matches d (base ++ 45 :: A) = dewey_cmp (mkv A) o (mkv B).
Proof.
  intros HA Hb1 Hb2 HB1 HB2 He. eexists. split; [apply new_one_bound; unfold no_op; auto|].
  unfold dewey_matches. rewrite rsplit_once_app by auto. cbn [dbase dbounds]. rewrite eqs_refl.
  cbn. rewrite andb_true_r. reflexivity.
Qed.
Theorem two_bounds_is_and b o1 v1 o2 v2 pkg :
  dewey_matches (mkdewey b [(o1, v1); (o2, v2)]) pkg =
  dewey_matches (mkdewey b [(o1, v1)]) pkg && dewey_matches (mkdewey b [(o2, v2)]) pkg.
Proof.
  unfold dewey_matches. destruct (rsplit_once 45 pkg) as [[bb v]|]; [|reflexivity]. cbn [dbase dbounds].
  destruct (eqs bb b); [|reflexivity]. cbn. rewrite !andb_true_r. reflexivity.
Qed.

Theorem new_no_op p : no_op p -> dewey_new p = Fail ENoOp.
Proof. intros H. unfold dewey_new. rewrite scan_ops_noop by auto. reflexivity. Qed.
Theorem new_too_many p : (3 <= length (scan_ops 0 p))%nat -> dewey_new p = Fail ETooMany.
Proof. unfold dewey_new. destruct (scan_ops 0 p) as [|[[? ?] ?] [|[[? ?] ?] [|? ?]]]; cbn; try lia. reflexivity. Qed.

(* every slice taken by Dewey::new is in range: the index arithmetic never panics *)
Lemma scan_ops_shape i s : forall t, In t (scan_ops i s) ->
  (i <= fst (fst t) /\ fst (fst t) < snd (fst t) <= i + length s)%nat.
Proof.
  revert i; induction s as [|c s IH]; intros i t; cbn [scan_ops]; [intros []|].
  assert (forall t, In t (scan_ops (S i) s) -> (i <= fst (fst t) /\ fst (fst t) < snd (fst t) <= i + length (c :: s))%nat) as R.
  { intros t' H. apply IH in H. cbn [length]. lia. }
  assert (forall o1 o2, In t ((if match s with 61 :: _ => true | _ => false end then (i, S (S i), o1) else (i, S i, o2)) :: scan_ops (S i) s) ->
     (i <= fst (fst t) /\ fst (fst t) < snd (fst t) <= i + length (c :: s))%nat) as Q.
  { intros o1 o2 [<-|H]; [|apply R; auto]. destruct s as [|x s']; cbn; [lia|].
    destruct x as [|px]; cbn; try lia.
    destruct (Pos.eq_dec px 61) as [->|]; cbn; [lia|].
    repeat (destruct px as [px|px|]; cbn; try lia). }
  destruct (c =? 62); [apply Q|]. destruct (c =? 60); [apply Q|]. apply R.
Qed.
Lemma scan_ops_sorted i s : forall a b r, scan_ops i s = a :: b :: r -> (snd (fst a) <= fst (fst b))%nat.
Proof.
  revert i; induction s as [|c s IH]; intros i a b r; cbn [scan_ops]; [discriminate|].
  set (ne := match s with 61 :: _ => true | _ => false end).
  assert (forall o1 o2, (if ne then (i, S (S i), o1) else (i, S i, o2)) :: scan_ops (S i) s = a :: b :: r ->
          (snd (fst a) <= fst (fst b))%nat) as Q.
  { intros o1 o2 [= <- E]. unfold ne. destruct s as [|x s'].
    - discriminate.
    - assert (In b (scan_ops (S i) (x :: s'))) as Hin by (rewrite E; left; auto).
      destruct (N.eqb_spec x 61) as [->|Hx].
      + cbn [scan_ops] in E. change (61 =? 62) with false in E. change (61 =? 60) with false in E. cbv iota in E.
        assert (In b (scan_ops (S (S i)) s')) as Hin2 by (rewrite E; left; auto).
        apply scan_ops_shape in Hin2. cbn. lia.
      + apply scan_ops_shape in Hin.
        replace (match x with 61 => true | _ => false end) with false.
        2:{ destruct x as [|px]; auto. destruct (Pos.eq_dec px 61) as [->|]; [congruence|].
            repeat (destruct px as [px|px|]; auto); congruence. }
        cbn. lia. }
  destruct (c =? 62); [apply Q|]. destruct (c =? 60); [apply Q|]. apply IH.
Qed.
Lemma slice_some s a b : (a <= b <= length s)%nat -> exists t, slice s a b = Some t.
Proof. intros H. unfold slice.
  replace (Nat.leb a b) with true by (symmetry; apply Nat.leb_le; lia).
  replace (Nat.leb b (length s)) with true by (symmetry; apply Nat.leb_le; lia). cbn. eauto. Qed.

Theorem new_never_panics p : is_panic (dewey_new p) = false.
Proof.
  unfold dewey_new. destruct (scan_ops 0 p) as [|[[i0 v0] o0] [|[[i1 v1] o1] [|? ?]]] eqn:E; auto.
  - assert (In (i0, v0, o0) (scan_ops 0 p)) as H by (rewrite E; left; auto).
    apply scan_ops_shape in H. cbn in H.
    destruct (slice_some p v0 (length p)) as (t & ->); [lia|].
    destruct (slice_some p 0 i0) as (b & ->); [lia|]. reflexivity.
  - destruct (is_lower_bound o0 && is_upper_bound o1); auto.
    assert (In (i0, v0, o0) (scan_ops 0 p)) as H0 by (rewrite E; left; auto).
    assert (In (i1, v1, o1) (scan_ops 0 p)) as H1 by (rewrite E; right; left; auto).
    apply scan_ops_shape in H0, H1. pose proof (scan_ops_sorted _ _ _ _ _ E) as S. cbn in *.
    destruct (slice_some p v0 i1) as (t0 & ->); [lia|].
    destruct (slice_some p v1 (length p)) as (t1 & ->); [lia|].
    destruct (slice_some p 0 i0) as (b & ->); [lia|]. reflexivity.
Qed.
