(* DeweyPat.v - proofs about Dewey::new / Dewey::matches (properties C02, C03). *)
Require Import PV.Base PV.Dewey PV.DeweySpec PV.DeweyProofs.
Local Open Scope N_scope.

Definition opstr (o : op) : str :=
  match o with GE => [62;61] | GT => [62] | LE => [60;61] | LT => [60] end.
Definition no_op (s : str) : Prop := mem 62 s = false /\ mem 60 s = false.
Definition not_starts_eq (s : str) : Prop := match s with 61 :: _ => False | _ => True end.

Lemma no_op_cons c s : no_op (c :: s) <-> (c =? 62) = false /\ (c =? 60) = false /\ no_op s.
Proof. unfold no_op; cbn. rewrite !orb_false_iff. rewrite (N.eqb_sym c 62), (N.eqb_sym c 60). tauto. Qed.

Lemma scan_ops_noop i s : no_op s -> scan_ops i s = [].
Proof.
  revert i; induction s as [|c s IH]; intros i H; [reflexivity|].
  apply no_op_cons in H as (H1 & H2 & H3). cbn [scan_ops]. rewrite H1, H2. auto.
Qed.
Lemma scan_ops_app i a s : no_op a -> scan_ops i (a ++ s) = scan_ops (i + length a) s.
Proof.
  revert i; induction a as [|c a IH]; intros i H; cbn [app length].
  - f_equal. lia.
  - apply no_op_cons in H as (H1 & H2 & H3). cbn [scan_ops]. rewrite H1, H2, IH by auto. f_equal. lia.
Qed.
Lemma scan_ops_op i o s : not_starts_eq s ->
  scan_ops i (opstr o ++ s) = (i, (i + length (opstr o))%nat, o) :: scan_ops (i + length (opstr o)) s.
Proof.
  intros Hs. destruct o; cbn [opstr app length scan_ops N.eqb Pos.eqb];
  try (replace (i + 2)%nat with (S (S i)) by lia; reflexivity);
  replace (i + 1)%nat with (S i) by lia;
  destruct s as [|c s]; try reflexivity; destruct c as [|p]; try reflexivity;
  cbn in Hs; destruct (Pos.eq_dec p 61) as [->|Hn]; try tauto;
  repeat (destruct p as [p|p|]; try reflexivity; try congruence).
Qed.

Lemma slice_mid a m b : slice (a ++ m ++ b) (length a) (length a + length m) = Some m.
Proof.
  unfold slice. rewrite !app_length.
  replace (Nat.leb (length a) (length a + length m)) with true by (symmetry; apply Nat.leb_le; lia).
  replace (Nat.leb (length a + length m) (length a + (length m + length b))) with true by (symmetry; apply Nat.leb_le; lia).
  cbn. rewrite skipn_app, skipn_all, Nat.sub_diag. cbn.
  replace (length a + length m - length a)%nat with (length m) by lia.
  rewrite firstn_app, firstn_all, Nat.sub_diag. cbn. rewrite app_nil_r. reflexivity.
Qed.
Lemma slice_prefix a b : slice (a ++ b) 0 (length a) = Some a.
Proof. pose proof (slice_mid [] a b) as H. cbn in H. exact H. Qed.
Lemma slice_suffix a b : slice (a ++ b) (length a) (length (a ++ b)) = Some b.
Proof. pose proof (slice_mid a b []) as H. rewrite !app_nil_r in H. rewrite app_length. exact H. Qed.

(* one bound: parts are exactly base, operator, mkv of the bound text *)
Theorem new_one_bound base o B : no_op base -> no_op B -> not_starts_eq B ->
  dewey_new (base ++ opstr o ++ B) = Val (mkdewey base [(o, mkv B)]).
Proof.
  intros Hb HB He. unfold dewey_new.
  rewrite scan_ops_app, scan_ops_op, scan_ops_noop by auto. cbn [Nat.add].
  replace (base ++ opstr o ++ B) with ((base ++ opstr o) ++ B) by (rewrite app_assoc; reflexivity).
  replace (length base + length (opstr o))%nat with (length (base ++ opstr o)) by (rewrite app_length; reflexivity).
  rewrite slice_suffix. rewrite <- app_assoc, slice_prefix. reflexivity.
Qed.

(* two bounds *)
Theorem new_two_bounds base o1 B1 o2 B2 :
  no_op base -> no_op B1 -> no_op B2 -> not_starts_eq B1 -> not_starts_eq B2 ->
  dewey_new (base ++ opstr o1 ++ B1 ++ opstr o2 ++ B2) =
    if is_lower_bound o1 && is_upper_bound o2
    then Val (mkdewey base [(o1, mkv B1); (o2, mkv B2)]) else Fail EOrder.
Proof.
  intros Hb H1 H2 E1 E2. unfold dewey_new.
  assert (not_starts_eq (B1 ++ opstr o2 ++ B2)) as E1'.
  { destruct B1 as [|c B1]; [destruct o2; exact I|exact E1]. }
  rewrite scan_ops_app, scan_ops_op, scan_ops_app, scan_ops_op, scan_ops_noop by auto.
  cbn [Nat.add]. destruct (is_lower_bound o1 && is_upper_bound o2); [|reflexivity].
  set (p := base ++ opstr o1 ++ B1 ++ opstr o2 ++ B2).
  assert (slice p (length base + length (opstr o1)) (length base + length (opstr o1) + length B1) = Some B1) as ->.
  { unfold p. replace (base ++ opstr o1 ++ B1 ++ opstr o2 ++ B2) with ((base ++ opstr o1) ++ B1 ++ (opstr o2 ++ B2))
      by (rewrite <- !app_assoc; reflexivity).
    rewrite <- (app_length base (opstr o1)). apply slice_mid. }
  assert (slice p (length base + length (opstr o1) + length B1 + length (opstr o2)) (length p) = Some B2) as ->.
  { unfold p. replace (base ++ opstr o1 ++ B1 ++ opstr o2 ++ B2) with ((base ++ opstr o1 ++ B1 ++ opstr o2) ++ B2)
      by (rewrite <- !app_assoc; reflexivity).
    replace (length base + length (opstr o1) + length B1 + length (opstr o2))%nat with (length (base ++ opstr o1 ++ B1 ++ opstr o2))
      by (rewrite !app_length; lia).
    apply slice_suffix. }
  unfold p. rewrite slice_prefix. reflexivity.
Qed.

(* matching: the text before the last '-' must be the base, the text after it
   must satisfy every bound; no '-' never matches *)
Theorem matches_iff d pkg : dewey_matches d pkg = true <->
  exists v, pkg = dbase d ++ 45 :: v /\ mem 45 v = false /\
            forall o k, In (o, k) (dbounds d) -> dewey_cmp (mkv v) o k = true.
Proof.
  unfold dewey_matches. destruct (rsplit_once 45 pkg) as [[b v]|] eqn:E.
  - apply rsplit_once_some in E as [-> Hm]. destruct (eqs_spec b (dbase d)) as [->|Hn].
    + rewrite forallb_forall. split.
      * intros H. exists v. repeat split; auto. intros o k Hin. apply (H (o, k) Hin).
      * intros (v' & Hv & Hm' & H). 
        assert (rsplit_once 45 (dbase d ++ 45 :: v) = Some (dbase d, v')) as X by (rewrite Hv; apply rsplit_once_app; auto).
        rewrite rsplit_once_app in X by auto. injection X as <-. intros [o k] Hin. apply H; auto.
    + split; [discriminate|]. intros (v' & Hv & Hm' & _). exfalso. apply Hn.
      assert (rsplit_once 45 (b ++ 45 :: v) = Some (dbase d, v')) as X by (rewrite Hv; apply rsplit_once_app; auto).
      rewrite rsplit_once_app in X by auto. congruence.
  - split; [discriminate|]. intros (v & -> & _). exfalso.
    apply rsplit_once_none in E. rewrite <- not_true_iff_false in E. apply E. apply mem_In, in_or_app. right. left. reflexivity.
Qed.
Corollary matches_no_dash d pkg : mem 45 pkg = false -> dewey_matches d pkg = false.
Proof. intros H. unfold dewey_matches. apply rsplit_once_none in H. rewrite H. reflexivity. Qed.

Theorem api_verdict base o A B :
  mem 45 A = false -> mem 62 base = false -> mem 60 base = false ->
  mem 62 B = false -> mem 60 B = false -> (match B with 61 :: _ => False | _ => True end) ->
  exists d, dewey_new (base ++ opstr o ++ B) = Val d /\
            dewey_matches d (base ++ 45 :: A) = dewey_cmp (mkv A) o (mkv B).
Proof.
  intros HA Hb1 Hb2 HB1 HB2 He. eexists. split; [apply new_one_bound; unfold no_op; auto|].
  unfold dewey_matches. rewrite rsplit_once_app by auto. cbn [dbase dbounds]. rewrite eqs_refl.
  cbn. rewrite andb_true_r. reflexivity.
Qed.
Theorem two_bounds_is_and b o1 v1 o2 v2 pkg :
  dewey_matches (mkdewey b [(o1, v1); (o2, v2)]) pkg =
  dewey_matches (mkdewey b [(o1, v1)]) pkg && dewey_matches (mkdewey b [(o2, v2)]) pkg.
Proof.
  unfold dewey_matches. destruct (rsplit_once 45 pkg) as [[bb v]|]; [|reflexivity]. cbn [dbase dbounds].
  destruct (eqs bb b); [|reflexivity]. cbn. rewrite !andb_true_r. reflexivity.
Qed.
