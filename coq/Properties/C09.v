(* Property C09 - streamed pkg_summary parsing is independent of how the bytes
   are chunked.  Statements only.  [ok_entry e]: a complete, well-kinded entry
   whose values have no CR/LF and whose text is valid UTF-8; [print_stream es]:
   each entry followed by a blank line; [cs]: ANY list of chunks. *)
Require Import PV.Base PV.Dec PV.Summary PV.SummaryProofs PV.StreamProofs.
Require Import Coq.Strings.String.
Import Coq.Lists.List ListNotations.
Local Open Scope N_scope.

(* well-formed stream, any partition (cuts inside a character or inside the
   blank line included): every write succeeds, the collected entries are the
   stream's entries in order, nothing is left in the buffer, and printing the
   collection reproduces the stream *)
Theorem C09_chunk_independent : forall es cs, Forall ok_entry es -> concat cs = print_stream es ->
  exists es', writes entry parse_rec_entry utf8_valid stream_init cs = WOk entry (mkst entry [] es') /\
              Forall2 same_values es' es /\ print_stream es' = concat cs.
Proof. exact stream_chunk_independent. Qed.
(* in particular the one-call result and every chunked result coincide *)
Theorem C09_same_as_whole : forall es cs, Forall ok_entry es -> concat cs = print_stream es ->
  writes entry parse_rec_entry utf8_valid stream_init cs =
  writes entry parse_rec_entry utf8_valid stream_init [print_stream es].
Proof.
  intros es cs H E.
  assert (forall cs', concat cs' = print_stream es ->
          writes entry parse_rec_entry utf8_valid stream_init cs' =
          WOk entry (mkst entry [] (map parsed_entry (map rec_of es)))) as G.
  { intros cs' E'. rewrite (print_stream_join es H) in E'.
    apply (chunk_independent entry parse_rec_entry utf8_valid parsed_entry is_utf8).
    - intros l Hl. apply utf8_valid_join. eapply Forall_impl; [|exact Hl]. intros r (_ & _ & U). exact U.
    - apply Forall_map. eapply Forall_impl; [|exact H]. apply ok_entry_okrec.
    - exact E'. }
  rewrite (G cs E). rewrite (G [print_stream es]); [reflexivity|]. cbn. apply app_nil_r.
Qed.
(* a malformed (but UTF-8) entry after any number of good ones: all earlier
   writes succeed, the write that receives the last byte of that entry fails,
   and the entries collected are exactly the good ones *)
Theorem C09_malformed : forall es bad rest cs,
  Forall ok_entry es -> good bad -> parse_rec_entry bad = None ->
  utf8_valid (print_stream es ++ term bad ++ rest) = true ->
  concat cs = print_stream es ++ term bad ++ rest ->
  exists j stj st', (j < length cs)%nat /\
    writes entry parse_rec_entry utf8_valid stream_init (firstn j cs) = WOk entry stj /\
    stream_write stj (nth j cs []) = WErr entry st' /\
    Forall2 same_values (entries entry st') es /\
    (length (concat (firstn j cs)) < length (print_stream es ++ term bad) <= length (concat (firstn (S j) cs)))%nat.
Proof. exact stream_malformed. Qed.
(* the text of every such entry has the record shape the splitter relies on *)
Theorem C09_record_shape : forall e, ok_entry e ->
  good (rec_of e) /\ print_entry e = rec_of e ++ [10] /\ exists e', parse_entry (rec_of e) = Val e' /\ same_values e' e.
Proof.
  intros e (W & V & C & U). pose proof (ok_entry_okrec e (conj W (conj V (conj C U)))) as (G & _ & _).
  split; auto. split; [apply print_entry_rec; auto|]. destruct (parse_rec_of e W V C) as (e' & P & E). eauto.
Qed.
