(* Property C15 - PLIST queries agree with each other and with the entry
   sequence.  Statements only.  An entry list is read block by block: a block is
   a run of non-file entries [seg] followed by one file entry. *)
Require Import PV.Base PV.Dec PV.Summary PV.Plist PV.PlistProofs.
Require Import Coq.Strings.String.
Import Coq.Lists.List ListNotations.
Local Open Scope N_scope.

(* files(): a file is listed unless an @ignore lies between it and the preceding file (or the start) *)
Theorem C15_files_block : forall seg f rest ign, no_files seg ->
  files_from ign (seg ++ PFile f :: rest) = (if ign || existsb is_ignore seg then [] else [f]) ++ files_from false rest.
Proof. exact files_block. Qed.
Theorem C15_files_tail : forall seg ign, no_files seg -> files_from ign seg = [].
Proof. exact files_tail. Qed.
(* files_prefixed(): the same files, prefixed with the most recent @cwd plus '/' unless it ends in one *)
Theorem C15_prefix_rule : forall seg f rest ign pfx, no_files seg ->
  files_prefixed_from ign pfx (seg ++ PFile f :: rest) =
  (if ign || existsb is_ignore seg then [] else [with_slash (last_cwd pfx seg) ++ f]) ++ files_prefixed_from false (last_cwd pfx seg) rest.
Proof. exact prefixed_block. Qed.
Theorem C15_prefixed_same_count : forall l ign pfx, length (files_prefixed_from ign pfx l) = length (files_from ign l).
Proof. exact prefixed_same_count. Qed.
(* install / uninstall lists: exactly the same files, plus exactly the listed kinds, original order *)
Theorem C15_cmds_block : forall keep seg f rest ign, no_files seg -> keep PIgnore = false ->
  cmds_from keep ign (seg ++ PFile f :: rest) =
  filter keep seg ++ (if ign || existsb is_ignore seg then [] else [PFile f]) ++ cmds_from keep false rest.
Proof. exact cmds_block. Qed.
Theorem C15_views_same_files : forall keep, (forall f, keep (PFile f) = false \/ True) -> forall l ign,
  files_of (cmds_from keep ign l) = files_from ign l.
Proof. exact views_same_files. Qed.
Theorem C15_only_listed_kinds : forall keep l ign e, In e (cmds_from keep ign l) -> is_file e = true \/ keep e = true.
Proof. exact cmds_only_listed_kinds. Qed.
Theorem C15_preserve_iff : forall l, is_preserve l = true <-> In PPreserve l.
Proof. exact is_preserve_iff. Qed.

Definition ex15 : list pentry :=
  [PIgnore; PFile (lit "+BUILD"); PFile (lit "a"); PCwd (lit "/p/"); PIgnore; PMode None; PIgnore; PFile (lit "x"); PFile (lit "b");
   PCwd (lit "q"); PUnExec (lit "u"); PFile (lit "c"); PIgnore].
Example C15_example :
  files ex15 = [lit "a"; lit "b"; lit "c"] /\
  files_prefixed ex15 = [lit "/a"; lit "/p/b"; lit "q/c"] /\
  install_cmds ex15 = [PFile (lit "a"); PCwd (lit "/p/"); PMode None; PFile (lit "b"); PCwd (lit "q"); PFile (lit "c")] /\
  uninstall_cmds ex15 = [PFile (lit "a"); PCwd (lit "/p/"); PMode None; PFile (lit "b"); PCwd (lit "q"); PUnExec (lit "u"); PFile (lit "c")].
Proof. vm_compute. repeat split. Qed.
