(* Property C02 - a dewey pattern matches exactly the same-base packages
   inside its range.  Statements only. *)
Require Import PV.Base PV.Dec PV.Dewey PV.DeweySpec PV.DeweyProofs PV.DeweyPat PV.Pattern PV.PatternProofs.
Require Import Coq.Strings.String.
Import Coq.Lists.List ListNotations.
Local Open Scope N_scope.

(* compile: exactly base, operator(s) and the versions of the bound texts;
   bound texts may be empty, operators adjacent *)
Theorem C02_one_bound : forall base o B, no_op base -> no_op B -> not_starts_eq B ->
  dewey_new (base ++ opstr o ++ B) = Val (mkdewey base [(o, mkv B)]).
Proof. exact new_one_bound. Qed.
Theorem C02_two_bounds : forall base o1 B1 o2 B2,
  no_op base -> no_op B1 -> no_op B2 -> not_starts_eq B1 -> not_starts_eq B2 ->
  dewey_new (base ++ opstr o1 ++ B1 ++ opstr o2 ++ B2) =
    if is_lower_bound o1 && is_upper_bound o2
    then Val (mkdewey base [(o1, mkv B1); (o2, mkv B2)]) else Fail EOrder.
Proof. exact new_two_bounds. Qed.
(* rejected: no operator; more than two *)
Theorem C02_no_operator : forall p, no_op p -> dewey_new p = Fail ENoOp.
Proof. exact new_no_op. Qed.
Theorem C02_too_many : forall p, (3 <= length (scan_ops 0 p))%nat -> dewey_new p = Fail ETooMany.
Proof. exact new_too_many. Qed.
Theorem C02_never_panics : forall p, is_panic (dewey_new p) = false.
Proof. exact new_never_panics. Qed.

(* match: base byte for byte before the LAST '-', every bound satisfied *)
Theorem C02_matches_iff : forall d pkg, dewey_matches d pkg = true <->
  exists v, pkg = dbase d ++ 45 :: v /\ mem 45 v = false /\
            forall o k, In (o, k) (dbounds d) -> dewey_cmp (mkv v) o k = true.
Proof. exact matches_iff. Qed.
Theorem C02_no_dash_never_matches : forall d pkg, mem 45 pkg = false -> dewey_matches d pkg = false.
Proof. exact matches_no_dash. Qed.

(* brace-free patterns: Pattern agrees with the standalone Dewey matcher *)
Theorem C02_pattern_agrees_with_dewey : forall p pkg, no_brace p -> has_op p ->
  pm p pkg = match dewey_new p with
             | Val d => MBool (dewey_matches d pkg) | Fail _ => MErr EDewey
             | Panic _ => MPanic | OutOfFuel => MFuel end.
Proof. exact pattern_agrees_with_dewey. Qed.

Example C02_example :
  pm (lit "pkg>=1.0<2") (lit "pkg-1.0") = MBool true /\ pm (lit "pkg>=1.0<2") (lit "pkg-2.0") = MBool false /\
  pm (lit "pkg>=1.0<2") (lit "pkgx-1.0") = MBool false /\ pm (lit "pkg<1>2") (lit "pkg-1") = MErr EDewey /\
  pm (lit "a-b>=<") (lit "a-b-") = MBool false /\ pm (lit "a-b>=<=") (lit "a-b-") = MBool true.
Proof. vm_compute. repeat split. Qed.
