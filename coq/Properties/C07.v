(* Property C07 - pkg_summary entries round-trip: generate->parse and canonical
   parse->generate; the printed form depends only on the current values.
   Statements only.  [wk] = every stored value has the kind of its variable
   (an invariant of the API, C07_api_preserves_kinds), [values_ok] = no CR/LF in
   values, sizes in i64, line lists non-empty, [complete] = the eleven required
   variables are set. *)
Require Import PV.Base PV.Dec PV.Summary PV.SummaryProofs.
Require Import Coq.Strings.String.
Import Coq.Lists.List ListNotations.
Local Open Scope N_scope.

(* the 23 names: printing and parsing a variable name are inverse *)
Theorem C07_names_bijective : (forall v, parse_name (vname v) = Some v) /\
  (forall s v, parse_name s = Some v -> s = vname v).
Proof. split; [exact parse_name_vname|exact parse_name_inv]. Qed.
(* generate -> parse: every one of the 23 variables reads back as it was *)
Theorem C07_parse_print : forall e, wk e -> values_ok e -> complete e ->
  exists e', parse_entry (print_entry e) = Val e' /\ forall v, e' v = e v.
Proof. exact parse_print. Qed.
(* canonical parse -> generate: byte for byte *)
Theorem C07_print_parse_print : forall e, wk e -> values_ok e -> complete e ->
  exists e', parse_entry (print_entry e) = Val e' /\ print_entry e' = print_entry e.
Proof. exact print_parse_print. Qed.
(* the printed form is a function of the current values only ... *)
Theorem C07_print_depends_on_values_only : forall e1 e2, (forall v, e1 v = e2 v) -> print_entry e1 = print_entry e2.
Proof. exact print_ext. Qed.
(* ... so any two call histories with the same final values print the same text *)
Theorem C07_history_independent : forall ops1 ops2 e1 e2,
  run empty ops1 = Val e1 -> run empty ops2 = Val e2 -> (forall v, e1 v = e2 v) -> print_entry e1 = print_entry e2.
Proof. exact history_independent. Qed.
(* one 'VAR=value' line per value, variables in the fixed order *)
Theorem C07_print_shape : forall e, print_entry e = term_lines (printed_lines e).
Proof. exact print_entry_lines. Qed.
(* every sequence of API calls keeps values well-kinded: no setter, pusher or getter panics *)
Theorem C07_api_preserves_kinds : forall ops e, wk e -> Forall (fun o => op_ok o = true) ops ->
  exists e', run e ops = Val e' /\ wk e'.
Proof. exact run_wk. Qed.
Theorem C07_getters_total : forall e v, wk e -> Summary.get e v = Val (e v).
Proof. exact get_wk. Qed.

(* canonical text, stated on the text alone ([is_canonical]: the text is its
   lines each ended by one LF; every line is 'VAR=value' with a known VAR and, for
   the two sizes, an integer in printed form; lines grouped by variable in the
   fixed order, single-valued variables at most once; the eleven required
   variables present): such a text parses and prints back byte for byte ... *)
Theorem C07_canonical_text_round_trip : forall t, is_canonical t = true ->
  exists e, parse_entry t = Val e /\ print_entry e = t.
Proof. exact canonical_print_parse. Qed.
(* ... and conversely: is_canonical decides exactly the texts that parse and print
   back byte for byte, whatever they contain *)
Theorem C07_canonical_text_iff : forall t, is_canonical t = true <->
  exists e, parse_entry t = Val e /\ print_entry e = t.
Proof. exact canonical_iff. Qed.
(* ... and every generated text is of that form *)
Theorem C07_printed_is_canonical : forall e, wk e -> values_ok e -> complete e -> is_canonical (print_entry e) = true.
Proof. exact printed_is_canonical. Qed.

Definition ex_entry : entry :=
  fun v => match v with
           | BuildDate => Some (VS (lit "2024-01-01")) | Categories => Some (VS (lit "devel"))
           | Comment => Some (VS (lit "a=b c")) | Description => Some (VA [lit "line one"; []; lit "x=y"])
           | MachineArch => Some (VS (lit "x86_64")) | Opsys => Some (VS (lit "NetBSD")) | OsVersion => Some (VS (lit "10.0"))
           | Pkgname => Some (VS (lit "foo-1.0nb2")) | Pkgpath => Some (VS (lit "devel/foo"))
           | PkgtoolsVersion => Some (VS (lit "20240101")) | SizePkg => Some (VI (-9223372036854775808)%Z)
           | Depends => Some (VA [lit "bar>=1"]) | _ => None
           end.
Example C07_example : exists e', parse_entry (print_entry ex_entry) = Val e' /\
  print_entry e' = print_entry ex_entry /\ e' Description = ex_entry Description /\ e' SizePkg = ex_entry SizePkg.
Proof. eexists. split; [vm_compute; reflexivity|]. vm_compute. repeat split. Qed.
Example C07_canonical_example :
  is_canonical (print_entry ex_entry) = true /\
  is_canonical (print_entry (upd ex_entry Comment (VS (lit "a" ++ [13] ++ lit "b")))) = true /\
  is_canonical (print_entry ex_entry ++ lit "x") = false /\
  is_canonical (lit "SIZE_PKG=+5" ++ [10] ++ print_entry ex_entry) = false.
Proof. vm_compute. repeat split. Qed.
