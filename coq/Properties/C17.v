(* Property C17 - no input makes a parser or matcher panic or hang (partial:
   stack depth, memory and wall-clock time are runtime effects a model cannot
   exhibit).  Statements only.  In the models every unwrap / expect / index /
   slice of the anchored Rust is a Panic branch under the same guard, every
   data-dependent loop runs on fuel; these theorems say: for EVERY input the
   result is a value or a reported error - never Panic, never OutOfFuel. *)
Require Import PV.Base PV.Dec PV.Dewey PV.DeweySpec PV.DeweyProofs PV.DeweyPat PV.Pattern PV.AltSpec PV.GlobProofs
  PV.PatternProofs PV.AltProofs PV.Summary PV.SummaryProofs PV.Distinfo PV.Plist PV.PkgPathM PV.NoPanic.
Require Import Coq.Strings.String.
Import Coq.Lists.List ListNotations.
Local Open Scope N_scope.

Theorem C17_version_tokeniser_terminates : forall s, mkv_opt s <> None.
Proof. exact mkv_total. Qed.
Theorem C17_dewey_new_no_panic : forall p, is_panic (dewey_new p) = false.
Proof. exact new_never_panics. Qed.
Theorem C17_glob_new_total : forall p, match glob_new p with Val _ | Fail _ => True | _ => False end.
Proof. exact glob_new_total. Qed.
Theorem C17_pattern_new_total : forall p, match pattern_new p with Val _ | Fail _ => True | _ => False end.
Proof. exact pattern_new_total. Qed.
(* compile + match: recursion depth = number of '{', always enough fuel *)
Theorem C17_match_total : forall p pkg, match pm p pkg with MErr _ | MBool _ => True | _ => False end.
Proof. exact pm_total. Qed.
Theorem C17_best_match_total : forall p a b pt, pattern_new p = Val pt -> best2 (fuel_for p) pt a b <> None.
Proof. exact best_total. Qed.
Theorem C17_depend_total : forall s, match depend_new s with Val _ | Fail _ => True | _ => False end.
Proof. exact depend_new_total. Qed.
Theorem C17_summary_parse_total : forall t, match parse_entry t with Val _ | Fail _ => True | _ => False end.
Proof. exact parse_entry_total. Qed.
(* every sequence of Summary setter / pusher calls returns normally and getters never panic *)
Theorem C17_summary_histories : forall ops, Forall (fun o => op_ok o = true) ops ->
  exists e, run empty ops = Val e /\ forall v, Summary.get e v = Val (e v).
Proof. intros ops H. destruct (run_wk ops empty wk_empty H) as (e & R & W). exists e. split; auto. intros v. apply get_wk; auto. Qed.
Theorem C17_plist_total : forall b, match plist_of_bytes b with Val _ | Fail _ => True | _ => False end.
Proof. exact plist_of_bytes_total. Qed.
Theorem C17_plist_entry_total : forall b, match entry_of_bytes b with Val _ | Fail _ => True | _ => False end.
Proof. exact entry_of_bytes_total. Qed.
