(* Property C05 - glob and plain patterns: whole-name match, right dispatch,
   inert fast-reject.  Statements only. *)
Require Import PV.Base PV.Dec PV.Dewey PV.DeweyPat PV.Pattern PV.AltSpec PV.GlobProofs PV.PatternProofs PV.AltProofs.
Require Import Coq.Strings.String.
Import Coq.Lists.List ListNotations.
Local Open Scope N_scope.

(* the glob crate's matcher decides exactly the declarative whole-string
   relation gmatch ('*' any run, '?' one character, sets, literals) *)
Theorem C05_glob_correct : forall ts s, no_rec ts -> (glob_matches ts s = true <-> gmatch ts s).
Proof. exact glob_matches_correct. Qed.

(* dispatch: no braces, no comparison operator, some metacharacter -> glob *)
Theorem C05_dispatch_glob : forall p pkg, no_brace p -> no_op p -> has_meta p ->
  pm p pkg = match glob_new p with
             | Val ts => MBool (glob_matches ts pkg) | Fail _ => MErr EGlob
             | Panic _ => MPanic | OutOfFuel => MFuel end.
Proof. exact glob_dispatch. Qed.
(* none of the metacharacters -> identical string only *)
Theorem C05_dispatch_plain : forall p pkg, no_brace p -> no_op p -> ~ has_meta p ->
  pm p pkg = MBool (eqs p pkg).
Proof. exact plain_dispatch. Qed.

(* the first-two-characters rejection never changes an answer *)
Theorem C05_quick_inert_plain : forall p pkg, quick p pkg = false -> eqs p pkg = false.
Proof. exact quick_inert_plain. Qed.
Theorem C05_quick_inert_dewey : forall p d pkg,
  dewey_new p = Val d -> quick p pkg = false -> dewey_matches d pkg = false.
Proof. exact quick_inert_dewey. Qed.
Theorem C05_quick_inert_glob : forall p ts pkg,
  glob_new p = Val ts -> quick p pkg = false -> glob_matches ts pkg = false.
Proof. exact quick_inert_glob. Qed.

Theorem C05_quick_inert_alternate : forall t pkg, quick (print t) pkg = false -> spec_match t pkg = false.
Proof. exact quick_inert_alt. Qed.

Example C05_example_glob :
  pm (lit "mutt-[0-9]*") (lit "mutt-2.2.13") = MBool true /\
  pm (lit "mutt-[0-9]*") (lit "mutt-vid-1.1") = MBool false /\
  pm (lit "foo-[0-9") (lit "foo-1") = MErr EGlob /\
  pm (lit "a") (lit "") = MBool false /\ pm (lit "?") (lit "a") = MBool true.
Proof. vm_compute. repeat split. Qed.
