(* Property C05 - glob and plain patterns: whole-name match, right dispatch,
   inert fast-reject.  Statements only. *)
Require Import PV.Base PV.Dec PV.Dewey PV.DeweyPat PV.Pattern PV.AltSpec PV.GlobProofs PV.GlobString PV.PatternProofs PV.AltProofs.
Require Import Coq.Strings.String.
Import Coq.Lists.List ListNotations.
Local Open Scope N_scope.

(* the glob crate's matcher decides exactly the declarative whole-string
   relation gmatch ('*' any run, '?' one character, sets, literals) *)
Theorem C05_glob_correct : forall ts s, no_rec ts -> (glob_matches ts s = true <-> gmatch ts s).
Proof. exact glob_matches_correct. Qed.

(* ... and, on the pattern *string*: a string without '**' compiles exactly
   when every '[' opens a closed non-empty bracket expression (swf), the
   compiled pattern matches exactly the names the string denotes as a shell
   glob (sglob: '*' any run, '?' one character, [set] / [!set], anything else
   itself), and a malformed string is reported *)
Theorem C05_glob_string : forall p, nodstar p = true ->
  (swf p /\ exists ts, glob_new p = Val ts /\ no_rec ts /\ forall name, glob_matches ts name = true <-> sglob p name)
  \/ (~ swf p /\ glob_new p = Fail ERange).
Proof. exact glob_string_spec. Qed.
(* bracket bodies: a-b is a range, any other character stands for itself *)
Theorem C05_set_range : forall c a b r, in_body c (a :: 45 :: b :: r) = ((a <=? c) && (c <=? b) || in_body c r)%bool.
Proof. exact in_body_range. Qed.
Theorem C05_set_single : forall c a r, (match r with m :: _ :: _ => m <> 45 | _ => True end) ->
  in_body c (a :: r) = ((c =? a) || in_body c r)%bool.
Proof. exact in_body_single. Qed.
(* end to end through Pattern::new and Pattern::matches, fast reject included *)
Theorem C05_glob_pattern_meaning : forall p pkg, no_brace p -> no_op p -> has_meta p -> nodstar p = true ->
  (swf p /\ exists b, pm p pkg = MBool b /\ (b = true <-> sglob p pkg)) \/
  (~ swf p /\ pm p pkg = MErr EGlob).
Proof. exact glob_pattern_meaning. Qed.

(* dispatch: no braces, no comparison operator, some metacharacter -> glob *)
Theorem C05_dispatch_glob : forall p pkg, no_brace p -> no_op p -> has_meta p ->
  pm p pkg = match glob_new p with
             | Val ts => MBool (glob_matches ts pkg) | Fail _ => MErr EGlob
             | Panic _ => MPanic | OutOfFuel => MFuel end.
Proof. exact glob_dispatch. Qed.
(* none of the metacharacters -> identical string only *)
Theorem C05_dispatch_plain : forall p pkg, no_brace p -> no_op p -> ~ has_meta p ->
  pm p pkg = MBool (eqs p pkg).
Proof. exact plain_dispatch. Qed.

(* the first-two-characters rejection never changes an answer *)
Theorem C05_quick_inert_plain : forall p pkg, quick p pkg = false -> eqs p pkg = false.
Proof. exact quick_inert_plain. Qed.
Theorem C05_quick_inert_dewey : forall p d pkg,
  dewey_new p = Val d -> quick p pkg = false -> dewey_matches d pkg = false.
Proof. exact quick_inert_dewey. Qed.
Theorem C05_quick_inert_glob : forall p ts pkg,
  glob_new p = Val ts -> quick p pkg = false -> glob_matches ts pkg = false.
Proof. exact quick_inert_glob. Qed.

Theorem C05_quick_inert_alternate : forall t pkg, quick (print t) pkg = false -> spec_match t pkg = false.
Proof. exact quick_inert_alt. Qed.

(* outside the property's subset but part of what Pattern::new reports: after a
   literal prefix, three or more '*' never compile, and '**' compiles only as a
   whole path component *)
Theorem C05_triple_star_rejected : forall a b, Forall litc a -> glob_new (a ++ 42 :: 42 :: 42 :: b) = Fail EWildcards.
Proof. exact triple_star_rejected. Qed.
Theorem C05_double_star_misplaced : forall a b, Forall litc a ->
  match b with c :: _ => c <> 42 | [] => True end ->
  (a <> [] /\ last a 0 <> 47) \/ (exists c r, b = c :: r /\ c <> 47) ->
  glob_new (a ++ 42 :: 42 :: b) = Fail ERecursive.
Proof. exact double_star_misplaced. Qed.
Example C05_example_stars :
  glob_new (lit "ab***c") = Fail EWildcards /\ glob_new (lit "ab**") = Fail ERecursive /\
  glob_new (lit "a/**b") = Fail ERecursive /\ is_val (glob_new (lit "a/**/b")) = true /\ is_val (glob_new (lit "**")) = true.
Proof. vm_compute. repeat split. Qed.

Example C05_example_glob :
  pm (lit "mutt-[0-9]*") (lit "mutt-2.2.13") = MBool true /\
  pm (lit "mutt-[0-9]*") (lit "mutt-vid-1.1") = MBool false /\
  pm (lit "foo-[0-9") (lit "foo-1") = MErr EGlob /\
  pm (lit "a") (lit "") = MBool false /\ pm (lit "?") (lit "a") = MBool true.
Proof. vm_compute. repeat split. Qed.

(* the string relation is inhabited and discriminates: mutt-[0-9]* *)
Example C05_example_string :
  sglob (lit "a[!b-d]?*") (lit "aex12") /\ swf (lit "mutt-[0-9]*") /\ ~ swf (lit "foo-[0-9") /\
  nodstar (lit "mutt-[0-9]*") = true.
Proof.
  split; [|split; [|split]].
  - change (lit "a[!b-d]?*") with (97 :: 91 :: 33 :: 98 :: [45; 100] ++ 93 :: 63 :: 42 :: []).
    change (lit "aex12") with (97 :: 101 :: 120 :: [49; 50] ++ []).
    apply sg_char; try discriminate. apply sg_notin; [reflexivity|reflexivity|].
    apply sg_q. apply sg_star. apply sg_nil.
  - change (lit "mutt-[0-9]*") with (109 :: 117 :: 116 :: 116 :: 45 :: 91 :: 48 :: [45; 57] ++ 93 :: 42 :: []).
    do 5 (apply wf_char; [discriminate|discriminate|discriminate|]). apply wf_in; [discriminate|reflexivity|]. apply wf_star, wf_nil.
  - intros W.
    destruct (glob_string_spec (lit "foo-[0-9") eq_refl) as [(_ & ts & E & _)|(W' & _)]; [vm_compute in E; discriminate|auto].
  - reflexivity.
Qed.
