(* Property C16 - pbulk-index output splits into one record per PKGNAME, fields
   never leaking.  Statements only.  [clean]: lines trimmed, blank ones dropped;
   [blocks]: one block per 'PKGNAME=' line reaching to the next one (plus the
   lines before the first such line, if any); [record_of]: the record of ONE
   block; [all_some]: all or nothing. *)
Require Import PV.Base PV.Dec PV.Dewey PV.Pattern PV.Summary PV.Distinfo PV.PkgPathM PV.ScanIndex PV.ScanProofs.
Require Import Coq.Strings.String.
Import Coq.Lists.List ListNotations.
Local Open Scope N_scope.

Theorem C16_segmentation : forall t, scan_read t false = all_some (map record_of (blocks (clean (lines t)))).
Proof. exact scan_read_spec. Qed.
(* record i is built from block i only; as many records as blocks *)
Theorem C16_no_leak : forall t rs, scan_read t false = Some rs ->
  length rs = length (blocks (clean (lines t))) /\
  forall i d, (i < length rs)%nat -> Some (nth i rs d) = record_of (nth i (blocks (clean (lines t))) []).
Proof. exact scan_no_leak. Qed.
Theorem C16_count : forall ls, (match ls with l :: _ => is_head l = true | [] => True end) ->
  length (blocks ls) = length (filter is_head ls).
Proof. exact blocks_count. Qed.
(* an I/O error of the reader fails the whole read *)
Theorem C16_io_error : forall t, scan_read t true = None.
Proof. exact scan_read_io_error. Qed.
(* scalar fields: trimmed value of the LAST line for the key; absent -> None *)
Theorem C16_last_wins : forall k block l, kv_get k (block ++ [l]) =
  match split_once 61 l with
  | Some (a, b) => if eqs (trim a) k then Some (trim b) else kv_get k block
  | None => kv_get k block end.
Proof. exact kv_get_snoc. Qed.
Theorem C16_absent : forall k block,
  (forall l a b, In l block -> split_once 61 l = Some (a, b) -> eqs (trim a) k = false) -> kv_get k block = None.
Proof. exact kv_get_none. Qed.

Example C16_example :
  option_map (map sr_pkgname) (scan_read (lit "PKGNAME=a-1" ++ [10; 10] ++ lit " MAINTAINER = x=y " ++ [10] ++ lit "PKGNAME=b-2" ++ [13; 10] ++ lit "MAINTAINER=q" ++ [10] ++ lit "MAINTAINER=r") false)
    = Some [lit "a-1"; lit "b-2"] /\
  option_map (map (fun r => nth 5 (sr_scalars r) None)) (scan_read (lit "PKGNAME=a-1" ++ [10] ++ lit " MAINTAINER = x=y " ++ [10] ++ lit "PKGNAME=b-2" ++ [10] ++ lit "MAINTAINER=q" ++ [10] ++ lit "MAINTAINER=r") false)
    = Some [Some (lit "x=y"); Some (lit "r")] /\
  scan_read (lit "CATEGORIES=x" ++ [10] ++ lit "PKGNAME=a-1") false = None /\
  scan_read (lit "PKGNAME=a-1" ++ [10] ++ lit "ALL_DEPENDS=ok>=1:../../a/b bad") false = None.
Proof. vm_compute. repeat split. Qed.
