(* Property C12 - checksum and size verification passes only for files that
   really match (partial: the file system and the digest functions are outside
   the model).  Statements only. *)
Require Import PV.Base PV.Dec PV.Summary PV.Distinfo PV.DistinfoProofs.
Require Import Coq.Strings.String.
Import Coq.Lists.List ListNotations.
Local Open Scope N_scope.

Theorem C12_size : forall d p c, verify_size d p (Some c) =
  match find_entry d p with
  | None => inr VNotFound
  | Some e => match esize e with
              | None => inr VMissingSize
              | Some n => if (Z.of_nat (length c) =? n)%Z then inl (VOkSize n) else inr (VSize n (Z.of_nat (length c)))
              end
  end.
Proof. exact verify_size_spec. Qed.
Theorem C12_size_ok_iff : forall d p c n, verify_size d p (Some c) = inl (VOkSize n) <->
  exists e, find_entry d p = Some e /\ esize e = Some n /\ Z.of_nat (length c) = n.
Proof. exact verify_size_ok_iff. Qed.
(* what is hashed and what it must equal: the file for distfiles, the file minus
   its '$NetBSD' lines for patches; unrecorded algorithm = missing *)
Theorem C12_checksum : forall d p a c, verify_checksum d p a (Some c) =
  match find_entry d p with
  | None => inr VNotFound
  | Some e => match find (fun ah => alg_eqb (fst ah) a) (esums e) with
              | None => inr VMissingChecksum
              | Some (_, h) => inl (a, h, match classify (ename e) with Distfile => c | Patchfile => filter_patch c end, ename e)
              end
  end.
Proof. exact verify_checksum_spec. Qed.
(* entries are located by the first recorded trailing sub-path, shortest first *)
Theorem C12_find : forall d p,
  find_entry d p = match find (fun q => match get_entry (class_map d p) q with Some _ => true | None => false end)
                              (walk_paths (rev (pcomps p)) []) with
                   | Some q => get_entry (class_map d p) q | None => None end.
Proof. exact find_entry_spec. Qed.
(* for ordinary dir/.../file paths the components are the segments *)
Theorem C12_ordinary_paths : forall segs, segs <> [] -> Forall ordinary segs -> pcomps (join_with 47 segs) = map CNormal segs.
Proof. exact comps_ordinary. Qed.

(* ... so the names tried are the joined trailing segment lists, shortest first:
   file, dir/file, a/dir/file, ... *)
Theorem C12_walk_ordinary : forall segs, Forall ordinary segs ->
  walk_paths (rev (map CNormal segs)) [] = map (join_with 47) (suffixes_from (rev segs) []).
Proof. exact walk_ordinary. Qed.
Theorem C12_find_ordinary : forall d segs, segs <> [] -> Forall ordinary segs ->
  let p := join_with 47 segs in
  find_entry d p = match find (fun q => match get_entry (class_map d p) q with Some _ => true | None => false end)
                              (map (fun k => join_with 47 (skipn (length segs - S k) segs)) (seq 0 (length segs))) with
                   | Some q => get_entry (class_map d p) q | None => None end.
Proof. exact find_entry_ordinary. Qed.

Definition ex12 : distinfo := di_from_bytes (lit "SHA1 (dir/foo.tgz) = aa" ++ [10] ++ lit "Size (dir/foo.tgz) = 3 bytes" ++ [10] ++ lit "SHA1 (foo.tgz) = bb" ++ [10]).
Example C12_example :
  walk_paths (rev (pcomps (lit "a/dir/foo.tgz"))) [] = [lit "foo.tgz"; lit "dir/foo.tgz"; lit "a/dir/foo.tgz"] /\
  option_map ename (find_entry ex12 (lit "/x/dir/foo.tgz")) = Some (lit "foo.tgz") /\
  verify_size ex12 (lit "dir/foo.tgz") (Some (lit "abc")) = inr VMissingSize /\
  option_map ename (find_entry ex12 (lit "bar.tgz")) = None /\
  Forall ordinary [lit "a"; lit "dir"; lit "foo.tgz"] /\
  map (fun k => join_with 47 (skipn (3 - S k) [lit "a"; lit "dir"; lit "foo.tgz"])) (seq 0 3) = [lit "foo.tgz"; lit "dir/foo.tgz"; lit "a/dir/foo.tgz"].
Proof. repeat split; try (vm_compute; reflexivity); repeat constructor; unfold ordinary; repeat split; try discriminate; reflexivity. Qed.
