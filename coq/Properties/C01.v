(* Property C01 - version comparison follows pkg_install's dewey ordering.
   Statements only. *)
Require Import PV.Base PV.Dec PV.Dewey PV.DeweySpec PV.DeweyProofs PV.DeweyTable PV.Pattern PV.BestProofs.
Require Import Coq.Strings.String.
Import Coq.Lists.List ListNotations.
Local Open Scope N_scope.

(* the code's three-branch comparison = position by position with missing
   components read as 0, the revision deciding only on a tie - for ALL
   component lists and all four operators *)
Theorem C01_cmp_is_padded_lex : forall l o r, dewey_cmp l o r = testc (vcmp l r) o.
Proof. exact cmp_is_padded_lex. Qed.
Theorem C01_lexpad_is_decl : forall l r, lexpad_decl l r = lexpad l r.
Proof. exact lexpad_is_decl. Qed.
(* reading a version: the code's tokeniser = the table-driven reading, with the
   weight the code gives a letter (its lower-case ASCII code) *)
Theorem C01_tokens_follow_table : forall s, digit_runs_le 18 s -> mkv s = mkv_table code_weight s.
Proof. exact tokens_follow_table. Qed.
(* ... and for EVERY string when the table is read with saturation (a component of more than 18 digits that exceeds
   i64::MAX counts as i64::MAX, a revision that does not fit as 0 - the behaviour of the D3 repair) *)
Theorem C01_tokens_follow_table_all : forall s, mkv s = mkv_table_sat code_weight s.
Proof. exact tokens_follow_table_sat. Qed.
(* against the property's own reading (alphabet rank): equal verdicts outside
   the known-finding class letter_conflict *)
Theorem C01_verdict_outside_known : forall o a b, digit_runs_le 18 a -> digit_runs_le 18 b ->
  letter_conflict a b = false -> verdict_m o a b = verdict_spec o a b.
Proof. exact verdict_outside_known. Qed.
(* ... and inside it the code really differs: known finding KF-C01-rank *)
Theorem C01_letter_weight_refuted : exists o a b, verdict_m o a b <> verdict_spec o a b.
Proof. exists LT, (lit "1a"), (lit "1_50"). vm_compute. discriminate. Qed.
(* best_match orders two matching candidates by the same comparison *)
Theorem C01_best_match_uses_same_order : forall f pt a b,
  pmatches f pt a = Some true -> pmatches f pt b = Some true ->
  best2 f pt a b = Some (if dewey_cmp (mkv (pn_version (pkgname_new a))) GT (mkv (pn_version (pkgname_new b))) then WFirst
                         else if dewey_cmp (mkv (pn_version (pkgname_new a))) LT (mkv (pn_version (pkgname_new b))) then WSecond
                         else if str_ltb a b then WFirst else WSecond).
Proof. intros f pt a b Ha Hb. unfold best2. rewrite Ha, Hb.
  destruct (dewey_cmp _ GT _); auto. destruct (dewey_cmp _ LT _); auto. destruct (str_ltb a b); auto. Qed.
(* the tokeniser loop never runs out of fuel *)
Theorem C01_fuel_ok : forall s, mkv_opt s <> None.
Proof. exact mkv_total. Qed.

Example C01_example_modifiers :
  mkv (lit "1.0alpha1beta2rc3pl4_5nb17") = mkver [1; 0; 0; -3; 1; -2; 2; -1; 3; 0; 4; 0; 5]%Z 17%Z /\
  mkv (lit "1.0PRE1Nb2") = mkver [1; 0; 0; -1; 1]%Z 2%Z /\
  mkv (lit "1A") = mkv (lit "1a") /\
  mkv_spec (lit "1a") = mkver [1; 0; 1]%Z 0%Z /\ mkv (lit "1a") = mkver [1; 0; 97]%Z 0%Z.
Proof. vm_compute. repeat split. Qed.
Example C01_example_hypotheses : letter_conflict (lit "1.0alpha") (lit "1.0b2") = false /\
  letter_conflict (lit "1a") (lit "1_50") = true.
Proof. vm_compute. repeat split. Qed.
