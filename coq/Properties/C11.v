(* Property C11 - each recognised distinfo line lands on its file; other lines
   change nothing.  Statements only.  [Inv k L m]: the map m of class k holds
   exactly the files named by the recognised lines L - in first-appearance order
   under their first spelling, each with its checksums in line order and the size
   of its last Size line - and nothing else. *)
Require Import PV.Base PV.Dec PV.Summary PV.Distinfo PV.DistinfoProofs.
Require Import Coq.Strings.String.
Import Coq.Lists.List ListNotations.
Local Open Scope N_scope.

(* 'ALGORITHM (name) = hash', any blanks around the fields, name over ANY non-blank bytes *)
Theorem C11_checksum_line_recognised : forall a name h ws1 ws2 ws3 ws4 ws5,
  nonblank_bytes name -> solid h -> utf8_valid h = true ->
  blank ws1 -> ws2 <> [] -> blank ws2 -> ws3 <> [] -> blank ws3 -> ws4 <> [] -> blank ws4 -> blank ws5 ->
  parse_dline (ws1 ++ alg_name a ++ ws2 ++ (40 :: name ++ [41]) ++ ws3 ++ [61] ++ ws4 ++ h ++ ws5) = LSum a name h.
Proof. exact sum_line_recognised. Qed.
Theorem C11_size_line_recognised : forall name n ws1 ws2 ws3 ws4 ws5 ws6,
  nonblank_bytes name -> (0 <= n <= u64max)%Z ->
  blank ws1 -> ws2 <> [] -> blank ws2 -> ws3 <> [] -> blank ws3 -> ws4 <> [] -> blank ws4 -> ws5 <> [] -> blank ws5 -> blank ws6 ->
  parse_dline (ws1 ++ lit "Size" ++ ws2 ++ (40 :: name ++ [41]) ++ ws3 ++ [61] ++ ws4 ++ print_z n ++ ws5 ++ lit "bytes" ++ ws6) = LSize name n.
Proof. exact size_line_recognised. Qed.
(* comments, blank lines, unknown algorithms and unparsable sizes are ignored *)
Theorem C11_ignored :
  (forall l, skip_ws l = [] -> parse_dline l = LNone) /\
  (forall l r, skip_ws l = 35 :: r -> parse_dline l = LNone) /\
  (forall action p v, eqs action (lit "Size") = false -> alg_parse_bytes action = None -> finish action p v = LNone) /\
  (forall p v, parse_u64 v = None -> finish (lit "Size") p v = LNone).
Proof. exact ignored_lines. Qed.
(* the whole file: every recognised line lands on exactly its file, other lines change nothing *)
Theorem C11_meaning : forall t,
  let L := map parse_dline (split_on 10 t) in let d := di_from_bytes t in
  Inv Distfile L (dists d) /\ Inv Patchfile L (patches d) /\ rcsid d = last_rcs L.
Proof. exact from_bytes_meaning. Qed.
(* patch files are kept apart from distfiles by the name of the file alone *)
Theorem C11_class_of_path : forall p q, path_eqb p q = true -> classify p = classify q.
Proof. exact classify_eq. Qed.

Example C11_example :
  map classify [lit "patch-x"; lit "patch-local-x"; lit "patch-x.orig"; lit "patch-x.rej"; lit "patch-x~";
                lit "emul-a-patch-b"; lit "patch-2.7.6.tar.xz"; lit "dir/patch-x"; lit "x.patch-1"] =
  [Patchfile; Distfile; Distfile; Distfile; Distfile; Patchfile; Distfile; Patchfile; Distfile] /\
  parse_dline (lit "  sha1 (a b) = c") = LNone /\ parse_dline (lit "# SHA1 (a) = c") = LNone /\
  parse_dline (lit "Size (a) = 12x bytes") = LNone /\ parse_dline (lit "SHA3 (a) = c") = LNone.
Proof. vm_compute. repeat split. Qed.
