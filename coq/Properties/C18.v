(* Property C18 - PKGNAME decomposition is lossless and consistent across the
   library.  Statements only. *)
Require Import PV.Base PV.Dec PV.Dewey PV.DeweySpec PV.DeweyProofs PV.Pattern PV.PkgNameProofs PV.Summary PV.SummaryPkg.
Require Import Coq.Strings.String.
Import Coq.Lists.List ListNotations.
Local Open Scope N_scope.

(* with a '-': base, '-' and version rebuild the name; the version has no '-' *)
Theorem C18_rebuild : forall n, mem 45 n = true ->
  pn_base (pkgname_new n) ++ 45 :: pn_version (pkgname_new n) = n /\ mem 45 (pn_version (pkgname_new n)) = false.
Proof. exact pkgname_rebuild. Qed.
(* without: the whole string is the base, the version is empty, no revision *)
Theorem C18_no_dash : forall n, mem 45 n = false ->
  pn_base (pkgname_new n) = n /\ pn_version (pkgname_new n) = [] /\ pn_revision (pkgname_new n) = None.
Proof. exact pkgname_no_dash. Qed.
(* a version ending in nb<digits>: PkgName reports that number, and it is the
   revision the version comparison uses - for EVERY text p before the nb *)
Theorem C18_revision : forall b p ds, all_digits ds -> mem 45 (p ++ 110 :: 98 :: ds) = false ->
  let n := b ++ 45 :: p ++ 110 :: 98 :: ds in
  pn_revision (pkgname_new n) = Some (nbval ds) /\ revn (mkv (pn_version (pkgname_new n))) = nbval ds.
Proof. exact pkgname_revision. Qed.
(* nbval is the number written by the digits when it fits an i64 *)
Theorem C18_nbval : forall ds, ds <> [] -> (Base.value ds <= i64max)%Z -> nbval ds = Base.value ds.
Proof. intros ds H1 H2. unfold nbval. destruct ds; [congruence|]. apply Z.leb_le in H2. rewrite H2. reflexivity. Qed.
Theorem C18_no_nb : forall n, (forall a c, pn_version (pkgname_new n) <> a ++ 110 :: 98 :: c) ->
  pn_revision (pkgname_new n) = None.
Proof. exact pkgname_no_nb. Qed.

(* the pkg_summary accessors give the same split for names with non-empty base and version *)
Theorem C18_summary_agrees : forall e n, e Pkgname = Some (VS n) ->
  pn_base (pkgname_new n) <> [] -> pn_version (pkgname_new n) <> [] ->
  sum_pkgbase e = Some (pn_base (pkgname_new n)) /\ sum_pkgversion e = Some (pn_version (pkgname_new n)).
Proof. exact summary_split_agrees. Qed.

Example C18_example :
  pkgname_new (lit "mktool-1.3.2nb2") = mkpkgname (lit "mktool") (lit "1.3.2nb2") (Some 2%Z) /\
  pkgname_new (lit "foo-bar-1.0nb12") = mkpkgname (lit "foo-bar") (lit "1.0nb12") (Some 12%Z) /\
  pkgname_new (lit "mktool") = mkpkgname (lit "mktool") [] None /\
  revn (mkv (lit "1.3.2nb2")) = 2%Z.
Proof. vm_compute. repeat split. Qed.
