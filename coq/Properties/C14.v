(* Property C14 - PLIST parses to one entry per non-blank line, arguments kept
   byte for byte.  Statements only.  [nonblank l]: l contains a byte that is not
   ASCII white space; [table]: command word -> entry kind and argument rule;
   [arg_of rest]: the text after the command word stripped of leading blanks. *)
Require Import PV.Base PV.Dec PV.Summary PV.Plist PV.PlistProofs.
Require Import Coq.Strings.String.
Import Coq.Lists.List ListNotations.
Local Open Scope N_scope.

(* exactly the non-blank lines, in order, each parsed on its own - for every
   byte string, every line length >= 1 *)
Theorem C14_lines : forall b, plist_of_bytes b = mapM entry_of_bytes (filter nonblank (split_on 10 b)).
Proof. exact plist_lines. Qed.
Theorem C14_scanner : forall b, scan_lines b = filter nonblank (split_on 10 b).
Proof. exact scan_lines_spec. Qed.
Theorem C14_final_newline_irrelevant : forall b, plist_of_bytes (b ++ [10]) = plist_of_bytes b.
Proof. exact final_newline_irrelevant. Qed.
(* a line is a file entry unless it begins with '@' *)
Theorem C14_file_unless_at : forall b, match b with 64 :: _ => False | _ => True end -> entry_of_bytes b = Val (PFile b).
Proof. exact file_unless_at. Qed.
(* each supported command maps to its kind with its argument rule; the argument
   is stripped of leading blanks only *)
Theorem C14_entry_table : forall w h, In (w, h) table ->
  (forall rest, entry_of_bytes (w ++ 32 :: rest) = h (arg_of rest)) /\ entry_of_bytes w = h None.
Proof. exact entry_table. Qed.
Theorem C14_unknown_is_error : forall w, (exists r, w = 64 :: r) -> mem 32 w = false ->
  (forall x h, In (x, h) table -> w <> x) ->
  (forall rest, entry_of_bytes (w ++ 32 :: rest) = Fail PEUnsupported) /\ entry_of_bytes w = Fail PEUnsupported.
Proof. exact unknown_is_error. Qed.

Example C14_example :
  plist_of_bytes (lit "a" ++ [10] ++ lit "bb" ++ [10]) = Val [PFile (lit "a"); PFile (lit "bb")] /\
  plist_of_bytes (lit "@" ++ [10]) = Fail PEUnsupported /\
  plist_of_bytes ([160; 10] ++ lit "@comment " ++ [160; 120]) = Val [PFile [160]; PComment (Some [160; 120])] /\
  entry_of_bytes (lit "@name   foo-1.0 ") = Val (PName (lit "foo-1.0 ")) /\
  entry_of_bytes (lit "@mode " ++ [255]) = Fail PEUtf8 /\ entry_of_bytes (lit "@ignore x") = Fail PEArgs /\
  entry_of_bytes (lit " @name x") = Val (PFile (lit " @name x")).
Proof. vm_compute. repeat split. Qed.
