(* Property C19 - PKGPATH accepts only category/package forms; both spellings
   give one value.  Statements only.  [pcomps]: the Unix path components
   (repeated and trailing slashes and non-leading '.' ignored). *)
Require Import PV.Base PV.Dec PV.Dewey PV.Pattern PV.Summary PV.Distinfo PV.DistinfoProofs PV.PkgPathM PV.PathProofs.
Require Import Coq.Strings.String.
Import Coq.Lists.List ListNotations.
Local Open Scope N_scope.

Theorem C19_accept_iff : forall p, (exists pp, pkgpath_new p = Some pp) <->
  (exists a b, pcomps p = [CNormal a; CNormal b]) \/ (exists a b, pcomps p = [CParent; CParent; CNormal a; CNormal b]).
Proof. exact pkgpath_accept_iff. Qed.
Theorem C19_short_full : forall p pp, pkgpath_new p = Some pp ->
  exists a b, pcomps (pp_short pp) = [CNormal a; CNormal b] /\
              pcomps (pp_full pp) = [CParent; CParent; CNormal a; CNormal b] /\
              (pcomps p = [CNormal a; CNormal b] \/ pcomps p = [CParent; CParent; CNormal a; CNormal b]).
Proof. exact pkgpath_short_full. Qed.
Theorem C19_spellings_equal : forall p q x y a b, pcomps p = [CNormal a; CNormal b] ->
  pcomps q = [CParent; CParent; CNormal a; CNormal b] -> pkgpath_new p = Some x -> pkgpath_new q = Some y -> pkgpath_eqb x y = true.
Proof. exact pkgpath_spellings_equal. Qed.
Theorem C19_reparse : forall p pp, pkgpath_new p = Some pp ->
  (exists y, pkgpath_new (pp_short pp) = Some y /\ pkgpath_eqb y pp = true) /\
  (exists y, pkgpath_new (pp_full pp) = Some y /\ pkgpath_eqb y pp = true).
Proof. exact pkgpath_reparse. Qed.
Theorem C19_ordinary_names : forall p x, In (CNormal x) (pcomps p) -> ordinary x.
Proof. exact normal_ordinary. Qed.
Theorem C19_depend_iff : forall s d, depend_new s = Val d <->
  exists x y, split_on 58 s = [x; y] /\ pattern_new x = Val (dep_pattern d) /\ pkgpath_new y = Some (dep_path d).
Proof. exact depend_iff. Qed.
Theorem C19_depend_colons : forall s, (forall x y, split_on 58 s <> [x; y]) -> depend_new s = Fail DInvalid.
Proof. exact depend_error. Qed.

Example C19_example :
  option_map (fun pp => (pcomps (pp_short pp), pcomps (pp_full pp))) (pkgpath_new (lit "..//..//foo//bar//")) =
    Some ([CNormal (lit "foo"); CNormal (lit "bar")], [CParent; CParent; CNormal (lit "foo"); CNormal (lit "bar")]) /\
  pkgpath_new (lit "./foo/bar") = None /\ pkgpath_new (lit "foo/./bar") <> None /\ pkgpath_new (lit "/foo/bar") = None /\
  is_val (depend_new (lit "mktools-[0-9]*:../../pkgtools/mktools")) = true /\ depend_new (lit "a::b/c") = Fail DInvalid.
Proof. vm_compute. repeat split; discriminate. Qed.
