(* Property C13 - digests equal the standard algorithms for every input and
   every read pattern (partial: that the RustCrypto crates compute the standard
   functions is checked differentially against a reference, not proved).
   Statements only: WHICH bytes are hashed. *)
Require Import PV.Base PV.Dec PV.Summary PV.Distinfo PV.DigestM PV.DistinfoProofs.
Require Import Coq.Strings.String.
Import Coq.Lists.List ListNotations.
Local Open Scope N_scope.

(* the bytes hashed = the data read before end of file, whatever the read
   schedule; a hard error before end of file is returned and nothing is hashed *)
Theorem C13_read_schedule : forall evs, read_all evs =
  if existsb is_err (upto_eof evs) then None else Some (flat_map ev_data (upto_eof evs)).
Proof. exact read_all_spec. Qed.
Theorem C13_schedule_independent : forall chunks intr, Forall (fun c => c <> []) chunks ->
  read_all (flat_map (fun c => repeat EIntr intr ++ [EData c]) chunks) = Some (concat chunks).
Proof. exact schedule_independent. Qed.
Theorem C13_error_propagates : forall a b, existsb is_err (upto_eof a) = true -> read_all (a ++ b) = None.
Proof. exact error_not_hashed_past. Qed.
(* hash_patch reads line by line (BufReader::split): for every schedule without 0-byte reads what it hashes is the
   filter applied to all the bytes read ... *)
Theorem C13_patch_schedule : forall evs, no_zero_read evs -> hash_patch_pre evs = option_map filter_patch (read_all evs).
Proof. exact patch_schedule. Qed.
(* ... while a 0-byte read (which io::copy takes for the end of the file) only ends the LINE being collected when it
   comes in the middle of one, and the stream when it comes at a line boundary: found by the model audit, outside
   the property's read schedules, modelled as the code behaves *)
Theorem C13_zero_read_mid_line : forall a b rest, a <> [] -> mem 10 a = false ->
  hash_patch_pre (EData a :: EData [] :: EData b :: rest) = option_map (fun t => keep_line a ++ t) (hash_patch_pre (EData b :: rest)).
Proof. exact patch_zero_read_mid_line. Qed.
Theorem C13_zero_read_at_boundary : forall a rest, hash_patch_pre (EData (a ++ [10]) :: EData [] :: rest) = hash_patch_pre [EData (a ++ [10])].
Proof. exact patch_zero_read_at_boundary. Qed.
(* the patch hash input: the newline-terminated lines without '$NetBSD' ... *)
Theorem C13_patch_filter : forall ls, Forall (fun l => mem 10 l = false) ls ->
  filter_patch (nl_term ls) = nl_term (filter keep ls).
Proof. exact filter_patch_lines. Qed.
(* ... a final unterminated line counting as terminated *)
Theorem C13_patch_unterminated : forall ls l, Forall (fun l => mem 10 l = false) ls -> mem 10 l = false -> l <> [] ->
  filter_patch (nl_term ls ++ l) = filter_patch (nl_term (ls ++ [l])).
Proof. exact filter_patch_unterminated. Qed.
(* names parse case-insensitively and print in their canonical spelling *)
Theorem C13_names : (forall a, alg_parse (alg_name a) = Some a) /\
  (forall s a, alg_parse s = Some a -> map lower_uni s = alg_lname a) /\
  (forall s, alg_parse (map lower_uni s) = alg_parse s).
Proof. exact alg_names. Qed.

Example C13_example :
  hash_patch_pre [EData (lit "a"); EIntr; EData ([10] ++ lit "x $NetBSD$ y" ++ [10] ++ lit "b")] = Some (lit "a" ++ [10] ++ lit "b" ++ [10]) /\
  hash_file_pre [EData (lit "a"); EErr; EData (lit "b")] = None /\
  alg_parse (lit "sHa256") = Some SHA256 /\ alg_parse (lit "SHA-1") = None.
Proof. vm_compute. repeat split. Qed.
