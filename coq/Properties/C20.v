(* Property C20 - package database iteration lists each installed package once,
   correctly split (partial: directory enumeration and file I/O are not
   modelled).  Statements only.  [listing]: the database directory as the OS
   returns it (name, is it a directory, files inside). *)
Require Import PV.Base PV.Dec PV.Dewey PV.Pattern PV.Summary PV.ScanIndex PV.Metadata PV.MetaProofs.
From Coq Require Import Permutation.
Require Import Coq.Strings.String.
Import Coq.Lists.List ListNotations.
Local Open Scope N_scope.

Theorem C20_iter_spec : forall listing, db_iter listing =
  map (fun d => if utf8_valid (de_name d) then Some (package_of (de_name d)) else None) (filter valid_pkgdir listing).
Proof. exact db_iter_spec. Qed.
Theorem C20_valid_dir_iff : forall d, valid_pkgdir d = true <->
  de_is_dir d = true /\ In (to_filename MComment) (de_files d) /\ In (to_filename Contents) (de_files d) /\ In (to_filename Desc) (de_files d).
Proof. exact valid_pkgdir_iff. Qed.
Theorem C20_order_independent : forall l1 l2, Permutation l1 l2 -> Permutation (db_iter l1) (db_iter l2).
Proof. exact db_iter_perm. Qed.
(* pkgname = directory name; base / version = the parts before / after its last '-', as PkgName splits it *)
Theorem C20_split : forall name,
  (mem 45 name = true -> pk_base (package_of name) ++ 45 :: pk_version (package_of name) = name /\ mem 45 (pk_version (package_of name)) = false) /\
  (mem 45 name = false -> pk_base (package_of name) = name /\ pk_version (package_of name) = []) /\
  pk_name (package_of name) = name /\
  pk_base (package_of name) = pn_base (pkgname_new name) /\ pk_version (package_of name) = pn_version (pkgname_new name).
Proof. exact package_split. Qed.
Theorem C20_table_bijective : (forall e, from_filename (to_filename e) = Some e) /\
  (forall s e, from_filename s = Some e -> s = to_filename e) /\ NoDup (map to_filename all_mentries) /\ length all_mentries = 14%nat.
Proof. exact filename_bijective. Qed.
Theorem C20_is_valid_iff : forall m, meta_is_valid m = true <-> m_comment m <> [] /\ m_contents m <> [] /\ m_desc m <> [].
Proof. exact is_valid_iff. Qed.
Theorem C20_size_error_not_panic : forall m v, read_metadata m SizePkgM v = None <-> parse_i64 (trim v) = None.
Proof. exact read_size. Qed.
Theorem C20_read_file : forall c r, pkg_read_file c = Some r <-> utf8_valid c = true /\ r = c.
Proof. exact pkg_read_file_spec. Qed.
Theorem C20_read_file_error : forall c, pkg_read_file c = None <-> utf8_valid c = false.
Proof. exact pkg_read_file_error. Qed.

Example C20_example :
  db_iter [mkdirent (lit "foo-1.0nb2") true [lit "+COMMENT"; lit "+DESC"; lit "+CONTENTS"; lit "+SIZE_PKG"];
           mkdirent (lit "bar-1") true [lit "+COMMENT"; lit "+DESC"]; mkdirent (lit "stray-1") false [];
           mkdirent (lit "nodash") true [lit "+DESC"; lit "+CONTENTS"; lit "+COMMENT"]] =
  [Some (mkpackage (lit "foo-1.0nb2") (lit "foo") (lit "1.0nb2")); Some (mkpackage (lit "nodash") (lit "nodash") [])].
Proof. vm_compute. reflexivity. Qed.
