(* Property C06 - best_match returns the matching candidate with the highest
   version.  Statements only.  [best2b ma mb a b] is best_match's answer given
   whether a and b match (best2_is_best2b ties it to the model of the code);
   [ord a b <> Gt] reads "a is at least as good as b": higher dewey version,
   or equal version and byte-wise smaller-or-equal name (C06_order_meaning). *)
Require Import PV.Base PV.Dec PV.Dewey PV.DeweySpec PV.DeweyProofs PV.Pattern PV.BestProofs.
From Coq Require Import Permutation.
Require Import Coq.Strings.String.
Import Coq.Lists.List ListNotations.
Local Open Scope N_scope.

Theorem C06_model_is_best2b : forall f pt a b ma mb,
  pmatches f pt a = Some ma -> pmatches f pt b = Some mb ->
  exists w, best2 f pt a b = Some w /\ sel w a b = best2b ma mb a b.
Proof. exact best2_spec. Qed.
Theorem C06_worklist_best_refines : forall p pt a b, pattern_new p = Val pt ->
  exists k, forall f, best2_w (k + f) pt a b = best2 (fuel_for p) pt a b.
Proof. exact best2_w_refines. Qed.
Theorem C06_none_iff : forall ma mb a b, best2b ma mb a b = None <-> ma = false /\ mb = false.
Proof. exact best_none_iff. Qed.
Theorem C06_result_is_arg_and_matches : forall ma mb a b r, best2b ma mb a b = Some r ->
  (r = a /\ ma = true) \/ (r = b /\ mb = true).
Proof. exact best_is_matching_arg. Qed.
Theorem C06_no_better_candidate : forall ma mb a b r, best2b ma mb a b = Some r ->
  (ma = true -> ord r a <> Gt) /\ (mb = true -> ord r b <> Gt).
Proof. exact best_no_better. Qed.
Theorem C06_order_meaning : forall a b, ord a b <> Gt <->
  vcmp (pver a) (pver b) = Gt \/ (vcmp (pver a) (pver b) = Eq /\ str_cmp a b <> Gt).
Proof. exact ord_meaning. Qed.
Theorem C06_argument_order : forall ma mb a b, best2b ma mb a b = best2b mb ma b a.
Proof. exact best_comm. Qed.
(* reducing any tree of candidates with best_match at every node depends only
   on the multiset of candidates: every permutation, every association order *)
Theorem C06_reduce_any_tree : forall (matches : str -> bool) t1 t2,
  Permutation (leaves t1) (leaves t2) -> reduce matches t1 = reduce matches t2.
Proof. exact reduce_any_tree. Qed.
Theorem C06_node_is_best_match : forall (matches : str -> bool) a b,
  obest (leafval matches a) (leafval matches b) = best2b (matches a) (matches b) a b.
Proof. exact node_is_best2b. Qed.
Theorem C06_reduction_winner : forall (matches : str -> bool) t r, reduce matches t = Some r ->
  In r (leaves t) /\ matches r = true /\
  forall c, In c (leaves t) -> matches c = true -> ord r c <> Gt.
Proof. intros m t r H. rewrite reduce_is_list in H. exact (reduce_list_winner m _ _ H). Qed.

Example C06_example :
  best2b true true (lit "p-1.0") (lit "p-1.0.0") = Some (lit "p-1.0") /\
  best2b true true (lit "p-1.0nb1") (lit "p-1.0.0") = Some (lit "p-1.0nb1") /\
  best2b true true (lit "p-1.0rc1") (lit "p-1.0") = Some (lit "p-1.0") /\
  best2b false true (lit "q-9") (lit "p-1.0") = Some (lit "p-1.0").
Proof. vm_compute. repeat split. Qed.
