(* Property C03 - version order is a total preorder; the four operators are
   mutually consistent.  Statements only; proofs live in DeweyProofs.v.
   All statements quantify over arbitrary component lists and revisions, hence
   over every string whatever the tokeniser makes of it. *)
Require Import PV.Base PV.Dewey PV.DeweySpec PV.DeweyProofs PV.DeweyPat.
Require Import Coq.Strings.String.
Import Coq.Lists.List ListNotations.
Local Open Scope N_scope.

Theorem C03_trichotomy : forall a b : ver,
  let lt := dewey_cmp a LT b in let gt := dewey_cmp a GT b in
  let eq := dewey_cmp a LE b && dewey_cmp a GE b in
  (lt = true /\ gt = false /\ eq = false) \/ (lt = false /\ gt = true /\ eq = false)
  \/ (lt = false /\ gt = false /\ eq = true).
Proof. exact law_trichotomy. Qed.
Theorem C03_le_is_not_gt : forall a b, dewey_cmp a LE b = negb (dewey_cmp a GT b).
Proof. exact law_le_is_not_gt. Qed.
Theorem C03_ge_is_not_lt : forall a b, dewey_cmp a GE b = negb (dewey_cmp a LT b).
Proof. exact law_ge_is_not_lt. Qed.
Theorem C03_refl : forall a, dewey_cmp a LE a = true /\ dewey_cmp a GE a = true.
Proof. exact law_refl. Qed.
Theorem C03_swap : forall a o b, dewey_cmp a o b = dewey_cmp b (flip o) a.
Proof. exact law_swap. Qed.
Theorem C03_trans : forall a b c,
  dewey_cmp a LE b = true -> dewey_cmp b LE c = true -> dewey_cmp a LE c = true.
Proof. exact law_trans. Qed.

(* API level: the pattern "base OP B" applied to the package "base-A" *)
Theorem C03_api_verdict : forall base o A B,
  mem 45 A = false -> mem 62 base = false -> mem 60 base = false ->
  mem 62 B = false -> mem 60 B = false -> (match B with 61 :: _ => False | _ => True end) ->
  exists d, dewey_new (base ++ opstr o ++ B) = Val d /\
            dewey_matches d (base ++ 45 :: A) = dewey_cmp (mkv A) o (mkv B).
Proof. exact api_verdict. Qed.
Theorem C03_two_bounds_is_and : forall b o1 v1 o2 v2 pkg,
  dewey_matches (mkdewey b [(o1, v1); (o2, v2)]) pkg =
  dewey_matches (mkdewey b [(o1, v1)]) pkg && dewey_matches (mkdewey b [(o2, v2)]) pkg.
Proof. exact two_bounds_is_and. Qed.

(* non-vacuity: a triple with unequal lengths, a modifier and a revision *)
Example C03_example :
  dewey_cmp (mkv (lit "1.0alpha")) LE (mkv (lit "1.0")) = true /\
  dewey_cmp (mkv (lit "1.0")) LE (mkv (lit "1.0.0nb1")) = true /\
  dewey_cmp (mkv (lit "1.0alpha")) LE (mkv (lit "1.0.0nb1")) = true.
Proof. vm_compute. repeat split. Qed.

Print Assumptions C03_trichotomy.
Print Assumptions C03_le_is_not_gt.
Print Assumptions C03_ge_is_not_lt.
Print Assumptions C03_refl.
Print Assumptions C03_swap.
Print Assumptions C03_trans.
Print Assumptions C03_api_verdict.
Print Assumptions C03_two_bounds_is_and.
