(* Property C10 - distinfo files round-trip byte-exactly, including non-UTF-8
   names.  Statements only.  [printable d]: RCS Id absent or a '$NetBSD: ...'
   line of any bytes; distfile entries (names of ANY non-blank bytes, any
   checksums, a size) and patch entries (checksums, no size), names pairwise
   distinct as paths, each classified on the side it is stored. *)
Require Import PV.Base PV.Dec PV.Summary PV.Distinfo PV.DistinfoProofs.
Require Import Coq.Strings.String.
Import Coq.Lists.List ListNotations.
Local Open Scope N_scope.

(* writing a Distinfo and parsing the result yields the same RCS Id, the same
   files in the same order, each with the same checksums in order and the same size *)
Theorem C10_api_roundtrip : forall d, printable d -> di_from_bytes (di_as_bytes d) = d.
Proof. exact from_as_bytes. Qed.
(* "assembled through the API": inserting an entry makes it the one found under its name (under any spelling of an
   equal path) and leaves every other lookup as it was; inserting well-formed entries keeps a Distinfo printable, so
   whatever is built from the empty Distinfo by set_rcsid and insert round-trips *)
Theorem C10_insert_lookup : forall d e p,
  get_entry (class_list (di_insert d e) (classify (ename e))) p =
  if path_eqb (ename e) p then Some e else get_entry (class_list d (classify (ename e))) p.
Proof. exact insert_lookup. Qed.
Theorem C10_insert_printable : forall d e, printable d ->
  (classify (ename e) = Distfile -> ok_dist e) -> (classify (ename e) = Patchfile -> ok_patch e) -> printable (di_insert d e).
Proof. exact insert_printable. Qed.
Theorem C10_build_roundtrip : forall r es, ok_rcs r ->
  Forall (fun e => (classify (ename e) = Distfile -> ok_dist e) /\ (classify (ename e) = Patchfile -> ok_patch e)) es ->
  di_from_bytes (di_as_bytes (di_build r es)) = di_build r es.
Proof. exact build_roundtrip. Qed.
(* a file in canonical layout is reproduced byte for byte *)
Theorem C10_canonical_roundtrip : forall t, (exists d, printable d /\ t = di_as_bytes d) ->
  di_as_bytes (di_from_bytes t) = t.
Proof. exact canonical_roundtrip. Qed.
(* the canonical layout, line by line *)
Theorem C10_layout : forall d, di_as_bytes d = nl_term (all_texts d).
Proof. exact as_bytes_texts. Qed.

Definition ex_di : distinfo :=
  mkdi (Some (lit "$NetBSD: distinfo,v 1.1 x $" ++ [233; 32; 160]))
       [mkentry [99; 97; 102; 195; 160; 46; 116; 103; 122] (Some 18446744073709551615%Z) [(SHA1, lit "ab12"); (BLAKE2s, lit "00")];
        mkentry [108; 233; 46; 116; 103; 122] (Some 0%Z) []]
       [mkentry (lit "dir/patch-aa" ++ [133]) None [(RMD160, lit "ff")]].
Example C10_example : di_from_bytes (di_as_bytes ex_di) = ex_di /\
  classify [108; 233; 46; 116; 103; 122] = Distfile /\ classify (lit "dir/patch-aa" ++ [133]) = Patchfile.
Proof. vm_compute. repeat split. Qed.
