(* Property C04 - brace alternation matches exactly the union of its csh-style
   expansions.  Statements only.  [pat] trees, [print], [exp] (the csh
   expansion), [wf] and [spec_match] are defined in AltSpec.v. *)
Require Import PV.Base PV.Dec PV.Dewey PV.Pattern PV.AltSpec PV.PatternProofs PV.AltProofs.
Require Import Coq.Strings.String.
Import Coq.Lists.List ListNotations.
Local Open Scope N_scope.

(* a pattern containing '{' or '}' compiles exactly when its braces nest *)
Theorem C04_compile_iff_balanced : forall s, mem LB s = true \/ mem RB s = true ->
  (is_val (pattern_new s) = true <-> bal s 0 = true) /\ (bal s 0 = false -> pattern_new s = Fail EAlternate).
Proof. exact compile_iff_balanced. Qed.
(* ... and "its braces nest" means: it is the printed form of a well-formed tree *)
Theorem C04_balanced_iff_tree : forall s, bal s 0 = true <-> exists t, wf false t /\ print t = s.
Proof. exact balanced_iff_tree. Qed.
(* sound and complete: the matcher answers exactly "some csh expansion matches
   the name as a pattern in its own right" - any depth, any number of groups *)
Theorem C04_sound_complete : forall t pkg, wf false t -> (0 < ngroups t)%nat ->
  pm (print t) pkg = MBool (spec_match t pkg).
Proof. exact alternate_sound_complete. Qed.
(* the same for every string the code accepts *)
Theorem C04_api : forall s pkg, mem LB s = true \/ mem RB s = true -> bal s 0 = true ->
  exists t, wf false t /\ print t = s /\ pm s pkg = MBool (spec_match t pkg).
Proof. exact alternate_api. Qed.
(* the recursion depth is the number of '{': the supplied fuel always suffices *)
Theorem C04_fuel_ok : forall pkg n t, wf false t -> (nLB (print t) < n)%nat ->
  go_one pkg n (print t) = Some (spec_match t pkg).
Proof. exact go_one_spec. Qed.

Definition ex_tree : pat :=   (* {a{b,c},d}-1.0 *)
  PGrp (ACons (PCh 97 (PGrp (ACons (PCh 98 PEnd) (AOne (PCh 99 PEnd))) PEnd)) (AOne (PCh 100 PEnd)))
       (PCh 45 (PCh 49 (PCh 46 (PCh 48 PEnd)))).
Example C04_example :
  print ex_tree = lit "{a{b,c},d}-1.0" /\
  exp ex_tree = [lit "ab-1.0"; lit "ac-1.0"; lit "d-1.0"] /\
  pm (lit "{a{b,c},d}-1.0") (lit "ac-1.0") = MBool true /\
  pm (lit "{a{b,c},d}-1.0") (lit "ad-1.0") = MBool false /\
  pm (lit "{a,b}}") (lit "a") = MErr EAlternate.
Proof. vm_compute. repeat split. Qed.

(* The implementation expands with an explicit work list (since the repair of
   the stack overflow on very many groups): that loop, transcribed as alt_work /
   pm_w, gives the answer of the recursive description for every pattern and
   name once it is allowed enough iterations, and more never change it. *)
Theorem C04_worklist_refines : forall p pkg, exists k, forall f, pm_w (k + f) p pkg = pm p pkg.
Proof. exact worklist_refines. Qed.
Example C04_example_worklist :
  pm_w 50 (lit "{a{b,c},d}-[0-9]*") (lit "ac-1.0") = MBool true /\
  pm_w 50 (lit "{a{b,c},d}-[0-9]*") (lit "ad-1.0") = MBool false /\
  pm_w 50 (lit "{}{}{}x-1") (lit "x-1") = MBool true /\
  pm_w 2 (lit "{}{}{}x-1") (lit "x-1") = MFuel.
Proof. vm_compute. repeat split. Qed.
