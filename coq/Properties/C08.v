(* Property C08 - pkg_summary parsing accepts exactly complete well-formed
   entries, else says why.  Statements only.  [line_ok l]: l is 'VAR=value'
   with VAR one of the 23 names and, for FILE_SIZE / SIZE_PKG, an integer value;
   [cause l]: why a line is not ok; [collect v ls]: the meaning of the lines for
   variable v (value after the FIRST '=', last wins, lists accumulate). *)
Require Import PV.Base PV.Dec PV.Summary PV.SummaryProofs.
Require Import Coq.Strings.String.
Import Coq.Lists.List ListNotations.
Local Open Scope N_scope.

Theorem C08_accept_iff : forall t, is_val (parse_entry t) = true <->
  Forall line_ok (lines t) /\ forall v, In v required -> present v (lines t).
Proof. exact parse_entry_accept_iff. Qed.
(* the first offending line decides the error ... *)
Theorem C08_error_first_bad_line : forall t good bad rest, lines t = good ++ bad :: rest ->
  Forall line_ok good -> ~ line_ok bad -> parse_entry t = Fail (cause bad).
Proof. exact parse_entry_first_bad. Qed.
(* ... otherwise the first missing required variable, in the fixed order *)
Theorem C08_error_missing : forall t, Forall line_ok (lines t) ->
  parse_entry t = match find (fun v => match vals_of v (lines t) with [] => true | _ => false end) required with
                  | Some v => Fail (EMissing v)
                  | None => match parse_lines empty (lines t) with Val e => Val e | r => r end
                  end.
Proof. exact parse_entry_missing. Qed.
(* accepted text: value = everything after the first '='; repeated list
   variables accumulate in input order; a repeated single-valued one keeps its last value *)
Theorem C08_semantics : forall t e, parse_entry t = Val e -> forall v, e v = collect v (lines t).
Proof. exact parse_entry_semantics. Qed.
Theorem C08_completed_iff : forall e, is_completed e = true <-> forall v, In v required -> e v <> None.
Proof. exact is_completed_iff. Qed.

Example C08_example :
  parse_entry (lit "PKGNAME=a") = Fail (EMissing BuildDate) /\
  parse_entry (lit "PKGNAME") = Fail ELine /\ parse_entry (lit "pkgname=a") = Fail EVar /\
  parse_entry (lit "SIZE_PKG=5 ") = Fail EInt /\ cause (lit "SIZE_PKG=5 ") = EInt /\
  collect Comment [lit "COMMENT=a=b"; lit "COMMENT=c"] = Some (VS (lit "c")) /\
  collect Depends [lit "DEPENDS=x"; lit "COMMENT=c"; lit "DEPENDS=y=z"] = Some (VA [lit "x"; lit "y=z"]).
Proof. vm_compute. repeat split. Qed.
