(* NoPanic.v - no modelled entry point can reach a Panic branch or run out of
   fuel (C17).  Every unwrap/expect/index/slice of the anchored Rust is a Panic
   branch of the model guarded by the same condition; these theorems show the
   guards never fire.  Models without a Panic constructor (distinfo, digest
   names, scanindex, metadata, pkgdb listing) are total functions by typing. *)
Require Import PV.Base PV.Dec PV.Dewey PV.DeweySpec PV.DeweyProofs PV.DeweyPat PV.Pattern PV.AltSpec PV.GlobProofs
  PV.PatternProofs PV.AltProofs PV.Summary PV.SummaryProofs PV.Distinfo PV.Plist PV.PkgPathM.
Require Import Coq.Strings.String.
Import Coq.Lists.List ListNotations.
Local Open Scope N_scope.

(* ---------- glob compile: the loop always advances ---------- *)
Lemma count_stars_pos (r : str) : (1 <= count_stars (42%N :: r))%nat.
Proof. cbn. lia. Qed.
Theorem glob_compile_total : forall f prev acc s, (List.length s < f)%nat ->
  exists r, glob_compile f prev acc s = r /\ match r with Val _ | Fail _ => True | _ => False end.
Proof.
  induction f as [|f IH]; intros prev acc s L; [lia|]. cbn [glob_compile].
  destruct s as [|c r]; [eexists; split; [reflexivity|exact I]|]. cbn [List.length] in L.
  destruct (c =? 63). { apply IH. lia. }
  destruct (N.eqb_spec c 42) as [->|_].
  { destruct (Nat.ltb 2 _); [eexists; split; [reflexivity|exact I]|].
    assert (List.length (skipn (count_stars (42%N :: r)) (42%N :: r)) <= List.length r)%nat as Lr.
    { pose proof (count_stars_pos r). rewrite skipn_length. cbn [List.length]. lia. }
    destruct (Nat.eqb _ 2).
    - destruct (match prev with None => true | Some p => is_sep p end); [|eexists; split; [reflexivity|exact I]].
      destruct (skipn _ _) as [|c' r'] eqn:E; [apply IH; cbn; lia|].
      destruct (is_sep c'); [apply IH; cbn [List.length] in Lr; lia|eexists; split; [reflexivity|exact I]].
    - apply IH. lia. }
  destruct (c =? 91).
  { destruct r as [|x r1]; [eexists; split; [reflexivity|exact I]|]. destruct (x =? 33).
    - destruct r1 as [|y1 [|y2 r2]]; try (eexists; split; [reflexivity|exact I]).
      destruct (position 93 _); [|eexists; split; [reflexivity|exact I]]. apply IH. rewrite skipn_length. cbn [List.length] in *. lia.
    - destruct r1 as [|y1 r2]; try (eexists; split; [reflexivity|exact I]).
      destruct (position 93 _); [|eexists; split; [reflexivity|exact I]]. apply IH. rewrite skipn_length. cbn [List.length] in *. lia. }
  apply IH. lia.
Qed.
Theorem glob_new_total p : match glob_new p with Val _ | Fail _ => True | _ => False end.
Proof. destruct (glob_compile_total (S (List.length p)) None [] p ltac:(lia)) as (r & E & H). unfold glob_new. rewrite E. exact H. Qed.

Theorem pattern_new_total p : match pattern_new p with Val _ | Fail _ => True | _ => False end.
Proof.
  unfold pattern_new. destruct (mem LB p || mem RB p). { destruct (bal p 0); exact I. }
  destruct (mem 62 p || mem 60 p).
  { pose proof (new_never_panics p) as NP. destruct (dewey_new p) eqn:E; try exact I; try discriminate.
    unfold dewey_new in E. destruct (scan_ops 0 p) as [|[[? ?] ?] [|[[? ?] ?] [|? ?]]]; try discriminate;
      repeat match type of E with context[match ?x with _ => _ end] => destruct x; try discriminate end. }
  destruct (mem 42 p || mem 63 p || mem 91 p || mem 93 p).
  { pose proof (glob_new_total p) as G. destruct (glob_new p); try exact I; contradiction. }
  exact I.
Qed.
(* Pattern::new then matches: always an error or a verdict - for every pattern and every name *)
Theorem pm_total p pkg : match pm p pkg with MErr _ | MBool _ => True | _ => False end.
Proof.
  unfold pm. pose proof (pattern_new_total p) as T. destruct (pattern_new p) as [pt| | |] eqn:E; try exact I; try contradiction.
  destruct (mem LB p || mem RB p) eqn:B.
  - (* alternates: the recursion depth is the number of '{' *)
    assert (mem LB p = true \/ mem RB p = true) as HB by (apply orb_prop in B; exact B).
    pose proof E as E'. rewrite pattern_new_brace in E' by auto. destruct (bal p 0) eqn:Bal; [|discriminate].
    destruct (alternate_api p pkg HB Bal) as (t & _ & _ & A). unfold pm in A. rewrite E in A.
    destruct (pmatches (fuel_for p) pt pkg); [exact I|discriminate].
  - apply orb_false_elim in B as [B1 B2]. pose proof (pattern_new_nobrace p pt B1 B2 E) as K.
    rewrite pmatches_nonalt by auto. exact I.
Qed.
Theorem best_total p a b pt : pattern_new p = Val pt -> best2 (fuel_for p) pt a b <> None.
Proof.
  intros E. unfold best2. pose proof (pm_total p a) as Ta. pose proof (pm_total p b) as Tb. unfold pm in Ta, Tb. rewrite E in Ta, Tb.
  destruct (pmatches (fuel_for p) pt a) as [[|]|]; try contradiction; destruct (pmatches (fuel_for p) pt b) as [[|]|]; try contradiction; try discriminate.
  destruct (dewey_cmp _ GT _); [discriminate|]. destruct (dewey_cmp _ LT _); [discriminate|]. destruct (str_ltb a b); discriminate.
Qed.
Theorem depend_new_total s : match depend_new s with Val _ | Fail _ => True | _ => False end.
Proof.
  unfold depend_new. destruct (split_on 58 s) as [|x [|y [|? ?]]]; try exact I.
  pose proof (pattern_new_total x) as T. destruct (pattern_new x); try exact I; try contradiction.
  destruct (pkgpath_new y); exact I.
Qed.

(* ---------- pkg_summary ---------- *)
Theorem parse_lines_total ls : match parse_lines empty ls with Val _ | Fail _ => True | _ => False end.
Proof.
  induction ls as [|l ls IH] using rev_ind; [exact I|]. rewrite parse_lines_app.
  destruct (parse_lines empty ls) as [e| | |] eqn:E; try exact I; try contradiction. cbn [bind parse_lines].
  destruct (parse_lines_sem ls e E) as [_ Inv].
  assert (match parse_line e l with Val _ | Fail _ => True | _ => False end) as G.
  { unfold parse_line. destruct (split_once 61 l) as [[k x]|]; [|exact I]. destruct (parse_name k) as [w|]; [|exact I].
    destruct (kind_of w) eqn:K; [exact I|destruct (parse_i64 x); exact I|].
    unfold push. pose proof (Inv w) as Iw. unfold collect in Iw. rewrite K in Iw. destruct (vals_of w ls); rewrite Iw; exact I. }
  destruct (parse_line e l); try exact I; try contradiction.
Qed.
Theorem parse_entry_total t : match parse_entry t with Val _ | Fail _ => True | _ => False end.
Proof.
  unfold parse_entry. pose proof (parse_lines_total (lines t)) as T. destruct (parse_lines empty (lines t)); try exact I; try contradiction.
  cbn [bind]. destruct (first_missing a); exact I.
Qed.

(* ---------- PLIST ---------- *)
Theorem entry_of_bytes_total b : match entry_of_bytes b with Val _ | Fail _ => True | _ => False end.
Proof.
  unfold entry_of_bytes. destruct (cmd_args b) as [cmd a]. destruct cmd as [|c r]; [exact I|].
  assert (forall X : res perr pentry, match X with Val _ | Fail _ => True | _ => False end ->
          match (match c with 64 => X | _ => Val (PFile b) end) with Val _ | Fail _ => True | _ => False end) as Sel.
  { intros X HX. destruct c as [|p]; [exact I|]. repeat (destruct p as [p|p|]; try exact I). exact HX. }
  apply Sel. unfold need_os, need_str, opt_str.
  repeat match goal with |- context[if ?x then _ else _] => destruct x end; try exact I;
    destruct a as [s|]; try exact I; repeat match goal with |- context[if ?x then _ else _] => destruct x end; exact I.
Qed.
Lemma mapM_total {A B E} (f : A -> res E B) l : (forall x, match f x with Val _ | Fail _ => True | _ => False end) ->
  match mapM f l with Val _ | Fail _ => True | _ => False end.
Proof. intros H. induction l as [|x l IH]; [exact I|]. cbn [mapM]. specialize (H x). destruct (f x); try exact I; try contradiction.
  cbn [bind]. destruct (mapM f l); try exact I; try contradiction. Qed.
Theorem plist_of_bytes_total b : match plist_of_bytes b with Val _ | Fail _ => True | _ => False end.
Proof. unfold plist_of_bytes. apply mapM_total. apply entry_of_bytes_total. Qed.
