(* DistinfoProofs.v - distinfo: recognition of well-formed lines, what a text
   means file by file (C11), byte-exact round trips (C10), lookup and
   verification (C12), digest names and read schedules (C13). *)
Require Import PV.Base PV.Dec PV.Summary PV.Distinfo PV.DigestM.
Require Import Coq.Strings.String.
Import Coq.Lists.List ListNotations.
Local Open Scope N_scope.

(* ================= blanks and fields ================= *)
Definition blank (w : str) : Prop := forallb is_ascii_ws w = true.
Definition solid (f : str) : Prop := f <> [] /\ forallb (fun c => negb (is_ascii_ws c)) f = true.

Lemma skip_ws_blank w x : blank w -> skip_ws (w ++ x) = skip_ws x.
Proof. unfold blank. induction w as [|c w IH]; cbn [forallb app skip_ws]; auto. intros H. apply andb_prop in H as [-> H]. auto. Qed.
Lemma skip_ws_solid f x : solid f -> skip_ws (f ++ x) = f ++ x.
Proof. intros [Hn H]. destruct f as [|c f]; [congruence|]. cbn in *. apply andb_prop in H as [H _].
  destruct (is_ascii_ws c); [discriminate|reflexivity]. Qed.

Lemma fields_aux_solid f : forall cur rest, forallb (fun c => negb (is_ascii_ws c)) f = true ->
  fields_aux cur (f ++ rest) = fields_aux (List.rev f ++ cur) rest.
Proof.
  induction f as [|c f IH]; intros cur rest H; cbn [app List.rev]; auto.
  cbn [forallb] in H. apply andb_prop in H as [Hc H]. cbn [fields_aux].
  destruct (is_ascii_ws c); [discriminate|]. rewrite IH by auto. rewrite <- app_assoc. reflexivity.
Qed.
Lemma fields_aux_blank w : forall rest, blank w -> fields_aux [] (w ++ rest) = fields_aux [] rest.
Proof. unfold blank. induction w as [|c w IH]; intros rest H; cbn [app]; auto.
  cbn [forallb] in H. apply andb_prop in H as [Hc H]. cbn [fields_aux]. rewrite Hc. auto. Qed.
Lemma fields_aux_end cur w : cur <> [] -> w <> [] -> blank w -> forall rest,
  fields_aux cur (w ++ rest) = List.rev cur :: fields_aux [] rest.
Proof.
  intros Hc Hw Hb rest. destruct w as [|c w]; [congruence|]. unfold blank in Hb. cbn [forallb] in Hb.
  apply andb_prop in Hb as [H1 H2]. cbn [app fields_aux]. rewrite H1. destruct cur; [congruence|].
  rewrite fields_aux_blank by exact H2. rewrite frev_eq. reflexivity.
Qed.
(* one field followed by at least one blank *)
Lemma fields_cons f w rest : solid f -> w <> [] -> blank w -> fields (f ++ w ++ rest) = f :: fields rest.
Proof.
  intros [Hn Hs] Hw Hb. unfold fields. rewrite fields_aux_solid by auto. rewrite app_nil_r.
  rewrite fields_aux_end; auto. - rewrite rev_involutive. reflexivity. - destruct f; [congruence|]. cbn. destruct (List.rev f); discriminate.
Qed.
Lemma fields_last f w : solid f -> blank w -> fields (f ++ w) = [f].
Proof.
  intros [Hn Hs] Hb. unfold fields. rewrite fields_aux_solid by auto. rewrite app_nil_r.
  assert (List.rev f <> []) as Hr by (destruct f; [congruence|]; cbn; destruct (List.rev f); discriminate).
  destruct w as [|c w].
  - cbn [fields_aux]. rewrite ?frev_eq. destruct (List.rev f) eqn:E; [congruence|]. rewrite <- E, rev_involutive. reflexivity.
  - rewrite <- (app_nil_r (c :: w)). rewrite fields_aux_end; auto; [|discriminate]. rewrite rev_involutive. reflexivity.
Qed.

(* ================= recognised lines ================= *)
Definition nonblank_bytes (s : str) : Prop := forallb (fun c => negb (is_ascii_ws c)) s = true.
Lemma solid_paren name : nonblank_bytes name -> solid (40 :: name ++ [41]).
Proof. intros H. split; [discriminate|]. cbn [forallb]. unfold nonblank_bytes in H. rewrite forallb_app, H. reflexivity. Qed.
Lemma unparen_paren name : unparen (40 :: name ++ [41]) = Some name.
Proof. unfold unparen. rewrite frev_eq, rev_app_distr. cbn [List.rev app]. rewrite frev_eq, rev_involutive. reflexivity. Qed.
Lemma alg_name_solid a : solid (alg_name a).
Proof. destruct a; split; try discriminate; reflexivity. Qed.
Lemma alg_parse_bytes_name a : alg_parse_bytes (alg_name a) = Some a.
Proof. destruct a; reflexivity. Qed.
Lemma alg_name_not_size a : eqs (alg_name a) (lit "Size") = false.
Proof. destruct a; reflexivity. Qed.
Lemma alg_name_utf8 a : utf8_valid (alg_name a) = true.
Proof. destruct a; reflexivity. Qed.

Definition by_fields (fs : list str) : dline :=
  match fs with
  | [] => LNone
  | f0 :: rest =>
      if negb (utf8_valid f0) then LNone
      else match rest with
           | [] => finish f0 [] []
           | f1 :: rest2 =>
               match unparen f1 with
               | None => LNone
               | Some p =>
                   match rest2 with
                   | _ :: f3 :: _ => if negb (utf8_valid f3) then LNone else finish f0 p f3
                   | _ => finish f0 p []
                   end
               end
           end
  end.
Lemma sel35 {A} (c : N) (X Y : A) : c <> 35 -> match c with 35 => X | _ => Y end = Y.
Proof. intros H. destruct c as [|p]; auto. destruct (Pos.eq_dec p 35) as [->|]; [congruence|].
  repeat (destruct p as [p|p|]; try reflexivity); congruence. Qed.
Lemma parse_dline_by_fields l c r : skip_ws l = c :: r -> c <> 35 ->
  starts_with (lit "$NetBSD: ") (c :: r) = false -> parse_dline l = by_fields (fields (c :: r)).
Proof.
  intros E Hc Hs. unfold parse_dline. rewrite E.
  assert (forall X Y : dline, match c with 35 => X | _ => Y end = Y) as Sel.
  { intros X Y. destruct c as [|p]; auto. destruct (Pos.eq_dec p 35) as [->|]; [congruence|].
    repeat (destruct p as [p|p|]; try reflexivity); congruence. }
  rewrite Sel, Hs. reflexivity.
Qed.

(* 'ALGORITHM (name) = hash' with any blanks between the fields, before and after *)
Theorem sum_line_recognised a name h ws1 ws2 ws3 ws4 ws5 :
  nonblank_bytes name -> solid h -> utf8_valid h = true ->
  blank ws1 -> ws2 <> [] -> blank ws2 -> ws3 <> [] -> blank ws3 -> ws4 <> [] -> blank ws4 -> blank ws5 ->
  parse_dline (ws1 ++ alg_name a ++ ws2 ++ (40 :: name ++ [41]) ++ ws3 ++ [61] ++ ws4 ++ h ++ ws5) = LSum a name h.
Proof.
  intros Hn Hh Hu B1 N2 B2 N3 B3 N4 B4 B5.
  set (rest := ws2 ++ (40 :: name ++ [41]) ++ ws3 ++ [61] ++ ws4 ++ h ++ ws5).
  assert (fields (alg_name a ++ rest) = [alg_name a; 40 :: name ++ [41]; [61]; h]) as F.
  { unfold rest. rewrite fields_cons; [|apply alg_name_solid|assumption|assumption].
    rewrite fields_cons; [|apply solid_paren; assumption|assumption|assumption].
    rewrite (fields_cons [61]); [|split; [discriminate|reflexivity]|assumption|assumption].
    rewrite fields_last; [reflexivity|assumption|assumption]. }
  assert (exists c n', alg_name a = c :: n' /\ c <> 35 /\ c <> 36 /\ is_ascii_ws c = false) as (c & n' & En & C1 & C2 & C3).
  { destruct a; eexists; eexists; repeat split; try discriminate; reflexivity. }
  rewrite (parse_dline_by_fields _ c (n' ++ rest)).
  - change (c :: n' ++ rest) with ((c :: n') ++ rest). rewrite <- En, F. unfold by_fields.
    rewrite alg_name_utf8. cbn [negb]. rewrite unparen_paren, Hu. cbn [negb].
    unfold finish. rewrite alg_name_not_size, alg_parse_bytes_name. reflexivity.
  - rewrite skip_ws_blank by auto. fold rest. rewrite En. cbn [app skip_ws]. rewrite C3. reflexivity.
  - exact C1.
  - change (lit "$NetBSD: ") with (36 :: lit "NetBSD: "). cbn [starts_with].
    destruct (N.eqb_spec 36 c); [congruence|reflexivity].
Qed.

(* 'Size (name) = N bytes' *)
Theorem size_line_recognised name n ws1 ws2 ws3 ws4 ws5 ws6 :
  nonblank_bytes name -> (0 <= n <= u64max)%Z ->
  blank ws1 -> ws2 <> [] -> blank ws2 -> ws3 <> [] -> blank ws3 -> ws4 <> [] -> blank ws4 -> ws5 <> [] -> blank ws5 -> blank ws6 ->
  parse_dline (ws1 ++ lit "Size" ++ ws2 ++ (40 :: name ++ [41]) ++ ws3 ++ [61] ++ ws4 ++ print_z n ++ ws5 ++ lit "bytes" ++ ws6) = LSize name n.
Proof.
  intros Hn Hr B1 N2 B2 N3 B3 N4 B4 N5 B5 B6.
  assert (solid (lit "Size")) as SS by (split; [discriminate|reflexivity]).
  assert (forall c, In c (print_z n) -> (45 <= c <= 57)) as PC.
  { intros c Hc. apply print_z_chars in Hc as [->|Hc]; [lia|].
    unfold is_digit in Hc. apply andb_prop in Hc as [A B]. apply N.leb_le in A, B. lia. }
  assert (solid (print_z n)) as SP.
  { split.
    - unfold print_z. destruct (Z.to_int n) as [u|u] eqn:E; [|discriminate].
      apply uint_chars_nonnil. apply (to_int_nonnil n). auto.
    - apply forallb_forall. intros c Hc. apply PC in Hc. unfold is_ascii_ws.
      destruct (N.eqb_spec c 32); [lia|]. destruct (N.eqb_spec c 9); [lia|]. destruct (N.eqb_spec c 10); [lia|].
      destruct (N.eqb_spec c 12); [lia|]. destruct (N.eqb_spec c 13); [lia|]. reflexivity. }
  assert (utf8_valid (print_z n) = true) as U.
  { assert (forall s, (forall c, In c s -> c <? 128 = true) -> utf8_valid s = true) as G.
    { induction s as [|c s IH]; intros H; [reflexivity|]. cbn [utf8_valid]. rewrite (H c (or_introl eq_refl)). apply IH. intros; apply H; right; auto. }
    apply G. intros c Hc. apply PC in Hc. apply N.ltb_lt. lia. }
  set (rest := ws2 ++ (40 :: name ++ [41]) ++ ws3 ++ [61] ++ ws4 ++ print_z n ++ ws5 ++ lit "bytes" ++ ws6).
  assert (fields (lit "Size" ++ rest) = [lit "Size"; 40 :: name ++ [41]; [61]; print_z n; lit "bytes"]) as F.
  { unfold rest. rewrite fields_cons; [|assumption|assumption|assumption].
    rewrite fields_cons; [|apply solid_paren; assumption|assumption|assumption].
    rewrite (fields_cons [61]); [|split; [discriminate|reflexivity]|assumption|assumption].
    rewrite fields_cons; [|assumption|assumption|assumption].
    rewrite fields_last; [reflexivity|split; [discriminate|reflexivity]|assumption]. }
  rewrite (parse_dline_by_fields _ 83 ([105; 122; 101] ++ rest)).
  - change (83 :: [105; 122; 101] ++ rest) with (lit "Size" ++ rest). rewrite F. unfold by_fields.
    change (utf8_valid (lit "Size")) with true. cbn [negb]. rewrite unparen_paren, U. cbn [negb].
    unfold finish. change (eqs (lit "Size") (lit "Size")) with true. cbv iota.
    rewrite parse_print_u64 by auto. reflexivity.
  - rewrite skip_ws_blank by auto. rewrite skip_ws_solid by auto. reflexivity.
  - discriminate.
  - reflexivity.
Qed.

(* lines that change nothing *)
Theorem ignored_lines :
  (forall l, skip_ws l = [] -> parse_dline l = LNone) /\
  (forall l r, skip_ws l = 35 :: r -> parse_dline l = LNone) /\
  (forall action p v, eqs action (lit "Size") = false -> alg_parse_bytes action = None -> finish action p v = LNone) /\
  (forall p v, parse_u64 v = None -> finish (lit "Size") p v = LNone).
Proof.
  repeat split.
  - intros l H. unfold parse_dline. rewrite H. reflexivity.
  - intros l r H. unfold parse_dline. rewrite H. reflexivity.
  - intros action p v H1 H2. unfold finish. rewrite H1, H2. reflexivity.
  - intros p v H. unfold finish. change (eqs (lit "Size") (lit "Size")) with true. cbv iota. rewrite H. reflexivity.
Qed.
(* every line is either ignored, the RCS Id, or decided by [finish] on its fields 0, 1 and 3 *)
Theorem parse_dline_shape l : parse_dline l = LNone \/ (exists s, parse_dline l = LRcs s /\ s = skip_ws l) \/
  exists f0 p v, parse_dline l = finish f0 p v /\ In f0 (fields (skip_ws l)).
Proof.
  unfold parse_dline. destruct (skip_ws l) as [|c r] eqn:E; auto.
  destruct (N.eq_dec c 35) as [->|Nc]; [left; reflexivity|]. rewrite sel35 by auto.
  destruct (starts_with _ _); [right; left; eauto|].
  destruct (fields (c :: r)) as [|f0 rest]; auto.
  destruct (negb (utf8_valid f0)); auto.
  destruct rest as [|f1 rest2]; [right; right; exists f0, [], []; split; auto; left; auto|].
  destruct (unparen f1) as [p|]; auto.
  destruct rest2 as [|f2 [|f3 rest3]]; try (right; right; exists f0, p, []; split; auto; left; reflexivity).
  destruct (negb (utf8_valid f3)); auto. right; right. exists f0, p, f3. split; auto. left; reflexivity.
Qed.

(* ================= paths ================= *)
Lemma comp_eqb_eq a b : comp_eqb a b = true <-> a = b.
Proof. destruct a, b; cbn; split; try discriminate; try reflexivity; try congruence.
  - intros H. apply eqs_eq in H. congruence.
  - intros [= ->]. apply eqs_refl. Qed.
Lemma comps_eqb_eq a b : comps_eqb a b = true <-> a = b.
Proof.
  revert b; induction a as [|x a IH]; intros [|y b]; cbn; split; try discriminate; try reflexivity.
  - intros H. apply andb_prop in H as [H1 H2]. apply comp_eqb_eq in H1. apply IH in H2. congruence.
  - intros [= -> ->]. apply andb_true_intro. split; [apply comp_eqb_eq|apply IH]; reflexivity.
Qed.
Lemma path_eqb_eq p q : path_eqb p q = true <-> pcomps p = pcomps q.
Proof. apply comps_eqb_eq. Qed.
Lemma path_eqb_refl p : path_eqb p p = true. Proof. apply path_eqb_eq. reflexivity. Qed.
Lemma path_eqb_sym p q : path_eqb p q = path_eqb q p.
Proof. destruct (path_eqb p q) eqn:A, (path_eqb q p) eqn:B; auto.
  - apply path_eqb_eq in A. symmetry in A. apply path_eqb_eq in A. congruence.
  - apply path_eqb_eq in B. symmetry in B. apply path_eqb_eq in B. congruence. Qed.
Lemma path_eqb_trans p q r : path_eqb p q = true -> path_eqb q r = true -> path_eqb p r = true.
Proof. rewrite !path_eqb_eq. congruence. Qed.
Lemma path_eqb_false_l p q r : path_eqb p q = true -> path_eqb p r = false -> path_eqb q r = false.
Proof. intros A B. destruct (path_eqb q r) eqn:C; auto. rewrite (path_eqb_trans p q r A C) in B. discriminate. Qed.
(* the class of a file is a function of its path components *)
Lemma classify_eq p q : path_eqb p q = true -> classify p = classify q.
Proof. intros H. apply path_eqb_eq in H. unfold classify, file_name. rewrite H. reflexivity. Qed.

(* ================= what a list of recognised lines means ================= *)
Definition class_eqb (a b : etype) : bool := match a, b with Distfile, Distfile | Patchfile, Patchfile => true | _, _ => false end.
Lemma class_eqb_eq a b : class_eqb a b = true <-> a = b.
Proof. destruct a, b; cbn; split; congruence. Qed.
(* checksums recorded for the file p, in line order *)
Definition sums_for (p : str) (L : list dline) : list (alg * str) :=
  flat_map (fun l => match l with LSum a q h => if path_eqb q p then [(a, h)] else [] | _ => [] end) L.
(* its size: the last Size line naming it *)
Definition size_for (p : str) (L : list dline) : option Z :=
  fold_left (fun acc l => match l with LSize q n => if path_eqb q p then Some n else acc | _ => acc end) L None.
Definition line_path (l : dline) : option str :=
  match l with LSize p _ | LSum _ p _ => Some p | _ => None end.
(* the files of class k, each under its first spelling, in first-appearance order *)
Definition keys (k : etype) (L : list dline) : list str :=
  fold_left (fun ks l => match line_path l with
                         | Some q => if class_eqb (classify q) k && negb (existsb (fun x => path_eqb x q) ks) then ks ++ [q] else ks
                         | None => ks end) L [].
Definition last_rcs (L : list dline) : option str :=
  fold_left (fun acc l => match l with LRcs s => Some s | _ => acc end) L None.

(* the effect of one line on the map of class k *)
Definition apply_map (k : etype) (m : list dentry) (l : dline) : list dentry :=
  match l with
  | LSize p n => if class_eqb (classify p) k
                 then upd_entry p (fun e => mkentry (ename e) (Some n) (esums e)) (mkentry p (Some n) []) m else m
  | LSum a p h => if class_eqb (classify p) k
                  then upd_entry p (fun e => mkentry (ename e) (esize e) (esums e ++ [(a, h)])) (mkentry p None [(a, h)]) m else m
  | _ => m
  end.
Lemma apply_line_maps d l :
  dists (apply_line d l) = apply_map Distfile (dists d) l /\ patches (apply_line d l) = apply_map Patchfile (patches d) l /\
  rcsid (apply_line d l) = match l with LRcs s => Some s | _ => rcsid d end.
Proof.
  destruct l as [s|p n|a p h|]; cbn [apply_line apply_map]; auto;
    unfold update_size, update_checksum, on_map; destruct (classify p); cbn; auto.
Qed.
Lemma fold_maps L : forall d,
  dists (fold_left apply_line L d) = fold_left (apply_map Distfile) L (dists d) /\
  patches (fold_left apply_line L d) = fold_left (apply_map Patchfile) L (patches d) /\
  rcsid (fold_left apply_line L d) = fold_left (fun acc l => match l with LRcs s => Some s | _ => acc end) L (rcsid d).
Proof.
  induction L as [|l L IH]; intros d; cbn [fold_left]; auto.
  destruct (apply_line_maps d l) as (A & B & C). destruct (IH (apply_line d l)) as (A' & B' & C').
  rewrite A', B', C', A, B, C. auto.
Qed.

Fixpoint distinct (m : list dentry) : Prop :=
  match m with [] => True | e :: r => (forall e', In e' r -> path_eqb (ename e) (ename e') = false) /\ distinct r end.
Lemma upd_entry_miss key f fresh m : (forall e, In e m -> path_eqb (ename e) key = false) -> upd_entry key f fresh m = m ++ [fresh].
Proof. induction m as [|e m IH]; intros H; cbn [upd_entry app]; auto.
  rewrite (H e (or_introl eq_refl)), IH; auto. intros e' He'. apply H. right. auto. Qed.
Lemma upd_entry_hit key f fresh m : distinct m -> (exists e, In e m /\ path_eqb (ename e) key = true) ->
  upd_entry key f fresh m = map (fun e => if path_eqb (ename e) key then f e else e) m.
Proof.
  induction m as [|e m IH]; intros D (e0 & Hin & He0); [destruct Hin|]. cbn [upd_entry map]. destruct D as [D1 D2].
  destruct (path_eqb (ename e) key) eqn:Ek.
  - f_equal. clear IH. rewrite <- (map_id m) at 1. apply map_ext_in. intros e' He'.
    destruct (path_eqb (ename e') key) eqn:X; auto. exfalso. rewrite path_eqb_sym in X.
    pose proof (path_eqb_trans _ _ _ Ek X) as T. rewrite (D1 e' He') in T. discriminate.
  - f_equal. apply IH; auto. destruct Hin as [<-|Hin]; [congruence|eauto].
Qed.
Lemma existsb_path m key : existsb (fun x => path_eqb x key) (map ename m) = false <-> forall e, In e m -> path_eqb (ename e) key = false.
Proof.
  induction m as [|e m IH]; cbn [map existsb]; [split; [intros _ e []|reflexivity]|].
  rewrite orb_false_iff, IH. split.
  - intros [A B] e' [<-|H]; auto.
  - intros H. split; [apply H; left; auto|intros e' He'; apply H; right; auto].
Qed.

Record Inv (k : etype) (L : list dline) (m : list dentry) : Prop := mkInv {
  inv_keys : map ename m = keys k L;
  inv_vals : Forall (fun e => classify (ename e) = k /\ esums e = sums_for (ename e) L /\ esize e = size_for (ename e) L) m;
  inv_distinct : distinct m;
  inv_untouched : forall p, classify p = k -> (forall e, In e m -> path_eqb (ename e) p = false) ->
                  sums_for p L = [] /\ size_for p L = None
}.
Lemma sums_for_snoc p L l : sums_for p (L ++ [l]) = sums_for p L ++ match l with LSum a q h => if path_eqb q p then [(a, h)] else [] | _ => [] end.
Proof. unfold sums_for. rewrite flat_map_app. cbn. rewrite app_nil_r. reflexivity. Qed.
Lemma size_for_snoc p L l : size_for p (L ++ [l]) = match l with LSize q n => if path_eqb q p then Some n else size_for p L | _ => size_for p L end.
Proof. unfold size_for. rewrite fold_left_app. reflexivity. Qed.
Lemma keys_snoc k L l : keys k (L ++ [l]) = match line_path l with
  | Some q => if class_eqb (classify q) k && negb (existsb (fun x => path_eqb x q) (keys k L)) then keys k L ++ [q] else keys k L
  | None => keys k L end.
Proof. unfold keys. rewrite fold_left_app. reflexivity. Qed.

(* a line that does not name a file of class k leaves every fact about class k alone *)
Lemma inv_skip k L m l : Inv k L m ->
  (forall q, line_path l = Some q -> classify q <> k) -> Inv k (L ++ [l]) m.
Proof.
  intros [I1 I2 I3 I4] H.
  assert (forall p, classify p = k -> sums_for p (L ++ [l]) = sums_for p L /\ size_for p (L ++ [l]) = size_for p L) as Same.
  { intros p Hp. rewrite sums_for_snoc, size_for_snoc. destruct l as [s|q n|a q h|]; cbn; rewrite ?app_nil_r; auto;
      destruct (path_eqb q p) eqn:E; rewrite ?app_nil_r; auto; exfalso; apply (H q eq_refl); rewrite (classify_eq _ _ E); auto. }
  constructor; auto.
  - rewrite keys_snoc. destruct (line_path l) as [q|] eqn:Eq; auto. specialize (H q eq_refl).
    destruct (class_eqb (classify q) k) eqn:C; auto. apply class_eqb_eq in C. congruence.
  - eapply Forall_impl; [|exact I2]. intros e (A & B & C). destruct (Same (ename e) A) as [S1 S2]. rewrite S1, S2. auto.
  - intros p Hp Hm. destruct (Same p Hp) as [S1 S2]. rewrite S1, S2. auto.
Qed.

Lemma distinct_map g m : (forall e, ename (g e) = ename e) -> distinct m -> distinct (map g m).
Proof. intros Hg. induction m as [|e m IH]; cbn [map distinct]; auto. intros [D1 D2]. split; auto.
  intros e' He'. apply in_map_iff in He' as (e0 & <- & H0). rewrite !Hg. auto. Qed.
Lemma distinct_snoc m e : distinct m -> (forall e', In e' m -> path_eqb (ename e') (ename e) = false) -> distinct (m ++ [e]).
Proof. induction m as [|x m IH]; cbn [app distinct]; intros D H; [split; [intros ? []|exact I]|].
  destruct D as [D1 D2]. split.
  - intros e' He'. apply in_app_or in He' as [He'|[<-|[]]]; auto. apply H. left; auto.
  - apply IH; auto. intros e' He'. apply H. right; auto. Qed.
Lemma upd_entry_ext key f g fresh m : (forall e, f e = g e) -> upd_entry key f fresh m = upd_entry key g fresh m.
Proof. intros H. induction m as [|e m IH]; cbn [upd_entry]; auto. rewrite H, IH. reflexivity. Qed.

(* a line naming a file of class k updates exactly that file's entry *)
Lemma inv_touch k L m l q (addsums : list (alg * str)) (setsz : option Z -> option Z) :
  Inv k L m -> line_path l = Some q -> classify q = k ->
  (forall p, sums_for p (L ++ [l]) = sums_for p L ++ (if path_eqb q p then addsums else [])) ->
  (forall p, size_for p (L ++ [l]) = if path_eqb q p then setsz (size_for p L) else size_for p L) ->
  Inv k (L ++ [l]) (upd_entry q (fun e => mkentry (ename e) (setsz (esize e)) (esums e ++ addsums)) (mkentry q (setsz None) addsums) m).
Proof.
  intros [I1 I2 I3 I4] Hk Hc Hs Hz.
  set (f := fun e => mkentry (ename e) (setsz (esize e)) (esums e ++ addsums)).
  destruct (existsb (fun x => path_eqb x q) (map ename m)) eqn:Ex.
  - (* the file is already known *)
    assert (exists e, In e m /\ path_eqb (ename e) q = true) as Hit.
    { apply existsb_exists in Ex as (x & Hx & Hq). apply in_map_iff in Hx as (e & <- & He). eauto. }
    rewrite upd_entry_hit by auto. constructor.
    + rewrite map_map. rewrite keys_snoc, Hk, <- I1, Ex. rewrite andb_false_r.
      apply map_ext. intros e. destruct (path_eqb (ename e) q); reflexivity.
    + apply Forall_map. eapply Forall_impl; [|exact I2]. intros e (A & B & C).
      rewrite Hs, Hz. destruct (path_eqb (ename e) q) eqn:E.
      * cbn [ename esums esize f]. rewrite path_eqb_sym, E. rewrite B, C. auto.
      * rewrite path_eqb_sym, E, app_nil_r. auto.
    + apply distinct_map; auto. intros e. destruct (path_eqb (ename e) q); reflexivity.
    + intros p Hp Hm. rewrite Hs, Hz.
      assert (forall e, In e m -> path_eqb (ename e) p = false) as Hm'.
      { intros e He. specialize (Hm _ (in_map _ _ _ He)). cbv beta in Hm. destruct (path_eqb (ename e) q); exact Hm. }
      destruct (I4 p Hp Hm') as [S1 S2]. destruct Hit as (e0 & H0 & E0).
      destruct (path_eqb q p) eqn:Eqp.
      * exfalso. specialize (Hm' e0 H0). rewrite (path_eqb_trans _ _ _ E0 Eqp) in Hm'. discriminate.
      * rewrite S1, S2, app_nil_r. auto.
  - (* first appearance of the file *)
    pose proof (proj1 (existsb_path m q) Ex) as Miss.
    rewrite upd_entry_miss by auto. destruct (I4 q Hc Miss) as [Q1 Q2]. constructor.
    + rewrite map_app. cbn [map ename]. rewrite keys_snoc, Hk, <- I1, Ex, Hc.
      replace (class_eqb k k) with true by (symmetry; apply class_eqb_eq; auto). reflexivity.
    + apply Forall_app. split.
      * rewrite Forall_forall in *. intros e He. destruct (I2 e He) as (A & B & C). rewrite Hs, Hz.
        rewrite path_eqb_sym, (Miss e He), app_nil_r. auto.
      * constructor; [|constructor]. cbn [ename esums esize]. rewrite Hs, Hz, path_eqb_refl, Q1, Q2. auto.
    + apply distinct_snoc; auto.
    + intros p Hp Hm. rewrite Hs, Hz.
      assert (path_eqb q p = false) as Eqp by (apply (Hm (mkentry q (setsz None) addsums)); apply in_or_app; right; left; reflexivity).
      rewrite Eqp, app_nil_r. apply I4; auto. intros e He. apply Hm. apply in_or_app. left; auto.
Qed.

Theorem map_meaning k L : Inv k L (fold_left (apply_map k) L []).
Proof.
  induction L as [|l L IH] using rev_ind.
  - constructor; cbn; auto.
  - rewrite fold_left_app. cbn [fold_left]. set (m := fold_left (apply_map k) L []) in *.
    destruct l as [s|q n|a q h|]; cbn [apply_map].
    + apply inv_skip; auto. discriminate.
    + destruct (class_eqb (classify q) k) eqn:C.
      * apply class_eqb_eq in C.
        rewrite (upd_entry_ext q _ (fun e => mkentry (ename e) ((fun _ => Some n) (esize e)) (esums e ++ []))) by (intros e; rewrite app_nil_r; reflexivity).
        apply (inv_touch k L m (LSize q n) q [] (fun _ => Some n)); auto.
        -- intros p. rewrite sums_for_snoc. destruct (path_eqb q p); reflexivity.
        -- intros p. rewrite size_for_snoc. reflexivity.
      * apply inv_skip; auto. intros q' [= <-] E. apply class_eqb_eq in E. congruence.
    + destruct (class_eqb (classify q) k) eqn:C.
      * apply class_eqb_eq in C.
        apply (inv_touch k L m (LSum a q h) q [(a, h)] (fun x => x)); auto.
        -- intros p. rewrite sums_for_snoc. reflexivity.
        -- intros p. rewrite size_for_snoc. destruct (path_eqb q p); reflexivity.
      * apply inv_skip; auto. intros q' [= <-] E. apply class_eqb_eq in E. congruence.
    + apply inv_skip; auto. discriminate.
Qed.

(* the parsed file, field by field *)
Theorem from_bytes_meaning t :
  let L := map parse_dline (split_on 10 t) in let d := di_from_bytes t in
  Inv Distfile L (dists d) /\ Inv Patchfile L (patches d) /\ rcsid d = last_rcs L.
Proof.
  cbn zeta. unfold di_from_bytes.
  assert (forall ls d0, fold_left (fun d l => apply_line d (parse_dline l)) ls d0 = fold_left apply_line (map parse_dline ls) d0) as F.
  { induction ls as [|l ls IH]; intros d0; cbn [fold_left map]; auto. }
  rewrite F. destruct (fold_maps (map parse_dline (split_on 10 t)) di_empty) as (A & B & C).
  rewrite A, B, C. cbn [dists patches rcsid di_empty]. split; [apply map_meaning|split; [apply map_meaning|reflexivity]].
Qed.

(* ================= byte-exact round trips (C10) ================= *)
Definition ok_sum (ah : alg * str) : Prop := solid (snd ah) /\ utf8_valid (snd ah) = true.
Definition ok_dist (e : dentry) : Prop :=
  nonblank_bytes (ename e) /\ classify (ename e) = Distfile /\
  (exists n, esize e = Some n /\ (0 <= n <= u64max)%Z) /\ Forall ok_sum (esums e).
Definition ok_patch (e : dentry) : Prop :=
  nonblank_bytes (ename e) /\ classify (ename e) = Patchfile /\ esize e = None /\ esums e <> [] /\ Forall ok_sum (esums e).
Definition ok_rcs (r : option str) : Prop :=
  match r with None => True | Some s => starts_with (lit "$NetBSD: ") s = true /\ mem 10 s = false end.
(* a Distinfo whose printed form is the canonical layout *)
Definition printable (d : distinfo) : Prop :=
  ok_rcs (rcsid d) /\ Forall ok_dist (dists d) /\ Forall ok_patch (patches d) /\ distinct (dists d) /\ distinct (patches d).

(* the lines (without their newline) that as_bytes prints *)
Definition sum_text (name : str) (ah : alg * str) : str :=
  alg_name (fst ah) ++ [32] ++ (40 :: name ++ [41]) ++ [32] ++ [61] ++ [32] ++ snd ah ++ [].
Definition size_text (name : str) (n : Z) : str :=
  [] ++ lit "Size" ++ [32] ++ (40 :: name ++ [41]) ++ [32] ++ [61] ++ [32] ++ print_z n ++ [32] ++ lit "bytes" ++ [].
Lemma sum_line_text name ah : sum_line name ah = sum_text name ah ++ [10].
Proof. unfold sum_line, sum_text. cbn [lit]. rewrite <- !app_assoc. cbn [app]. rewrite <- !app_assoc. reflexivity. Qed.
Lemma size_line_text name n : size_line name n = size_text name n ++ [10].
Proof. unfold size_line, size_text. cbn [lit app]. rewrite <- !app_assoc. cbn [app]. rewrite <- !app_assoc. cbn [app]. reflexivity. Qed.
Definition hdr_text (r : option str) : str := match r with Some s => s | None => lit "$NetBSD$" end.
Definition dist_texts (e : dentry) : list str :=
  map (sum_text (ename e)) (esums e) ++ match esize e with Some n => [size_text (ename e) n] | None => [] end.
Definition patch_texts (e : dentry) : list str := map (sum_text (ename e)) (esums e).
Definition all_texts (d : distinfo) : list str :=
  [hdr_text (rcsid d); []] ++ flat_map dist_texts (dists d) ++ flat_map patch_texts (patches d).
Definition nl_term (ls : list str) : str := concat (map (fun l => l ++ [10]) ls).
Lemma nl_term_app a b : nl_term (a ++ b) = nl_term a ++ nl_term b.
Proof. unfold nl_term. rewrite map_app, concat_app. reflexivity. Qed.

Lemma as_bytes_texts d : di_as_bytes d = nl_term (all_texts d).
Proof.
  unfold di_as_bytes, all_texts. rewrite nl_term_app. unfold nl_term at 1. cbn [map concat app].
  fold (hdr_text (rcsid d)). rewrite <- !app_assoc. cbn [app]. f_equal. f_equal. f_equal.
  rewrite nl_term_app. f_equal.
  - induction (dists d) as [|e es IH]; [reflexivity|]. cbn [flat_map]. rewrite nl_term_app, <- IH. f_equal.
    unfold entry_bytes, dist_texts. rewrite nl_term_app. f_equal.
    + induction (esums e) as [|ah r IHr]; [reflexivity|]. cbn [flat_map map]. unfold nl_term in *. cbn [map concat].
      rewrite <- IHr, sum_line_text. reflexivity.
    + destruct (esize e); [|reflexivity]. unfold nl_term. cbn. rewrite app_nil_r. apply size_line_text.
  - induction (patches d) as [|e es IH]; [reflexivity|]. cbn [flat_map]. rewrite nl_term_app, <- IH. f_equal.
    unfold patch_texts. induction (esums e) as [|ah r IHr]; [reflexivity|]. cbn [flat_map map]. unfold nl_term in *. cbn [map concat].
    rewrite <- IHr, sum_line_text. reflexivity.
Qed.

Lemma split_on_nl l r : mem 10 l = false -> split_on 10 (l ++ 10 :: r) = l :: split_on 10 r.
Proof.
  induction l as [|x l IH]; cbn [app split_on mem]; intros H.
  - rewrite N.eqb_refl. reflexivity.
  - apply orb_false_elim in H as [H1 H2]. rewrite H1, IH by auto. reflexivity.
Qed.
Lemma split_on_nl_term ls : Forall (fun l => mem 10 l = false) ls -> split_on 10 (nl_term ls) = ls ++ [[]].
Proof. induction 1 as [|l ls H _ IH]; [reflexivity|]. unfold nl_term in *. cbn [map concat app].
  rewrite <- app_assoc. cbn [app]. rewrite split_on_nl by auto. rewrite IH. reflexivity. Qed.

Lemma mem_app' c a b : mem c (a ++ b) = mem c a || mem c b.
Proof. induction a as [|x a IH]; cbn; auto. rewrite IH, orb_assoc. reflexivity. Qed.
Lemma nonblank_no_nl s : nonblank_bytes s -> mem 10 s = false.
Proof. unfold nonblank_bytes. induction s as [|c s IH]; cbn [forallb mem]; auto. intros H. apply andb_prop in H as [H1 H2].
  rewrite IH by auto. destruct (N.eqb_spec c 10) as [->|]; [discriminate|reflexivity]. Qed.
Lemma print_z_no_nl n : mem 10 (print_z n) = false.
Proof. destruct (mem 10 (print_z n)) eqn:E; auto. apply mem_In, print_z_chars in E as [E|E]; [discriminate|]. vm_compute in E. discriminate. Qed.
Lemma alg_name_no_nl a : mem 10 (alg_name a) = false. Proof. destruct a; reflexivity. Qed.
Lemma sum_text_no_nl name ah : nonblank_bytes name -> ok_sum ah -> mem 10 (sum_text name ah) = false.
Proof. intros Hn [[_ Hs] _]. unfold sum_text. change (40 :: name ++ [41]) with ([40] ++ name ++ [41]).
  rewrite !mem_app', alg_name_no_nl, (nonblank_no_nl _ Hn), (nonblank_no_nl _ Hs). reflexivity. Qed.
Lemma size_text_no_nl name n : nonblank_bytes name -> mem 10 (size_text name n) = false.
Proof. intros Hn. unfold size_text. change (40 :: name ++ [41]) with ([40] ++ name ++ [41]).
  rewrite !mem_app', (nonblank_no_nl _ Hn), print_z_no_nl. reflexivity. Qed.

(* what each printed line parses to *)
Definition hdr_line (r : option str) : dline := match r with Some s => LRcs s | None => LNone end.
Definition dist_dlines (e : dentry) : list dline :=
  map (fun ah => LSum (fst ah) (ename e) (snd ah)) (esums e) ++ match esize e with Some n => [LSize (ename e) n] | None => [] end.
Definition patch_dlines (e : dentry) : list dline := map (fun ah => LSum (fst ah) (ename e) (snd ah)) (esums e).
Definition all_dlines (d : distinfo) : list dline :=
  [hdr_line (rcsid d); LNone] ++ flat_map dist_dlines (dists d) ++ flat_map patch_dlines (patches d).

Lemma blank_nil : blank []. Proof. reflexivity. Qed.
Lemma blank_sp : blank [32]. Proof. reflexivity. Qed.
Lemma parse_sum_text name ah : nonblank_bytes name -> ok_sum ah -> parse_dline (sum_text name ah) = LSum (fst ah) name (snd ah).
Proof. intros Hn [Hs Hu]. unfold sum_text. change (alg_name (fst ah) ++ _) with ([] ++ alg_name (fst ah) ++ [32] ++ (40 :: name ++ [41]) ++ [32] ++ [61] ++ [32] ++ snd ah ++ []).
  apply sum_line_recognised; auto using blank_nil, blank_sp; discriminate. Qed.
Lemma parse_size_text name n : nonblank_bytes name -> (0 <= n <= u64max)%Z -> parse_dline (size_text name n) = LSize name n.
Proof. intros Hn Hr. unfold size_text. apply size_line_recognised; auto using blank_nil, blank_sp; discriminate. Qed.
Lemma parse_hdr r : ok_rcs r -> parse_dline (hdr_text r) = hdr_line r /\ mem 10 (hdr_text r) = false.
Proof.
  destruct r as [s|]; cbn [ok_rcs hdr_text hdr_line]; [|intros _; split; reflexivity].
  intros [H1 H2]. split; auto. unfold parse_dline.
  destruct s as [|c r]; [discriminate|]. change (lit "$NetBSD: ") with (36 :: lit "NetBSD: ") in H1. cbn [starts_with] in H1.
  apply andb_prop in H1 as [Hc H1]. apply N.eqb_eq in Hc. subst c.
  cbn [skip_ws is_ascii_ws N.eqb Pos.eqb orb]. cbv iota.
  change (starts_with (lit "$NetBSD: ") (36 :: r)) with (starts_with (lit "NetBSD: ") r). rewrite H1. reflexivity.
Qed.

Lemma texts_parse d : printable d ->
  map parse_dline (all_texts d) = all_dlines d /\ Forall (fun l => mem 10 l = false) (all_texts d).
Proof.
  intros (Hr & Hd & Hp & _ & _). destruct (parse_hdr _ Hr) as [P1 P2].
  unfold all_texts, all_dlines. rewrite !map_app. cbn [map]. rewrite P1.
  assert (map parse_dline (flat_map dist_texts (dists d)) = flat_map dist_dlines (dists d) /\
          Forall (fun l => mem 10 l = false) (flat_map dist_texts (dists d))) as [D1 D2].
  { induction Hd as [|e es (Hn & _ & (n & En & Rn) & Hs) _ IH]; [split; [reflexivity|constructor]|].
    destruct IH as [IH1 IH2]. cbn [flat_map]. rewrite map_app, IH1. split.
    - f_equal. unfold dist_texts, dist_dlines. rewrite En, map_app. cbn [map]. rewrite parse_size_text by auto. f_equal.
      rewrite map_map. apply map_ext_in. intros ah Hah. apply parse_sum_text; auto. rewrite Forall_forall in Hs. auto.
    - apply Forall_app. split; auto. unfold dist_texts. rewrite En. apply Forall_app. split.
      + apply Forall_map. eapply Forall_impl; [|exact Hs]. intros ah Hah. apply sum_text_no_nl; auto.
      + constructor; [apply size_text_no_nl; auto|constructor]. }
  assert (map parse_dline (flat_map patch_texts (patches d)) = flat_map patch_dlines (patches d) /\
          Forall (fun l => mem 10 l = false) (flat_map patch_texts (patches d))) as [Q1 Q2].
  { induction Hp as [|e es (Hn & _ & _ & _ & Hs) _ IH]; [split; [reflexivity|constructor]|].
    destruct IH as [IH1 IH2]. cbn [flat_map]. rewrite map_app, IH1. split.
    - f_equal. unfold patch_texts, patch_dlines. rewrite map_map. apply map_ext_in. intros ah Hah.
      apply parse_sum_text; auto. rewrite Forall_forall in Hs. auto.
    - apply Forall_app. split; auto. unfold patch_texts. apply Forall_map. eapply Forall_impl; [|exact Hs].
      intros ah Hah. apply sum_text_no_nl; auto. }
  rewrite D1, Q1. split; [reflexivity|]. constructor; auto. constructor; [reflexivity|]. apply Forall_app. split; auto.
Qed.

Lemma upd_entry_last m x key f fresh : (forall e, In e m -> path_eqb (ename e) key = false) ->
  path_eqb (ename x) key = true -> upd_entry key f fresh (m ++ [x]) = m ++ [f x].
Proof. induction m as [|e m IH]; intros H Hx; cbn [app upd_entry].
  - rewrite Hx. reflexivity.
  - rewrite (H e (or_introl eq_refl)), IH; auto. intros e' He'. apply H. right; auto. Qed.
Definition sum_dline (name : str) (ah : alg * str) : dline := LSum (fst ah) name (snd ah).
Lemma fold_sums k m name sz sums : classify name = k -> (forall e, In e m -> path_eqb (ename e) name = false) ->
  forall acc, fold_left (apply_map k) (map (sum_dline name) sums) (m ++ [mkentry name sz acc]) = m ++ [mkentry name sz (acc ++ sums)].
Proof.
  intros Hc Hm. induction sums as [|ah r IH]; intros acc; cbn [map fold_left]; [rewrite app_nil_r; reflexivity|].
  cbn [apply_map sum_dline]. rewrite Hc. replace (class_eqb k k) with true by (symmetry; apply class_eqb_eq; auto).
  rewrite upd_entry_last by (auto; apply path_eqb_refl). cbn [ename esize esums]. rewrite IH, <- app_assoc. destruct ah; reflexivity.
Qed.
Lemma fold_other k m name ls : classify name <> k ->
  Forall (fun l => line_path l = Some name \/ line_path l = None) ls -> fold_left (apply_map k) ls m = m.
Proof.
  intros Hc. induction 1 as [|l ls Hl _ IH]; cbn [fold_left]; auto.
  assert (apply_map k m l = m) as ->; [|exact IH].
  destruct l as [s|p n|a p h|]; cbn [apply_map line_path] in *; auto; destruct Hl as [[= ->]|]; try discriminate;
    destruct (class_eqb (classify name) k) eqn:E; auto; apply class_eqb_eq in E; congruence.
Qed.
Lemma entry_eta e : mkentry (ename e) (esize e) (esums e) = e. Proof. destruct e; reflexivity. Qed.

Lemma fold_block k m e : classify (ename e) = k -> (forall e', In e' m -> path_eqb (ename e') (ename e) = false) ->
  (esums e <> [] \/ esize e <> None) ->
  fold_left (apply_map k) (map (sum_dline (ename e)) (esums e) ++ match esize e with Some n => [LSize (ename e) n] | None => [] end) m = m ++ [e].
Proof.
  intros Hc Hm Hne. assert (class_eqb k k = true) as Ckk by (apply class_eqb_eq; auto).
  rewrite fold_left_app. destruct (esums e) as [|ah r] eqn:Es.
  - cbn [map fold_left]. destruct (esize e) as [n|] eqn:Ez; [|destruct Hne; congruence].
    cbn [fold_left apply_map]. rewrite Hc, Ckk, upd_entry_miss by auto. rewrite <- Ez, <- Es, entry_eta. reflexivity.
  - cbn [map fold_left]. cbn [apply_map sum_dline]. rewrite Hc, Ckk, upd_entry_miss by auto.
    rewrite (fold_sums k m (ename e) None r Hc Hm). cbn [app].
    destruct (esize e) as [n|] eqn:Ez; cbn [fold_left apply_map].
    + rewrite Hc, Ckk, upd_entry_last by (auto; apply path_eqb_refl). cbn [ename esums]. rewrite <- surjective_pairing, <- Ez, <- Es, entry_eta. reflexivity.
    + rewrite <- surjective_pairing, <- Ez, <- Es, entry_eta. reflexivity.
Qed.

Lemma fold_blocks k (texts : dentry -> list dline) es :
  (forall e, In e es -> classify (ename e) = k /\ (esums e <> [] \/ esize e <> None) /\
             texts e = map (sum_dline (ename e)) (esums e) ++ match esize e with Some n => [LSize (ename e) n] | None => [] end) ->
  forall m, distinct (m ++ es) -> fold_left (apply_map k) (flat_map texts es) m = m ++ es.
Proof.
  induction es as [|e es IH]; intros H m D; cbn [flat_map]; [rewrite app_nil_r; reflexivity|].
  destruct (H e (or_introl eq_refl)) as (Hc & Hne & Ht). rewrite fold_left_app, Ht, fold_block; auto.
  - rewrite IH; [rewrite <- app_assoc; reflexivity| |rewrite <- app_assoc; exact D]. intros e' He'. apply H. right; auto.
  - clear -D. induction m as [|x m IHm]; [intros ? []|]. cbn [app distinct] in D. destruct D as [D1 D2].
    intros e' [<-|He']; [apply D1; apply in_or_app; right; left; reflexivity|auto].
Qed.
Lemma fold_blocks_other k (texts : dentry -> list dline) es m :
  (forall e, In e es -> classify (ename e) <> k /\ Forall (fun l => line_path l = Some (ename e) \/ line_path l = None) (texts e)) ->
  fold_left (apply_map k) (flat_map texts es) m = m.
Proof.
  induction es as [|e es IH]; intros H; cbn [flat_map]; auto.
  destruct (H e (or_introl eq_refl)) as (Hc & Hf). rewrite fold_left_app, (fold_other k m (ename e)); auto.
  apply IH. intros e' He'. apply H. right; auto.
Qed.
Lemma block_paths name sums tail : Forall (fun l => line_path l = Some name \/ line_path l = None) tail ->
  Forall (fun l => line_path l = Some name \/ line_path l = None) (map (sum_dline name) sums ++ tail).
Proof. intros H. apply Forall_app. split; auto. apply Forall_map. apply Forall_forall. intros ah _. left; reflexivity. Qed.

(* parsing what as_bytes prints gives the Distinfo back: same RCS Id, same files in
   the same order, each with the same checksums in order and the same size *)
Theorem from_as_bytes d : printable d -> di_from_bytes (di_as_bytes d) = d.
Proof.
  intros P. destruct (texts_parse d P) as [TP NL]. destruct P as (Hr & Hd & Hp & Dd & Dp).
  unfold di_from_bytes. rewrite as_bytes_texts, split_on_nl_term by auto.
  assert (forall ls d0, fold_left (fun d l => apply_line d (parse_dline l)) ls d0 = fold_left apply_line (map parse_dline ls) d0) as F.
  { induction ls as [|l ls IH]; intros d0; cbn [fold_left map]; auto. }
  rewrite F, map_app, TP. cbn [map]. change (parse_dline []) with LNone.
  destruct (fold_maps (all_dlines d ++ [LNone]) di_empty) as (A & B & C).
  destruct (fold_left apply_line (all_dlines d ++ [LNone]) di_empty) as [r ds ps]. cbn [dists patches rcsid di_empty] in *.
  destruct d as [r0 ds0 ps0]. cbn [dists patches rcsid] in *. unfold all_dlines in *. cbn [dists patches rcsid] in *.
  rewrite !fold_left_app in A, B, C. cbn [fold_left apply_map app] in A, B, C. f_equal.
  - rewrite C. clear. assert (forall L (acc : option str), Forall (fun l => match l with LRcs _ => False | _ => True end) L ->
      fold_left (fun acc l => match l with LRcs s => Some s | _ => acc end) L acc = acc) as G.
    { induction L as [|l L IH]; intros acc H; cbn [fold_left]; auto. inversion H as [|? ? H1 H2]; subst. destruct l; try tauto; apply IH; auto. }
    rewrite !G; [destruct r0; reflexivity| |];
      apply Forall_forall; intros l Hl; apply in_flat_map in Hl as (e & _ & Hl); unfold patch_dlines, dist_dlines in Hl;
      try (apply in_app_or in Hl as [Hl|Hl]); try (apply in_map_iff in Hl as (ah & <- & _); exact I);
      destruct (esize e); [destruct Hl as [<-|[]]; exact I|destruct Hl].
  - rewrite A. rewrite (fold_blocks_other Distfile patch_dlines ps0).
    + destruct r0; cbn [hdr_line apply_map]; apply (fold_blocks Distfile dist_dlines ds0); auto;
        intros e He; rewrite Forall_forall in Hd; destruct (Hd e He) as (_ & Hc & (n & En & _) & _); (split; [auto|split; [right; congruence|reflexivity]]).
    + intros e He. rewrite Forall_forall in Hp. destruct (Hp e He) as (_ & Hc & _). split; [congruence|].
      unfold patch_dlines. rewrite <- (app_nil_r (map _ _)). apply block_paths. constructor.
  - rewrite B. assert (forall m, fold_left (apply_map Patchfile) (flat_map dist_dlines ds0) m = m) as G.
    { intros m. apply fold_blocks_other. intros e He. rewrite Forall_forall in Hd. destruct (Hd e He) as (_ & Hc & _). split; [congruence|].
      unfold dist_dlines. apply block_paths. destruct (esize e); [constructor; [left; reflexivity|constructor]|constructor]. }
    destruct r0; cbn [hdr_line apply_map]; rewrite G; apply (fold_blocks Patchfile patch_dlines ps0); auto;
      intros e He; rewrite Forall_forall in Hp; destruct (Hp e He) as (_ & Hc & Ez & Hne & _);
      (split; [auto|split; [left; auto|unfold patch_dlines; rewrite Ez, app_nil_r; reflexivity]]).
Qed.
(* canonical layout: parse then write reproduces the input byte for byte *)
Corollary canonical_roundtrip t : (exists d, printable d /\ t = di_as_bytes d) -> di_as_bytes (di_from_bytes t) = t.
Proof. intros (d & P & ->). rewrite from_as_bytes; auto. Qed.

(* ---------- assembling a Distinfo through the API: Distinfo::insert ---------- *)
Lemma find_none_all {A} (f : A -> bool) l : (forall x, In x l -> f x = false) -> List.find f l = None.
Proof. induction l as [|x l IH]; intros H; cbn [List.find]; auto. rewrite (H x (or_introl eq_refl)). apply IH. intros y Hy. apply H. right. auto. Qed.
Definition class_list (d : distinfo) (k : etype) : list dentry := match k with Distfile => dists d | Patchfile => patches d end.
Lemma insert_class_list d e k : class_list (di_insert d e) k =
  if class_eqb (classify (ename e)) k then upd_entry (ename e) (fun _ => e) e (class_list d k) else class_list d k.
Proof. unfold di_insert, on_map, class_list. destruct (classify (ename e)), k; reflexivity. Qed.
Lemma get_upd_entry e m p :
  get_entry (upd_entry (ename e) (fun _ => e) e m) p = if path_eqb (ename e) p then Some e else get_entry m p.
Proof.
  unfold get_entry. induction m as [|x m IH]; cbn [upd_entry List.find].
  - destruct (path_eqb (ename e) p); reflexivity.
  - destruct (path_eqb (ename x) (ename e)) eqn:Hx.
    + cbn [List.find]. destruct (path_eqb (ename e) p) eqn:He; [reflexivity|].
      assert (path_eqb (ename x) p = false) as ->; [|reflexivity].
      destruct (path_eqb (ename x) p) eqn:Q; [|reflexivity]. rewrite path_eqb_sym in Hx.
      assert (path_eqb (ename e) p = true) by (eapply path_eqb_trans; eauto). congruence.
    + cbn [List.find]. destruct (path_eqb (ename x) p) eqn:Hxp; [|apply IH].
      destruct (path_eqb (ename e) p) eqn:He; [|reflexivity].
      rewrite path_eqb_sym in He. assert (path_eqb (ename x) (ename e) = true) by (eapply path_eqb_trans; eauto). congruence.
Qed.
(* after insert, looking the entry up under its own name finds it; other names see what was there before *)
Theorem insert_lookup d e p :
  get_entry (class_list (di_insert d e) (classify (ename e))) p =
  if path_eqb (ename e) p then Some e else get_entry (class_list d (classify (ename e))) p.
Proof.
  rewrite insert_class_list. replace (class_eqb (classify (ename e)) (classify (ename e))) with true by (symmetry; apply class_eqb_eq; reflexivity).
  apply get_upd_entry.
Qed.
Lemma upd_entry_names key e m : path_eqb (ename e) key = true -> distinct m -> distinct (upd_entry key (fun _ => e) e m).
Proof.
  intros He. induction m as [|x m IH]; intros D; cbn [upd_entry].
  - split; [intros ? []|exact I].
  - destruct D as [D1 D2]. destruct (path_eqb (ename x) key) eqn:Hx.
    + split; auto. intros y Hy. specialize (D1 y Hy).
      destruct (path_eqb (ename e) (ename y)) eqn:Q; [|reflexivity].
      assert (path_eqb (ename x) (ename e) = true) as A by (rewrite path_eqb_sym in He; eapply path_eqb_trans; eauto).
      assert (path_eqb (ename x) (ename y) = true) by (eapply path_eqb_trans; eauto). congruence.
    + split; [|apply IH; auto]. intros y Hy.
      assert (In y m \/ y = e) as [Hin| ->].
      { clear -Hy. induction m as [|z m IHm]; cbn [upd_entry] in Hy.
        - destruct Hy as [<-|[]]; auto.
        - destruct (path_eqb (ename z) key).
          + destruct Hy as [<-|Hy]; [right; reflexivity|left; right; auto].
          + destruct Hy as [<-|Hy]; [left; left; reflexivity|]. destruct (IHm Hy); [left; right; auto|right; auto]. }
      * apply D1; auto.
      * destruct (path_eqb (ename x) (ename e)) eqn:Q; [|reflexivity].
        assert (path_eqb (ename x) key = true) by (eapply path_eqb_trans; eauto). congruence.
Qed.
(* inserting well-formed entries keeps the Distinfo printable: so whatever is assembled from the empty Distinfo through
   set_rcsid and insert round-trips through as_bytes / from_bytes (from_as_bytes) *)
Theorem insert_printable d e : printable d ->
  (classify (ename e) = Distfile -> ok_dist e) -> (classify (ename e) = Patchfile -> ok_patch e) -> printable (di_insert d e).
Proof.
  intros (R & FD & FP & DD & DP) HD HP. unfold printable, di_insert, on_map.
  assert (forall m ok, Forall ok m -> ok e -> Forall ok (upd_entry (ename e) (fun _ => e) e m)) as FU.
  { intros m ok F Oe. induction F as [|x m Hx F IH]; cbn [upd_entry]; [constructor; auto|].
    destruct (path_eqb (ename x) (ename e)); constructor; auto. }
  destruct (classify (ename e)) eqn:C; cbn [rcsid dists patches].
  - repeat split; auto. apply upd_entry_names; auto. apply path_eqb_refl.
  - repeat split; auto. apply upd_entry_names; auto. apply path_eqb_refl.
Qed.
Definition di_build (r : option str) (es : list dentry) : distinfo := fold_left di_insert es (mkdi r [] []).
Theorem build_roundtrip r es : ok_rcs r -> Forall (fun e => (classify (ename e) = Distfile -> ok_dist e) /\ (classify (ename e) = Patchfile -> ok_patch e)) es ->
  di_from_bytes (di_as_bytes (di_build r es)) = di_build r es.
Proof.
  intros Hr F. apply from_as_bytes. unfold di_build.
  assert (printable (mkdi r [] [])) as P0 by (repeat split; auto; constructor).
  revert P0. generalize (mkdi r [] []). induction F as [|e es' [H1 H2] F' IHF]; intros d P; cbn [fold_left]; auto.
  apply IHF. apply insert_printable; auto.
Qed.

(* ================= lookup and verification (C12) ================= *)
(* the paths find_entry tries, in order *)
Fixpoint walk_paths (cs : list comp) (file : str) : list str :=
  match cs with
  | [] => []
  | c :: r =>
      let file' := match file with [] => comp_text c | [47] => comp_text c | _ => join_path c file end in
      file' :: walk_paths r file'
  end.
Definition class_map (d : distinfo) (p : str) : list dentry :=
  match classify p with Distfile => dists d | Patchfile => patches d end.
Lemma find_walk_spec m cs : forall file,
  find_walk m cs file = match List.find (fun q => match get_entry m q with Some _ => true | None => false end) (walk_paths cs file) with
                        | Some q => get_entry m q | None => None end.
Proof.
  induction cs as [|c r IH]; intros file; cbn [find_walk walk_paths List.find]; auto.
  destruct (get_entry m _) eqn:E; [rewrite E; reflexivity|]. apply IH.
Qed.
(* find_entry: the first recorded path among the trailing sub-paths, shortest first,
   looked up in the map of the path's own class *)
Theorem find_entry_spec d p :
  find_entry d p = match List.find (fun q => match get_entry (class_map d p) q with Some _ => true | None => false end)
                                   (walk_paths (List.rev (pcomps p)) []) with
                   | Some q => get_entry (class_map d p) q | None => None end.
Proof. unfold find_entry, class_map. rewrite frev_eq. apply find_walk_spec. Qed.

(* ordinary relative paths dir/.../file: components are the segments, the paths
   tried are the joined suffixes, shortest first *)
Definition ordinary (s : str) : Prop := s <> [] /\ mem 47 s = false /\ s <> [46] /\ s <> [46; 46].
Lemma split_on_join47 segs : segs <> [] -> Forall (fun s => mem 47 s = false) segs -> split_on 47 (join_with 47 segs) = segs.
Proof.
  induction segs as [|l ls IH]; [congruence|]. intros _ H. inversion H as [|? ? H1 Hr]; subst.
  destruct ls as [|l2 ls'].
  - cbn [join_with]. clear -H1. induction l as [|x l IHl]; [reflexivity|]. cbn [mem] in H1.
    apply orb_false_elim in H1 as [A B]. cbn [split_on]. rewrite A, IHl by auto. reflexivity.
  - change (join_with 47 (l :: l2 :: ls')) with (l ++ 47 :: join_with 47 (l2 :: ls')).
    assert (forall r, split_on 47 (l ++ 47 :: r) = l :: split_on 47 r) as G.
    { intros r. clear -H1. induction l as [|x l IHl]; cbn [app split_on mem] in *; [rewrite N.eqb_refl; reflexivity|].
      apply orb_false_elim in H1 as [A B]. rewrite A, IHl by auto. reflexivity. }
    rewrite G, IH by (auto; discriminate). reflexivity.
Qed.
Lemma seg_comp_ordinary s : ordinary s -> seg_comp s = [CNormal s].
Proof. intros (A & _ & B & C). unfold seg_comp. destruct s as [|c r]; [congruence|].
  destruct c as [|p]; auto. destruct r as [|c2 r2].
  - destruct (Pos.eq_dec p 46) as [->|]; [congruence|]. repeat (destruct p as [p|p|]; auto); congruence.
  - destruct (Pos.eq_dec p 46) as [->|N1]; [|repeat (destruct p as [p|p|]; auto); congruence].
    destruct r2 as [|c3 r3]; [|destruct c2 as [|p2]; auto; repeat (destruct p2 as [p2|p2|]; auto)].
    destruct c2 as [|p2]; auto. destruct (Pos.eq_dec p2 46) as [->|N2]; [congruence|]. repeat (destruct p2 as [p2|p2|]; auto); congruence.
Qed.
Theorem comps_ordinary segs : segs <> [] -> Forall ordinary segs -> pcomps (join_with 47 segs) = map CNormal segs.
Proof.
  intros Hne H. unfold pcomps. rewrite split_on_join47; auto.
  2:{ eapply Forall_impl; [|exact H]. intros s (_ & A & _). exact A. }
  assert (match join_with 47 segs with 47 :: _ => [CRoot] | [46] => [CCur] | 46 :: 47 :: _ => [CCur] | _ => [] end = []) as ->.
  { destruct segs as [|s ss]; [congruence|]. inversion H as [|? ? (A & B & C & D) _]; subst.
    destruct ss as [|s2 ss'].
    - cbn [join_with]. destruct s as [|c r]; [congruence|]. cbn [mem] in B. apply orb_false_elim in B as [B1 B2].
      destruct (N.eqb_spec c 47) as [->|N47]; [discriminate|].
      destruct c as [|p]; auto. destruct (Pos.eq_dec p 46) as [->|N46].
      + destruct r as [|c2 r2]; [congruence|]. cbn [mem] in B2. apply orb_false_elim in B2 as [B3 _].
        destruct c2 as [|p2]; auto. destruct (Pos.eq_dec p2 47) as [->|]; [discriminate|]. repeat (destruct p2 as [p2|p2|]; auto); congruence.
      + destruct (Pos.eq_dec p 47) as [->|]; [congruence|]. repeat (destruct p as [p|p|]; auto); congruence.
    - change (join_with 47 (s :: s2 :: ss')) with (s ++ 47 :: join_with 47 (s2 :: ss')).
      destruct s as [|c r]; [congruence|]. cbn [app mem] in *. apply orb_false_elim in B as [B1 B2].
      destruct (N.eqb_spec c 47) as [->|N47]; [discriminate|].
      destruct c as [|p]; auto. destruct (Pos.eq_dec p 46) as [->|N46].
      + destruct r as [|c2 r2]; [congruence|]. cbn [app mem] in *. apply orb_false_elim in B2 as [B3 _].
        destruct c2 as [|p2]; auto. destruct (Pos.eq_dec p2 47) as [->|]; [discriminate|]. repeat (destruct p2 as [p2|p2|]; auto); congruence.
      + destruct (Pos.eq_dec p 47) as [->|]; [congruence|]. repeat (destruct p as [p|p|]; auto); congruence. }
  cbn [app]. clear Hne. induction H as [|s ss Hs _ IH]; [reflexivity|]. cbn [flat_map map]. rewrite seg_comp_ordinary, IH by auto. reflexivity.
Qed.

(* the paths tried for an ordinary path are the joined non-empty trailing
   sub-lists of its segments, shortest first *)
Fixpoint suffixes_from (rs : list str) (acc : list str) : list (list str) :=
  match rs with [] => [] | s :: r => (s :: acc) :: suffixes_from r (s :: acc) end.
Lemma join_ordinary_shape acc : acc <> [] -> Forall ordinary acc ->
  exists c r, join_with 47 acc = c :: r /\ c <> 47.
Proof.
  intros Hne H. destruct acc as [|s ss]; [congruence|]. inversion H as [|? ? (A & B & _) _]; subst.
  destruct s as [|c r]; [congruence|]. cbn [mem] in B. apply orb_false_elim in B as [B1 _].
  rewrite join_cons_char. exists c. eexists. split; [reflexivity|]. intros ->. discriminate.
Qed.
Lemma walk_step_match (j x y : str) : j <> [] -> j <> [47] ->
  match j with [] => x | [47] => x | _ => y end = y.
Proof.
  intros A B. destruct j as [|c t]; [congruence|]. destruct t as [|c2 t2].
  - destruct (N.eq_dec c 47) as [->|Hn]; [congruence|]. destruct c as [|p]; auto.
    repeat (destruct p as [p|p|]; auto); congruence.
  - destruct c as [|p]; auto. repeat (destruct p as [p|p|]; auto).
Qed.
Lemma walk_ordinary_gen rs : forall acc, Forall ordinary rs -> Forall ordinary acc ->
  walk_paths (map CNormal rs) (join_with 47 acc) = map (join_with 47) (suffixes_from rs acc).
Proof.
  induction rs as [|s r IH]; intros acc Hr Ha; [reflexivity|].
  inversion Hr as [|? ? Hs Hr']; subst.
  cbn [map walk_paths suffixes_from].
  assert (match join_with 47 acc with [] => comp_text (CNormal s) | [47] => comp_text (CNormal s)
          | _ => join_path (CNormal s) (join_with 47 acc) end = join_with 47 (s :: acc)) as E.
  { destruct acc as [|a acc']; [reflexivity|].
    destruct (join_ordinary_shape (a :: acc')) as (c & t & Ej & Hc); [discriminate|exact Ha|].
    change (join_with 47 (s :: a :: acc')) with (s ++ 47 :: join_with 47 (a :: acc')).
    rewrite walk_step_match; [|rewrite Ej; discriminate|rewrite Ej; intros [= -> _]; congruence].
    rewrite Ej. reflexivity. }
  rewrite E. f_equal. apply (IH (s :: acc)); auto.
Qed.
Theorem walk_ordinary segs : Forall ordinary segs ->
  walk_paths (List.rev (map CNormal segs)) [] = map (join_with 47) (suffixes_from (List.rev segs) []).
Proof.
  intros H. rewrite <- map_rev. apply (walk_ordinary_gen (List.rev segs) []); [|constructor].
  apply Forall_rev. exact H.
Qed.
(* the suffixes are exactly the non-empty trailing sub-lists, shortest first *)
Lemma suffixes_from_spec rs : forall acc, suffixes_from rs acc = map (fun k => List.rev (firstn (S k) rs) ++ acc) (seq 0 (List.length rs)).
Proof.
  induction rs as [|s r IH]; intros acc; [reflexivity|].
  cbn [suffixes_from List.length seq map]. f_equal. rewrite IH, <- seq_shift, map_map. apply map_ext. intros k.
  cbn [firstn List.rev]. rewrite <- app_assoc. reflexivity.
Qed.
(* find_entry on an ordinary path: the first recorded name among the joined
   trailing segment lists, shortest first *)
Theorem find_entry_ordinary d segs : segs <> [] -> Forall ordinary segs ->
  let p := join_with 47 segs in
  find_entry d p = match List.find (fun q => match get_entry (class_map d p) q with Some _ => true | None => false end)
                                   (map (fun k => join_with 47 (skipn (List.length segs - S k) segs)) (seq 0 (List.length segs))) with
                   | Some q => get_entry (class_map d p) q | None => None end.
Proof.
  intros Hne H p. rewrite find_entry_spec. unfold p. rewrite comps_ordinary, walk_ordinary by auto.
  rewrite suffixes_from_spec, map_map, rev_length.
  assert (forall k, (k < List.length segs)%nat -> List.rev (firstn (S k) (List.rev segs)) ++ [] = skipn (List.length segs - S k) segs) as E.
  { intros k Hk. rewrite app_nil_r, firstn_rev, rev_involutive. reflexivity. }
  erewrite map_ext_in; [reflexivity|]. intros k Hk. apply in_seq in Hk. cbv beta. rewrite E by lia. reflexivity.
Qed.

(* size verification: succeeds exactly when the length equals the recorded size *)
Theorem verify_size_spec d p c : verify_size d p (Some c) =
  match find_entry d p with
  | None => inr VNotFound
  | Some e => match esize e with
              | None => inr VMissingSize
              | Some n => if (Z.of_nat (List.length c) =? n)%Z then inl (VOkSize n) else inr (VSize n (Z.of_nat (List.length c)))
              end
  end.
Proof. reflexivity. Qed.
Theorem verify_size_ok_iff d p c n : verify_size d p (Some c) = inl (VOkSize n) <->
  exists e, find_entry d p = Some e /\ esize e = Some n /\ Z.of_nat (List.length c) = n.
Proof.
  rewrite verify_size_spec. destruct (find_entry d p) as [e|]; [|split; [discriminate|intros (e & [=] & _)]].
  destruct (esize e) as [m|] eqn:E; [|split; [discriminate|intros (e' & [= <-] & H & _); congruence]].
  destruct (Z.eqb_spec (Z.of_nat (List.length c)) m).
  - split; [intros [= <-]; eauto|intros (e' & [= <-] & H & _); congruence].
  - split; [discriminate|intros (e' & [= <-] & H & L); congruence].
Qed.
(* checksum verification hashes the file itself for distfiles, the file minus its
   '$NetBSD' lines for patches, with the first recorded hash for that algorithm *)
Theorem verify_checksum_spec d p a c : verify_checksum d p a (Some c) =
  match find_entry d p with
  | None => inr VNotFound
  | Some e => match List.find (fun ah => alg_eqb (fst ah) a) (esums e) with
              | None => inr VMissingChecksum
              | Some (_, h) => inl (a, h, match classify (ename e) with Distfile => c | Patchfile => filter_patch c end, ename e)
              end
  end.
Proof. reflexivity. Qed.
Theorem verify_missing_file d p a : 
  (forall e n, find_entry d p = Some e -> esize e = Some n -> verify_size d p None = inr VIo) /\
  (forall e h, find_entry d p = Some e -> List.find (fun ah => alg_eqb (fst ah) a) (esums e) = Some h -> verify_checksum d p a None = inr VIo).
Proof. split; intros e x H1 H2; [unfold verify_size|unfold verify_checksum]; rewrite H1, H2; try destruct x; reflexivity. Qed.

(* ================= digests (C13) ================= *)
Fixpoint upto_eof (evs : list rdev) : list rdev :=
  match evs with [] => [] | EData [] :: _ => [] | e :: r => e :: upto_eof r end.
Definition is_err (e : rdev) : bool := match e with EErr => true | _ => false end.
Definition ev_data (e : rdev) : str := match e with EData c => c | _ => [] end.
(* the bytes hashed are the concatenation of the data read before end of file,
   however the reads are split and wherever they are interrupted; a hard error
   before end of file is returned, nothing is hashed *)
Theorem read_all_spec evs : read_all evs =
  if existsb is_err (upto_eof evs) then None else Some (flat_map ev_data (upto_eof evs)).
Proof.
  induction evs as [|e r IH]; [reflexivity|]. destruct e as [c| |].
  - destruct c as [|x c]; [reflexivity|]. cbn [read_all upto_eof existsb is_err flat_map ev_data orb]. rewrite IH.
    destruct (existsb is_err (upto_eof r)); reflexivity.
  - cbn [read_all upto_eof existsb is_err flat_map ev_data orb app]. exact IH.
  - reflexivity.
Qed.
Lemma read_all_intr n r : read_all (repeat EIntr n ++ r) = read_all r.
Proof. induction n as [|n IH]; cbn [repeat app read_all]; auto. Qed.
Corollary schedule_independent chunks intr : Forall (fun c => c <> []) chunks ->
  read_all (flat_map (fun c => repeat EIntr intr ++ [EData c]) chunks) = Some (concat chunks).
Proof.
  intros H. induction H as [|c cs Hc _ IH]; [reflexivity|]. cbn [flat_map concat]. rewrite <- app_assoc, read_all_intr.
  cbn [app read_all]. destruct c as [|x c]; [congruence|]. rewrite IH. reflexivity.
Qed.
Corollary error_not_hashed_past a b : existsb is_err (upto_eof a) = true -> read_all (a ++ b) = None.
Proof.
  induction a as [|e a IH]; cbn [upto_eof existsb]; [discriminate|]. destruct e as [c| |]; cbn [app read_all].
  - destruct c as [|x c]; [discriminate|]. cbn [existsb is_err orb]. intros H. rewrite IH; auto.
  - cbn [existsb is_err orb]. exact IH.
  - reflexivity.
Qed.

(* ---------- hash_patch: the lines BufReader::split yields ---------- *)
Definition split_lines_of (ps : list str) : list str := match last ps [] with [] => removelast ps | _ => ps end.
Lemma split_lines_is s : split_lines s = split_lines_of (split_on 10 s).
Proof. reflexivity. Qed.
Lemma mem_rev_nl l : mem 10 (List.rev l) = mem 10 l.
Proof.
  induction l as [|x l IH]; [reflexivity|]. cbn [List.rev mem]. rewrite mem_app', IH. cbn [mem]. rewrite orb_false_r. apply orb_comm.
Qed.
Lemma last_app_nonnil {A} (a b : list A) d : b <> [] -> last (a ++ b) d = last b d.
Proof. intros Hb. induction a as [|x a IH]; [reflexivity|]. cbn [app last]. destruct (a ++ b) eqn:E; [apply app_eq_nil in E as [_ ->]; congruence|]. exact IH. Qed.
Lemma split_on_nonl l : mem 10 l = false -> split_on 10 l = [l].
Proof.
  induction l as [|x l IH]; cbn [split_on mem]; intros H; [reflexivity|].
  apply orb_false_elim in H as [H1 H2]. rewrite H1, IH by auto. reflexivity.
Qed.
(* feeding a chunk: the completed lines, and the rest of the text still splits the same way *)
Lemma feed_spec : forall c cur ls p, mem 10 cur = false -> feed cur c = (ls, p) ->
  mem 10 p = false /\ forall rest, split_on 10 (List.rev cur ++ c ++ rest) = ls ++ split_on 10 (List.rev p ++ rest).
Proof.
  induction c as [|x c IH]; intros cur ls p Hc; cbn [feed].
  - intros [= <- <-]. split; auto.
  - destruct (N.eqb_spec x 10) as [->|Hx].
    + destruct (feed [] c) as [ls' p'] eqn:E. intros [= <- <-].
      destruct (IH [] ls' p' eq_refl E) as (Hp & Hs). split; auto. intros rest.
      cbn [app]. rewrite split_on_nl by (rewrite mem_rev_nl; auto). rewrite frev_eq. cbn [app]. f_equal.
      specialize (Hs rest). cbn [List.rev app] in Hs. exact Hs.
    + intros E. assert (mem 10 (x :: cur) = false) as Hc'.
      { cbn [mem]. apply orb_false_intro; auto. apply N.eqb_neq. auto. }
      destruct (IH (x :: cur) ls p Hc' E) as (Hp & Hs). split; auto. intros rest.
      specialize (Hs rest). cbn [List.rev] in Hs. rewrite <- app_assoc in Hs. cbn [app] in *. exact Hs.
Qed.
Definition no_zero_read (evs : list rdev) : Prop := Forall (fun e => e <> EData []) evs.
Lemma split_lines_app ls s : split_lines_of (ls ++ split_on 10 s) = ls ++ split_lines_of (split_on 10 s).
Proof.
  unfold split_lines_of. pose proof (split_on_nonnil 10 s) as N.
  destruct (split_on 10 s) as [|q qs] eqn:E; [congruence|].
  rewrite last_app_nonnil by discriminate.
  destruct (last (q :: qs) []); [rewrite removelast_app by discriminate|]; reflexivity.
Qed.
(* without 0-byte reads: exactly the lines of all the bytes, a final unterminated line included *)
Lemma patch_lines_spec : forall evs cur, no_zero_read evs -> mem 10 cur = false ->
  patch_lines evs cur = option_map (fun s => split_lines (List.rev cur ++ s)) (read_all evs).
Proof.
  induction evs as [|e evs IH]; intros cur Hz Hc.
  - cbn [patch_lines read_all option_map]. rewrite app_nil_r. unfold split_lines.
    rewrite split_on_nonl by (rewrite mem_rev_nl; auto).
    destruct cur as [|x cur]; [reflexivity|]. rewrite frev_eq. cbn [last].
    destruct (List.rev (x :: cur)) eqn:E; [|reflexivity].
    apply (f_equal (@List.length N)) in E. rewrite rev_length in E. discriminate.
  - inversion Hz as [|? ? He Hz']; subst. destruct e as [c| |].
    + destruct c as [|x c]; [congruence|]. cbn [patch_lines read_all].
      destruct (feed cur (x :: c)) as [ls p] eqn:E.
      destruct (feed_spec (x :: c) cur ls p Hc E) as (Hp & Hs).
      rewrite (IH p Hz' Hp). destruct (read_all evs) as [s|]; [|reflexivity]. cbn [option_map]. f_equal.
      rewrite !split_lines_is, Hs. symmetry. apply split_lines_app.
    + cbn [patch_lines read_all]. apply IH; auto.
    + reflexivity.
Qed.
Theorem patch_schedule evs : no_zero_read evs -> hash_patch_pre evs = option_map filter_patch (read_all evs).
Proof.
  intros Hz. unfold hash_patch_pre. rewrite (patch_lines_spec evs [] Hz eq_refl).
  destruct (read_all evs) as [s|]; reflexivity.
Qed.
(* a 0-byte read in the middle of a line ends that line and the reading goes on;
   at a line boundary it ends the stream *)
Lemma patch_lines_data x a R cur : patch_lines (EData (x :: a) :: R) cur =
  let (ls, p) := feed cur (x :: a) in option_map (app ls) (patch_lines R p).
Proof. reflexivity. Qed.
Lemma patch_lines_zero y p R : patch_lines (EData [] :: R) (y :: p) = option_map (cons (frev (y :: p))) (patch_lines R []).
Proof. reflexivity. Qed.
Theorem patch_zero_read_mid_line a b rest : a <> [] -> mem 10 a = false ->
  hash_patch_pre (EData a :: EData [] :: EData b :: rest) =
  option_map (fun t => keep_line a ++ t) (hash_patch_pre (EData b :: rest)).
Proof.
  intros Ha Hm. unfold hash_patch_pre.
  destruct a as [|x a]; [congruence|]. rewrite patch_lines_data.
  destruct (feed [] (x :: a)) as [ls p] eqn:E.
  destruct (feed_spec (x :: a) [] ls p eq_refl E) as (Hp & Hs).
  specialize (Hs []). cbn [List.rev app] in Hs. rewrite !app_nil_r in Hs.
  rewrite split_on_nonl in Hs by auto.
  assert (ls = [] /\ List.rev p = x :: a) as [-> Hrp].
  { rewrite split_on_nonl in Hs by (rewrite mem_rev_nl; auto).
    destruct ls as [|l ls]; [injection Hs as <-; auto|]. destruct ls; discriminate. }
  destruct p as [|y p]; [discriminate|]. rewrite patch_lines_zero, frev_eq, Hrp.
  destruct (patch_lines (EData b :: rest) []) as [X|]; reflexivity.
Qed.
Lemma feed_ends_nl : forall a cur ls p, feed cur (a ++ [10]) = (ls, p) -> p = [].
Proof.
  induction a as [|y a IH]; intros cur ls p; cbn [app feed].
  - change (10 =? 10) with true. cbv iota. cbn [feed]. intros H. injection H as _ H. auto.
  - destruct (y =? 10).
    + destruct (feed [] (a ++ [10])) as [ls' p'] eqn:E'. intros H. injection H as _ H. subst p'. eapply IH; eauto.
    + apply IH.
Qed.
Theorem patch_zero_read_at_boundary a rest : hash_patch_pre (EData (a ++ [10]) :: EData [] :: rest) = hash_patch_pre [EData (a ++ [10])].
Proof.
  unfold hash_patch_pre. destruct (a ++ [10]) as [|x c] eqn:Ea; [destruct a; discriminate|]. rewrite !patch_lines_data.
  destruct (feed [] (x :: c)) as [ls p] eqn:E. rewrite <- Ea in E. apply feed_ends_nl in E. subst p. reflexivity.
Qed.

Definition keep (l : str) : bool := negb (contains netbsd l).
Lemma split_lines_term ls : Forall (fun l => mem 10 l = false) ls -> split_lines (nl_term ls) = ls.
Proof. intros H. unfold split_lines. rewrite split_on_nl_term by auto. rewrite last_last, removelast_last. reflexivity. Qed.
(* the patch hash input: newline-terminated lines without "$NetBSD" *)
Theorem filter_patch_lines ls : Forall (fun l => mem 10 l = false) ls ->
  filter_patch (nl_term ls) = nl_term (filter keep ls).
Proof.
  intros H. unfold filter_patch. rewrite split_lines_term by auto. unfold nl_term, keep.
  induction ls as [|l ls IH]; [reflexivity|]. inversion H; subst. cbn [flat_map filter].
  destruct (contains netbsd l); cbn [negb map concat]; rewrite IH by auto; reflexivity.
Qed.
(* a final unterminated line counts as terminated *)
Theorem filter_patch_unterminated ls l : Forall (fun l => mem 10 l = false) ls -> mem 10 l = false -> l <> [] ->
  filter_patch (nl_term ls ++ l) = filter_patch (nl_term (ls ++ [l])).
Proof.
  intros H Hl Hne. unfold filter_patch. f_equal. rewrite split_lines_term by (apply Forall_app; auto).
  unfold split_lines.
  assert (split_on 10 (nl_term ls ++ l) = ls ++ [l]) as ->.
  { induction H as [|x xs Hx _ IH]; cbn [nl_term map concat app].
    - clear -Hl. induction l as [|c l IHl]; [reflexivity|]. cbn [mem] in Hl. apply orb_false_elim in Hl as [A B].
      cbn [split_on]. rewrite A, IHl by auto. reflexivity.
    - unfold nl_term in *. cbn [map concat]. rewrite <- !app_assoc. cbn [app]. rewrite split_on_nl by auto. rewrite IH. reflexivity. }
  rewrite last_last. destruct l; [congruence|reflexivity].
Qed.

(* algorithm names *)
Theorem alg_names :
  (forall a, alg_parse (alg_name a) = Some a) /\
  (forall s a, alg_parse s = Some a -> map lower_uni s = alg_lname a) /\
  (forall s, alg_parse (map lower_uni s) = alg_parse s).
Proof.
  repeat split.
  - destruct a; reflexivity.
  - intros s a H. unfold alg_parse in H. apply find_some in H as [_ H]. apply eqs_eq in H. exact H.
  - intros s. unfold alg_parse. rewrite map_map.
    assert (map (fun x => lower_uni (lower_uni x)) s = map lower_uni s) as ->; [|reflexivity].
    apply map_ext. intros c. unfold lower_uni.
    destruct (N.eqb_spec c 8490) as [->|N1]; [reflexivity|].
    assert (lower c = 8490 -> False) as N2.
    { unfold lower, is_upper. destruct ((65 <=? c) && (c <=? 90)) eqn:U; [|congruence].
      apply andb_prop in U as [A B]. apply N.leb_le in A, B. lia. }
    destruct (N.eqb_spec (lower c) 8490); [tauto|].
    unfold lower, is_upper. destruct ((65 <=? c) && (c <=? 90)) eqn:U; [|rewrite U; reflexivity].
    apply andb_prop in U as [A B]. apply N.leb_le in A, B.
    replace ((65 <=? c + 32) && (c + 32 <=? 90)) with false; auto. symmetry. apply andb_false_intro2. apply N.leb_gt. lia.
Qed.
