(* GlobString.v - the shell-glob meaning of a pattern *string* (no '**'), and
   the proof that glob compilation followed by token matching decides it.
   Property C05 speaks about pattern strings; GlobProofs relates the token
   matcher to a token-level relation; this file closes the gap between the
   string and its tokens, and characterises the malformed strings. *)
Require Import PV.Base PV.Dec PV.Dewey PV.DeweySpec PV.DeweyProofs PV.DeweyPat PV.Pattern PV.GlobProofs PV.PatternProofs.
Local Open Scope N_scope.

(* no two consecutive '*' anywhere *)
Fixpoint nodstar (p : str) : bool :=
  match p with
  | a :: r => match r with b :: _ => negb ((a =? 42) && (b =? 42)) && nodstar r | [] => true end
  | [] => true
  end.

(* membership in the body of a bracket expression: single characters and a-b ranges *)
Definition in_body (c : N) (b : str) : bool := existsb (in_spec c) (parse_specs (S (length b)) b).

(* [sglob p name]: the whole of [name] matches the shell glob written [p].
   A bracket expression is '[' body ']' or '[' '!' body ']', where the body is
   not empty and its first character may be ']' (taken literally). *)
Inductive sglob : str -> str -> Prop :=
| sg_nil : sglob [] []
| sg_q p c s : sglob p s -> sglob (63 :: p) (c :: s)
| sg_star p s1 s2 : sglob p s2 -> sglob (42 :: p) (s1 ++ s2)
| sg_in x t p c s : x <> 33 -> mem 93 t = false -> in_body c (x :: t) = true -> sglob p s ->
    sglob (91 :: x :: t ++ 93 :: p) (c :: s)
| sg_notin x t p c s : mem 93 t = false -> in_body c (x :: t) = false -> sglob p s ->
    sglob (91 :: 33 :: x :: t ++ 93 :: p) (c :: s)
| sg_char c p s : c <> 63 -> c <> 42 -> c <> 91 -> sglob p s -> sglob (c :: p) (c :: s).

(* well-formed glob strings: every '[' opens a closed, non-empty bracket expression *)
Inductive swf : str -> Prop :=
| wf_nil : swf []
| wf_q p : swf p -> swf (63 :: p)
| wf_star p : swf p -> swf (42 :: p)
| wf_in x t p : x <> 33 -> mem 93 t = false -> swf p -> swf (91 :: x :: t ++ 93 :: p)
| wf_notin x t p : mem 93 t = false -> swf p -> swf (91 :: 33 :: x :: t ++ 93 :: p)
| wf_char c p : c <> 63 -> c <> 42 -> c <> 91 -> swf p -> swf (c :: p).

Lemma sglob_swf p s : sglob p s -> swf p.
Proof. induction 1; constructor; auto. Qed.

(* ---------- lists ---------- *)
Lemma mem_app_g c a b : mem c (a ++ b) = (mem c a || mem c b)%bool.
Proof. induction a as [|x a IH]; cbn [app mem]; auto. rewrite IH, orb_assoc. reflexivity. Qed.
Lemma mem_mid_g c a b : mem c (a ++ c :: b) = true.
Proof. rewrite mem_app_g. cbn [mem]. rewrite N.eqb_refl. cbn. apply orb_true_r. Qed.
Lemma position_first c w rest : mem c w = false -> position c (w ++ c :: rest) = Some (List.length w).
Proof.
  induction w as [|x w IH]; cbn [app position mem length]; intros H.
  - rewrite N.eqb_refl. reflexivity.
  - apply orb_false_elim in H as [H1 H2]. rewrite H1, IH by auto. reflexivity.
Qed.
Lemma position_absent c w : mem c w = false -> position c w = None.
Proof.
  induction w as [|x w IH]; cbn [position mem]; intros H; auto.
  apply orb_false_elim in H as [H1 H2]. rewrite H1, IH by auto. reflexivity.
Qed.
Lemma mem_split_first c s : mem c s = true -> exists t p, s = t ++ c :: p /\ mem c t = false.
Proof.
  induction s as [|x s IH]; cbn [mem]; [discriminate|]. destruct (N.eqb_spec x c) as [->|Hn]; intros H.
  - exists [], s. auto.
  - cbn in H. apply IH in H as (t & p & -> & Ht). exists (x :: t), p. cbn [app mem]. split; auto.
    apply orb_false_intro; auto. apply N.eqb_neq; auto.
Qed.
Lemma split_unique c t p t' p' : mem c t = false -> mem c t' = false ->
  t ++ c :: p = t' ++ c :: p' -> t = t' /\ p = p'.
Proof.
  revert t'. induction t as [|x t IH]; intros [|x' t'] H H' E; cbn [app mem] in *.
  - injection E; auto.
  - injection E as <- _. rewrite N.eqb_refl in H'. discriminate.
  - injection E as -> _. rewrite N.eqb_refl in H. discriminate.
  - injection E as <- E. apply orb_false_elim in H as [_ H]. apply orb_false_elim in H' as [_ H'].
    destruct (IH t' H H' E) as [-> ->]. auto.
Qed.
Lemma firstn_len {A} (a b : list A) : firstn (length a) (a ++ b) = a.
Proof. induction a; cbn; congruence. Qed.
Lemma skipn_len {A} (a b : list A) : skipn (length a) (a ++ b) = b.
Proof. induction a; cbn; congruence. Qed.

Lemma skipn_mid {A} (t : list A) c p : skipn (S (length t)) (t ++ c :: p) = p.
Proof. induction t as [|a t IH]; [reflexivity|]. cbn [length app]. change (skipn (S (S (length t))) (a :: t ++ c :: p)) with (skipn (S (length t)) (t ++ c :: p)). exact IH. Qed.

(* ---------- one step of the compiler ---------- *)
Lemma eqb_false a b : a <> b -> (a =? b) = false.
Proof. apply N.eqb_neq. Qed.
Lemma compile_q f prev acc r : glob_compile (S f) prev acc (63 :: r) = glob_compile f (Some 63) (TAny :: acc) r.
Proof. reflexivity. Qed.
Lemma compile_char f prev acc c r : c <> 63 -> c <> 42 -> c <> 91 ->
  glob_compile (S f) prev acc (c :: r) = glob_compile f (Some c) (TChar c :: acc) r.
Proof. intros A B C. cbn [glob_compile]. rewrite (eqb_false _ _ A), (eqb_false _ _ B), (eqb_false _ _ C). reflexivity. Qed.
Lemma nodstar_tl a r : nodstar (a :: r) = true -> nodstar r = true.
Proof. cbn [nodstar]. destruct r as [|b r']; auto. intros H. apply andb_prop in H as [_ H]. exact H. Qed.
Lemma nodstar_star r : nodstar (42 :: r) = true -> count_stars r = 0%nat.
Proof.
  cbn [nodstar]. destruct r as [|b r']; auto. intros H. apply andb_prop in H as [H _].
  cbn [count_stars]. rewrite N.eqb_refl in H. cbn in H. destruct (b =? 42); [discriminate|reflexivity].
Qed.
Lemma compile_star f prev acc r : count_stars r = 0%nat ->
  glob_compile (S f) prev acc (42 :: r) = glob_compile f (Some 42) (TStar :: acc) r.
Proof.
  intros H. cbn [glob_compile]. change (42 =? 63) with false. change (42 =? 42) with true. cbv iota.
  cbn [count_stars]. change (42 =? 42) with true. cbv iota. rewrite H. reflexivity.
Qed.
Lemma compile_open_end f prev acc : glob_compile (S f) prev acc [91] = Fail ERange.
Proof. reflexivity. Qed.
Lemma compile_in f prev acc x t p : x <> 33 -> mem 93 t = false ->
  glob_compile (S f) prev acc (91 :: x :: t ++ 93 :: p) =
  glob_compile f (Some 93) (TIn (parse_specs (S (length (x :: t))) (x :: t)) :: acc) p.
Proof.
  intros Hx Ht. cbn [glob_compile]. change (91 =? 63) with false. change (91 =? 42) with false. change (91 =? 91) with true. cbv iota.
  rewrite (eqb_false _ _ Hx).
  assert (exists y r2, t ++ 93 :: p = y :: r2) as (y & r2 & E) by (destruct t; cbn; eauto).
  rewrite E. cbn [skipn]. rewrite <- E. rewrite (position_first 93 t p Ht).
  change (firstn (S (length t)) (x :: t ++ 93 :: p)) with (x :: firstn (length t) (t ++ 93 :: p)).
  rewrite firstn_len. replace (length t + 2)%nat with (S (S (length t))) by lia.
  change (skipn (S (S (length t))) (x :: t ++ 93 :: p)) with (skipn (S (length t)) (t ++ 93 :: p)).
  rewrite skipn_mid. reflexivity.
Qed.
Lemma compile_in_fail f prev acc x r1 : x <> 33 -> mem 93 r1 = false ->
  glob_compile (S f) prev acc (91 :: x :: r1) = Fail ERange.
Proof.
  intros Hx Hr. cbn [glob_compile]. change (91 =? 63) with false. change (91 =? 42) with false. change (91 =? 91) with true. cbv iota.
  rewrite (eqb_false _ _ Hx). destruct r1 as [|y r2]; [reflexivity|]. cbn [skipn]. rewrite (position_absent 93 _ Hr). reflexivity.
Qed.
Lemma compile_notin f prev acc x t p : mem 93 t = false ->
  glob_compile (S f) prev acc (91 :: 33 :: x :: t ++ 93 :: p) =
  glob_compile f (Some 93) (TNotIn (parse_specs (S (length (x :: t))) (x :: t)) :: acc) p.
Proof.
  intros Ht. cbn [glob_compile]. change (91 =? 63) with false. change (91 =? 42) with false. change (91 =? 91) with true.
  change (33 =? 33) with true. cbv iota.
  assert (exists y r2, t ++ 93 :: p = y :: r2) as (y & r2 & E) by (destruct t; cbn; eauto).
  rewrite E. cbn [skipn]. rewrite <- E. rewrite (position_first 93 t p Ht).
  change (firstn (S (length t)) (x :: t ++ 93 :: p)) with (x :: firstn (length t) (t ++ 93 :: p)).
  rewrite firstn_len. replace (length t + 3)%nat with (S (S (S (length t)))) by lia.
  change (skipn (S (S (S (length t)))) (33 :: x :: t ++ 93 :: p)) with (skipn (S (length t)) (t ++ 93 :: p)).
  rewrite skipn_mid. reflexivity.
Qed.
Lemma compile_notin_fail f prev acc r1 : (r1 = [] \/ exists x t, r1 = x :: t /\ mem 93 t = false) ->
  glob_compile (S f) prev acc (91 :: 33 :: r1) = Fail ERange.
Proof.
  intros H. cbn [glob_compile]. change (91 =? 63) with false. change (91 =? 42) with false. change (91 =? 91) with true.
  change (33 =? 33) with true. cbv iota.
  destruct H as [->|(x & t & -> & Ht)]; [reflexivity|]. destruct t as [|y t']; [reflexivity|].
  cbn [skipn]. rewrite (position_absent 93 _ Ht). reflexivity.
Qed.

(* ---------- inversion of the string relation by the first character ---------- *)
Lemma sglob_inv p name : sglob p name ->
  match p with
  | [] => name = []
  | c :: r =>
      if c =? 63 then exists c0 s0, name = c0 :: s0 /\ sglob r s0
      else if c =? 42 then exists s1 s2, name = s1 ++ s2 /\ sglob r s2
      else if c =? 91 then
        (exists x t p' c0 s0, r = x :: t ++ 93 :: p' /\ x <> 33 /\ mem 93 t = false /\
                              in_body c0 (x :: t) = true /\ name = c0 :: s0 /\ sglob p' s0) \/
        (exists x t p' c0 s0, r = 33 :: x :: t ++ 93 :: p' /\ mem 93 t = false /\
                              in_body c0 (x :: t) = false /\ name = c0 :: s0 /\ sglob p' s0)
      else exists s0, name = c :: s0 /\ sglob r s0
  end.
Proof.
  destruct 1 as [|p c s H|p s1 s2 H|x t p c s Hx Ht Hb H|x t p c s Ht Hb H|c p s A B C H].
  - reflexivity.
  - cbn. eauto 8.
  - cbn. eauto 8.
  - cbn.
    left. exists x, t, p, c, s. auto 8.
  - cbn.
    right. exists x, t, p, c, s. auto 8.
  - cbv beta iota. rewrite (eqb_false _ _ A), (eqb_false _ _ B), (eqb_false _ _ C). eauto 8.
Qed.
Lemma swf_inv p : swf p ->
  match p with
  | [] => True
  | c :: r =>
      if c =? 63 then swf r
      else if c =? 42 then swf r
      else if c =? 91 then
        (exists x t p', r = x :: t ++ 93 :: p' /\ x <> 33 /\ mem 93 t = false /\ swf p') \/
        (exists x t p', r = 33 :: x :: t ++ 93 :: p' /\ mem 93 t = false /\ swf p')
      else swf r
  end.
Proof.
  destruct 1 as [|p H|p H|x t p Hx Ht H|x t p Ht H|c p A B C H]; auto.
  - cbn.
    left. exists x, t, p. auto.
  - cbn.
    right. exists x, t, p. auto.
  - cbv beta iota. rewrite (eqb_false _ _ A), (eqb_false _ _ B), (eqb_false _ _ C). auto.
Qed.

(* ---------- the compiler decides the string relation ---------- *)
Definition compiled_ok (f : nat) (prev : option N) (acc : list gtok) (s : str) : Prop :=
  swf s /\ exists ts, glob_compile f prev acc s = Val (List.rev acc ++ ts) /\ no_rec ts /\
                      forall name, gmatch ts name <-> sglob s name.
Definition compiled_bad (f : nat) (prev : option N) (acc : list gtok) (s : str) : Prop :=
  ~ swf s /\ glob_compile f prev acc s = Fail ERange.

Lemma no_rec_cons_intro t ts : is_rec t = false -> no_rec ts -> no_rec (t :: ts).
Proof. unfold no_rec. cbn [forallb]. intros -> ->. reflexivity. Qed.

(* lifting the result for the rest of the string over one more token *)
Lemma lift_token tk f prev' acc r (s : str) :
  is_rec tk = false ->
  (swf r -> swf s) -> (swf s -> swf r) ->
  (forall ts, no_rec ts -> (forall name, gmatch ts name <-> sglob r name) ->
              forall name, gmatch (tk :: ts) name <-> sglob s name) ->
  forall g, g = glob_compile f prev' (tk :: acc) r ->
  compiled_ok f prev' (tk :: acc) r \/ compiled_bad f prev' (tk :: acc) r ->
  (swf s /\ exists ts, g = Val (List.rev acc ++ ts) /\ no_rec ts /\ forall name, gmatch ts name <-> sglob s name)
  \/ (~ swf s /\ g = Fail ERange).
Proof.
  intros Hr W1 W2 M g -> [(W & ts & E & N & Hm)|(W & E)].
  - left. split; [auto|]. exists (tk :: ts). split; [|split].
    + rewrite E. cbn [List.rev]. rewrite <- app_assoc. reflexivity.
    + apply no_rec_cons_intro; auto.
    + apply M; auto.
  - right. split; [intros X; apply W, W2, X|exact E].
Qed.

Lemma compile_spec : forall n s, (length s <= n)%nat -> nodstar s = true ->
  forall f prev acc, (length s < f)%nat ->
  compiled_ok f prev acc s \/ compiled_bad f prev acc s.
Proof.
  induction n as [|n IH]; intros s Hn Hd f prev acc Hf.
  { destruct s; [|cbn in Hn; lia]. destruct f as [|f]; [cbn in Hf; lia|]. left. split; [constructor|].
    exists []. cbn [glob_compile]. rewrite frev_eq, app_nil_r. split; [reflexivity|]. split; [reflexivity|].
    intros name. split; intros H; inversion H; constructor. }
  destruct s as [|c r].
  { destruct f as [|f]; [cbn in Hf; lia|]. left. split; [constructor|].
    exists []. cbn [glob_compile]. rewrite frev_eq, app_nil_r. split; [reflexivity|]. split; [reflexivity|].
    intros name. split; intros H; inversion H; constructor. }
  destruct f as [|f]; [cbn in Hf; lia|]. cbn [length] in Hn, Hf.
  pose proof (nodstar_tl _ _ Hd) as Hdr.
  unfold compiled_ok, compiled_bad.
  destruct (N.eq_dec c 63) as [->|N63].
  { (* '?' *)
    rewrite compile_q.
    apply (lift_token TAny f (Some 63) acc r (63 :: r)); auto.
    - intros W; constructor; auto.
    - intros W. apply swf_inv in W. exact W.
    - intros ts N Hm name. split.
      + intros H. apply gmatch_inv_nonstar in H as (c0 & s0 & -> & _ & H); [|reflexivity]. constructor. apply Hm, H.
      + intros H. apply sglob_inv in H. change (63 =? 63) with true in H. cbv iota in H.
        destruct H as (c0 & s0 & -> & H). apply gm_one; try discriminate; [reflexivity|]. apply Hm, H.
    - apply IH; auto; lia. }
  destruct (N.eq_dec c 42) as [->|N42].
  { (* '*' *)
    rewrite compile_star by (apply nodstar_star; auto).
    apply (lift_token TStar f (Some 42) acc r (42 :: r)); auto.
    - intros W; constructor; auto.
    - intros W. apply swf_inv in W. exact W.
    - intros ts N Hm name. split.
      + intros H. apply gmatch_inv_star in H as (s1 & s2 & -> & H). constructor. apply Hm, H.
      + intros H. apply sglob_inv in H. change (42 =? 63) with false in H. change (42 =? 42) with true in H. cbv iota in H.
        destruct H as (s1 & s2 & -> & H). constructor. apply Hm, H.
    - apply IH; auto; lia. }
  destruct (N.eq_dec c 91) as [->|N91].
  2:{ (* literal character *)
    rewrite compile_char by auto.
    apply (lift_token (TChar c) f (Some c) acc r (c :: r)); auto.
    - intros W; constructor; auto.
    - intros W. apply swf_inv in W. rewrite (eqb_false _ _ N63), (eqb_false _ _ N42), (eqb_false _ _ N91) in W. exact W.
    - intros ts N Hm name. split.
      + intros H. apply gmatch_inv_nonstar in H as (c0 & s0 & -> & Hc & H); [|reflexivity].
        cbn [tok1] in Hc. apply N.eqb_eq in Hc as ->. constructor; auto. apply Hm, H.
      + intros H. apply sglob_inv in H. rewrite (eqb_false _ _ N63), (eqb_false _ _ N42), (eqb_false _ _ N91) in H.
        destruct H as (s0 & -> & H). apply gm_one; try discriminate; [cbn [tok1]; apply N.eqb_refl|]. apply Hm, H.
    - apply IH; auto; lia. }
  (* '[' *)
  assert (forall q, swf (91 :: q) ->
          (exists x t p', q = x :: t ++ 93 :: p' /\ x <> 33 /\ mem 93 t = false /\ swf p') \/
          (exists x t p', q = 33 :: x :: t ++ 93 :: p' /\ mem 93 t = false /\ swf p')) as Winv.
  { intros q W. apply swf_inv in W. exact W. }
  assert (forall q name, sglob (91 :: q) name ->
          (exists x t p' c0 s0, q = x :: t ++ 93 :: p' /\ x <> 33 /\ mem 93 t = false /\
                                in_body c0 (x :: t) = true /\ name = c0 :: s0 /\ sglob p' s0) \/
          (exists x t p' c0 s0, q = 33 :: x :: t ++ 93 :: p' /\ mem 93 t = false /\
                                in_body c0 (x :: t) = false /\ name = c0 :: s0 /\ sglob p' s0)) as Sinv.
  { intros q name H. apply sglob_inv in H. exact H. }
  destruct r as [|x r1].
  { right. split; [|apply compile_open_end].
    intros W. apply Winv in W as [(x & t & p' & E & _)|(x & t & p' & E & _)]; discriminate. }
  destruct (N.eq_dec x 33) as [->|Nx].
  - (* negated set *)
    destruct r1 as [|y t0].
    { right. split; [|apply compile_notin_fail; auto].
      intros W. apply Winv in W as [(x & t & p' & E & Hx & _)|(x & t & p' & E & _)]; [|discriminate].
      injection E as <- _. congruence. }
    destruct (mem 93 t0) eqn:Hm0.
    + apply mem_split_first in Hm0 as (t & p & -> & Ht).
      rewrite compile_notin by auto.
      assert (length p < f)%nat as Hpf by (cbn [length] in Hf; rewrite app_length in Hf; cbn [length] in Hf; lia).
      assert (length p <= n)%nat as Hpn by (cbn [length] in Hn; rewrite app_length in Hn; cbn [length] in Hn; lia).
      assert (nodstar p = true) as Hdp.
      { clear -Hdr. apply nodstar_tl in Hdr. apply nodstar_tl in Hdr. induction t as [|a t IHt]; cbn [app] in Hdr.
        - apply nodstar_tl in Hdr; auto.
        - apply IHt. apply nodstar_tl in Hdr. auto. }
      apply (lift_token (TNotIn (parse_specs (S (length (y :: t))) (y :: t))) f (Some 93) acc p (91 :: 33 :: y :: t ++ 93 :: p)); auto.
      * intros W; constructor; auto.
      * intros W. apply Winv in W as [(x & t' & p' & E & Hx & _)|(x & t' & p' & E & Ht' & W)].
        { injection E as <- _. congruence. }
        injection E as <- E. apply split_unique in E as [<- <-]; auto.
      * intros ts N Hm name. split.
        { intros H. apply gmatch_inv_nonstar in H as (c0 & s0 & -> & Hc & H); [|reflexivity].
          cbn [tok1] in Hc. apply negb_true_iff in Hc. constructor; auto. apply Hm, H. }
        { intros H. apply Sinv in H as [(x & t' & p' & c0 & s0 & E & Hx & _)|(x & t' & p' & c0 & s0 & E & Ht' & Hb & -> & H)].
          { injection E as <- _. congruence. }
          injection E as <- E. apply split_unique in E as [<- <-]; auto.
          apply gm_one; try discriminate; [cbn [tok1]; unfold in_body in Hb; rewrite Hb; reflexivity|]. apply Hm, H. }
    + right. split; [|apply compile_notin_fail; right; eauto].
      intros W. apply Winv in W as [(x & t' & p' & E & Hx & _)|(x & t' & p' & E & Ht' & W)].
      { injection E as <- _. congruence. }
      injection E as _ E. rewrite E, mem_mid_g in Hm0. discriminate.
  - (* plain set *)
    destruct (mem 93 r1) eqn:Hm0.
    + apply mem_split_first in Hm0 as (t & p & -> & Ht).
      rewrite compile_in by auto.
      assert (length p < f)%nat as Hpf by (cbn [length] in Hf; rewrite app_length in Hf; cbn [length] in Hf; lia).
      assert (length p <= n)%nat as Hpn by (cbn [length] in Hn; rewrite app_length in Hn; cbn [length] in Hn; lia).
      assert (nodstar p = true) as Hdp.
      { clear -Hdr. apply nodstar_tl in Hdr. induction t as [|a t IHt]; cbn [app] in Hdr.
        - apply nodstar_tl in Hdr; auto.
        - apply IHt. apply nodstar_tl in Hdr. auto. }
      apply (lift_token (TIn (parse_specs (S (length (x :: t))) (x :: t))) f (Some 93) acc p (91 :: x :: t ++ 93 :: p)); auto.
      * intros W; constructor; auto.
      * intros W. apply Winv in W as [(x' & t' & p' & E & Hx & Ht' & W)|(x' & t' & p' & E & _)].
        { injection E as <- E. apply split_unique in E as [<- <-]; auto. }
        injection E as -> _. congruence.
      * intros ts N Hm name. split.
        { intros H. apply gmatch_inv_nonstar in H as (c0 & s0 & -> & Hc & H); [|reflexivity].
          cbn [tok1] in Hc. constructor; auto. apply Hm, H. }
        { intros H. apply Sinv in H as [(x' & t' & p' & c0 & s0 & E & Hx & Ht' & Hb & -> & H)|(x' & t' & p' & c0 & s0 & E & _)].
          2:{ injection E as -> _. congruence. }
          injection E as <- E. apply split_unique in E as [<- <-]; auto.
          apply gm_one; try discriminate; [cbn [tok1]; exact Hb|]. apply Hm, H. }
    + right. split; [|apply compile_in_fail; auto].
      intros W. apply Winv in W as [(x' & t' & p' & E & Hx & Ht' & W)|(x' & t' & p' & E & _)].
      { injection E as _ E. rewrite E, mem_mid_g in Hm0. discriminate. }
      injection E as -> _. congruence.
Qed.

(* ---------- the statements about Pattern strings ---------- *)
(* A string without '**' compiles exactly when it is a well-formed glob; the
   compiled pattern then matches exactly the names the string denotes; a
   malformed string is reported (as an invalid range / unclosed bracket). *)
Theorem glob_string_spec p : nodstar p = true ->
  (swf p /\ exists ts, glob_new p = Val ts /\ no_rec ts /\ forall name, glob_matches ts name = true <-> sglob p name)
  \/ (~ swf p /\ glob_new p = Fail ERange).
Proof.
  intros Hd. unfold glob_new.
  destruct (compile_spec (length p) p (le_n _) Hd (S (length p)) None [] (Nat.lt_succ_diag_r _))
    as [(W & ts & E & N & Hm)|(W & E)].
  - left. split; auto. exists ts. cbn [List.rev app] in E. split; [exact E|]. split; [exact N|].
    intros name. rewrite <- Hm. unfold glob_matches. rewrite <- (gm_correct ts name N).
    destruct (gm ts name); split; intros; congruence.
  - right. auto.
Qed.

Corollary glob_string_match p ts name : nodstar p = true -> glob_new p = Val ts ->
  (glob_matches ts name = true <-> sglob p name).
Proof.
  intros Hd E. destruct (glob_string_spec p Hd) as [(_ & ts' & E' & _ & H)|(_ & E')]; rewrite E in E'; [|discriminate].
  injection E' as <-. apply H.
Qed.
Corollary glob_string_compiles p : nodstar p = true -> ((exists ts, glob_new p = Val ts) <-> swf p).
Proof.
  intros Hd. destruct (glob_string_spec p Hd) as [(W & ts & E & _)|(W & E)].
  - split; eauto.
  - split; [intros (ts & E'); rewrite E in E'; discriminate|intros; contradiction].
Qed.
Corollary glob_string_malformed p name : ~ swf p -> ~ sglob p name.
Proof. intros W H. apply W. eapply sglob_swf; eauto. Qed.

(* ---------- bracket bodies: single characters and ranges ---------- *)
Lemma parse_specs_fuel : forall s f g, (length s < f)%nat -> (length s < g)%nat -> parse_specs f s = parse_specs g s.
Proof.
  intros s. remember (length s) as n eqn:En. revert s En.
  induction n as [n IH] using lt_wf_ind. intros s En f g Hf Hg.
  destruct f as [|f]; [lia|]. destruct g as [|g]; [lia|]. destruct s as [|a r]; [reflexivity|].
  cbn [parse_specs]. cbn [length] in En.
  destruct r as [|m [|b r']].
  - f_equal. destruct f, g; reflexivity.
  - f_equal. apply (IH (length [m])); cbn [length] in *; lia.
  - destruct (m =? 45).
    + f_equal. apply (IH (length r')); cbn [length] in *; lia.
    + f_equal. apply (IH (length (m :: b :: r'))); cbn [length] in *; lia.
Qed.
Lemma parse_specs_S f a r : parse_specs (S f) (a :: r) =
  match r with
  | m :: b :: r' => if m =? 45 then Range a b :: parse_specs f r' else Single a :: parse_specs f r
  | _ => Single a :: parse_specs f r
  end.
Proof. reflexivity. Qed.
(* a-b at the front of a body is a range ... *)
Lemma in_body_range c a b r : in_body c (a :: 45 :: b :: r) = ((a <=? c) && (c <=? b) || in_body c r)%bool.
Proof.
  unfold in_body. rewrite parse_specs_S. change (45 =? 45) with true. cbv iota. cbn [existsb in_spec].
  f_equal. f_equal. apply parse_specs_fuel; cbn [length]; lia.
Qed.
(* ... anything else is the character itself *)
Lemma in_body_single c a r : (match r with m :: _ :: _ => m <> 45 | _ => True end) ->
  in_body c (a :: r) = ((c =? a) || in_body c r)%bool.
Proof.
  unfold in_body. intros H. rewrite parse_specs_S.
  assert (existsb (in_spec c) (Single a :: parse_specs (length (a :: r)) r) =
          ((c =? a) || existsb (in_spec c) (parse_specs (S (length r)) r))%bool) as G by reflexivity.
  destruct r as [|m [|b r']]; try exact G.
  rewrite (eqb_false _ _ H). exact G.
Qed.
Lemma in_body_nil c : in_body c [] = false.
Proof. reflexivity. Qed.

(* ---------- end to end: Pattern::new + matches on a glob string ---------- *)
Theorem glob_pattern_meaning p pkg : no_brace p -> no_op p -> has_meta p -> nodstar p = true ->
  (swf p /\ exists b, pm p pkg = MBool b /\ (b = true <-> sglob p pkg)) \/
  (~ swf p /\ pm p pkg = MErr EGlob).
Proof.
  intros B O M D. rewrite (glob_dispatch p pkg B O M).
  destruct (glob_string_spec p D) as [(W & ts & E & _ & H)|(W & E)]; rewrite E.
  - left. split; auto. exists (glob_matches ts pkg). split; auto.
  - right. auto.
Qed.

Require Import Lia.
(* ---------- '**' and '***' after a literal prefix ---------- *)
Definition litc (c : N) : Prop := c <> 63 /\ c <> 42 /\ c <> 91.
Definition last_prev (a : str) (prev : option N) : option N :=
  match a with [] => prev | _ => Some (last a 0) end.
Lemma compile_lit a : forall f prev acc rest, Forall litc a ->
  glob_compile (List.length a + f) prev acc (a ++ rest) = glob_compile f (last_prev a prev) (List.rev (map TChar a) ++ acc) rest.
Proof.
  induction a as [|c a IH]; intros f prev acc rest H; [reflexivity|].
  inversion H as [|? ? (A & B & C) H']; subst.
  change (List.length (c :: a) + f)%nat with (S (List.length a + f)). cbn [app].
  rewrite compile_char by assumption. rewrite IH by exact H'.
  cbn [map List.rev]. rewrite <- app_assoc. cbn [app]. f_equal.
  unfold last_prev. destruct a; reflexivity.
Qed.
Theorem triple_star_rejected a b : Forall litc a -> glob_new (a ++ 42 :: 42 :: 42 :: b) = Fail EWildcards.
Proof.
  intros H. unfold glob_new. rewrite app_length.
  set (n := List.length (42 :: 42 :: 42 :: b)). replace (S (List.length a + n)) with (List.length a + S n)%nat by lia.
  rewrite compile_lit by exact H. cbn [glob_compile].
  change (42 =? 63) with false. change (42 =? 42) with true. cbv iota.
  cbn [count_stars]. change (42 =? 42) with true. cbv iota. reflexivity.
Qed.
Theorem double_star_misplaced a b : Forall litc a ->
  match b with c :: _ => c <> 42 | [] => True end ->
  (a <> [] /\ last a 0 <> 47) \/ (exists c r, b = c :: r /\ c <> 47) ->
  glob_new (a ++ 42 :: 42 :: b) = Fail ERecursive.
Proof.
  intros H Hb Hbad. unfold glob_new. rewrite app_length.
  set (n := List.length (42 :: 42 :: b)). replace (S (List.length a + n)) with (List.length a + S n)%nat by lia.
  rewrite compile_lit by exact H. cbn [glob_compile].
  change (42 =? 63) with false. change (42 =? 42) with true. cbv iota.
  assert (count_stars (42 :: 42 :: b) = 2%nat) as Hc.
  { cbn [count_stars]. change (42 =? 42) with true. cbv iota. destruct b as [|c r]; [reflexivity|].
    cbn [count_stars]. destruct (N.eqb_spec c 42); [congruence|reflexivity]. }
  rewrite Hc. cbn [Nat.ltb Nat.leb Nat.eqb skipn].
  destruct Hbad as [[Ha Hl]|(c & r & -> & Hc47)].
  - unfold last_prev. destruct a as [|x a']; [congruence|]. unfold is_sep. destruct (N.eqb_spec (last (x :: a') 0) 47); [congruence|reflexivity].
  - destruct (match last_prev a None with None => true | Some p => is_sep p end); [|reflexivity].
    unfold is_sep. destruct (N.eqb_spec c 47); [congruence|reflexivity].
Qed.
