(* Metadata.v - executable model of src/metadata.rs (MetadataEntry <-> file
   name, Metadata::read_metadata, is_valid) and of the iteration logic of
   src/pkgdb.rs over a directory listing.  Text. *)
Require Import PV.Base PV.Dec PV.Summary PV.ScanIndex.
Require Import Coq.Strings.String.
Import Coq.Lists.List ListNotations.
Local Open Scope N_scope.

Inductive mentry := BuildInfo | BuildVersion | MComment | Contents | DeInstall | Desc | MDisplay | Install
                  | InstalledInfo | MtreeDirs | Preserve | RequiredBy | SizeAll | SizePkgM.
Definition all_mentries : list mentry :=
  [BuildInfo; BuildVersion; MComment; Contents; DeInstall; Desc; MDisplay; Install; InstalledInfo; MtreeDirs; Preserve; RequiredBy; SizeAll; SizePkgM].
Definition to_filename (e : mentry) : str :=
  match e with
  | BuildInfo => lit "+BUILD_INFO" | BuildVersion => lit "+BUILD_VERSION" | MComment => lit "+COMMENT"
  | Contents => lit "+CONTENTS" | DeInstall => lit "+DEINSTALL" | Desc => lit "+DESC" | MDisplay => lit "+DISPLAY"
  | Install => lit "+INSTALL" | InstalledInfo => lit "+INSTALLED_INFO" | MtreeDirs => lit "+MTREE_DIRS"
  | Preserve => lit "+PRESERVE" | RequiredBy => lit "+REQUIRED_BY" | SizeAll => lit "+SIZE_ALL" | SizePkgM => lit "+SIZE_PKG"
  end.
Definition from_filename (s : str) : option mentry := List.find (fun e => eqs s (to_filename e)) all_mentries.

Record metadata := mkmeta {
  m_build_info : option (list str); m_build_version : option (list str); m_comment : str; m_contents : str;
  m_deinstall : option str; m_desc : str; m_display : option str; m_install : option str;
  m_installed_info : option (list str); m_mtree_dirs : option (list str); m_preserve : option (list str);
  m_required_by : option (list str); m_size_all : option Z; m_size_pkg : option Z }.
Definition meta_empty : metadata := mkmeta None None [] [] None [] None None None None None None None None.
(* Metadata::read_metadata: the value is trimmed; list entries hold its lines;
   the text entries +COMMENT +CONTENTS +DESC are appended; sizes must be integers *)
Definition read_metadata (m : metadata) (e : mentry) (value : str) : option metadata :=
  let v := trim value in
  let ls := lines v in
  match e with
  | BuildInfo => Some (mkmeta (Some ls) (m_build_version m) (m_comment m) (m_contents m) (m_deinstall m) (m_desc m) (m_display m) (m_install m) (m_installed_info m) (m_mtree_dirs m) (m_preserve m) (m_required_by m) (m_size_all m) (m_size_pkg m))
  | BuildVersion => Some (mkmeta (m_build_info m) (Some ls) (m_comment m) (m_contents m) (m_deinstall m) (m_desc m) (m_display m) (m_install m) (m_installed_info m) (m_mtree_dirs m) (m_preserve m) (m_required_by m) (m_size_all m) (m_size_pkg m))
  | MComment => Some (mkmeta (m_build_info m) (m_build_version m) (m_comment m ++ v) (m_contents m) (m_deinstall m) (m_desc m) (m_display m) (m_install m) (m_installed_info m) (m_mtree_dirs m) (m_preserve m) (m_required_by m) (m_size_all m) (m_size_pkg m))
  | Contents => Some (mkmeta (m_build_info m) (m_build_version m) (m_comment m) (m_contents m ++ v) (m_deinstall m) (m_desc m) (m_display m) (m_install m) (m_installed_info m) (m_mtree_dirs m) (m_preserve m) (m_required_by m) (m_size_all m) (m_size_pkg m))
  | DeInstall => Some (mkmeta (m_build_info m) (m_build_version m) (m_comment m) (m_contents m) (Some v) (m_desc m) (m_display m) (m_install m) (m_installed_info m) (m_mtree_dirs m) (m_preserve m) (m_required_by m) (m_size_all m) (m_size_pkg m))
  | Desc => Some (mkmeta (m_build_info m) (m_build_version m) (m_comment m) (m_contents m) (m_deinstall m) (m_desc m ++ v) (m_display m) (m_install m) (m_installed_info m) (m_mtree_dirs m) (m_preserve m) (m_required_by m) (m_size_all m) (m_size_pkg m))
  | MDisplay => Some (mkmeta (m_build_info m) (m_build_version m) (m_comment m) (m_contents m) (m_deinstall m) (m_desc m) (Some v) (m_install m) (m_installed_info m) (m_mtree_dirs m) (m_preserve m) (m_required_by m) (m_size_all m) (m_size_pkg m))
  | Install => Some (mkmeta (m_build_info m) (m_build_version m) (m_comment m) (m_contents m) (m_deinstall m) (m_desc m) (m_display m) (Some v) (m_installed_info m) (m_mtree_dirs m) (m_preserve m) (m_required_by m) (m_size_all m) (m_size_pkg m))
  | InstalledInfo => Some (mkmeta (m_build_info m) (m_build_version m) (m_comment m) (m_contents m) (m_deinstall m) (m_desc m) (m_display m) (m_install m) (Some ls) (m_mtree_dirs m) (m_preserve m) (m_required_by m) (m_size_all m) (m_size_pkg m))
  | MtreeDirs => Some (mkmeta (m_build_info m) (m_build_version m) (m_comment m) (m_contents m) (m_deinstall m) (m_desc m) (m_display m) (m_install m) (m_installed_info m) (Some ls) (m_preserve m) (m_required_by m) (m_size_all m) (m_size_pkg m))
  | Preserve => Some (mkmeta (m_build_info m) (m_build_version m) (m_comment m) (m_contents m) (m_deinstall m) (m_desc m) (m_display m) (m_install m) (m_installed_info m) (m_mtree_dirs m) (Some ls) (m_required_by m) (m_size_all m) (m_size_pkg m))
  | RequiredBy => Some (mkmeta (m_build_info m) (m_build_version m) (m_comment m) (m_contents m) (m_deinstall m) (m_desc m) (m_display m) (m_install m) (m_installed_info m) (m_mtree_dirs m) (m_preserve m) (Some ls) (m_size_all m) (m_size_pkg m))
  | SizeAll => match parse_i64 v with
               | Some z => Some (mkmeta (m_build_info m) (m_build_version m) (m_comment m) (m_contents m) (m_deinstall m) (m_desc m) (m_display m) (m_install m) (m_installed_info m) (m_mtree_dirs m) (m_preserve m) (m_required_by m) (Some z) (m_size_pkg m))
               | None => None end
  | SizePkgM => match parse_i64 v with
                | Some z => Some (mkmeta (m_build_info m) (m_build_version m) (m_comment m) (m_contents m) (m_deinstall m) (m_desc m) (m_display m) (m_install m) (m_installed_info m) (m_mtree_dirs m) (m_preserve m) (m_required_by m) (m_size_all m) (Some z))
                | None => None end
  end.
Definition meta_is_valid (m : metadata) : bool :=
  match m_comment m, m_contents m, m_desc m with
  | _ :: _, _ :: _, _ :: _ => true
  | _, _, _ => false
  end.

(* ---------- package database iteration ---------- *)
(* one entry of the database directory: its name, whether it is a directory, and
   the names of the files it contains *)
Record dirent := mkdirent { de_name : str; de_is_dir : bool; de_files : list str }.
Definition valid_pkgdir (d : dirent) : bool :=
  de_is_dir d && forallb (fun e => existsb (fun f => eqs f (to_filename e)) (de_files d)) [MComment; Contents; Desc].
Record package := mkpackage { pk_name : str; pk_base : str; pk_version : str }.
Definition package_of (name : str) : package :=
  match rsplit_once 45 name with
  | Some (b, v) => mkpackage name b v
  | None => mkpackage name name []
  end.
(* the packages the iterator yields, in directory order; names are bytes, a
   directory name that is not UTF-8 yields an error item (None) *)
Definition db_iter (listing : list dirent) : list (option package) :=
  map (fun d => if utf8_valid (de_name d) then Some (package_of (de_name d)) else None) (filter valid_pkgdir listing).

(* Package::read_metadata: the whole file as text (fs::read_to_string) - its bytes,
   whatever their number, when they are valid UTF-8; an error otherwise *)
Definition pkg_read_file (content : str) : option str :=
  if utf8_valid content then Some content else None.

(* PkgDB::open: a directory is a file-based database; a regular file is taken
   to be a database file (not supported yet: iterating it yields nothing);
   anything else is an error *)
Inductive pathkind := DbDir (listing : list dirent) | DbFile | DbNothing.
Definition db_open_iter (k : pathkind) : option (list (option package)) :=
  match k with DbDir l => Some (db_iter l) | DbFile => Some [] | DbNothing => None end.
