(* DigestM.v - model of the read loops of src/digest.rs: hash_file (io::copy)
   and hash_patch (BufReader::split) over a scripted reader.  The digest
   functions themselves (RustCrypto crates) are outside the model: the model
   says WHICH bytes are hashed; the correspondence check hashes them with a
   reference implementation. *)
Require Import PV.Base PV.Dec PV.Summary PV.Distinfo.
Local Open Scope N_scope.

(* what successive read() calls return *)
Inductive rdev := EData (c : str) | EIntr | EErr.
(* io::copy / BufRead::read_until: Interrupted is retried, any other error is
   returned, a read of 0 bytes is end of file *)
Fixpoint read_all (evs : list rdev) : option str :=
  match evs with
  | [] => Some []
  | EData [] :: _ => Some []
  | EData c :: r => option_map (app c) (read_all r)
  | EIntr :: r => read_all r
  | EErr :: _ => None
  end.
Definition hash_file_pre (evs : list rdev) : option str := read_all evs.
Definition hash_patch_pre (evs : list rdev) : option str := option_map filter_patch (read_all evs).
