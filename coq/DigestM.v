(* DigestM.v - model of the read loops of src/digest.rs: hash_file (io::copy)
   and hash_patch (BufReader::split) over a scripted reader.  The digest
   functions themselves (RustCrypto crates) are outside the model: the model
   says WHICH bytes are hashed; the correspondence check hashes them with a
   reference implementation. *)
Require Import PV.Base PV.Dec PV.Summary PV.Distinfo.
Local Open Scope N_scope.

(* what successive read() calls return *)
Inductive rdev := EData (c : str) | EIntr | EErr.
(* io::copy / BufRead::read_until: Interrupted is retried, any other error is
   returned, a read of 0 bytes is end of file *)
Fixpoint read_all (evs : list rdev) : option str :=
  match evs with
  | [] => Some []
  | EData [] :: _ => Some []
  | EData c :: r => option_map (app c) (read_all r)
  | EIntr :: r => read_all r
  | EErr :: _ => None
  end.
Definition hash_file_pre (evs : list rdev) : option str := read_all evs.
(* hash_patch reads through BufReader::split(b'\n').  [patch_lines] are the lines that
   iterator yields (without their '\n'); [cur_rev] is the line being collected,
   reversed.  Interrupted is retried and an error returned, as above - but a
   read of 0 bytes only makes read_until return what it has: it ends the LINE
   being collected, and ends the iteration only when nothing is pending (the
   next call reads again).  For schedules without 0-byte reads this is the
   filter applied to all the bytes (DistinfoProofs.patch_schedule). *)
Fixpoint feed (cur_rev : str) (c : str) : list str * str :=
  match c with
  | [] => ([], cur_rev)
  | x :: r => if x =? 10 then let (ls, p) := feed [] r in (frev cur_rev :: ls, p)
              else feed (x :: cur_rev) r
  end.
Fixpoint patch_lines (evs : list rdev) (cur_rev : str) : option (list str) :=
  match evs with
  | [] => Some (match cur_rev with [] => [] | _ => [frev cur_rev] end)
  | EData [] :: r => match cur_rev with
                     | [] => Some []
                     | _ => option_map (cons (frev cur_rev)) (patch_lines r [])
                     end
  | EData c :: r => let (ls, p) := feed cur_rev c in option_map (app ls) (patch_lines r p)
  | EIntr :: r => patch_lines r cur_rev
  | EErr :: _ => None
  end.
Definition keep_line (l : str) : str := if contains netbsd l then [] else l ++ [10].
Definition hash_patch_pre (evs : list rdev) : option str := option_map (flat_map keep_line) (patch_lines evs []).
