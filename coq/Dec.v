(* Dec.v - Rust's FromStr for i64/u64 and Display for integers, over
   Decimal.uint, with the print/parse round trip. *)
Require Import PV.Base.
From Coq Require Import Decimal DecimalZ DecimalN DecimalPos.
Local Open Scope Z_scope.

Fixpoint uint_chars (u : uint) : str :=
  match u with
  | Nil => [] | D0 r => 48%N :: uint_chars r | D1 r => 49%N :: uint_chars r | D2 r => 50%N :: uint_chars r
  | D3 r => 51%N :: uint_chars r | D4 r => 52%N :: uint_chars r | D5 r => 53%N :: uint_chars r
  | D6 r => 54%N :: uint_chars r | D7 r => 55%N :: uint_chars r | D8 r => 56%N :: uint_chars r
  | D9 r => 57%N :: uint_chars r end.
(* Display for i64 / u64 / usize *)
Definition print_z (z : Z) : str :=
  match Z.to_int z with Pos u => uint_chars u | Neg u => 45%N :: uint_chars u end.

(* Reference definitions over the unbounded value ... *)
Definition parse_digits (ds : str) : option Z :=
  match ds with [] => None | _ => if forallb is_digit ds then Some (value ds) else None end.
Definition parse_i64_spec (s : str) : option Z :=
  let r := match s with
           | 45%N :: ds => option_map Z.opp (parse_digits ds)
           | 43%N :: ds => parse_digits ds
           | _ => parse_digits s end in
  match r with Some v => if (i64min <=? v) && (v <=? i64max) then Some v else None | None => None end.
Definition parse_u64_spec (s : str) : option Z :=
  let r := match s with
           | 43%N :: ds => parse_digits ds
           | _ => parse_digits s end in
  match r with Some v => if v <=? u64max then Some v else None | None => None end.
(* ... and what the executable models run: the digit value with a ceiling just
   above u64::MAX (linear time on any number of digits); equal by
   [parse_i64_eq] / [parse_u64_eq]. *)
Definition cap64 : Z := (u64max + 1)%Z.
Definition parse_digits_c (ds : str) : option Z :=
  match ds with [] => None | _ => if forallb is_digit ds then Some (cvalue cap64 ds) else None end.
(* <i64 as FromStr>: optional sign, at least one digit, range check *)
Definition parse_i64 (s : str) : option Z :=
  let r := match s with
           | 45%N :: ds => option_map Z.opp (parse_digits_c ds)
           | 43%N :: ds => parse_digits_c ds
           | _ => parse_digits_c s end in
  match r with Some v => if (i64min <=? v) && (v <=? i64max) then Some v else None | None => None end.
(* <u64 as FromStr>: optional '+', at least one digit, range check *)
Definition parse_u64 (s : str) : option Z :=
  let r := match s with
           | 43%N :: ds => parse_digits_c ds
           | _ => parse_digits_c s end in
  match r with Some v => if v <=? u64max then Some v else None | None => None end.

Lemma parse_digits_c_eq ds : parse_digits_c ds = option_map (fun v => Z.min v cap64) (parse_digits ds).
Proof.
  unfold parse_digits_c, parse_digits. destruct ds as [|d ds]; [reflexivity|].
  destruct (forallb is_digit (d :: ds)) eqn:E; [|reflexivity]. cbn [option_map]. f_equal.
  apply cvalue_spec; [unfold cap64, u64max; lia|exact E].
Qed.
Lemma fold_value_nonneg ds : forall a, forallb is_digit ds = true -> (0 <= a)%Z ->
  (0 <= fold_left (fun acc d => 10 * acc + digit_val d) ds a)%Z.
Proof.
  induction ds as [|d ds IH]; intros a H Ha; cbn [fold_left]; [exact Ha|].
  cbn [forallb] in H. apply andb_prop in H as [H1 H2]. apply IH; auto.
  unfold digit_val, is_digit in *. apply andb_prop in H1 as [X1 X2]. apply N.leb_le in X1, X2. lia.
Qed.
Lemma value_nonneg ds : forallb is_digit ds = true -> (0 <= value ds)%Z.
Proof. intros H. unfold value. apply fold_value_nonneg; auto. lia. Qed.
Lemma parse_digits_nonneg ds v : parse_digits ds = Some v -> (0 <= v)%Z.
Proof. unfold parse_digits. destruct ds as [|d ds]; [discriminate|]. destruct (forallb is_digit (d :: ds)) eqn:E; [|discriminate].
  intros [= <-]. apply value_nonneg; auto. Qed.
Lemma range_i64_cap v : (0 <= v)%Z ->
  (if (i64min <=? Z.min v cap64) && (Z.min v cap64 <=? i64max) then Some (Z.min v cap64) else None) =
  (if (i64min <=? v) && (v <=? i64max) then Some v else None).
Proof.
  intros H. unfold cap64, u64max, i64min, i64max in *.
  destruct (Z.le_gt_cases v 18446744073709551616) as [L|G].
  - rewrite Z.min_l by lia. reflexivity.
  - rewrite Z.min_r by lia.
    replace (18446744073709551616 <=? 9223372036854775807)%Z with false by reflexivity.
    replace (v <=? 9223372036854775807)%Z with false by (symmetry; apply Z.leb_gt; lia).
    rewrite !andb_false_r. reflexivity.
Qed.
Lemma range_i64_cap_neg v : (0 <= v)%Z ->
  (if (i64min <=? - Z.min v cap64) && (- Z.min v cap64 <=? i64max) then Some (- Z.min v cap64) else None) =
  (if (i64min <=? - v) && (- v <=? i64max) then Some (- v) else None).
Proof.
  intros H. unfold cap64, u64max, i64min, i64max in *.
  destruct (Z.le_gt_cases v 18446744073709551616) as [L|G].
  - rewrite Z.min_l by lia. reflexivity.
  - rewrite Z.min_r by lia.
    replace (-9223372036854775808 <=? - 18446744073709551616)%Z with false by reflexivity.
    replace (-9223372036854775808 <=? - v)%Z with false by (symmetry; apply Z.leb_gt; lia).
    reflexivity.
Qed.
Theorem parse_i64_eq s : parse_i64 s = parse_i64_spec s.
Proof.
  unfold parse_i64, parse_i64_spec.
  assert (forall ds, match parse_digits_c ds with Some v => if (i64min <=? v) && (v <=? i64max) then Some v else None | None => None end =
                     match parse_digits ds with Some v => if (i64min <=? v) && (v <=? i64max) then Some v else None | None => None end) as P.
  { intros ds. rewrite parse_digits_c_eq. destruct (parse_digits ds) as [v|] eqn:E; [|reflexivity]. cbn [option_map].
    apply range_i64_cap. eapply parse_digits_nonneg; eauto. }
  assert (forall ds, match option_map Z.opp (parse_digits_c ds) with Some v => if (i64min <=? v) && (v <=? i64max) then Some v else None | None => None end =
                     match option_map Z.opp (parse_digits ds) with Some v => if (i64min <=? v) && (v <=? i64max) then Some v else None | None => None end) as Q.
  { intros ds. rewrite parse_digits_c_eq. destruct (parse_digits ds) as [v|] eqn:E; [|reflexivity]. cbn [option_map].
    apply range_i64_cap_neg. eapply parse_digits_nonneg; eauto. }
  destruct s as [|c r]; [reflexivity|].
  destruct c as [|p]; [apply P|].
  destruct (Pos.eq_dec p 45) as [->|N1]; [apply Q|].
  destruct (Pos.eq_dec p 43) as [->|N2]; [apply P|].
  assert (forall (X Y Z0 : option Z), match Npos p with 45%N => X | 43%N => Y | _ => Z0 end = Z0) as Sel.
  { intros X Y Z0. clear -N1 N2. repeat (destruct p as [p|p|]; try reflexivity); congruence. }
  rewrite !Sel. apply P.
Qed.
Theorem parse_u64_eq s : parse_u64 s = parse_u64_spec s.
Proof.
  unfold parse_u64, parse_u64_spec.
  assert (forall ds, match parse_digits_c ds with Some v => if v <=? u64max then Some v else None | None => None end =
                     match parse_digits ds with Some v => if v <=? u64max then Some v else None | None => None end) as P.
  { intros ds. rewrite parse_digits_c_eq. destruct (parse_digits ds) as [v|] eqn:E; [|reflexivity]. cbn [option_map].
    pose proof (parse_digits_nonneg _ _ E) as Hv. unfold cap64, u64max in *.
    destruct (Z.le_gt_cases v 18446744073709551616) as [L|G].
    - rewrite Z.min_l by lia. reflexivity.
    - rewrite Z.min_r by lia. replace (18446744073709551616 <=? 18446744073709551615)%Z with false by reflexivity.
      replace (v <=? 18446744073709551615)%Z with false by (symmetry; apply Z.leb_gt; lia). reflexivity. }
  destruct s as [|c r]; [reflexivity|].
  destruct c as [|p]; [apply P|].
  destruct (Pos.eq_dec p 43) as [->|N2]; [apply P|].
  assert (forall (Y Z0 : option Z), match Npos p with 43%N => Y | _ => Z0 end = Z0) as Sel.
  { intros Y Z0. clear -N2. repeat (destruct p as [p|p|]; try reflexivity); congruence. }
  rewrite !Sel. apply P.
Qed.

Lemma uint_chars_digits u : forallb is_digit (uint_chars u) = true.
Proof. induction u; cbn; auto. Qed.

Import DecimalPos.Unsigned.

Lemma of_lu_rev_cons (f : uint -> uint) (k : N) u :
  (forall d, of_lu (f d) = k + 10 * of_lu d)%N -> (forall d d', revapp (f d) d' = revapp d (f d')) ->
  Z.of_N (of_lu (rev (f u))) = Z.of_N (of_lu (rev u)) + Z.of_N k * 10 ^ Z.of_N (usize u).
Proof.
  intros Hf Hr. unfold rev. rewrite Hr, of_lu_revapp, Hf. cbn [of_lu].
  rewrite N2Z.inj_add, N2Z.inj_mul, N2Z.inj_pow, N2Z.inj_add, N2Z.inj_mul. cbn. unfold rev. ring.
Qed.

Ltac zn := repeat match goal with |- context[Z.of_N (Npos ?p)] => change (Z.of_N (Npos p)) with (Zpos p) end; change (Z.of_N 0) with 0.

Lemma fold_uint u : forall acc,
  fold_left (fun a d => 10 * a + digit_val d) (uint_chars u) acc =
  acc * 10 ^ Z.of_N (usize u) + Z.of_N (of_lu (rev u)).
Proof.
  unfold digit_val.
  induction u; intros acc; cbn [uint_chars fold_left usize]; [cbn; lia | ..];
  rewrite IHu, N2Z.inj_succ, Z.pow_succ_r by lia.
  - rewrite (of_lu_rev_cons D0 0) by (intros; reflexivity). zn; ring.
  - rewrite (of_lu_rev_cons D1 1) by (intros; reflexivity). zn; ring.
  - rewrite (of_lu_rev_cons D2 2) by (intros; reflexivity). zn; ring.
  - rewrite (of_lu_rev_cons D3 3) by (intros; reflexivity). zn; ring.
  - rewrite (of_lu_rev_cons D4 4) by (intros; reflexivity). zn; ring.
  - rewrite (of_lu_rev_cons D5 5) by (intros; reflexivity). zn; ring.
  - rewrite (of_lu_rev_cons D6 6) by (intros; reflexivity). zn; ring.
  - rewrite (of_lu_rev_cons D7 7) by (intros; reflexivity). zn; ring.
  - rewrite (of_lu_rev_cons D8 8) by (intros; reflexivity). zn; ring.
  - rewrite (of_lu_rev_cons D9 9) by (intros; reflexivity). zn; ring.
Qed.

Lemma value_of_uint u : value (uint_chars u) = Z.of_N (Pos.of_uint u).
Proof. unfold value. rewrite fold_uint, of_uint_alt. lia. Qed.
Lemma uint_chars_nonnil u : u <> Nil -> uint_chars u <> [].
Proof. destruct u; cbn; congruence. Qed.
Lemma parse_digits_uint u : u <> Nil -> parse_digits (uint_chars u) = Some (Z.of_N (Pos.of_uint u)).
Proof. intros H. unfold parse_digits. destruct (uint_chars u) eqn:E; [apply uint_chars_nonnil in H; congruence|].
  rewrite <- E, uint_chars_digits, value_of_uint. reflexivity. Qed.
Lemma head_digit u : match uint_chars u with c :: _ => (48 <= Z.of_N c <= 57) | [] => True end.
Proof. destruct u; cbn; lia. Qed.

Lemma to_int_nonnil z u : Z.to_int z = Pos u \/ Z.to_int z = Neg u -> u <> Nil.
Proof.
  intros E ->. destruct z as [|p|p]; cbn in E; destruct E as [E|E]; try discriminate;
  injection E as E; apply (to_uint_nonnil p); auto.
Qed.

Theorem parse_print_i64 z : i64min <= z <= i64max -> parse_i64 (print_z z) = Some z.
Proof.
  intros R. rewrite parse_i64_eq. unfold parse_i64_spec, print_z. pose proof (DecimalZ.of_to z) as OT.
  destruct (Z.to_int z) as [u|u] eqn:E.
  - assert (u <> Nil) as Hn by (apply (to_int_nonnil z); auto).
    assert (Z.of_N (Pos.of_uint u) = z) as V by (cbn in OT; exact OT).
    pose proof (head_digit u) as HD. destruct (uint_chars u) as [|c r] eqn:EC; [apply uint_chars_nonnil in Hn; congruence|].
    assert (parse_digits (c :: r) = Some z) as P by (rewrite <- EC, parse_digits_uint, V; auto).
    destruct c as [|p]; [lia|].
    assert (Npos p <> 45%N /\ Npos p <> 43%N) as [N1 N2] by (split; intros X; rewrite X in HD; cbn in HD; lia).
    replace (match Npos p with 45%N => _ | 43%N => _ | _ => parse_digits (Npos p :: r) end) with (parse_digits (Npos p :: r)).
    2:{ clear -N1 N2. repeat (destruct p as [p|p|]; try reflexivity); congruence. }
    rewrite P. replace ((i64min <=? z) && (z <=? i64max)) with true; auto.
    symmetry. apply andb_true_intro. split; apply Z.leb_le; lia.
  - assert (u <> Nil) as Hn by (apply (to_int_nonnil z); auto).
    assert (- Z.of_N (Pos.of_uint u) = z) as V by (cbn in OT; exact OT).
    rewrite parse_digits_uint by auto. cbn [option_map]. rewrite V.
    replace ((i64min <=? z) && (z <=? i64max)) with true; auto.
    symmetry. apply andb_true_intro. split; apply Z.leb_le; lia.
Qed.

Theorem parse_print_u64 z : 0 <= z <= u64max -> parse_u64 (print_z z) = Some z.
Proof.
  intros R. rewrite parse_u64_eq. unfold parse_u64_spec, print_z. pose proof (DecimalZ.of_to z) as OT.
  destruct (Z.to_int z) as [u|u] eqn:E.
  - assert (u <> Nil) as Hn by (apply (to_int_nonnil z); auto).
    assert (Z.of_N (Pos.of_uint u) = z) as V by (cbn in OT; exact OT).
    pose proof (head_digit u) as HD. destruct (uint_chars u) as [|c r] eqn:EC; [apply uint_chars_nonnil in Hn; congruence|].
    assert (parse_digits (c :: r) = Some z) as P by (rewrite <- EC, parse_digits_uint, V; auto).
    destruct c as [|p]; [lia|].
    assert (Npos p <> 43%N) as N2 by (intros X; rewrite X in HD; cbn in HD; lia).
    replace (match Npos p with 43%N => _ | _ => parse_digits (Npos p :: r) end) with (parse_digits (Npos p :: r)).
    2:{ clear -N2. repeat (destruct p as [p|p|]; try reflexivity); congruence. }
    rewrite P. replace (z <=? u64max) with true; auto. symmetry. apply Z.leb_le; lia.
  - exfalso. destruct z as [|p|p]; cbn in E; try discriminate. lia.
Qed.

(* printed numbers never contain a line break, '=' or a blank: all digits, optional '-' *)
Lemma print_z_chars z c : In c (print_z z) -> c = 45%N \/ is_digit c = true.
Proof.
  unfold print_z. pose proof uint_chars_digits as D.
  destruct (Z.to_int z) as [u|u]; intros H.
  - right. specialize (D u). rewrite forallb_forall in D. auto.
  - destruct H as [<-|H]; auto. right. specialize (D u). rewrite forallb_forall in D. auto.
Qed.
