(* Dec.v - Rust's FromStr for i64/u64 and Display for integers, over
   Decimal.uint, with the print/parse round trip. *)
Require Import PV.Base.
From Coq Require Import Decimal DecimalZ DecimalN DecimalPos.
Local Open Scope Z_scope.

Fixpoint uint_chars (u : uint) : str :=
  match u with
  | Nil => [] | D0 r => 48%N :: uint_chars r | D1 r => 49%N :: uint_chars r | D2 r => 50%N :: uint_chars r
  | D3 r => 51%N :: uint_chars r | D4 r => 52%N :: uint_chars r | D5 r => 53%N :: uint_chars r
  | D6 r => 54%N :: uint_chars r | D7 r => 55%N :: uint_chars r | D8 r => 56%N :: uint_chars r
  | D9 r => 57%N :: uint_chars r end.
(* Display for i64 / u64 / usize *)
Definition print_z (z : Z) : str :=
  match Z.to_int z with Pos u => uint_chars u | Neg u => 45%N :: uint_chars u end.

Definition parse_digits (ds : str) : option Z :=
  match ds with [] => None | _ => if forallb is_digit ds then Some (value ds) else None end.
(* <i64 as FromStr>: optional sign, at least one digit, range check *)
Definition parse_i64 (s : str) : option Z :=
  let r := match s with
           | 45%N :: ds => option_map Z.opp (parse_digits ds)
           | 43%N :: ds => parse_digits ds
           | _ => parse_digits s end in
  match r with Some v => if (i64min <=? v) && (v <=? i64max) then Some v else None | None => None end.
(* <u64 as FromStr>: optional '+', at least one digit, range check *)
Definition parse_u64 (s : str) : option Z :=
  let r := match s with
           | 43%N :: ds => parse_digits ds
           | _ => parse_digits s end in
  match r with Some v => if v <=? u64max then Some v else None | None => None end.

Lemma uint_chars_digits u : forallb is_digit (uint_chars u) = true.
Proof. induction u; cbn; auto. Qed.

Import DecimalPos.Unsigned.

Lemma of_lu_rev_cons (f : uint -> uint) (k : N) u :
  (forall d, of_lu (f d) = k + 10 * of_lu d)%N -> (forall d d', revapp (f d) d' = revapp d (f d')) ->
  Z.of_N (of_lu (rev (f u))) = Z.of_N (of_lu (rev u)) + Z.of_N k * 10 ^ Z.of_N (usize u).
Proof.
  intros Hf Hr. unfold rev. rewrite Hr, of_lu_revapp, Hf. cbn [of_lu].
  rewrite N2Z.inj_add, N2Z.inj_mul, N2Z.inj_pow, N2Z.inj_add, N2Z.inj_mul. cbn. unfold rev. ring.
Qed.

Ltac zn := repeat match goal with |- context[Z.of_N (Npos ?p)] => change (Z.of_N (Npos p)) with (Zpos p) end; change (Z.of_N 0) with 0.

Lemma fold_uint u : forall acc,
  fold_left (fun a d => 10 * a + digit_val d) (uint_chars u) acc =
  acc * 10 ^ Z.of_N (usize u) + Z.of_N (of_lu (rev u)).
Proof.
  unfold digit_val.
  induction u; intros acc; cbn [uint_chars fold_left usize]; [cbn; lia | ..];
  rewrite IHu, N2Z.inj_succ, Z.pow_succ_r by lia.
  - rewrite (of_lu_rev_cons D0 0) by (intros; reflexivity). zn; ring.
  - rewrite (of_lu_rev_cons D1 1) by (intros; reflexivity). zn; ring.
  - rewrite (of_lu_rev_cons D2 2) by (intros; reflexivity). zn; ring.
  - rewrite (of_lu_rev_cons D3 3) by (intros; reflexivity). zn; ring.
  - rewrite (of_lu_rev_cons D4 4) by (intros; reflexivity). zn; ring.
  - rewrite (of_lu_rev_cons D5 5) by (intros; reflexivity). zn; ring.
  - rewrite (of_lu_rev_cons D6 6) by (intros; reflexivity). zn; ring.
  - rewrite (of_lu_rev_cons D7 7) by (intros; reflexivity). zn; ring.
  - rewrite (of_lu_rev_cons D8 8) by (intros; reflexivity). zn; ring.
  - rewrite (of_lu_rev_cons D9 9) by (intros; reflexivity). zn; ring.
Qed.

Lemma value_of_uint u : value (uint_chars u) = Z.of_N (Pos.of_uint u).
Proof. unfold value. rewrite fold_uint, of_uint_alt. lia. Qed.
Lemma uint_chars_nonnil u : u <> Nil -> uint_chars u <> [].
Proof. destruct u; cbn; congruence. Qed.
Lemma parse_digits_uint u : u <> Nil -> parse_digits (uint_chars u) = Some (Z.of_N (Pos.of_uint u)).
Proof. intros H. unfold parse_digits. destruct (uint_chars u) eqn:E; [apply uint_chars_nonnil in H; congruence|].
  rewrite <- E, uint_chars_digits, value_of_uint. reflexivity. Qed.
Lemma head_digit u : match uint_chars u with c :: _ => (48 <= Z.of_N c <= 57) | [] => True end.
Proof. destruct u; cbn; lia. Qed.

Lemma to_int_nonnil z u : Z.to_int z = Pos u \/ Z.to_int z = Neg u -> u <> Nil.
Proof.
  intros E ->. destruct z as [|p|p]; cbn in E; destruct E as [E|E]; try discriminate;
  injection E as E; apply (to_uint_nonnil p); auto.
Qed.

Theorem parse_print_i64 z : i64min <= z <= i64max -> parse_i64 (print_z z) = Some z.
Proof.
  intros R. unfold parse_i64, print_z. pose proof (DecimalZ.of_to z) as OT.
  destruct (Z.to_int z) as [u|u] eqn:E.
  - assert (u <> Nil) as Hn by (apply (to_int_nonnil z); auto).
    assert (Z.of_N (Pos.of_uint u) = z) as V by (cbn in OT; exact OT).
    pose proof (head_digit u) as HD. destruct (uint_chars u) as [|c r] eqn:EC; [apply uint_chars_nonnil in Hn; congruence|].
    assert (parse_digits (c :: r) = Some z) as P by (rewrite <- EC, parse_digits_uint, V; auto).
    destruct c as [|p]; [lia|].
    assert (Npos p <> 45%N /\ Npos p <> 43%N) as [N1 N2] by (split; intros X; rewrite X in HD; cbn in HD; lia).
    replace (match Npos p with 45%N => _ | 43%N => _ | _ => parse_digits (Npos p :: r) end) with (parse_digits (Npos p :: r)).
    2:{ clear -N1 N2. repeat (destruct p as [p|p|]; try reflexivity); congruence. }
    rewrite P. replace ((i64min <=? z) && (z <=? i64max)) with true; auto.
    symmetry. apply andb_true_intro. split; apply Z.leb_le; lia.
  - assert (u <> Nil) as Hn by (apply (to_int_nonnil z); auto).
    assert (- Z.of_N (Pos.of_uint u) = z) as V by (cbn in OT; exact OT).
    rewrite parse_digits_uint by auto. cbn [option_map]. rewrite V.
    replace ((i64min <=? z) && (z <=? i64max)) with true; auto.
    symmetry. apply andb_true_intro. split; apply Z.leb_le; lia.
Qed.

Theorem parse_print_u64 z : 0 <= z <= u64max -> parse_u64 (print_z z) = Some z.
Proof.
  intros R. unfold parse_u64, print_z. pose proof (DecimalZ.of_to z) as OT.
  destruct (Z.to_int z) as [u|u] eqn:E.
  - assert (u <> Nil) as Hn by (apply (to_int_nonnil z); auto).
    assert (Z.of_N (Pos.of_uint u) = z) as V by (cbn in OT; exact OT).
    pose proof (head_digit u) as HD. destruct (uint_chars u) as [|c r] eqn:EC; [apply uint_chars_nonnil in Hn; congruence|].
    assert (parse_digits (c :: r) = Some z) as P by (rewrite <- EC, parse_digits_uint, V; auto).
    destruct c as [|p]; [lia|].
    assert (Npos p <> 43%N) as N2 by (intros X; rewrite X in HD; cbn in HD; lia).
    replace (match Npos p with 43%N => _ | _ => parse_digits (Npos p :: r) end) with (parse_digits (Npos p :: r)).
    2:{ clear -N2. repeat (destruct p as [p|p|]; try reflexivity); congruence. }
    rewrite P. replace (z <=? u64max) with true; auto. symmetry. apply Z.leb_le; lia.
  - exfalso. destruct z as [|p|p]; cbn in E; try discriminate. lia.
Qed.

(* printed numbers never contain a line break, '=' or a blank: all digits, optional '-' *)
Lemma print_z_chars z c : In c (print_z z) -> c = 45%N \/ is_digit c = true.
Proof.
  unfold print_z. pose proof uint_chars_digits as D.
  destruct (Z.to_int z) as [u|u]; intros H.
  - right. specialize (D u). rewrite forallb_forall in D. auto.
  - destruct H as [<-|H]; auto. right. specialize (D u). rewrite forallb_forall in D. auto.
Qed.
