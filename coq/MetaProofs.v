(* MetaProofs.v - metadata file names, validity, package database iteration (C20). *)
Require Import PV.Base PV.Dec PV.Dewey PV.Pattern PV.Summary PV.ScanIndex PV.Metadata PV.PkgNameProofs.
From Coq Require Import Permutation.
Require Import Coq.Strings.String.
Import Coq.Lists.List ListNotations.
Local Open Scope N_scope.

Theorem filename_bijective : (forall e, from_filename (to_filename e) = Some e) /\
  (forall s e, from_filename s = Some e -> s = to_filename e) /\ NoDup (map to_filename all_mentries) /\ List.length all_mentries = 14%nat.
Proof.
  repeat split.
  - destruct e; reflexivity.
  - intros s e H. unfold from_filename in H. apply find_some in H as [_ H]. apply eqs_eq in H. exact H.
  - cbn. repeat constructor; cbn; intuition discriminate.
Qed.
Theorem is_valid_iff m : meta_is_valid m = true <-> m_comment m <> [] /\ m_contents m <> [] /\ m_desc m <> [].
Proof. unfold meta_is_valid. destruct (m_comment m), (m_contents m), (m_desc m); split; intros H; try discriminate; try (destruct H as (A & B & C); congruence); repeat split; discriminate. Qed.
(* the three text entries hold the trimmed content that was read *)
Theorem read_text_entry v : 
  option_map m_comment (read_metadata meta_empty MComment v) = Some (trim v) /\
  option_map m_contents (read_metadata meta_empty Contents v) = Some (trim v) /\
  option_map m_desc (read_metadata meta_empty Desc v) = Some (trim v).
Proof. repeat split. Qed.
(* sizes: an error, never a panic, for non-integers *)
Theorem read_size m v : read_metadata m SizePkgM v = None <-> parse_i64 (trim v) = None.
Proof. unfold read_metadata. destruct (parse_i64 (trim v)); split; congruence. Qed.

(* iteration: exactly the complete directories, each once, name split at its last '-' *)
Theorem db_iter_spec listing : db_iter listing =
  map (fun d => if utf8_valid (de_name d) then Some (package_of (de_name d)) else None) (filter valid_pkgdir listing).
Proof. reflexivity. Qed.
Theorem valid_pkgdir_iff d : valid_pkgdir d = true <->
  de_is_dir d = true /\ In (to_filename MComment) (de_files d) /\ In (to_filename Contents) (de_files d) /\ In (to_filename Desc) (de_files d).
Proof.
  unfold valid_pkgdir. rewrite andb_true_iff. cbn [forallb]. rewrite !andb_true_iff.
  assert (forall e, existsb (fun f => eqs f (to_filename e)) (de_files d) = true <-> In (to_filename e) (de_files d)) as G.
  { intros e. rewrite existsb_exists. split; [intros (f & Hf & E); apply eqs_eq in E; subst; auto|intros H; eexists; split; eauto; apply eqs_refl]. }
  rewrite !G. tauto.
Qed.
(* the result does not depend on the order in which the OS lists the directory *)
Theorem db_iter_perm l1 l2 : Permutation l1 l2 -> Permutation (db_iter l1) (db_iter l2).
Proof.
  intros H. unfold db_iter. apply Permutation_map. induction H; cbn [filter]; auto.
  - destruct (valid_pkgdir x); auto.
  - destruct (valid_pkgdir x), (valid_pkgdir y); auto. apply perm_swap.
  - eapply perm_trans; eauto.
Qed.
Theorem package_split name : 
  (mem 45 name = true -> pk_base (package_of name) ++ 45 :: pk_version (package_of name) = name /\ mem 45 (pk_version (package_of name)) = false) /\
  (mem 45 name = false -> pk_base (package_of name) = name /\ pk_version (package_of name) = []) /\
  pk_name (package_of name) = name /\
  pk_base (package_of name) = pn_base (pkgname_new name) /\ pk_version (package_of name) = pn_version (pkgname_new name).
Proof.
  unfold package_of, pkgname_new. destruct (rsplit_once 45 name) as [[b v]|] eqn:E; cbn [pk_base pk_version pk_name pn_base pn_version].
  - apply rsplit_once_some in E as [-> Hm]. split; [auto|]. split; [|auto]. intros Hf. exfalso.
    rewrite <- not_true_iff_false in Hf. apply Hf. apply mem_In, in_or_app. right. left. reflexivity.
  - apply rsplit_once_none in E. split; [congruence|]. split; auto.
Qed.

(* reading a metadata file: the text read is the whole content exactly when the
   content is valid UTF-8 (no length, block or position enters), an error otherwise *)
Theorem pkg_read_file_spec c r : pkg_read_file c = Some r <-> utf8_valid c = true /\ r = c.
Proof. unfold pkg_read_file. destruct (utf8_valid c); split; intros H; try discriminate; try (injection H as <-; auto); destruct H as [H ->]; congruence. Qed.
Theorem pkg_read_file_error c : pkg_read_file c = None <-> utf8_valid c = false.
Proof. unfold pkg_read_file. destruct (utf8_valid c); split; congruence. Qed.
