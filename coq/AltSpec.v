(* AltSpec.v - declarative reading of csh-style brace alternation (C04):
   pattern trees, their printed form and their set of expansions. *)
Require Import PV.Base PV.Dec PV.Dewey PV.Pattern.
Local Open Scope N_scope.

Inductive pat := PEnd | PCh (c : N) (k : pat) | PGrp (a : alts) (k : pat)
with alts := AOne (p : pat) | ACons (p : pat) (r : alts).
Scheme pat_mut := Induction for pat Sort Prop
with alts_mut := Induction for alts Sort Prop.

Fixpoint print (p : pat) : str :=
  match p with
  | PEnd => []
  | PCh c k => c :: print k
  | PGrp a k => LB :: printa a ++ RB :: print k
  end
with printa (a : alts) : str :=
  match a with AOne p => print p | ACons p r => print p ++ CM :: printa r end.

Definition cross (xs ys : list str) : list str := flat_map (fun x => map (fun y => x ++ y) ys) xs.
(* the csh expansion: every group replaced by one of its alternatives *)
Fixpoint exp (p : pat) : list str :=
  match p with
  | PEnd => [[]]
  | PCh c k => map (cons c) (exp k)
  | PGrp a k => cross (expa a) (exp k)
  end
with expa (a : alts) : list str :=
  match a with AOne p => exp p | ACons p r => exp p ++ expa r end.

(* well-formed: ordinary characters are not braces; inside a group not commas either *)
Fixpoint wf (inside : bool) (p : pat) : Prop :=
  match p with
  | PEnd => True
  | PCh c k => c <> LB /\ c <> RB /\ (inside = true -> c <> CM) /\ wf inside k
  | PGrp a k => wfa a /\ wf inside k
  end
with wfa (a : alts) : Prop :=
  match a with AOne p => wf true p | ACons p r => wf true p /\ wfa r end.

Fixpoint ngroups (p : pat) : nat :=
  match p with PEnd => 0%nat | PCh _ k => ngroups k | PGrp a k => (S (ngroupsa a) + ngroups k)%nat end
with ngroupsa (a : alts) : nat :=
  match a with AOne p => ngroups p | ACons p r => (ngroups p + ngroupsa r)%nat end.

(* "matches that name as a pattern in its own right" *)
Definition base_pm (e pkg : str) : bool :=
  match pm e pkg with MBool true => true | _ => false end.
Definition spec_match (t : pat) (pkg : str) : bool := existsb (fun e => base_pm e pkg) (exp t).
