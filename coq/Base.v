(* Base.v - shared vocabulary of the models: text as lists of code points or
   bytes, outcome type, character classes, and the std-library string
   routines the anchored Rust relies on (modelled, not verified - see
   DESIGN.md section 4). *)
From Coq Require Export List NArith ZArith Bool Lia Arith.
Export ListNotations.
Local Open Scope N_scope.

Notation str := (list N).

(* Outcome of an operation of the crate: value, reported error, panic (with a
   site number documented beside the model), or model fuel exhausted. *)
Inductive res (E A : Type) : Type :=
| Val (a : A) | Fail (e : E) | Panic (site : nat) | OutOfFuel.
Arguments Val {E A} a.
Arguments Fail {E A} e.
Arguments Panic {E A} site.
Arguments OutOfFuel {E A}.

Definition is_val {E A} (r : res E A) : bool := match r with Val _ => true | _ => false end.
Definition is_panic {E A} (r : res E A) : bool := match r with Panic _ => true | _ => false end.
Definition bind {E A B} (r : res E A) (f : A -> res E B) : res E B :=
  match r with Val a => f a | Fail e => Fail e | Panic k => Panic k | OutOfFuel => OutOfFuel end.

(* Reversal in linear time.  The standard library's [rev] is quadratic once
   extracted; the models use [frev], and [frev_eq] lets every proof go back to
   [rev] and its lemmas. *)
Definition frev {A : Type} (l : list A) : list A := rev_append l [].
Lemma frev_eq {A : Type} (l : list A) : frev l = List.rev l.
Proof. unfold frev. symmetry. apply rev_alt. Qed.

(* ---------- equality on text ---------- *)
Fixpoint eqs (a b : str) : bool :=
  match a, b with
  | [], [] => true
  | x :: a', y :: b' => (x =? y) && eqs a' b'
  | _, _ => false
  end.
Lemma eqs_spec a b : reflect (a = b) (eqs a b).
Proof.
  revert b; induction a as [|x a IH]; intros [|y b]; cbn; try (constructor; congruence).
  destruct (N.eqb_spec x y) as [->|Hn]; cbn.
  - destruct (IH b) as [->|Hn]; constructor; congruence.
  - constructor; congruence.
Qed.
Lemma eqs_refl a : eqs a a = true.
Proof. destruct (eqs_spec a a); congruence. Qed.
Lemma eqs_eq a b : eqs a b = true <-> a = b.
Proof. destruct (eqs_spec a b); split; congruence. Qed.

(* ---------- character classes (ASCII) ---------- *)
Definition is_digit (c : N) : bool := (48 <=? c) && (c <=? 57).
Definition is_upper (c : N) : bool := (65 <=? c) && (c <=? 90).
Definition is_lower (c : N) : bool := (97 <=? c) && (c <=? 122).
Definition is_alpha (c : N) : bool := is_upper c || is_lower c.
Definition is_alnum (c : N) : bool := is_alpha c || is_digit c.
Definition lower (c : N) : N := if is_upper c then c + 32 else c.
(* u8::is_ascii_whitespace: space, \t, \n, \x0C, \r *)
Definition is_ascii_ws (c : N) : bool :=
  (c =? 32) || (c =? 9) || (c =? 10) || (c =? 12) || (c =? 13).
(* char::is_whitespace: the Unicode White_Space code points *)
Definition is_uni_ws (c : N) : bool :=
  ((9 <=? c) && (c <=? 13)) || (c =? 32) || (c =? 133) || (c =? 160) || (c =? 5760)
  || ((8192 <=? c) && (c <=? 8202)) || (c =? 8232) || (c =? 8233) || (c =? 8239)
  || (c =? 8287) || (c =? 12288).

(* ---------- generic list helpers ---------- *)
Fixpoint mem (c : N) (s : str) : bool :=
  match s with [] => false | x :: r => (x =? c) || mem c r end.
Lemma mem_In c s : mem c s = true <-> In c s.
Proof. induction s as [|x s IH]; cbn; [split; [discriminate|tauto]|].
  rewrite orb_true_iff, N.eqb_eq, IH. tauto. Qed.

Fixpoint starts_with (p s : str) : bool :=
  match p, s with
  | [], _ => true
  | a :: p', b :: s' => (a =? b) && starts_with p' s'
  | _ :: _, [] => false
  end.
Lemma starts_with_app p s : starts_with p s = true <-> exists r, s = p ++ r.
Proof.
  revert s; induction p as [|a p IH]; intros s; cbn.
  - split; eauto.
  - destruct s as [|b s]; [split; [discriminate|intros [r H]; discriminate]|].
    rewrite andb_true_iff, N.eqb_eq, IH. split.
    + intros [-> [r ->]]. eauto.
    + intros [r [= -> ->]]. eauto.
Qed.

(* str::split(c): pieces between occurrences of c; always at least one piece *)
Fixpoint split_on (c : N) (s : str) : list str :=
  match s with
  | [] => [[]]
  | x :: r =>
      if x =? c then [] :: split_on c r
      else match split_on c r with
           | p :: ps => (x :: p) :: ps
           | [] => [[x]]   (* unreachable: split_on never returns [] *)
           end
  end.
Lemma split_on_nonnil c s : split_on c s <> [].
Proof. induction s as [|x s IH]; cbn; [discriminate|].
  destruct (x =? c); [discriminate|]. destruct (split_on c s); [congruence|discriminate]. Qed.

(* join pieces with separator c: inverse of split_on *)
Fixpoint join_with (c : N) (ps : list str) : str :=
  match ps with
  | [] => []
  | [p] => p
  | p :: ps' => p ++ c :: join_with c ps'
  end.
Lemma join_cons_char c x p ps : join_with c ((x :: p) :: ps) = x :: join_with c (p :: ps).
Proof. destruct ps; reflexivity. Qed.
Lemma join_split c s : join_with c (split_on c s) = s.
Proof.
  induction s as [|x s IH]; [reflexivity|]. cbn [split_on].
  pose proof (split_on_nonnil c s) as Hne.
  destruct (N.eqb_spec x c) as [->|Hn].
  - destruct (split_on c s) as [|p ps]; [congruence|].
    change (join_with c ([] :: p :: ps)) with ([] ++ c :: join_with c (p :: ps)). rewrite IH. reflexivity.
  - destruct (split_on c s) as [|p ps]; [congruence|].
    rewrite join_cons_char, IH. reflexivity.
Qed.

(* str::rsplit_once(c): split at the LAST occurrence of c *)
Fixpoint rsplit_once (c : N) (s : str) : option (str * str) :=
  match s with
  | [] => None
  | x :: r =>
      match rsplit_once c r with
      | Some (a, b) => Some (x :: a, b)
      | None => if x =? c then Some ([], r) else None
      end
  end.
(* str::split_once(c): split at the FIRST occurrence *)
Fixpoint split_once (c : N) (s : str) : option (str * str) :=
  match s with
  | [] => None
  | x :: r =>
      if x =? c then Some ([], r)
      else match split_once c r with Some (a, b) => Some (x :: a, b) | None => None end
  end.

Lemma rsplit_once_some c s a b : rsplit_once c s = Some (a, b) -> s = a ++ c :: b /\ mem c b = false.
Proof.
  revert a b; induction s as [|x s IH]; intros a b; cbn; [discriminate|].
  destruct (rsplit_once c s) as [[a' b']|] eqn:E.
  - intros [= <- <-]. destruct (IH _ _ eq_refl) as [-> Hm]. auto.
  - destruct (N.eqb_spec x c) as [->|]; [|discriminate]. intros [= <- <-]. split; auto.
    clear IH. induction s as [|y s IH]; cbn in *; auto.
    destruct (rsplit_once c s) as [[? ?]|]; [discriminate|].
    destruct (N.eqb_spec y c); [discriminate|]. cbn. auto.
Qed.
Lemma rsplit_once_none c s : rsplit_once c s = None <-> mem c s = false.
Proof.
  induction s as [|x s IH]; cbn; [tauto|].
  destruct (rsplit_once c s) as [[a b]|] eqn:E.
  - split; [discriminate|]. intros H. apply orb_false_elim in H as [_ H]. apply IH in H. discriminate.
  - destruct (x =? c); cbn; [split; discriminate|]. tauto.
Qed.
Lemma rsplit_once_app c a b : mem c b = false -> rsplit_once c (a ++ c :: b) = Some (a, b).
Proof.
  intros Hb. induction a as [|x a IH]; cbn.
  - apply rsplit_once_none in Hb. rewrite Hb, N.eqb_refl. reflexivity.
  - rewrite IH. reflexivity.
Qed.
Lemma split_once_some c s a b : split_once c s = Some (a, b) -> s = a ++ c :: b /\ mem c a = false.
Proof.
  revert a b; induction s as [|x s IH]; intros a b; cbn; [discriminate|].
  destruct (N.eqb_spec x c) as [->|Hn].
  - intros [= <- <-]. auto.
  - destruct (split_once c s) as [[a' b']|]; [|discriminate]. intros [= <- <-].
    destruct (IH _ _ eq_refl) as [-> Hm]. cbn. apply N.eqb_neq in Hn. rewrite Hn. auto.
Qed.
Lemma split_once_none c s : split_once c s = None <-> mem c s = false.
Proof.
  induction s as [|x s IH]; cbn; [tauto|].
  destruct (x =? c); cbn; [split; discriminate|].
  destruct (split_once c s) as [[a b]|]; [split; [discriminate|]|tauto].
  intros H. apply IH in H. discriminate.
Qed.
Lemma split_once_app c a b : mem c a = false -> split_once c (a ++ c :: b) = Some (a, b).
Proof.
  induction a as [|x a IH]; cbn; intros H.
  - rewrite N.eqb_refl. reflexivity.
  - apply orb_false_elim in H as [H1 H2]. rewrite H1, IH; auto.
Qed.

(* slice::iter().position(|x| x == c) *)
Fixpoint position (c : N) (s : str) : option nat :=
  match s with [] => None | x :: r => if x =? c then Some 0%nat else option_map S (position c r) end.

(* the run of leading ASCII digits and the rest *)
Fixpoint span_digits (s : str) : str * str :=
  match s with
  | c :: r => if is_digit c then let (d, t) := span_digits r in (c :: d, t) else ([], s)
  | [] => ([], [])
  end.
Lemma span_digits_app s : fst (span_digits s) ++ snd (span_digits s) = s.
Proof. induction s as [|c s IH]; cbn; auto. destruct (is_digit c); cbn; auto.
  destruct (span_digits s); cbn in *. congruence. Qed.
Lemma span_len s : (length (fst (span_digits s)) <= length s)%nat.
Proof. induction s as [|c s IH]; cbn; auto. destruct (is_digit c); cbn; [|lia].
  destruct (span_digits s); cbn in *; lia. Qed.

(* value of a digit string (no sign), unbounded *)
Definition digit_val (d : N) : Z := (Z.of_N d - 48)%Z.
Definition value (ds : str) : Z := fold_left (fun acc d => (10 * acc + digit_val d)%Z) ds 0%Z.
Definition i64max : Z := 9223372036854775807%Z.
Definition i64min : Z := (-9223372036854775808)%Z.
Definition u64max : Z := 18446744073709551615%Z.
Definition all_digits (ds : str) : Prop := forallb is_digit ds = true.
(* The same value with a ceiling applied at every step: what the executable
   models use (the unbounded fold costs time quadratic in the number of digits);
   [cvalue_spec] takes every proof back to [value]. *)
Definition cvalue (cap : Z) (ds : str) : Z := fold_left (fun acc d => Z.min (10 * acc + digit_val d) cap) ds 0%Z.
Lemma cvalue_fold cap : (0 <= cap)%Z -> forall ds a b, forallb is_digit ds = true -> (0 <= a)%Z -> b = Z.min a cap ->
  fold_left (fun acc d => Z.min (10 * acc + digit_val d) cap) ds b = Z.min (fold_left (fun acc d => (10 * acc + digit_val d)%Z) ds a) cap.
Proof.
  intros Hcap. induction ds as [|d ds IH]; intros a b Hd Ha ->; cbn [fold_left]; [reflexivity|].
  cbn [forallb] in Hd. apply andb_prop in Hd as [Hd1 Hd2].
  assert (0 <= digit_val d <= 9)%Z as Dv.
  { unfold digit_val, is_digit in *. apply andb_prop in Hd1 as [X1 X2]. apply N.leb_le in X1, X2. lia. }
  destruct (Z.le_gt_cases a cap) as [L|G].
  - rewrite (Z.min_l a cap) by lia. apply IH; auto; lia.
  - rewrite (Z.min_r a cap) by lia.
    (* both folds stay at or above the ceiling from here on *)
    assert (forall ds x, forallb is_digit ds = true -> (cap <= x)%Z -> (cap <= fold_left (fun acc d => (10 * acc + digit_val d)%Z) ds x)%Z) as Up.
    { clear -Hcap. induction ds as [|e ds IH]; intros x He Hx; cbn [fold_left]; [exact Hx|].
      cbn [forallb] in He. apply andb_prop in He as [He1 He2]. apply IH; auto.
      unfold digit_val, is_digit in *. apply andb_prop in He1 as [X1 X2]. apply N.leb_le in X1, X2. lia. }
    assert (forall ds, forallb is_digit ds = true -> fold_left (fun acc d => Z.min (10 * acc + digit_val d) cap) ds cap = cap) as Stay.
    { clear -Hcap. induction ds as [|e ds IH]; intros He; cbn [fold_left]; [reflexivity|].
      cbn [forallb] in He. apply andb_prop in He as [He1 He2].
      replace (Z.min (10 * cap + digit_val e) cap) with cap; [apply IH; auto|].
      unfold digit_val, is_digit in *. apply andb_prop in He1 as [X1 X2]. apply N.leb_le in X1, X2. lia. }
    replace (Z.min (10 * cap + digit_val d) cap) with cap by lia.
    rewrite Stay by auto. rewrite Z.min_r; [reflexivity|]. apply Up; auto. lia.
Qed.
Lemma cvalue_spec cap ds : (0 <= cap)%Z -> all_digits ds -> cvalue cap ds = Z.min (value ds) cap.
Proof. intros Hc Hd. unfold cvalue, value. apply (cvalue_fold cap Hc ds 0%Z 0%Z Hd); lia. Qed.

(* string literal helper: ASCII text written as a Coq string *)
Require Import Coq.Strings.String Coq.Strings.Ascii.
Fixpoint lit (s : string) : str :=
  match s with EmptyString => [] | String a r => N_of_ascii a :: lit r end.
Arguments lit s%string_scope.
