(* SummaryPkg.v - the pkg_summary pkgbase()/pkgversion() accessors split
   PKGNAME exactly as PkgName does (C18). *)
Require Import PV.Base PV.Dec PV.Dewey PV.Pattern PV.Summary.
Local Open Scope N_scope.

Lemma mem_In' c a b : mem c (a ++ c :: b) = true.
Proof. apply mem_In, in_or_app. right. left. reflexivity. Qed.

Theorem summary_split_agrees e n : e Pkgname = Some (VS n) ->
  pn_base (pkgname_new n) <> [] -> pn_version (pkgname_new n) <> [] ->
  sum_pkgbase e = Some (pn_base (pkgname_new n)) /\ sum_pkgversion e = Some (pn_version (pkgname_new n)).
Proof.
  intros H. unfold sum_pkgbase, sum_pkgversion, pkgname_new. rewrite H.
  destruct (rsplit_once 45 n) as [[b v]|]; cbn [pn_base pn_version]; intros Hb Hv; [|congruence].
  destruct b; [congruence|]. destruct v; [congruence|]. auto.
Qed.
Theorem summary_split_none e n : e Pkgname = Some (VS n) ->
  (sum_pkgbase e = None <-> (mem 45 n = false \/ exists v, n = 45 :: v /\ mem 45 v = false)).
Proof.
  intros H. unfold sum_pkgbase. rewrite H. destruct (rsplit_once 45 n) as [[b v]|] eqn:E.
  - apply rsplit_once_some in E as [-> Hm]. destruct b as [|c b].
    + split; auto. intros _. right. exists v. auto.
    + split; [discriminate|]. intros [Z|(v' & Ev & Hv)].
      * rewrite mem_In' in Z. discriminate.
      * exfalso. cbn [app] in Ev. injection Ev as -> Ev. subst v'. rewrite mem_In' in Hv. discriminate.
  - apply rsplit_once_none in E. split; auto.
Qed.
