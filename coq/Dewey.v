(* Dewey.v - executable model of src/dewey.rs (DeweyVersion::new, dewey_cmp,
   dewey_test, Dewey::new, Dewey::matches), branch for branch.
   Text is a list of Unicode scalar values (the API takes &str). *)
Require Import PV.Base.
Local Open Scope N_scope.

Inductive op := GE | GT | LE | LT.
(* dewey_test *)
Definition test (l : Z) (o : op) (r : Z) : bool :=
  match o with GE => (l >=? r)%Z | GT => (l >? r)%Z | LE => (l <=? r)%Z | LT => (l <? r)%Z end.

Record ver := mkver { comps : list Z; revn : Z }.

(* ---------------- DeweyVersion::new ---------------- *)
(* ASCII-case-insensitive prefix test (m is lower case) *)
Fixpoint prefix_ci (m s : str) : bool :=
  match m, s with
  | [], _ => true
  | a :: m', b :: s' => (lower b =? a) && prefix_ci m' s'
  | _ :: _, [] => false
  end.

Inductive tok := TNum (z : Z) | TLetter (c : N) | TRev (z : Z) | TSkip.
Definition m_nb : str := [110;98].
Definition m_alpha : str := [97;108;112;104;97].
Definition m_beta : str := [98;101;116;97].
Definition m_pre : str := [112;114;101].
Definition m_rc : str := [114;99].
Definition m_pl : str := [112;108].

(* One iteration of the loop in DeweyVersion::new, in the code's test order:
   digit run (saturating at i64::MAX), '.'/'_', nb<digits>, the modifiers,
   an ASCII letter, anything else.  Returns the token and the number of
   characters consumed.  [c] is the first character of [s]. *)
Definition lex1_body (c : N) (s : str) : option (tok * nat) :=
  let ds := fst (span_digits s) in
  match ds with
  | _ :: _ => Some (TNum (cvalue i64max ds), length ds)
  | [] =>
      if (c =? 46) || (c =? 95) then Some (TNum 0, 1%nat)
      else if prefix_ci m_nb s then
        let d2 := fst (span_digits (skipn 2 s)) in
        Some (TRev (match d2 with
                    | [] => 0%Z
                    | _ => let v := cvalue (i64max + 1) d2 in if (v <=? i64max)%Z then v else 0%Z
                    end), (2 + length d2)%nat)
      else if prefix_ci m_alpha s then Some (TNum (-3), 5%nat)
      else if prefix_ci m_beta s then Some (TNum (-2), 4%nat)
      else if prefix_ci m_pre s then Some (TNum (-1), 3%nat)
      else if prefix_ci m_rc s then Some (TNum (-1), 2%nat)
      else if prefix_ci m_pl s then Some (TNum 0, 2%nat)
      else if is_alpha c then Some (TLetter (lower c), 1%nat)
      else Some (TSkip, 1%nat)
  end.
Definition lex1 (s : str) : option (tok * nat) :=
  match s with [] => None | c :: _ => lex1_body c s end.

(* the loop: fuel because the index advances by a data-dependent amount *)
Fixpoint tokens (fuel : nat) (s : str) : option (list tok) :=
  match fuel with
  | O => None
  | S f =>
      match lex1 s with
      | None => Some []
      | Some (t, n) => option_map (cons t) (tokens f (skipn n s))
      end
  end.

(* a letter is stored as 0 followed by the ASCII code of its lower case *)
Definition comps_of (t : tok) : list Z :=
  match t with TNum z => [z] | TLetter c => [0%Z; Z.of_N c] | _ => [] end.
Definition revision (ts : list tok) : Z :=
  fold_left (fun r t => match t with TRev n => n | _ => r end) ts 0%Z.
Definition ver_of_toks (ts : list tok) : ver := mkver (flat_map comps_of ts) (revision ts).
Definition mkv_opt (s : str) : option ver :=
  option_map ver_of_toks (tokens (S (length s)) s).
(* total wrapper; the None case is excluded by DeweyProofs.mkv_total *)
Definition mkv (s : str) : ver :=
  match mkv_opt s with Some v => v | None => mkver [] 0 end.

(* ---------------- dewey_cmp ---------------- *)
(* the common-prefix loop: first differing pair, or the two tails *)
Fixpoint common (l r : list Z) : option (Z * Z) * (list Z * list Z) :=
  match l, r with
  | x :: l', y :: r' => if (x =? y)%Z then common l' r' else (Some (x, y), (l', r'))
  | _, _ => (None, (l, r))
  end.
Fixpoint first_nz (t : list Z) : option Z :=
  match t with [] => None | x :: t' => if (0 =? x)%Z then first_nz t' else Some x end.
Definition dewey_cmp (l : ver) (o : op) (r : ver) : bool :=
  match common (comps l) (comps r) with
  | (Some (x, y), _) => test x o y
  | (None, (lt, rt)) =>
      match Nat.compare (length (comps l)) (length (comps r)) with
      | Lt => match first_nz rt with Some y => test 0 o y | None => test (revn l) o (revn r) end
      | Gt => match first_nz lt with Some x => test x o 0 | None => test (revn l) o (revn r) end
      | Eq => test (revn l) o (revn r)
      end
  end.

(* ---------------- Dewey::new ---------------- *)
Inductive dewey_err := ENoOp | EOrder | ETooMany.
Record dewey := mkdewey { dbase : str; dbounds : list (op * ver) }.

(* match_indices(&['>','<']): (index, index of version text, operator) *)
Fixpoint scan_ops (i : nat) (s : str) : list (nat * nat * op) :=
  match s with
  | [] => []
  | c :: r =>
      let next_eq := match r with 61 :: _ => true | _ => false end in
      if c =? 62 then
        (if next_eq then (i, S (S i), GE) else (i, S i, GT)) :: scan_ops (S i) r
      else if c =? 60 then
        (if next_eq then (i, S (S i), LE) else (i, S i, LT)) :: scan_ops (S i) r
      else scan_ops (S i) r
  end.
(* &pattern[a..b]; Rust panics when a > b or b > len *)
Definition slice (s : str) (a b : nat) : option str :=
  if (Nat.leb a b && Nat.leb b (length s))%bool then Some (firstn (b - a) (skipn a s)) else None.
Definition is_lower_bound (o : op) : bool := match o with GT | GE => true | _ => false end.
Definition is_upper_bound (o : op) : bool := match o with LT | LE => true | _ => false end.

Definition dewey_new (p : str) : res dewey_err dewey :=
  match scan_ops 0 p with
  | [] => Fail ENoOp
  | [(i0, v0, o0)] =>
      match slice p v0 (length p), slice p 0 i0 with
      | Some t, Some b => Val (mkdewey b [(o0, mkv t)])
      | _, _ => Panic 1
      end
  | [(i0, v0, o0); (i1, v1, o1)] =>
      if (is_lower_bound o0 && is_upper_bound o1)%bool then
        match slice p v0 i1, slice p v1 (length p), slice p 0 i0 with
        | Some t0, Some t1, Some b => Val (mkdewey b [(o0, mkv t0); (o1, mkv t1)])
        | _, _, _ => Panic 2
        end
      else Fail EOrder
  | _ => Fail ETooMany
  end.

(* ---------------- Dewey::matches ---------------- *)
Definition dewey_matches (d : dewey) (pkg : str) : bool :=
  match rsplit_once 45 pkg with
  | None => false
  | Some (b, v) =>
      if eqs b (dbase d) then
        let pv := mkv v in forallb (fun ov => dewey_cmp pv (fst ov) (snd ov)) (dbounds d)
      else false
  end.
