(* BestProofs.v - best_match selects the minimum of a total order on names
   (higher dewey version first, ties to the byte-wise smaller name); pairwise
   reduction of candidate lists is independent of order and association (C06). *)
Require Import PV.Base PV.Dec PV.Dewey PV.DeweySpec PV.DeweyProofs PV.Pattern PV.AltProofs.
From Coq Require Import Permutation.
Local Open Scope N_scope.

(* ---------- byte-wise order on text ---------- *)
Fixpoint str_cmp (a b : str) : comparison :=
  match a, b with
  | [], [] => Eq
  | [], _ :: _ => Lt
  | _ :: _, [] => Gt
  | x :: a', y :: b' => match x ?= y with Eq => str_cmp a' b' | c => c end
  end.
Lemma str_ltb_cmp a b : str_ltb a b = match str_cmp a b with Lt => true | _ => false end.
Proof.
  revert b; induction a as [|x a IH]; intros [|y b]; cbn; auto.
  destruct (N.compare_spec x y) as [->|H|H].
  - rewrite N.ltb_irrefl. apply IH.
  - apply N.ltb_lt in H. rewrite H. reflexivity.
  - assert (x <? y = false) as -> by (apply N.ltb_ge; lia). apply N.ltb_lt in H. rewrite H. reflexivity.
Qed.
Lemma str_cmp_antisym a b : str_cmp b a = CompOpp (str_cmp a b).
Proof. revert b; induction a as [|x a IH]; intros [|y b]; cbn; auto.
  rewrite (N.compare_antisym x y). destruct (x ?= y); cbn; auto. Qed.
Lemma str_cmp_eq a b : str_cmp a b = Eq -> a = b.
Proof. revert b; induction a as [|x a IH]; intros [|y b]; cbn; try discriminate; auto.
  destruct (N.compare_spec x y) as [->|H|H]; try discriminate. intros E. f_equal; auto. Qed.
Lemma str_cmp_refl a : str_cmp a a = Eq.
Proof. induction a; cbn; auto. rewrite N.compare_refl; auto. Qed.
Lemma str_cmp_trans a b c : str_cmp a b <> Gt -> str_cmp b c <> Gt -> str_cmp a c <> Gt /\ (str_cmp a c = Eq -> str_cmp a b = Eq /\ str_cmp b c = Eq).
Proof.
  revert b c; induction a as [|x a IH]; intros [|y b] [|z c]; cbn; intros H1 H2; try congruence; try (split; congruence); try (split; [congruence|split; congruence]).
  revert H1 H2.
  destruct (N.compare_spec x y), (N.compare_spec y z), (N.compare_spec x z); subst; try lia; intros G1 G2; try congruence;
    try (split; congruence). apply IH; auto.
Qed.

(* ---------- the order best_match minimises ---------- *)
Definition pver (a : str) : ver := mkv (pn_version (pkgname_new a)).
(* a before b: higher version first, then byte-wise smaller name *)
Definition ord (a b : str) : comparison :=
  match vcmp (pver a) (pver b) with Gt => Lt | Lt => Gt | Eq => str_cmp a b end.
Definition pick (a b : str) : str :=
  if dewey_cmp (pver a) GT (pver b) then a
  else if dewey_cmp (pver a) LT (pver b) then b
  else if str_ltb a b then a else b.
Lemma pick_ord a b : pick a b = match ord a b with Gt => b | _ => a end.
Proof.
  unfold pick, ord. rewrite !cmp_is_padded_lex, str_ltb_cmp.
  destruct (vcmp (pver a) (pver b)); cbn; auto.
  destruct (str_cmp a b) eqn:E; auto. apply str_cmp_eq in E. auto.
Qed.
Lemma ord_antisym a b : ord b a = CompOpp (ord a b).
Proof. unfold ord. rewrite (vcmp_antisym (pver a) (pver b)). destruct (vcmp (pver a) (pver b)); cbn; auto. apply str_cmp_antisym. Qed.
Lemma ord_eq a b : ord a b = Eq -> a = b.
Proof. unfold ord. destruct (vcmp _ _); try discriminate. apply str_cmp_eq. Qed.
Lemma ord_refl a : ord a a = Eq.
Proof. unfold ord. rewrite vcmp_refl. apply str_cmp_refl. Qed.
Lemma ord_trans a b c : ord a b <> Gt -> ord b c <> Gt -> ord a c <> Gt.
Proof.
  unfold ord. intros H1 H2.
  destruct (vcmp (pver a) (pver b)) eqn:E1; try congruence;
  destruct (vcmp (pver b) (pver c)) eqn:E2; try congruence.
  - rewrite (vcmp_eq_trans _ _ _ E1 E2). apply (str_cmp_trans a b c); auto.
  - (* a = b in version, b > c *)
    assert (vcmp (pver c) (pver a) <> Gt) as X.
    { apply (vle_trans (pver c) (pver b) (pver a)); unfold vle; rewrite vcmp_antisym; [rewrite E2|rewrite E1]; discriminate. }
    rewrite vcmp_antisym in X. destruct (vcmp (pver a) (pver c)) eqn:E3; cbn in X; try congruence.
    exfalso. assert (vcmp (pver b) (pver c) = Eq); [|congruence].
    apply (vcmp_eq_trans _ (pver a)); auto. rewrite vcmp_antisym, E1. reflexivity.
  - assert (vcmp (pver c) (pver a) <> Gt) as X.
    { apply (vle_trans (pver c) (pver b) (pver a)); unfold vle; rewrite vcmp_antisym; [rewrite E2|rewrite E1]; discriminate. }
    rewrite vcmp_antisym in X. destruct (vcmp (pver a) (pver c)) eqn:E3; cbn in X; try congruence.
    exfalso. assert (vcmp (pver a) (pver b) = Eq); [|congruence].
    apply (vcmp_eq_trans _ (pver c)); auto. rewrite vcmp_antisym, E2. reflexivity.
  - assert (vcmp (pver c) (pver a) <> Gt) as X.
    { apply (vle_trans (pver c) (pver b) (pver a)); unfold vle; rewrite vcmp_antisym; [rewrite E2|rewrite E1]; discriminate. }
    rewrite vcmp_antisym in X. destruct (vcmp (pver a) (pver c)) eqn:E3; cbn in X; try congruence.
    exfalso.
    assert (vcmp (pver a) (pver b) <> Gt) as Y.
    { apply (vle_trans (pver a) (pver c) (pver b)); unfold vle; [rewrite E3; discriminate|rewrite vcmp_antisym, E2; discriminate]. }
    congruence.
Qed.

Lemma pick_comm a b : pick a b = pick b a.
Proof. rewrite !pick_ord, (ord_antisym a b). destruct (ord a b) eqn:E; cbn; auto. apply ord_eq in E. auto. Qed.
Lemma pick_idem a : pick a a = a.
Proof. rewrite pick_ord, ord_refl. reflexivity. Qed.
Lemma ord_gt_trans a b c : ord a b = Gt -> ord b c = Gt -> ord a c = Gt.
Proof.
  intros Eab Ebc.
  assert (ord c a <> Gt) as X by (apply (ord_trans c b a); rewrite ord_antisym; [rewrite Ebc|rewrite Eab]; discriminate).
  rewrite ord_antisym in X. destruct (ord a c) eqn:Eac; cbn in X; try congruence.
  apply ord_eq in Eac; subst. rewrite ord_antisym, Ebc in Eab. discriminate.
Qed.
Lemma pick_assoc a b c : pick a (pick b c) = pick (pick a b) c.
Proof.
  rewrite !pick_ord.
  destruct (ord b c) eqn:Ebc; destruct (ord a b) eqn:Eab; rewrite ?Ebc, ?Eab;
    try (apply ord_eq in Ebc; subst); try (apply ord_eq in Eab; subst); rewrite ?Eab, ?Ebc, ?ord_refl; try reflexivity.
  - assert (ord a c <> Gt) by (apply (ord_trans a b c); congruence). destruct (ord a c); congruence.
  - rewrite (ord_gt_trans a b c) by auto. reflexivity.
Qed.

(* ---------- best_match in terms of pick ---------- *)
Definition sel (w : which) (a b : str) : option str :=
  match w with WNone => None | WFirst => Some a | WSecond => Some b end.
Definition best2b (ma mb : bool) (a b : str) : option str :=
  match ma, mb with
  | true, false => Some a | false, true => Some b | false, false => None
  | true, true => Some (pick a b)
  end.
Lemma best2_spec f pt a b ma mb : pmatches f pt a = Some ma -> pmatches f pt b = Some mb ->
  exists w, best2 f pt a b = Some w /\ sel w a b = best2b ma mb a b.
Proof.
  intros Ha Hb. unfold best2. rewrite Ha, Hb. destruct ma, mb; cbn; eauto.
  unfold pick, pver.
  destruct (dewey_cmp _ GT _); [eauto|]. destruct (dewey_cmp _ LT _); [eauto|]. destruct (str_ltb a b); eauto.
Qed.

(* best_match as the code computes it (both matches through the work-list loop) is best_match of the recursive
   description, once the loop is given enough iterations *)
Lemma pmatches_w_refines p pt pkg : pattern_new p = Val pt ->
  exists k, forall f, pmatches_w (k + f) pt pkg = pmatches (fuel_for p) pt pkg.
Proof.
  intros E. destruct (worklist_refines p pkg) as (k & Hk). exists k. intros f. specialize (Hk f).
  unfold pm_w, pm in Hk. rewrite E in Hk.
  destruct (pmatches_w (k + f) pt pkg) as [b1|], (pmatches (fuel_for p) pt pkg) as [b2|]; congruence.
Qed.
Theorem best2_w_refines p pt a b : pattern_new p = Val pt ->
  exists k, forall f, best2_w (k + f) pt a b = best2 (fuel_for p) pt a b.
Proof.
  intros E. destruct (pmatches_w_refines p pt a E) as (ka & Ha). destruct (pmatches_w_refines p pt b E) as (kb & Hb).
  exists (ka + kb)%nat. intros f. unfold best2_w, best2.
  replace (ka + kb + f)%nat with (ka + (kb + f))%nat at 1 by lia. rewrite Ha.
  replace (ka + kb + f)%nat with (kb + (ka + f))%nat by lia. rewrite Hb. reflexivity.
Qed.

Theorem best_none_iff ma mb a b : best2b ma mb a b = None <-> ma = false /\ mb = false.
Proof. destruct ma, mb; cbn; split; try discriminate; auto; intros [? ?]; discriminate. Qed.
Theorem best_is_matching_arg ma mb a b r : best2b ma mb a b = Some r ->
  (r = a /\ ma = true) \/ (r = b /\ mb = true).
Proof. destruct ma, mb; cbn; intros [= <-]; auto. rewrite pick_ord. destruct (ord a b); auto. Qed.
(* no matching candidate is strictly better than the result *)
Theorem best_no_better ma mb a b r : best2b ma mb a b = Some r ->
  (ma = true -> ord r a <> Gt) /\ (mb = true -> ord r b <> Gt).
Proof.
  destruct ma, mb; cbn; intros [= <-]; split; try discriminate; intros _; rewrite ?ord_refl; try discriminate.
  - rewrite pick_ord. destruct (ord a b) eqn:E; rewrite ?ord_refl; try discriminate.
    rewrite ord_antisym, E. discriminate.
  - rewrite pick_ord. destruct (ord a b) eqn:E; rewrite ?ord_refl, ?E; discriminate.
Qed.
Theorem best_comm ma mb a b : best2b ma mb a b = best2b mb ma b a.
Proof. destruct ma, mb; cbn; auto. rewrite pick_comm. reflexivity. Qed.
(* what "strictly higher version" and the tie-break mean *)
Theorem ord_meaning a b : ord a b <> Gt <->
  vcmp (pver a) (pver b) = Gt \/ (vcmp (pver a) (pver b) = Eq /\ str_cmp a b <> Gt).
Proof.
  unfold ord. destruct (vcmp (pver a) (pver b)); split; intros H.
  - right. split; auto.
  - destruct H as [H|[_ H]]; [discriminate|exact H].
  - exfalso. apply H. reflexivity.
  - destruct H as [H|[H _]]; discriminate.
  - left. reflexivity.
  - discriminate.
Qed.

(* ---------- pairwise reduction over arbitrary trees ---------- *)
Definition obest (x y : option str) : option str :=
  match x, y with
  | None, _ => y | _, None => x
  | Some a, Some b => Some (pick a b)
  end.
Lemma obest_comm x y : obest x y = obest y x.
Proof. destruct x, y; cbn; auto. rewrite pick_comm; auto. Qed.
Lemma obest_assoc x y z : obest x (obest y z) = obest (obest x y) z.
Proof. destruct x, y, z; cbn; auto. rewrite pick_assoc; auto. Qed.

Inductive rtree := Leaf (s : str) | Node (l r : rtree).
Fixpoint leaves (t : rtree) : list str :=
  match t with Leaf s => [s] | Node l r => leaves l ++ leaves r end.
Section Reduce.
  Variable matches : str -> bool.
  Definition leafval (s : str) : option str := if matches s then Some s else None.
  (* reduce a tree of candidates with best_match at every node *)
  Fixpoint reduce (t : rtree) : option str :=
    match t with Leaf s => leafval s | Node l r => obest (reduce l) (reduce r) end.
  Definition reduce_list (l : list str) : option str := fold_right (fun s acc => obest (leafval s) acc) None l.
  Lemma reduce_list_app l1 l2 : reduce_list (l1 ++ l2) = obest (reduce_list l1) (reduce_list l2).
  Proof. unfold reduce_list. induction l1 as [|s l1 IH]; cbn [app fold_right]; [reflexivity|]. rewrite IH, obest_assoc. reflexivity. Qed.
  Lemma reduce_is_list t : reduce t = reduce_list (leaves t).
  Proof. induction t as [s|l IHl r IHr]; cbn [reduce leaves].
    - unfold reduce_list. cbn. destruct (leafval s); reflexivity.
    - rewrite reduce_list_app, IHl, IHr. reflexivity. Qed.
  Lemma reduce_list_perm l1 l2 : Permutation l1 l2 -> reduce_list l1 = reduce_list l2.
  Proof. unfold reduce_list. induction 1; cbn [fold_right]; auto; try congruence.
    rewrite !obest_assoc, (obest_comm (leafval y) (leafval x)). reflexivity. Qed.
  Theorem reduce_any_tree t1 t2 : Permutation (leaves t1) (leaves t2) -> reduce t1 = reduce t2.
  Proof. intros H. rewrite !reduce_is_list. apply reduce_list_perm; auto. Qed.
  (* the node operation is what best_match computes on two candidates *)
  Lemma node_is_best2b a b : obest (leafval a) (leafval b) = best2b (matches a) (matches b) a b.
  Proof. unfold leafval. destruct (matches a), (matches b); reflexivity. Qed.
  (* the winner is a matching leaf and no matching leaf is strictly better *)
  Theorem reduce_list_winner l r : reduce_list l = Some r ->
    In r l /\ matches r = true /\ forall c, In c l -> matches c = true -> ord r c <> Gt.
  Proof.
    unfold reduce_list. revert r; induction l as [|s l IH]; cbn [fold_right]; [discriminate|]. intros r H.
    unfold leafval at 1 in H. destruct (matches s) eqn:Ms.
    - destruct (fold_right (fun s acc => obest (leafval s) acc) None l) as [w|] eqn:R.
      + cbn in H. injection H as <-. destruct (IH w eq_refl) as (Hin & Hm & Hbest).
        rewrite pick_ord. destruct (ord s w) eqn:E.
        * split; [left; reflexivity|]. split; [exact Ms|]. intros c [<-|Hc] Mc; [rewrite ord_refl; discriminate|].
          apply ord_eq in E; subst. auto.
        * split; [left; reflexivity|]. split; [exact Ms|]. intros c [<-|Hc] Mc; [rewrite ord_refl; discriminate|].
          apply (ord_trans s w c); auto. congruence.
        * split; [right; exact Hin|]. split; [exact Hm|]. intros c [<-|Hc] Mc; auto. rewrite ord_antisym, E. discriminate.
      + cbn in H. injection H as <-. split; [left; reflexivity|]. split; [exact Ms|].
        intros c [<-|Hc] Mc; [rewrite ord_refl; discriminate|].
        exfalso. clear -R Hc Mc. induction l as [|x l IHl]; [destruct Hc|]. cbn [fold_right] in R. unfold leafval at 1 in R.
        destruct Hc as [->|Hc]; [rewrite Mc in R; destruct (fold_right _ None l); discriminate|].
        destruct (matches x); [destruct (fold_right _ None l); discriminate|]. cbn in R. auto.
    - cbn in H. destruct (IH r H) as (Hin & Hm & Hbest). split; [right; exact Hin|]. split; [exact Hm|].
      intros c [<-|Hc] Mc; [congruence|auto].
  Qed.
End Reduce.
