(* Summary.v - executable model of src/summary.rs: the 23 variables, Summary
   setters/pushers/getters, Display, FromStr, is_completed, pkgbase/pkgversion,
   and SummaryStream::write.  Text is a list of symbols (code points for the
   &str API, bytes for the stream); every delimiter the code looks at is ASCII,
   so the same functions serve both. *)
Require Import PV.Base PV.Dec.
Require Import Coq.Strings.String.
Import Coq.Lists.List ListNotations.
Local Open Scope N_scope.

Inductive var :=
| BuildDate | Categories | Comment | Conflicts | Depends | Description | FileCksum | FileName
| FileSize | Homepage | License | MachineArch | Opsys | OsVersion | PkgOptions | Pkgname | Pkgpath
| PkgtoolsVersion | PrevPkgpath | Provides | Requires | SizePkg | Supersedes.
(* derive(Ord) order = declaration order = the order Display prints in *)
Definition all_vars : list var :=
  [BuildDate; Categories; Comment; Conflicts; Depends; Description; FileCksum; FileName;
   FileSize; Homepage; License; MachineArch; Opsys; OsVersion; PkgOptions; Pkgname; Pkgpath;
   PkgtoolsVersion; PrevPkgpath; Provides; Requires; SizePkg; Supersedes].
Definition var_eqb (a b : var) : bool :=
  match a, b with
  | BuildDate, BuildDate | Categories, Categories | Comment, Comment | Conflicts, Conflicts
  | Depends, Depends | Description, Description | FileCksum, FileCksum | FileName, FileName
  | FileSize, FileSize | Homepage, Homepage | License, License | MachineArch, MachineArch
  | Opsys, Opsys | OsVersion, OsVersion | PkgOptions, PkgOptions | Pkgname, Pkgname
  | Pkgpath, Pkgpath | PkgtoolsVersion, PkgtoolsVersion | PrevPkgpath, PrevPkgpath
  | Provides, Provides | Requires, Requires | SizePkg, SizePkg | Supersedes, Supersedes => true
  | _, _ => false
  end.

Inductive kind := KS | KI | KA.
Definition kind_of (v : var) : kind :=
  match v with
  | Conflicts | Depends | Description | Provides | Requires | Supersedes => KA
  | FileSize | SizePkg => KI
  | _ => KS
  end.
Definition vname (v : var) : str :=
  match v with
  | BuildDate => lit "BUILD_DATE" | Categories => lit "CATEGORIES" | Comment => lit "COMMENT"
  | Conflicts => lit "CONFLICTS" | Depends => lit "DEPENDS" | Description => lit "DESCRIPTION"
  | FileCksum => lit "FILE_CKSUM" | FileName => lit "FILE_NAME" | FileSize => lit "FILE_SIZE"
  | Homepage => lit "HOMEPAGE" | License => lit "LICENSE" | MachineArch => lit "MACHINE_ARCH"
  | Opsys => lit "OPSYS" | OsVersion => lit "OS_VERSION" | PkgOptions => lit "PKG_OPTIONS"
  | Pkgname => lit "PKGNAME" | Pkgpath => lit "PKGPATH" | PkgtoolsVersion => lit "PKGTOOLS_VERSION"
  | PrevPkgpath => lit "PREV_PKGPATH" | Provides => lit "PROVIDES" | Requires => lit "REQUIRES"
  | SizePkg => lit "SIZE_PKG" | Supersedes => lit "SUPERSEDES"
  end.
(* SummaryVariable::from_str *)
Definition parse_name (s : str) : option var := find (fun v => eqs s (vname v)) all_vars.
(* the eleven required variables, in the order from_str checks them *)
Definition required : list var :=
  [BuildDate; Categories; Comment; Description; MachineArch; Opsys; OsVersion; Pkgname; Pkgpath;
   PkgtoolsVersion; SizePkg].

Inductive value := VS (s : str) | VI (z : Z) | VA (l : list str).
(* HashMap<SummaryVariable, SummaryValue> as a total function: iteration order
   is not observable through the API (Display sorts through a BTreeMap) *)
Definition entry := var -> option value.
Definition empty : entry := fun _ => None.
Definition upd (e : entry) (v : var) (x : value) : entry := fun w => if var_eqb w v then Some x else e w.

Inductive sum_err := ELine | EVar | EInt | EMissing (v : var).

(* insert_or_update / insert_or_push; pushing onto a non-A value panics (site 1) *)
Definition set (e : entry) (v : var) (x : value) : entry := upd e v x.
Definition push (e : entry) (v : var) (s : str) : res sum_err entry :=
  match e v with
  | None => Val (upd e v (VA [s]))
  | Some (VA l) => Val (upd e v (VA (l ++ [s])))
  | Some _ => Panic 1
  end.

(* the calls the public API can express *)
Inductive sop := SetS (v : var) (s : str) | SetI (v : var) (z : Z) | SetA (v : var) (l : list str) | Push (v : var) (s : str).
Definition op_ok (o : sop) : bool :=
  match o with
  | SetS v _ => match kind_of v with KS => true | _ => false end
  | SetI v _ => match kind_of v with KI => true | _ => false end
  | SetA v _ | Push v _ => match kind_of v with KA => true | _ => false end
  end.
Definition apply_op (e : entry) (o : sop) : res sum_err entry :=
  match o with
  | SetS v s => Val (set e v (VS s))
  | SetI v z => Val (set e v (VI z))
  | SetA v l => Val (set e v (VA l))
  | Push v s => push e v s
  end.
Fixpoint run (e : entry) (ops : list sop) : res sum_err entry :=
  match ops with [] => Val e | o :: r => bind (apply_op e o) (fun e' => run e' r) end.

(* getters: get_s/get_i/get_a panic on a value of the wrong kind (site 2) *)
Definition get (e : entry) (v : var) : res sum_err (option value) :=
  match e v with
  | None => Val None
  | Some x =>
      match kind_of v, x with
      | KS, VS _ | KI, VI _ | KA, VA _ => Val (Some x)
      | _, _ => Panic 2
      end
  end.

(* Display for Summary *)
Definition line_of (v : var) (val : str) : str := vname v ++ 61 :: val ++ [10].
Definition print_var (e : entry) (v : var) : str :=
  match e v with
  | None => []
  | Some (VS s) => line_of v s
  | Some (VI z) => line_of v (print_z z)
  | Some (VA l) => concat (map (line_of v) l)
  end.
Definition print_entry (e : entry) : str := flat_map (print_var e) all_vars.

(* str::lines(): split at '\n'; a '\r' is stripped only when it precedes that
   '\n'; no empty piece after a final newline *)
Definition strip_cr (l : str) : str :=
  match frev l with 13 :: r => frev r | _ => l end.
Definition lines (s : str) : list str :=
  let ps := split_on 10 s in
  map strip_cr (removelast ps) ++ (match last ps [] with [] => [] | l => [l] end).

(* one line of FromStr *)
Definition parse_line (e : entry) (l : str) : res sum_err entry :=
  match split_once 61 l with
  | None => Fail ELine
  | Some (k, x) =>
      match parse_name k with
      | None => Fail EVar
      | Some v =>
          match kind_of v with
          | KS => Val (set e v (VS x))
          | KA => push e v x
          | KI => match parse_i64 x with Some z => Val (set e v (VI z)) | None => Fail EInt end
          end
      end
  end.
Fixpoint parse_lines (e : entry) (ls : list str) : res sum_err entry :=
  match ls with [] => Val e | l :: r => bind (parse_line e l) (fun e' => parse_lines e' r) end.
Definition first_missing (e : entry) : option var :=
  find (fun v => match e v with None => true | Some _ => false end) required.
Definition parse_entry (s : str) : res sum_err entry :=
  bind (parse_lines empty (lines s))
       (fun e => match first_missing e with Some v => Fail (EMissing v) | None => Val e end).
Definition is_completed (e : entry) : bool :=
  match first_missing e with None => true | Some _ => false end.

(* pkgbase() / pkgversion(): split PKGNAME at the last '-'; an empty part is None *)
Definition sum_pkgbase (e : entry) : option str :=
  match e Pkgname with
  | Some (VS s) => match rsplit_once 45 s with Some ([], _) => None | Some (b, _) => Some b | None => None end
  | _ => None
  end.
Definition sum_pkgversion (e : entry) : option str :=
  match e Pkgname with
  | Some (VS s) => match rsplit_once 45 s with Some (_, []) => None | Some (_, v) => Some v | None => None end
  | _ => None
  end.

(* ================= SummaryStream ================= *)
(* std::str::from_utf8 validity *)
Definition cont (b : N) : bool := (128 <=? b) && (b <=? 191).
Definition in_rng (lo hi b : N) : bool := (lo <=? b) && (b <=? hi).
Fixpoint utf8_valid (s : str) : bool :=
  match s with
  | [] => true
  | b0 :: r =>
      if b0 <? 128 then utf8_valid r
      else if in_rng 194 223 b0 then
        match r with b1 :: r1 => cont b1 && utf8_valid r1 | _ => false end
      else if in_rng 224 239 b0 then
        match r with
        | b1 :: b2 :: r2 =>
            (if b0 =? 224 then in_rng 160 191 b1 else if b0 =? 237 then in_rng 128 159 b1 else cont b1)
            && cont b2 && utf8_valid r2
        | _ => false
        end
      else if in_rng 240 244 b0 then
        match r with
        | b1 :: b2 :: b3 :: r3 =>
            (if b0 =? 240 then in_rng 144 191 b1 else if b0 =? 244 then in_rng 128 143 b1 else cont b1)
            && cont b2 && cont b3 && utf8_valid r3
        | _ => false
        end
      else false
  end.

(* position of the last "\n\n" *)
Fixpoint last_nn_from (s : str) (i : nat) (acc : option nat) : option nat :=
  match s with
  | a :: ((b :: _) as r) => last_nn_from r (S i) (if (a =? 10) && (b =? 10) then Some i else acc)
  | _ => acc
  end.
Definition last_nn s := last_nn_from s 0%nat None.
(* str::split_terminator("\n\n"): left-most, non-overlapping *)
Fixpoint cut_nn (s : str) : option (str * str) :=
  match s with
  | a :: ((b :: t) as r) => if (a =? 10) && (b =? 10) then Some ([], t)
                            else match cut_nn r with Some (x, y) => Some (a :: x, y) | None => None end
  | _ => None
  end.
Fixpoint split_term (fuel : nat) (s : str) : list str :=
  match fuel with
  | O => []
  | S f =>
      match s with
      | [] => []
      | _ => match cut_nn s with Some (x, y) => x :: split_term f y | None => [s] end
      end
  end.

Section Stream.
  Variable ent : Type.
  Variable parse_rec : str -> option ent.
  Variable valid : str -> bool.

  Record st := mkst { buf : str; entries : list ent }.
  Inductive wres := WOk (s : st) | WErr (s : st).

  Fixpoint process (rs : list str) (es : list ent) : list ent * bool :=
    match rs with
    | [] => (es, true)
    | r :: rs' => match parse_rec r with Some e => process rs' (es ++ [e]) | None => (es, false) end
    end.
  (* Write::write *)
  Definition write (s : st) (chunk : str) : wres :=
    let b := buf s ++ chunk in
    match last_nn b with
    | None => WOk (mkst b (entries s))
    | Some last =>
        let region := firstn (last + 2) b in
        if valid region then
          match process (split_term (length region) region) (entries s) with
          | (es, true) => WOk (mkst (skipn (last + 2) b) es)
          | (es, false) => WErr (mkst b es)
          end
        else WErr (mkst b (entries s))
    end.
  Fixpoint writes (s : st) (cs : list str) : wres :=
    match cs with [] => WOk s | c :: cs' => match write s c with WOk s' => writes s' cs' | e => e end end.
End Stream.

(* the instance the crate uses *)
Definition parse_rec_entry (r : str) : option entry :=
  match parse_entry r with Val e => Some e | _ => None end.
Definition stream_write := write entry parse_rec_entry utf8_valid.
Definition stream_init : st entry := mkst entry [] [].
(* Display for SummaryStream: each entry followed by a blank line *)
Definition print_stream (es : list entry) : str := flat_map (fun e => print_entry e ++ [10]) es.

(* ================= canonical text (executable predicate; theorems in SummaryProofs) ================= *)
(* 'VAR=value' split at the FIRST '=' with VAR one of the 23 names *)
Definition line_kv (l : str) : option (var * str) :=
  match split_once 61 l with
  | Some (k, x) => match parse_name k with Some v => Some (v, x) | None => None end
  | None => None
  end.
Definition term_lines (ls : list str) : str := concat (map (fun l => l ++ [10]) ls).
Definition line_var (l : str) : option var := match line_kv l with Some (v, _) => Some v | None => None end.
Definition lines_of (v : var) (ls : list str) : list str :=
  filter (fun l => match line_var l with Some w => var_eqb w v | None => false end) ls.
Fixpoint eql (a b : list str) : bool :=
  match a, b with [], [] => true | x :: a', y :: b' => eqs x y && eql a' b' | _, _ => false end.
(* the lines come grouped by variable, variables in the fixed order, and a
   single-valued variable has at most one line *)
Definition grouped (ls : list str) : bool :=
  eql ls (flat_map (fun v => lines_of v ls) all_vars) &&
  forallb (fun v => match kind_of v with KA => true | _ => Nat.leb (List.length (lines_of v ls)) 1 end) all_vars.
(* 'VAR=value' with a known VAR; integers in the form Display prints *)
Definition line_canon (l : str) : bool :=
  match line_kv l with
  | Some (v, x) => match kind_of v with
                   | KI => match parse_i64 x with Some z => eqs (print_z z) x | None => false end
                   | _ => true
                   end
  | None => false
  end.
Definition has_var (ls : list str) (v : var) : bool :=
  existsb (fun l => match line_var l with Some w => var_eqb w v | None => false end) ls.
Definition canonical_lines (ls : list str) : bool :=
  forallb line_canon ls && grouped ls && forallb (has_var ls) required.
(* the text is its lines, each ended by one LF (no CRLF, no missing final newline) *)
Definition is_canonical (t : str) : bool := eqs t (term_lines (lines t)) && canonical_lines (lines t).

