//! PkgPath / Depend / ScanIndex operations.
use crate::util::*;
use pkgsrc::{Depend, DependError, Pattern, PkgPath, ScanIndex};
use std::io::Read;
use std::path::{Component, Path};

pub fn comps(p: &Path) -> String {
    p.components()
        .map(|c| match c {
            Component::RootDir => "R".to_string(),
            Component::CurDir => "C".to_string(),
            Component::ParentDir => "P".to_string(),
            Component::Normal(s) => format!("N:{}", show_text(&s.to_string_lossy())),
            Component::Prefix(_) => "X".to_string(),
        })
        .collect::<Vec<_>>()
        .join(",")
}
fn show_pkgpath(p: &PkgPath) -> String {
    format!("{}|{}", comps(p.as_path()), comps(p.as_full_path()))
}
fn opt(s: &Option<String>) -> String {
    match s {
        None => "N".into(),
        Some(x) => format!("S{}", show_text(x)),
    }
}

/// Delivers `data` and then, if `fail_at` is set, fails instead of reporting end of file.
struct FailAfter {
    data: Vec<u8>,
    pos: usize,
    fail_at: Option<usize>,
    kind: std::io::ErrorKind,
}
impl Read for FailAfter {
    fn read(&mut self, buf: &mut [u8]) -> std::io::Result<usize> {
        let end = self.fail_at.unwrap_or(self.data.len());
        if self.pos >= end {
            return match self.fail_at {
                Some(_) => Err(std::io::Error::new(self.kind, "scripted failure")),
                None => Ok(0),
            };
        }
        let n = (end - self.pos).min(buf.len());
        buf[..n].copy_from_slice(&self.data[self.pos..self.pos + n]);
        self.pos += n;
        Ok(n)
    }
}

pub fn run(op: &str, args: &[&str]) -> Option<String> {
    Some(match (op, args) {
        ("path.new", [s]) => match PkgPath::new(&text(s)) {
            Ok(p) => {
                /* re-parsing either accessor's output gives an equal value */
                let r1 = p.as_path().to_str().map(|t| PkgPath::new(t).map(|q| q == p).unwrap_or(false));
                let r2 = p.as_full_path().to_str().map(|t| PkgPath::new(t).map(|q| q == p).unwrap_or(false));
                format!("OK:{}|{}|{}", show_pkgpath(&p), tf(r1 == Some(true)), tf(r2 == Some(true)))
            }
            Err(_) => "E".into(),
        },
        ("dep.new", [s]) => {
            let t = text(s);
            match Depend::new(&t) {
                Ok(d) => {
                    let halves: Vec<&str> = t.split(':').collect();
                    let same = halves.len() == 2
                        && Pattern::new(halves[0]).map(|p| &p == d.pattern()).unwrap_or(false)
                        && PkgPath::new(halves[1]).map(|p| &p == d.pkgpath()).unwrap_or(false);
                    format!("OK:{}|{}|{}", show_text(d.pattern().pattern()), show_pkgpath(d.pkgpath()), tf(same))
                }
                Err(DependError::Invalid) => "E:Invalid".into(),
                Err(DependError::Pattern(_)) => "E:Pattern".into(),
                Err(DependError::PkgPath(_)) => "E:PkgPath".into(),
            }
        }
        /* text, and "N" or the number of lines after which the reader fails */
        /* scan.readb takes raw bytes (possibly not UTF-8); the failure may carry an error kind: <k>:I InvalidData, <k>:E UnexpectedEof */
        ("scan.read", [s, k]) | ("scan.readb", [s, k]) => {
            let data = if op == "scan.readb" { bytes(s) } else { text(s).into_bytes() };
            let (k, kind) = match k.split_once(':') {
                Some((a, "I")) => (a, std::io::ErrorKind::InvalidData),
                Some((a, "E")) => (a, std::io::ErrorKind::UnexpectedEof),
                Some((a, _)) => (a, std::io::ErrorKind::BrokenPipe),
                None => (*k, std::io::ErrorKind::Other),
            };
            let fail_at = if k == "N" {
                None
            } else {
                let k: usize = k.parse().unwrap();
                let mut off = 0;
                let mut seen = 0;
                for (i, b) in data.iter().enumerate() {
                    if seen == k {
                        break;
                    }
                    if *b == b'\n' {
                        seen += 1;
                        off = i + 1;
                    }
                }
                if seen < k {
                    off = data.len();
                }
                Some(off)
            };
            let r = std::io::BufReader::new(FailAfter { data, pos: 0, fail_at, kind });
            match ScanIndex::from_reader(r) {
                Ok(v) => format!(
                    "OK:{}",
                    v.iter()
                        .map(|x| format!(
                            "{}|{}|{}|{}|{}|{}",
                            show_text(x.pkgname.pkgname()),
                            match &x.pkg_location {
                                None => "N".to_string(),
                                Some(p) => comps(p.as_path()),
                            },
                            x.all_depends
                                .iter()
                                .map(|d| format!("{}:{}", show_text(d.pattern().pattern()), comps(d.pkgpath().as_path())))
                                .collect::<Vec<_>>()
                                .join(";"),
                            [
                                &x.pkg_skip_reason, &x.pkg_fail_reason, &x.no_bin_on_ftp, &x.restricted, &x.categories,
                                &x.maintainer, &x.use_destdir, &x.bootstrap_pkg, &x.usergroup_phase, &x.pbulk_weight
                            ]
                            .iter()
                            .map(|o| opt(o))
                            .collect::<Vec<_>>()
                            .join(";"),
                            x.scan_depends.iter().map(|p| show_text(&p.to_string_lossy())).collect::<Vec<_>>().join(";"),
                            x.multi_version.iter().map(|p| show_text(p)).collect::<Vec<_>>().join(";")
                        ))
                        .collect::<Vec<_>>()
                        .join("#")
                ),
                Err(_) => "E".into(),
            }
        }
        _ => return None,
    })
}
