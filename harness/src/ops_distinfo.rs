//! distinfo / digest operations (bytes everywhere).
use crate::util::*;
use pkgsrc::digest::Digest;
use pkgsrc::distinfo::{Checksum, Distinfo, DistinfoError, Entry, EntryType};
use std::ffi::OsStr;
use std::os::unix::ffi::OsStrExt;
use std::path::{Path, PathBuf};
use std::str::FromStr;

pub const ALGS: [Digest; 6] =
    [Digest::BLAKE2s, Digest::MD5, Digest::RMD160, Digest::SHA1, Digest::SHA256, Digest::SHA512];
pub fn alg_idx(d: &Digest) -> usize {
    ALGS.iter().position(|a| a == d).unwrap()
}
fn path_bytes(p: &Path) -> &[u8] {
    p.as_os_str().as_bytes()
}
fn show_entry(e: &Entry) -> String {
    format!(
        "{}~{}~{}",
        show_bytes(path_bytes(&e.filename)),
        match e.size {
            Some(n) => n.to_string(),
            None => "N".into(),
        },
        e.checksums
            .iter()
            .map(|c| format!("{}={}", alg_idx(&c.digest), show_bytes(c.hash.as_bytes())))
            .collect::<Vec<_>>()
            .join(",")
    )
}
pub fn dump(d: &Distinfo) -> String {
    format!(
        "R={}|D={}|P={}",
        match d.rcsid() {
            Some(s) => show_bytes(s.as_bytes()),
            None => "N".into(),
        },
        d.distfiles().iter().map(|e| show_entry(e)).collect::<Vec<_>>().join(";"),
        d.patchfiles().iter().map(|e| show_entry(e)).collect::<Vec<_>>().join(";")
    )
}
fn parse_entry(a: &str) -> Entry {
    let mut it = a.split('~');
    let name = bytes(it.next().unwrap());
    let size = match it.next().unwrap() {
        "N" => None,
        s => Some(s.parse::<u64>().unwrap()),
    };
    let sums = it.next().unwrap_or("");
    let mut cs = vec![];
    if !sums.is_empty() {
        for s in sums.split(',') {
            let (a, h) = s.split_once('=').unwrap();
            cs.push(Checksum::new(ALGS[a.parse::<usize>().unwrap()], text(h)));
        }
    }
    let p = PathBuf::from(OsStr::from_bytes(&name));
    Entry::new(&p, &p, cs, size)
}
fn verr(e: &DistinfoError) -> String {
    match e {
        DistinfoError::Io(_) => "E:Io".into(),
        DistinfoError::Digest(_) => "E:Digest".into(),
        DistinfoError::NotFound => "E:NotFound".into(),
        DistinfoError::Checksum(p, d, exp, act) => format!(
            "E:Checksum:{}:{}:{}:{}",
            alg_idx(d),
            show_bytes(exp.as_bytes()),
            show_bytes(act.as_bytes()),
            show_bytes(path_bytes(p))
        ),
        DistinfoError::MissingChecksum(_, _) => "E:MissingChecksum".into(),
        DistinfoError::Size(p, exp, act) => format!("E:Size:{}:{}:{}", exp, act, show_bytes(path_bytes(p))),
        DistinfoError::MissingSize(_) => "E:MissingSize".into(),
    }
}

pub fn run(op: &str, args: &[&str]) -> Option<String> {
    Some(match (op, args) {
        ("di.parse", [b]) => dump(&Distinfo::from_bytes(&bytes(b))),
        ("di.roundtrip", [b]) => show_bytes(&Distinfo::from_bytes(&bytes(b)).as_bytes()),
        ("di.classify", [n]) => {
            match EntryType::from(Path::new(OsStr::from_bytes(&bytes(n)))) {
                EntryType::Distfile => "D".into(),
                EntryType::Patchfile => "P".into(),
            }
        }
        ("di.find", [b, p]) => {
            let d = Distinfo::from_bytes(&bytes(b));
            match d.find_entry(Path::new(OsStr::from_bytes(&bytes(p)))) {
                Ok(e) => format!("F:{}", show_bytes(path_bytes(&e.filename))),
                Err(e) => verr(&e),
            }
        }
        /* Entry-level verification: the entry recorded under <entry name> is asked to verify a file with ANOTHER name
           (<file path>, created with <content>): whether the patch filter applies is decided by the entry, not by the
           name of the file being read.  Errors are shown with the entry's own name. */
        ("di.everify", [b, ename, fpath, content, what]) => {
            let d = Distinfo::from_bytes(&bytes(b));
            let dir = std::env::temp_dir().join(format!("pkgsrc_harness_e_{}", std::process::id()));
            let _ = std::fs::remove_dir_all(&dir);
            std::fs::create_dir_all(&dir).unwrap();
            let rel = PathBuf::from(OsStr::from_bytes(&bytes(fpath)));
            let old = std::env::current_dir().unwrap();
            std::env::set_current_dir(&dir).unwrap();
            let r = (|| {
                let entry = match d.find_entry(Path::new(OsStr::from_bytes(&bytes(ename)))) {
                    Ok(e) => e,
                    Err(e) => return Ok::<String, String>(verr(&e)),
                };
                if *content != "N" {
                    if let Some(parent) = rel.parent() {
                        if !parent.as_os_str().is_empty() {
                            std::fs::create_dir_all(parent).map_err(|_| "SETUP".to_string())?;
                        }
                    }
                    std::fs::write(&rel, bytes(content)).map_err(|_| "SETUP".to_string())?;
                }
                let name = show_bytes(path_bytes(&entry.filename));
                Ok(if *what == "S" {
                    match entry.verify_size(&rel) {
                        Ok(n) => format!("OK:{}", n),
                        Err(DistinfoError::Size(_, exp, act)) => format!("E:Size:{}:{}:{}", exp, act, name),
                        Err(e) => verr(&e),
                    }
                } else {
                    let a = ALGS[what.parse::<usize>().unwrap()];
                    match entry.verify_checksum(&rel, a) {
                        Ok(g) => format!("OK:{}", alg_idx(&g)),
                        Err(DistinfoError::Checksum(_, dg, exp, act)) => format!("E:Checksum:{}:{}:{}:{}", alg_idx(&dg), show_bytes(exp.as_bytes()), show_bytes(act.as_bytes()), name),
                        Err(e) => verr(&e),
                    }
                })
            })();
            std::env::set_current_dir(&old).unwrap();
            let _ = std::fs::remove_dir_all(&dir);
            match r {
                Ok(s) => s,
                Err(s) => s,
            }
        }
        /* rcsid ("N" = none), then one argument per entry */
        ("di.build", _) => {
            let mut d = Distinfo::new();
            if args[0] != "N" {
                d.set_rcsid(&OsStr::from_bytes(&bytes(args[0])).to_os_string());
            }
            let mut each = vec![];
            for a in &args[1..] {
                let e = parse_entry(a);
                each.push(show_bytes(&e.as_bytes()));
                d.insert(e);
            }
            let out = d.as_bytes();
            format!("B={}#{}#E={}", show_bytes(&out), dump(&Distinfo::from_bytes(&out)), each.join(";"))
        }
        /* distinfo bytes, relative path, file content ("N" = do not create), "S" or algorithm index */
        /* di.verifyl: the same, but the path checked is a symbolic link to the file (kept in another directory) */
        ("di.verify", [b, p, content, what]) | ("di.verifyl", [b, p, content, what]) => {
            let d = Distinfo::from_bytes(&bytes(b));
            let dir = std::env::temp_dir().join(format!("pkgsrc_harness_{}", std::process::id()));
            let _ = std::fs::remove_dir_all(&dir);
            std::fs::create_dir_all(&dir).unwrap();
            let rel = PathBuf::from(OsStr::from_bytes(&bytes(p)));
            let old = std::env::current_dir().unwrap();
            std::env::set_current_dir(&dir).unwrap();
            let r = (|| {
                if *content != "N" {
                    if let Some(parent) = rel.parent() {
                        if !parent.as_os_str().is_empty() {
                            std::fs::create_dir_all(parent).map_err(|_| "SETUP".to_string())?;
                        }
                    }
                    if op == "di.verifyl" {
                        std::fs::create_dir_all("real files").map_err(|_| "SETUP".to_string())?;
                        let target = dir.join("real files").join("the file");
                        std::fs::write(&target, bytes(content)).map_err(|_| "SETUP".to_string())?;
                        std::os::unix::fs::symlink(&target, &rel).map_err(|_| "SETUP".to_string())?;
                    } else {
                        std::fs::write(&rel, bytes(content)).map_err(|_| "SETUP".to_string())?;
                    }
                }
                Ok::<String, String>(if *what == "S" {
                    match d.verify_size(&rel) {
                        Ok(n) => format!("OK:{}", n),
                        Err(e) => verr(&e),
                    }
                } else {
                    let a = ALGS[what.parse::<usize>().unwrap()];
                    match d.verify_checksum(&rel, a) {
                        Ok(g) => format!("OK:{}", alg_idx(&g)),
                        Err(e) => verr(&e),
                    }
                })
            })();
            std::env::set_current_dir(&old).unwrap();
            let _ = std::fs::remove_dir_all(&dir);
            match r {
                Ok(s) => s,
                Err(s) => s,
            }
        }
        /* digest names: text (code points) */
        ("dg.name", [s]) => match Digest::from_str(&text(s)) {
            Ok(d) => format!("{}:{}", alg_idx(&d), show_text(&d.to_string())),
            Err(_) => "E:Unsupported".into(),
        },
        ("dg.str", [a, s]) => match ALGS[a.parse::<usize>().unwrap()].hash_str(&text(s)) {
            Ok(h) => h,
            Err(_) => "E".into(),
        },
        /* algorithm index, then the read schedule: "D <bytes>" | "I" (Interrupted) | "X" (hard error) */
        ("dg.file", _) | ("dg.patch", _) => {
            let a = ALGS[args[0].parse::<usize>().unwrap()];
            let mut r = ScriptedReader::new(&args[1..]);
            let res = if op == "dg.file" { a.hash_file(&mut r) } else { a.hash_patch(&mut r) };
            match res {
                Ok(h) => h,
                Err(pkgsrc::digest::DigestError::Io(_)) => "E:Io".into(),
                Err(_) => "E:Other".into(),
            }
        }
        _ => return None,
    })
}

enum Ev {
    Data(Vec<u8>),
    Intr,
    Fail,
}
/// A reader that replays a schedule of read() results.
struct ScriptedReader {
    evs: std::collections::VecDeque<Ev>,
}
impl ScriptedReader {
    fn new(args: &[&str]) -> Self {
        let evs = args
            .iter()
            .map(|a| match *a {
                "I" => Ev::Intr,
                "X" => Ev::Fail,
                d => Ev::Data(bytes(&d[2..])),
            })
            .collect();
        ScriptedReader { evs }
    }
}
impl std::io::Read for ScriptedReader {
    fn read(&mut self, buf: &mut [u8]) -> std::io::Result<usize> {
        match self.evs.pop_front() {
            None => Ok(0),
            Some(Ev::Intr) => Err(std::io::Error::new(std::io::ErrorKind::Interrupted, "interrupted")),
            Some(Ev::Fail) => Err(std::io::Error::new(std::io::ErrorKind::Other, "scripted failure")),
            Some(Ev::Data(d)) => {
                let n = d.len().min(buf.len());
                buf[..n].copy_from_slice(&d[..n]);
                if n < d.len() {
                    self.evs.push_front(Ev::Data(d[n..].to_vec()));
                }
                Ok(n)
            }
        }
    }
}
