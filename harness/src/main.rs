//! Correspondence harness: runs operations of the real `pkgsrc` crate (built
//! from /repo's working tree) on a case file and prints one canonical
//! observation per case.  Same line protocol as ocaml/driver.ml.
use std::io::{BufRead, Write};
use std::panic::{catch_unwind, AssertUnwindSafe};

use pkgsrc_harness::run;

fn main() {
    std::panic::set_hook(Box::new(|_| {}));
    let path = std::env::args().nth(1).expect("case file");
    let f = std::fs::File::open(&path).expect("open case file");
    let stdout = std::io::stdout();
    let mut out = std::io::BufWriter::new(stdout.lock());
    for line in std::io::BufReader::new(f).lines() {
        let line = line.expect("read");
        if line.is_empty() {
            continue;
        }
        let mut it = line.split('\t');
        let id = it.next().unwrap();
        let op = match it.next() {
            Some(o) => o,
            None => continue,
        };
        /* an operation without arguments is written with a trailing tab */
        let args: Vec<&str> = it.filter(|a| !a.is_empty()).collect();
        let obs = match catch_unwind(AssertUnwindSafe(|| run(op, &args))) {
            Ok(s) => s,
            Err(_) => "PANIC".to_string(),
        };
        writeln!(out, "{}\t{}", id, obs).unwrap();
        /* flush per case so that an abort (stack overflow) or a hang leaves
         * the index of the offending case visible to the orchestrator */
        out.flush().unwrap();
    }
}
