//! PLIST operations (bytes).
use crate::util::*;
use pkgsrc::plist::{Plist, PlistEntry, PlistError, PlistOption};
use std::ffi::OsStr;
use std::os::unix::ffi::OsStrExt;

fn os(s: &OsStr) -> String {
    show_bytes(s.as_bytes())
}
fn opt_s(o: &Option<String>) -> String {
    match o {
        None => "N".into(),
        Some(s) => format!("S{}", show_bytes(s.as_bytes())),
    }
}
pub fn show_entry(e: &PlistEntry) -> String {
    match e {
        PlistEntry::File(s) => format!("File:{}", os(s)),
        PlistEntry::Cwd(s) => format!("Cwd:{}", os(s)),
        PlistEntry::Exec(s) => format!("Exec:{}", os(s)),
        PlistEntry::UnExec(s) => format!("UnExec:{}", os(s)),
        PlistEntry::Mode(o) => format!("Mode:{}", opt_s(o)),
        PlistEntry::PkgOpt(PlistOption::Preserve) => "Preserve".into(),
        PlistEntry::Owner(o) => format!("Owner:{}", opt_s(o)),
        PlistEntry::Group(o) => format!("Group:{}", opt_s(o)),
        PlistEntry::Comment(o) => match o {
            None => "Comment:N".into(),
            Some(s) => format!("Comment:S{}", os(s)),
        },
        PlistEntry::Ignore => "Ignore".into(),
        PlistEntry::Name(s) => format!("Name:{}", show_bytes(s.as_bytes())),
        PlistEntry::PkgDir(s) => format!("PkgDir:{}", os(s)),
        PlistEntry::DirRm(s) => format!("DirRm:{}", os(s)),
        PlistEntry::Display(s) => format!("Display:{}", os(s)),
        PlistEntry::PkgDep(s) => format!("PkgDep:{}", show_bytes(s.as_bytes())),
        PlistEntry::BldDep(s) => format!("BldDep:{}", show_bytes(s.as_bytes())),
        PlistEntry::PkgCfl(s) => format!("PkgCfl:{}", show_bytes(s.as_bytes())),
    }
}
fn show_err(e: &PlistError) -> String {
    match e {
        PlistError::UnsupportedCommand(_) => "E:Unsupported".into(),
        PlistError::IncorrectArguments(_) => "E:Args".into(),
        PlistError::Utf8(_) => "E:Utf8".into(),
    }
}
fn list(v: Vec<String>) -> String {
    v.join(";")
}

pub fn run(op: &str, args: &[&str]) -> Option<String> {
    Some(match (op, args) {
        ("pl.entry", [b]) => match PlistEntry::from_bytes(&bytes(b)) {
            Ok(e) => show_entry(&e),
            Err(e) => show_err(&e),
        },
        #[cfg(pkgsrc_verif)]
        ("pl.parse", [b]) => match Plist::from_bytes(&bytes(b)) {
            Ok(p) => format!("OK|{}", list(p.verif_entries().iter().map(show_entry).collect())),
            Err(e) => show_err(&e),
        },
        ("pl.query", [b]) => match Plist::from_bytes(&bytes(b)) {
            Ok(p) => format!(
                "files={}|prefixed={}|install={}|uninstall={}|depends={}|build_depends={}|conflicts={}|pkgdirs={}|pkgrmdirs={}|pkgname={}|display={}|preserve={}",
                list(p.files().iter().map(|s| os(s)).collect()),
                list(p.files_prefixed().iter().map(|s| os(s)).collect()),
                list(p.install_cmds().iter().map(|e| show_entry(e)).collect()),
                list(p.uninstall_cmds().iter().map(|e| show_entry(e)).collect()),
                list(p.depends().iter().map(|s| show_bytes(s.as_bytes())).collect()),
                list(p.build_depends().iter().map(|s| show_bytes(s.as_bytes())).collect()),
                list(p.conflicts().iter().map(|s| show_bytes(s.as_bytes())).collect()),
                list(p.pkgdirs().iter().map(|s| os(s)).collect()),
                list(p.pkgrmdirs().iter().map(|s| os(s)).collect()),
                match p.pkgname() { None => "N".to_string(), Some(s) => format!("S{}", show_bytes(s.as_bytes())) },
                match p.display() { None => "N".to_string(), Some(s) => format!("S{}", os(s)) },
                tf(p.is_preserve())
            ),
            Err(e) => show_err(&e),
        },
        _ => return None,
    })
}
