//! Library part of the correspondence harness: `run` executes one operation of
//! the real `pkgsrc` crate and returns its canonical observation.  Used by the
//! case-file driver (main.rs) and by the coverage-guided explorer (fuzz/).
mod util;
mod ops_pattern;
mod ops_summary;
mod ops_distinfo;
mod ops_plist;
mod ops_index;
mod ops_pkgdb;

pub fn run(op: &str, args: &[&str]) -> String {
    if let Some(r) = ops_pattern::run(op, args) {
        return r;
    }
    if let Some(r) = ops_pkgdb::run(op, args) {
        return r;
    }
    if let Some(r) = ops_index::run(op, args) {
        return r;
    }
    if let Some(r) = ops_plist::run(op, args) {
        return r;
    }
    if let Some(r) = ops_distinfo::run(op, args) {
        return r;
    }
    if let Some(r) = ops_summary::run(op, args) {
        return r;
    }
    "UNKNOWN-OP".to_string()
}


/// Shapes the raw argument list found by the coverage-guided explorer into the
/// argument list the operation expects (mirrored by gen/fuzzer.py `shape`):
/// fixed arity (missing arguments are empty, extra ones dropped), a constant
/// "no I/O failure" flag for the index reader, and for the digest operations an
/// algorithm taken from the first number of the first argument.
pub fn fuzz_shape(op: &str, mut args: Vec<String>) -> (String, Vec<String>) {
    let arity = match op {
        "pat.match" | "dewey.match" => 2,
        "pat.best" => 3,
        "stream" => 0,
        _ => 1,
    };
    if arity > 0 {
        args.truncate(arity);
        while args.len() < arity {
            args.push("-".to_string());
        }
    }
    match op {
        "scan.read" | "scan.readb" => {
            args.push("N".to_string());
            (op.to_string(), args)
        }
        "dg.patchb" | "dg.fileb" => {
            let a = &args[0];
            let mut it = a.splitn(2, ' ');
            let first = it.next().unwrap_or("-");
            let rest = it.next().unwrap_or("-");
            let alg = first.parse::<usize>().unwrap_or(0) % 6;
            let name = if op == "dg.patchb" { "dg.patch" } else { "dg.file" };
            let mut v = vec![alg.to_string()];
            if rest != "-" {
                v.push(format!("D {}", rest));
            }
            (name.to_string(), v)
        }
        _ => (op.to_string(), args),
    }
}
