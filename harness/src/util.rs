#![allow(dead_code)]
//! Argument decoding and canonical printing shared by all operations.

/// Space-separated decimal numbers, "-" for empty.
pub fn nums(a: &str) -> Vec<u32> {
    if a == "-" {
        return vec![];
    }
    a.split(' ').map(|t| t.parse::<u32>().expect("number")).collect()
}
/// Text argument: Unicode scalar values.
pub fn text(a: &str) -> String {
    nums(a).into_iter().map(|c| char::from_u32(c).expect("scalar value")).collect()
}
/// Byte-string argument.
pub fn bytes(a: &str) -> Vec<u8> {
    nums(a).into_iter().map(|c| c as u8).collect()
}
pub fn show_text(s: &str) -> String {
    if s.is_empty() {
        return "-".to_string();
    }
    s.chars().map(|c| (c as u32).to_string()).collect::<Vec<_>>().join(" ")
}
pub fn show_bytes(s: &[u8]) -> String {
    if s.is_empty() {
        return "-".to_string();
    }
    s.iter().map(|c| c.to_string()).collect::<Vec<_>>().join(" ")
}
pub fn tf(b: bool) -> String {
    if b { "T".to_string() } else { "F".to_string() }
}
