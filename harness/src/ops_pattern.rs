//! Dewey / Pattern / PkgName operations.
use crate::util::*;
use pkgsrc::{Dewey, Pattern, PatternError, PkgName};

pub fn run(op: &str, args: &[&str]) -> Option<String> {
    Some(match (op, args) {
        ("dewey.new", [p]) => match Dewey::new(&text(p)) {
            Ok(_) => "OK".into(),
            Err(_) => "E".into(),
        },
        ("dewey.match", [p, name]) => match Dewey::new(&text(p)) {
            Ok(d) => tf(d.matches(&text(name))),
            Err(_) => "E".into(),
        },
        ("pat.new", [p]) => match Pattern::new(&text(p)) {
            Ok(_) => "OK".into(),
            Err(PatternError::Alternate) => "E:Alternate".into(),
            Err(PatternError::Dewey(_)) => "E:Dewey".into(),
            Err(PatternError::Glob(_)) => "E:Glob".into(),
        },
        ("pat.match", [p, name]) => match Pattern::new(&text(p)) {
            Ok(d) => tf(d.matches(&text(name))),
            Err(_) => "E".into(),
        },
        ("pat.best", [p, a, b]) => match Pattern::new(&text(p)) {
            Ok(pt) => {
                let (a, b) = (text(a), text(b));
                match pt.best_match(&a, &b) {
                    None => "N".into(),
                    Some(r) => format!("S:{}", show_text(r)),
                }
            }
            Err(_) => "E".into(),
        },
        ("pkgname", [s]) => {
            let pn = PkgName::new(&text(s));
            format!(
                "{}|{}|{}",
                show_text(pn.pkgbase()),
                show_text(pn.pkgversion()),
                match pn.pkgrevision() {
                    None => "none".to_string(),
                    Some(z) => z.to_string(),
                }
            )
        }
        _ => return None,
    })
}
