//! Dewey / Pattern / PkgName operations.
use crate::util::*;
use pkgsrc::{Dewey, Pattern, PatternError};

pub fn run(op: &str, args: &[&str]) -> Option<String> {
    Some(match (op, args) {
        ("dewey.new", [p]) => match Dewey::new(&text(p)) {
            Ok(_) => "OK".into(),
            Err(_) => "E".into(),
        },
        ("dewey.match", [p, name]) => match Dewey::new(&text(p)) {
            Ok(d) => tf(d.matches(&text(name))),
            Err(_) => "E".into(),
        },
        ("pat.new", [p]) => match Pattern::new(&text(p)) {
            Ok(_) => "OK".into(),
            Err(PatternError::Alternate) => "E:Alternate".into(),
            Err(PatternError::Dewey(_)) => "E:Dewey".into(),
            Err(PatternError::Glob(_)) => "E:Glob".into(),
        },
        ("pat.match", [p, name]) => match Pattern::new(&text(p)) {
            Ok(d) => tf(d.matches(&text(name))),
            Err(_) => "E".into(),
        },
        _ => return None,
    })
}
