//! Summary / SummaryStream operations.
use crate::util::*;
use pkgsrc::summary::{MissingVariable, Summary, SummaryError, SummaryStream};
use std::io::Write;
use std::str::FromStr;

/* variable indices follow derive(Ord) order of SummaryVariable */
fn set_s(sum: &mut Summary, v: usize, x: &str) {
    match v {
        0 => sum.set_build_date(x),
        1 => sum.set_categories(x),
        2 => sum.set_comment(x),
        6 => sum.set_file_cksum(x),
        7 => sum.set_file_name(x),
        9 => sum.set_homepage(x),
        10 => sum.set_license(x),
        11 => sum.set_machine_arch(x),
        12 => sum.set_opsys(x),
        13 => sum.set_os_version(x),
        14 => sum.set_pkg_options(x),
        15 => sum.set_pkgname(x),
        16 => sum.set_pkgpath(x),
        17 => sum.set_pkgtools_version(x),
        18 => sum.set_prev_pkgpath(x),
        _ => panic!("harness: not a string variable"),
    }
}
fn set_i(sum: &mut Summary, v: usize, x: i64) {
    match v {
        8 => sum.set_file_size(x),
        21 => sum.set_size_pkg(x),
        _ => panic!("harness: not an integer variable"),
    }
}
fn set_a(sum: &mut Summary, v: usize, x: &[String]) {
    match v {
        3 => sum.set_conflicts(x),
        4 => sum.set_depends(x),
        5 => sum.set_description(x),
        19 => sum.set_provides(x),
        20 => sum.set_requires(x),
        22 => sum.set_supersedes(x),
        _ => panic!("harness: not a list variable"),
    }
}
fn push_a(sum: &mut Summary, v: usize, x: &str) {
    match v {
        3 => sum.push_conflicts(x),
        4 => sum.push_depends(x),
        5 => sum.push_description(x),
        19 => sum.push_provides(x),
        20 => sum.push_requires(x),
        22 => sum.push_supersedes(x),
        _ => panic!("harness: not a list variable"),
    }
}
fn show_opt(s: Option<&str>) -> String {
    match s {
        None => "N".into(),
        Some(x) => format!("S{}", show_text(x)),
    }
}
fn show_opt_i(s: Option<i64>) -> String {
    match s {
        None => "N".into(),
        Some(x) => format!("I{}", x),
    }
}
fn show_opt_a(s: Option<&[String]>) -> String {
    match s {
        None => "N".into(),
        Some(x) => format!(
            "A{}:{}",
            x.len(),
            x.iter().map(|t| show_text(t)).collect::<Vec<_>>().join(",")
        ),
    }
}
pub fn dump(sum: &Summary) -> String {
    let g = vec![
        show_opt(sum.build_date()),
        show_opt(sum.categories()),
        show_opt(sum.comment()),
        show_opt_a(sum.conflicts()),
        show_opt_a(sum.depends()),
        show_opt_a(sum.description()),
        show_opt(sum.file_cksum()),
        show_opt(sum.file_name()),
        show_opt_i(sum.file_size()),
        show_opt(sum.homepage()),
        show_opt(sum.license()),
        show_opt(sum.machine_arch()),
        show_opt(sum.opsys()),
        show_opt(sum.os_version()),
        show_opt(sum.pkg_options()),
        show_opt(sum.pkgname()),
        show_opt(sum.pkgpath()),
        show_opt(sum.pkgtools_version()),
        show_opt(sum.prev_pkgpath()),
        show_opt_a(sum.provides()),
        show_opt_a(sum.requires()),
        show_opt_i(sum.size_pkg()),
        show_opt_a(sum.supersedes()),
    ];
    format!(
        "P={}|C={}|B={}|V={}|G={}",
        show_text(&sum.to_string()),
        tf(sum.is_completed()),
        show_opt(sum.pkgbase()),
        show_opt(sum.pkgversion()),
        g.join(";")
    )
}
fn missing_idx(m: &MissingVariable) -> usize {
    match m {
        MissingVariable::BuildDate => 0,
        MissingVariable::Categories => 1,
        MissingVariable::Comment => 2,
        MissingVariable::Description => 5,
        MissingVariable::MachineArch => 11,
        MissingVariable::Opsys => 12,
        MissingVariable::OsVersion => 13,
        MissingVariable::Pkgname => 15,
        MissingVariable::Pkgpath => 16,
        MissingVariable::PkgtoolsVersion => 17,
        MissingVariable::SizePkg => 21,
    }
}
fn err_obs(e: &SummaryError) -> String {
    match e {
        SummaryError::ParseLine(_) => "E:Line".into(),
        SummaryError::ParseVariable(_) => "E:Var".into(),
        SummaryError::ParseInt(_) => "E:Int".into(),
        SummaryError::Incomplete(m) => format!("E:Missing:{}", missing_idx(m)),
        _ => "E:Other".into(),
    }
}

pub fn run(op: &str, args: &[&str]) -> Option<String> {
    Some(match op {
        /* each argument is one call: s:<var>:<text> i:<var>:<int> a:<var>:<text>|<text>.. p:<var>:<text> */
        "sum.ops" => {
            let mut sum = Summary::new();
            for a in args {
                let mut it = a.splitn(3, ':');
                let k = it.next().unwrap();
                let v: usize = it.next().unwrap().parse().unwrap();
                let x = it.next().unwrap_or("");
                match k {
                    "s" => set_s(&mut sum, v, &text(x)),
                    "i" => set_i(&mut sum, v, x.parse::<i64>().unwrap()),
                    "a" => {
                        let l: Vec<String> =
                            if x.is_empty() { vec![] } else { x.split('|').map(text).collect() };
                        set_a(&mut sum, v, &l)
                    }
                    "p" => push_a(&mut sum, v, &text(x)),
                    _ => panic!("harness: bad op"),
                }
            }
            /* a second Summary built by the same calls has a different RandomState:
             * the printed form must not depend on it */
            dump(&sum)
        }
        "sum.parse" => match Summary::from_str(&text(args[0])) {
            Ok(sum) => format!("OK|{}", dump(&sum)),
            Err(e) => err_obs(&e),
        },
        /* does the text parse and print back byte for byte?  (model: the syntactic predicate is_canonical) */
        "sum.canon" => {
            let t = text(args[0]);
            match Summary::from_str(&t) {
                Ok(sum) => (if sum.to_string() == t { "T" } else { "F" }).to_string(),
                Err(_) => "F".to_string(),
            }
        }
        /* each argument is one chunk of bytes */
        "stream" => {
            let mut st = SummaryStream::new();
            let mut w = vec![];
            for a in args {
                let chunk = bytes(a);
                match st.write(&chunk) {
                    Ok(n) => {
                        w.push(format!("{}:{}", if n == chunk.len() { "ok" } else { "short" }, st.entries().len()))
                    }
                    Err(e) => {
                        let k = if e.kind() == std::io::ErrorKind::InvalidData { "err".to_string() } else { format!("err-{:?}", e.kind()) };
                        w.push(format!("{}:{}", k, st.entries().len()));
                        break;
                    }
                }
            }
            format!("W={}|P={}", w.join(","), show_bytes(st.to_string().as_bytes()))
        }
        /* as "stream", but the caller keeps writing after a failed write (what a
         * retrying caller sees: the buffer and the entries a failed write leaves behind) */
        "stream.cont" => {
            let mut st = SummaryStream::new();
            let mut w = vec![];
            for a in args {
                let chunk = bytes(a);
                match st.write(&chunk) {
                    Ok(n) => {
                        w.push(format!("{}:{}", if n == chunk.len() { "ok" } else { "short" }, st.entries().len()))
                    }
                    Err(e) => {
                        let k = if e.kind() == std::io::ErrorKind::InvalidData { "err".to_string() } else { format!("err-{:?}", e.kind()) };
                        w.push(format!("{}:{}", k, st.entries().len()));
                    }
                }
            }
            format!("W={}|P={}", w.join(","), show_bytes(st.to_string().as_bytes()))
        }
        _ => return None,
    })
}
