//! Metadata / package database operations.
use crate::util::*;
use pkgsrc::pkgdb::PkgDB;
use pkgsrc::{Metadata, MetadataEntry};
use std::ffi::OsStr;
use std::os::unix::ffi::OsStrExt;

fn entry(i: usize) -> MetadataEntry {
    match i {
        0 => MetadataEntry::BuildInfo,
        1 => MetadataEntry::BuildVersion,
        2 => MetadataEntry::Comment,
        3 => MetadataEntry::Contents,
        4 => MetadataEntry::DeInstall,
        5 => MetadataEntry::Desc,
        6 => MetadataEntry::Display,
        7 => MetadataEntry::Install,
        8 => MetadataEntry::InstalledInfo,
        9 => MetadataEntry::MtreeDirs,
        10 => MetadataEntry::Preserve,
        11 => MetadataEntry::RequiredBy,
        12 => MetadataEntry::SizeAll,
        13 => MetadataEntry::SizePkg,
        _ => panic!("harness: entry index"),
    }
}
fn idx(e: &MetadataEntry) -> usize {
    (0..14).find(|i| &entry(*i) == e).unwrap()
}
fn ov(o: &Option<Vec<String>>) -> String {
    match o {
        None => "N".into(),
        Some(v) => format!("L{}:{}", v.len(), v.iter().map(|s| show_text(s)).collect::<Vec<_>>().join(",")),
    }
}
fn os(o: &Option<String>) -> String {
    match o {
        None => "N".into(),
        Some(s) => format!("S{}", show_text(s)),
    }
}
fn oi(o: &Option<i64>) -> String {
    match o {
        None => "N".into(),
        Some(z) => format!("I{}", z),
    }
}
fn dump(m: &Metadata) -> String {
    [
        ov(m.build_info()), ov(m.build_version()), format!("S{}", show_text(m.comment())), format!("S{}", show_text(m.contents())),
        os(m.deinstall()), format!("S{}", show_text(m.desc())), os(m.display()), os(m.install()), ov(m.installed_info()),
        ov(m.mtree_dirs()), ov(m.preserve()), ov(m.required_by()), oi(m.size_all()), oi(m.size_pkg()),
    ]
    .join(";")
}

pub fn run(op: &str, args: &[&str]) -> Option<String> {
    Some(match (op, args) {
        ("md.table", [i]) => {
            let e = entry(i.parse().unwrap());
            let name = e.to_filename().to_string();
            format!("{}|{}", show_text(&name), match MetadataEntry::from_filename(&name) {
                Some(e2) => idx(&e2).to_string(),
                None => "N".into(),
            })
        }
        ("md.from", [s]) => match MetadataEntry::from_filename(&text(s)) {
            Some(e) => idx(&e).to_string(),
            None => "N".into(),
        },
        /* each argument: <entry index>:<text> */
        ("md.ops", _) => {
            let mut m = Metadata::new();
            let mut out = None;
            for (k, a) in args.iter().enumerate() {
                let (i, t) = a.split_once(':').unwrap();
                if m.read_metadata(entry(i.parse().unwrap()), &text(t)).is_err() {
                    out = Some(format!("E:{}", k));
                    break;
                }
            }
            match out {
                Some(e) => e,
                None => format!("OK|valid={}|{}", tf(m.is_valid().is_ok()), dump(&m)),
            }
        }
        /* each argument: d:<name bytes>:<file>,<file>..  or  f:<name bytes>; files are text names */
        ("db.iter", _) => {
            /* the database lives below a directory whose name is not UTF-8: where the tree is placed must not matter;
               kind "l" = a symbolic link to a directory kept outside the database */
            let top = std::env::temp_dir().join(format!("pkgsrc_harness_db_{}", std::process::id()));
            let _ = std::fs::remove_dir_all(&top);
            let dir = top.join(OsStr::from_bytes(b"caf\xe9 db"));
            let outside = top.join("outside");
            std::fs::create_dir_all(&dir).unwrap();
            std::fs::create_dir_all(&outside).unwrap();
            for a in args {
                let mut it = a.splitn(3, ':');
                let kind = it.next().unwrap();
                let name = bytes(it.next().unwrap());
                let mut p = dir.join(OsStr::from_bytes(&name));
                if kind == "f" {
                    std::fs::write(&p, b"stray").unwrap();
                } else {
                    if kind == "l" {
                        let target = outside.join(OsStr::from_bytes(&name));
                        std::os::unix::fs::symlink(&target, &p).unwrap();
                        p = target;
                    }
                    std::fs::create_dir_all(&p).unwrap();
                    let files = it.next().unwrap_or("");
                    if !files.is_empty() {
                        for f in files.split(',') {
                            /* "<name>=<bytes>" gives the file's content; a leading NUL marks a file that exists but is empty */
                            let (f, content) = match f.split_once('=') {
                                Some((n, c)) => (n, Some(bytes(c))),
                                None => (f, None),
                            };
                            let fname = text(f);
                            match (fname.strip_prefix('\0'), content) {
                                (Some(n), _) => std::fs::write(p.join(n), b"").unwrap(),
                                (None, Some(c)) => std::fs::write(p.join(&fname), c).unwrap(),
                                (None, None) => std::fs::write(p.join(&fname), format!(" content of {} \n", fname)).unwrap(),
                            }
                        }
                    }
                }
            }
            let r = (|| {
                let db = PkgDB::open(&dir).map_err(|_| "E:open".to_string())?;
                let mut v = vec![];
                for pkg in db {
                    match pkg {
                        Ok(p) => {
                            let rd = |e: MetadataEntry| match p.read_metadata(e) {
                                Ok(c) => show_bytes(c.as_bytes()),
                                Err(_) => "<unreadable>".to_string(),
                            };
                            v.push(format!("{}|{}|{}|{}|{}|{}", show_bytes(p.pkgname().as_bytes()), show_bytes(p.pkgbase().as_bytes()), show_bytes(p.pkgversion().as_bytes()),
                                           rd(MetadataEntry::Comment), rd(MetadataEntry::Contents), rd(MetadataEntry::Desc)));
                        }
                        Err(_) => v.push("ERR".to_string()),
                    }
                }
                v.sort();
                Ok::<String, String>(format!("OK:{}", v.join("#")))
            })();
            let _ = std::fs::remove_dir_all(&top);
            match r {
                Ok(s) => s,
                Err(s) => s,
            }
        }
        /* PkgDB::open on something that is not a directory: "file" | "missing" */
        ("db.other", [k]) => {
            let p = std::env::temp_dir().join(format!("pkgsrc_harness_dbfile_{}", std::process::id()));
            let _ = std::fs::remove_file(&p);
            if *k == "file" {
                std::fs::write(&p, b"not a directory").unwrap();
            }
            let r = match PkgDB::open(&p) {
                Ok(db) => format!("OK:{}", db.map(|_| "ITEM").collect::<Vec<_>>().join("#")),
                Err(_) => "E:open".to_string(),
            };
            let _ = std::fs::remove_file(&p);
            r
        }
        _ => return None,
    })
}
